#!/bin/sh
# usage: try_seed.sh <Cxx> <suffix>   confirm the demo of /tmp/agent_<id><sfx> in /tmp/wt_<id><sfx>, then run ./check <Cxx>
# on /repo with the patch applied (and undo it). Prints a summary; leaves storing to the caller.
id=$1; sfx=$2; a=/tmp/agent_$id$sfx; w=/tmp/wt_$id$sfx
export GOFLAGS=-mod=mod GOPROXY=off
demo=$(cd $w && git status --short | grep -i 'seeded\|zz_' | awk '{print $2}' | head -1)
pkg=$(dirname "$demo" | sed 's#^utils/##')
echo "demo=$demo pkg=$pkg"
(cd $w/utils && go test -count=1 -vet=off -run Seeded ./$pkg/ 2>&1 | tail -3 | cut -c1-300) ; echo "--- with change (expect FAIL)"
(cd $w && git apply -R $a/patch.diff && cd utils && go test -count=1 -vet=off -run Seeded ./$pkg/ 2>&1 | tail -2 | cut -c1-300; cd $w && git apply $a/patch.diff); echo "--- without change (expect ok)"
git -C /repo apply $a/patch.diff || { echo "PATCH DOES NOT APPLY"; exit 2; }
cd /verif && ./check $id 2>&1 | grep -v conda | tail -3
git -C /repo checkout -- .
git -C /repo status --short
