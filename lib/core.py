"""Shared orchestration for /verif/check (python3 stdlib only).

Pipeline of one check (DESIGN §2.2):
  1. gofacts      -> lean/GoUtils/Generated/*.lean   (tie M1, regenerated from /repo every run)
  2. lake build   -> Props.<id> (+ its proofs)        (obligations)
  3. audit        -> #print axioms for every theorem of Props/<id>.lean, verdict tags
  4. harness      -> real code vs Lean driver on the same inputs (tie M2) + property monitors
  5. classify     -> known_findings.jsonl, evidence, exit code
"""
import fcntl
import hashlib
import json
import os
import re
import subprocess
import sys
import time

VERIF = os.path.dirname(os.path.dirname(os.path.abspath(__file__)))
REPO = os.environ.get("VERIF_REPO", "/repo")
UTILS = os.path.join(REPO, "utils")
LEAN = os.path.join(VERIF, "lean")
BIN = os.path.join(VERIF, "bin")
GEN = os.path.join(LEAN, "GoUtils", "Generated")
ALLOWED_AXIOMS = {"propext", "Classical.choice", "Quot.sound"}
FORBIDDEN = re.compile(r"\bsorry\b|\badmit\b|^axiom |native_decide|bv_decide|implemented_by|\bunsafe |maxHeartbeats 0\b")

GOENV = dict(os.environ)
GOENV.update({"GOFLAGS": "-mod=mod", "GOPROXY": "off", "GOSUMDB": "off", "GOTOOLCHAIN": "local",
              "CGO_ENABLED": os.environ.get("CGO_ENABLED", "1")})


def log(*a):
    print(*a, file=sys.stderr, flush=True)


def run(cmd, cwd=None, env=None, timeout=None, input=None):
    t0 = time.time()
    p = subprocess.run(cmd, cwd=cwd, env=env, timeout=timeout, input=input,
                       stdout=subprocess.PIPE, stderr=subprocess.STDOUT, text=True)
    return p.returncode, p.stdout, time.time() - t0


class Lock:
    def __init__(self, name):
        os.makedirs(os.path.join(VERIF, ".locks"), exist_ok=True)
        self.path = os.path.join(VERIF, ".locks", name)

    def __enter__(self):
        self.f = open(self.path, "w")
        fcntl.flock(self.f, fcntl.LOCK_EX)
        return self

    def __exit__(self, *a):
        fcntl.flock(self.f, fcntl.LOCK_UN)
        self.f.close()


# ---------------------------------------------------------------- step 1: facts
def build_gofacts():
    with Lock("gobuild"):
        os.makedirs(BIN, exist_ok=True)
        rc, out, _ = run(["go", "build", "-o", os.path.join(BIN, "gofacts"), "."],
                         cwd=os.path.join(VERIF, "gofacts"), env=GOENV)
        if rc != 0:
            raise RuntimeError("gofacts build failed:\n" + out)


def gofacts(areas):
    """Regenerate Generated/<area>.lean for the given areas; returns {area: status}."""
    gb = os.path.join(BIN, "gofacts")
    srcs = [os.path.join(VERIF, "gofacts", f) for f in os.listdir(os.path.join(VERIF, "gofacts"))]
    if not os.path.exists(gb) or any(os.path.getmtime(f) > os.path.getmtime(gb) for f in srcs):
        build_gofacts()
    os.makedirs(GEN, exist_ok=True)
    with Lock("lean"):
        rc, out, _ = run([os.path.join(BIN, "gofacts"), "-repo", UTILS, "-out", GEN,
                          "-only", ",".join(areas)])
    if rc != 0:
        raise RuntimeError("gofacts failed:\n" + out)
    return json.loads(out)


# ---------------------------------------------------------------- step 2/3: obligations
def lake_build(targets, timeout=3000):
    with Lock("lean"):
        rc, out, dt = run(["lake", "build"] + targets, cwd=LEAN, timeout=timeout)
    return rc == 0, out, dt


def props_decls(pid):
    """Names of theorems and verdict defs declared in Props/<id>.lean (namespace-qualified)."""
    path = os.path.join(LEAN, "GoUtils", "Props", pid + ".lean")
    src = strip_comments(open(path).read())
    ns = re.search(r"^namespace\s+(\S+)", src, re.M).group(1)
    thms = [ns + "." + m for m in re.findall(r"^theorem\s+(\S+)", src, re.M)]
    verdicts = [ns + "." + m for m in re.findall(r"^def\s+(\S*verdict\S*)", src, re.M)]
    return thms, verdicts


def strip_comments(s):
    # remove nested block comments and line comments (good enough for our own sources)
    out, depth, i = [], 0, 0
    while i < len(s):
        if s.startswith("/-", i):
            depth += 1
            i += 2
        elif s.startswith("-/", i) and depth > 0:
            depth -= 1
            i += 2
        elif depth > 0:
            i += 1
        elif s.startswith("--", i):
            j = s.find("\n", i)
            i = len(s) if j < 0 else j
        else:
            out.append(s[i])
            i += 1
    return "".join(out)


def forbidden_hits():
    hits = []
    for root, _, files in os.walk(LEAN):
        if ".lake" in root:
            continue
        for f in files:
            if f.endswith(".lean"):
                p = os.path.join(root, f)
                for n, line in enumerate(strip_comments(open(p).read()).split("\n"), 1):
                    if FORBIDDEN.search(line):
                        hits.append("%s: %s" % (os.path.relpath(p, VERIF), line.strip()[:80]))
    return hits


def audit(pid):
    """Run `#print axioms` on every theorem/verdict of Props/<id>.lean and evaluate verdict tags.
    Returns (axioms: {name: [axioms]}, verdicts: {name: tag}, raw)."""
    thms, verdicts = props_decls(pid)
    os.makedirs(os.path.join(LEAN, ".audit"), exist_ok=True)
    path = os.path.join(LEAN, ".audit", pid + ".lean")
    lines = ["import GoUtils.Props." + pid, "open GoUtils"]
    for t in thms + verdicts:
        lines.append("#print axioms " + t)
    for v in verdicts:
        lines.append('#eval IO.println ("VERDICT %s " ++ (%s).tag)' % (v, v))
    open(path, "w").write("\n".join(lines) + "\n")
    with Lock("lean"):
        rc, out, _ = run(["lake", "env", "lean", path], cwd=LEAN, timeout=1200)
    axioms, tags = {}, {}
    for m in re.finditer(r"'([^']+)' depends on axioms: \[([^\]]*)\]", out):
        axioms[m.group(1)] = [a.strip() for a in m.group(2).replace("\n", " ").split(",") if a.strip()]
    for m in re.finditer(r"'([^']+)' does not depend on any axioms", out):
        axioms[m.group(1)] = []
    for m in re.finditer(r"^VERDICT (\S+) (\w+)", out, re.M):
        tags[m.group(1)] = m.group(2)
    return thms, verdicts, axioms, tags, out, rc


def build_driver():
    ok, out, dt = lake_build(["driver"])
    if not ok:
        raise RuntimeError("driver build failed:\n" + out[-4000:])
    return os.path.join(LEAN, ".lake", "build", "bin", "driver")


# ---------------------------------------------------------------- step 4: harness
def build_harness(race=False):
    hdir = os.path.join(VERIF, "harness")
    with Lock("gobuild"):
        # go.sum of the harness = go.sum of the repo (same dependency set, offline)
        src = os.path.join(UTILS, "go.sum")
        dst = os.path.join(hdir, "go.sum")
        if not os.path.exists(dst) or open(src).read() != open(dst).read():
            open(dst, "w").write(open(src).read())
        out_bin = os.path.join(BIN, "h_race" if race else "h")
        cmd = ["go", "build", "-tags", "verif", "-o", out_bin]
        if race:
            cmd.append("-race")
        cmd.append("./cmd/h")
        rc, out, dt = run(cmd, cwd=hdir, env=GOENV, timeout=1800)
    if rc != 0:
        return None, out
    return out_bin, out


def run_harness(binary, sub, args, timeout):
    os.makedirs(os.path.join(VERIF, ".work"), exist_ok=True)
    rep = os.path.join(VERIF, ".work", "report_%s_%d.json" % (sub, os.getpid()))
    if os.path.exists(rep):
        os.remove(rep)
    env = dict(GOENV)
    env["GOMEMLIMIT"] = env.get("GOMEMLIMIT", "8GiB")
    try:
        rc, out, dt = run([binary, sub, "-report", rep] + args, cwd=VERIF, env=env, timeout=timeout)
    except subprocess.TimeoutExpired as e:
        return None, "harness timeout after %ss\n%s" % (timeout, (e.stdout or "")[-2000:] if isinstance(e.stdout, str) else "")
    if not os.path.exists(rep):
        return None, "harness wrote no report (rc=%d)\n%s" % (rc, out[-4000:])
    r = json.load(open(rep))
    os.remove(rep)
    r["_stdout"] = out[-2000:]
    r["_rc"] = rc
    return r, out


# ---------------------------------------------------------------- step 5: findings / evidence
def known_findings():
    path = os.path.join(VERIF, "known_findings.jsonl")
    out = []
    if os.path.exists(path):
        for line in open(path):
            line = line.strip()
            if line and not line.startswith("#"):
                out.append(json.loads(line))
    return out


def write_replay(pid, obj):
    d = os.path.join(VERIF, "replays", pid)
    os.makedirs(d, exist_ok=True)
    blob = json.dumps(obj, indent=1, sort_keys=True, default=str)
    h = hashlib.sha1(blob.encode()).hexdigest()[:12]
    p = os.path.join(d, h + ".json")
    open(p, "w").write(blob + "\n")
    return p


def write_evidence(pid, ev):
    d = os.path.join(VERIF, "evidence")
    os.makedirs(d, exist_ok=True)
    p = os.path.join(d, pid + ".json")
    tmp = p + ".tmp%d" % os.getpid()
    open(tmp, "w").write(json.dumps(ev, indent=1, default=str) + "\n")
    os.replace(tmp, p)
