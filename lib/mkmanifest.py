#!/usr/bin/env python3
"""Regenerates /verif/MANIFEST.json from lib/props.py + lib/manifest_text.py (kept valid at all times)."""
import json
import os
import sys

sys.path.insert(0, os.path.dirname(os.path.abspath(__file__)))
from props import PROPS  # noqa: E402
from manifest_text import TEXT, NOT_APPLICABLE  # noqa: E402

VERIF = os.path.dirname(os.path.dirname(os.path.abspath(__file__)))
all_ids = [json.loads(l)["id"] for l in open(os.path.join(VERIF, "properties.jsonl"))]

checks = []
for pid in all_ids:
    if pid not in PROPS:
        continue
    t = TEXT[pid]
    checks.append({
        "property_id": pid,
        "quick_cmd": "./check %s --tier quick" % pid,
        "thorough_cmd": "./check %s --tier thorough" % pid,
        "evidence_file": "/verif/evidence/%s.json" % pid,
        "replay_cmd_template": "./check %s --replay {path}" % pid,
        "engine": "lean4-proof+correspondence",
        "level_claimed": {"category": "proof", "text": t["level"], "design_ref": t.get("design_ref", "DESIGN.md §7 " + pid)},
        "level_note": t["note"],
        "technique": t["technique"],
    })
na = [{"property_id": pid, "reason": NOT_APPLICABLE.get(pid, "not yet covered by a check in this revision; see DESIGN.md §8")}
      for pid in all_ids if pid not in PROPS]
m = {
    "version": 1,
    "setup_cmd": "./setup.sh",
    "hooks": {
        "guard": "verif",
        "enable": "go build -tags verif (the harness module /verif/harness replaces the utils module by /repo/utils)",
        "baseline_off_cmd": "cd /repo/utils && go test -mod=mod -json -vet=off -count=1 -timeout 25m ./...",
        "source_commits": [l.strip() for l in open(os.path.join(VERIF, "hooks_commits.txt")) if l.strip()] if os.path.exists(os.path.join(VERIF, "hooks_commits.txt")) else [],
        "add_only": True,
    },
    "engines": [
        {"name": "lean4-proof+correspondence", "path": "/verif/lean", "serves_properties": [c["property_id"] for c in checks],
         "kind_free_text": "Lean 4 theorems over models whose code-shaped facts are regenerated from /repo by /verif/gofacts on every run; "
                           "hand-written executable models are tied to the code by a differential harness (/verif/harness, Go, in-process, -tags verif) "
                           "against the compiled core-only Lean driver (/verif/lean/Driver)"}],
    "checks": checks,
    "not_applicable": na,
    "notes": "Single entry point ./check <id>. KNOWN-FINDING lines are genuine defects listed in known_findings.jsonl (see DESIGN.md §9).",
}
open(os.path.join(VERIF, "MANIFEST.json"), "w").write(json.dumps(m, indent=1) + "\n")
print("MANIFEST.json: %d checks, %d not_applicable" % (len(checks), len(na)))
