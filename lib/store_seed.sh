#!/bin/sh
# usage: store_seed.sh <Cxx> <suffix> <round> "<detected_by text>"   -> /verif/seeded/<id><sfx>/, removes the worktree
id=$1; sfx=$2; round=$3; det=$4; a=/tmp/agent_$id$sfx; d=/verif/seeded/$id$sfx
mkdir -p $d && cp $a/patch.diff $d/ && cp $a/*_test.go $d/ 2>/dev/null
python3 - "$a/meta.json" "$d/meta.json" "$round" "$det" "$id" <<'PY'
import json,sys
m=json.load(open(sys.argv[1])); m['round']=int(sys.argv[3]); m['detected_by']=sys.argv[4]; m.setdefault('property',sys.argv[5])
json.dump(m,open(sys.argv[2],'w'),indent=1)
PY
git -C /repo worktree remove --force /tmp/wt_$id$sfx && rm -rf $a && echo stored $d
