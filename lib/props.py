"""Per-property configuration of ./check (which facts, which Lean module, which harness)."""

PROPS = {
    "C10": {
        "areas": ["Cast"],
        "harness": "cast",
        "verdict_findings": {"C10_verdict_full": "named-float-source:outside-64bit-conversion-range"},
        "trusted_base": [
            "Model.Cast semantics of Go conversions (int wrap, float->int truncation, out-of-range = implementation-defined, float64(const) rounding)",
            "64-bit platform (int/uint are 64 bits)"],
        "assumptions": ["NaN sources are outside the property (no value to saturate to)",
                        "float sources are modelled as arbitrary rationals/±Inf, a superset of float32/float64"],
    },
    "C19": {
        "areas": ["Page"],
        "harness": "page",
        "verdict_findings": {"C19_verdict_ctor": "ctor-error-swallowed"},
        "trusted_base": ["Model.Page (hand-written model of AbstractPaginator.HasNext/GetNext/Stop), validated differentially on every run",
                         "mock pages/iterators of the harness behave as honest IStaticPage/IPage/IIterator implementations"],
        "assumptions": ["stream paginators are exercised only over streams without future pages (their extra wait loop is timing-dependent, see DESIGN §7 C19)"],
    },
    "C20": {
        "areas": ["Hash"],
        "harness": "hash",
        "verdict_findings": {"C20_verdict_history": "stale-bytes-after-failed-calculation"},
        "trusted_base": ["hash.Hash contract (Write accumulates, Reset clears, Sum = H(absorbed)) — exercised on the six real algorithms every run",
                         "gofacts' recognition of the CalculateWithContext skeleton (fails closed)"],
        "assumptions": ["the hash functions themselves are not modelled: theorems hold for every H"],
    },
    "C18": {
        "areas": ["Streamer"],
        "harness": "stream",
        "verdict_findings": {"C18_verdict_lines": "line-split-across-chunks"},
        "trusted_base": ["Model.Streamer (strings.Split on one byte, per-chunk splitting) validated against the real logStreamer through the verif hook",
                         "gofacts' recognition of Write / Execute / LogStart / LogEnd shapes (fails closed)"],
        "assumptions": ["kernel pipe buffering only chooses the chunking, over which the theorem quantifies",
                        "exit status / ordering / Output() / cancellation kind are observed on real child processes (monitors), the Lean part covers the order skeleton"],
    },
    "C11": {
        "areas": ["Errors"],
        "harness": "err",
        "verdict_findings": {"C11_verdict_reason": "reason-duplicated-when-wrapping-a-wrapped-error"},
        "trusted_base": ["Model.Err (constructors, Any/errors.Is on %w chains, single-error (de)serialisation) validated differentially on every run",
                         "gofacts' extraction of the sentinel table, the deserialiseCommonError case list, CorrespondTo and IsCommonError (fails closed)",
                         "ASCII model of strings.ToLower/TrimSpace (harness keeps non-ASCII runes caseless and non-blank)"],
        "assumptions": ["joined errors and multi-line messages are covered by monitors on the real code only (not in the Lean model)"],
    },
    "C14": {
        "areas": ["Retry"],
        "harness": "retry",
        "verdict_findings": {"C14_verdict_retry_after": "retry-after-seconds-overflow"},
        "trusted_base": ["Model.Retry: retry-go v4.6.1 Do (attempts>=1 branch), retryablehttp LinearJitterBackoff/DefaultBackoff, float64 scaling by powers of two — hand-modelled third-party code, validated differentially",
                         "gofacts' recognition of RetryIf's option list, the three Apply bodies, BackOffPolicyFactory and findRetryAfter (normalised-source match, fails closed)",
                         "out-of-range float->int64 conversion = arbitrary value x (theorems quantify over x; harness observes amd64's MinInt64)"],
        "assumptions": ["attempts >= 1 (RetryMax = 0 means 'retry for ever' in retry-go and is outside the property's quantifier)",
                        "linear policy: jitter is an unknown j in [0, max-min]; only bounds are compared"],
    },
}
