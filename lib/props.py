"""Per-property configuration of ./check (which facts, which Lean module, which harness)."""

PROPS = {
    "C10": {
        "areas": ["Cast"],
        "harness": "cast",
        "verdict_findings": {"C10_verdict_full": "named-float-source:outside-64bit-conversion-range"},
        "trusted_base": [
            "Model.Cast semantics of Go conversions (int wrap, float->int truncation, out-of-range = implementation-defined, float64(const) rounding)",
            "64-bit platform (int/uint are 64 bits)"],
        "assumptions": ["NaN sources are outside the property (no value to saturate to)",
                        "float sources are modelled as arbitrary rationals/±Inf, a superset of float32/float64"],
    },
}
