#!/bin/sh
# Applies every seeded change of /verif/seeded to /repo in turn, runs the quick check of its property and records the
# verdict; /repo is restored after each one. Usage: sh lib/seeded_regression.sh [ids...] > seeded/RESULTS.tsv
cd /verif
ids="$@"
[ -z "$ids" ] && ids=$(ls seeded | grep -v RESULTS)
printf "id\tproperty\trc\tkind\tverdict\tseconds\n"
for d in $ids; do
  [ -f seeded/$d/patch.diff ] || continue
  prop=$(echo $d | cut -c1-3)
  git -C /repo checkout -q -- . 
  if ! git -C /repo apply /verif/seeded/$d/patch.diff 2>/dev/null; then printf "%s\t%s\t-\t-\tpatch-does-not-apply\t0\n" $d $prop; continue; fi
  t0=$(date +%s)
  out=$(./check $prop 2>&1 | grep -v '^KNOWN-FINDING')
  rc=$(echo "$out" | tail -1 | sed 's/.*rc=//')
  t1=$(date +%s)
  verdict=missed
  echo "$out" | grep -q '^VIOLATION' && verdict=detected-with-failing-input
  echo "$out" | grep -q 'no-failing-input-found' && verdict=detected-no-failing-input
  esc=quick
  echo "$out" | grep -q 'searching with the thorough tier' && esc=escalated
  printf "%s\t%s\t%s\t%s\t%s\t%s\n" $d $prop "$rc" $esc $verdict $((t1-t0))
  git -C /repo checkout -q -- .
done
