#!/bin/sh
# usage: mkagent.sh <id> [suffix]  -> creates /tmp/wt_<id><suffix>, /tmp/agent_<id><suffix>/prompt.txt
id=$1; sfx=$2
git -C /repo worktree add -q --detach /tmp/wt_$id$sfx HEAD || exit 1
mkdir -p /tmp/agent_$id$sfx
python3 - "$id" "$sfx" <<'PY'
import sys,json
id,sfx=sys.argv[1],sys.argv[2]
for l in open('/verif/properties.jsonl'):
    p=json.loads(l)
    if p['id']==id:
        prop="%s — %s\n\n%s\n\nQuantifier: %s\n\nAnchored in files: %s\n"%(p['id'],p['title'],p['statement'],p['quantifier']['text'],', '.join(p['anchors']['files']))
t=open('/verif/lib/agent_prompt.txt').read().replace('@ID@',id+sfx).replace('@PROP@',prop)
t=t.replace('GOTOOLCHAIN=local`','GOTOOLCHAIN=auto` (do NOT set GOSUMDB=off together with it; simply `export GOFLAGS=-mod=mod GOPROXY=off`)')
open('/tmp/agent_%s%s/prompt.txt'%(id,sfx),'w').write(t)
PY
echo /tmp/agent_$id$sfx/prompt.txt
