"""Human-written level / trusted-base text per claimed property (MANIFEST.json is generated from it)."""

TEXT = {
    "C10": {
        "technique": "Lean 4 theorems over go/ast-regenerated facts (all integers, all rationals, ±Inf) + differential correspondence + math/big oracle",
        "level": "Proof: for the facts regenerated from cast.go/boundary.go on this run (operators, guards, conversion types, typed boundary constants), "
                 "Lean proves for all 10 targets x 12 built-in source kinds x EVERY value (every integer of the source type, every rational as float value, ±Inf) "
                 "that the result is clamp(trunc v) and that no implementation-defined conversion is relied on; the full statement incl. named float types is "
                 "refuted in Lean with a witness that is replayed on the real code (known finding). The model's semantics of Go conversions is validated on "
                 "~1.5e5 (quick) / 3e6 (thorough) inputs per run against the real code; an independent math/big oracle and a monotonicity monitor run on ~1e7 "
                 "evaluations (thorough: every int32/uint32/float32 value).",
        "note": "Trusted: Lean kernel (axioms propext/Classical.choice/Quot.sound only), gofacts' recognition of the two helper shapes and the ToX shape (fails closed), "
                "Model.Cast's semantics of Go integer/float conversions (validated differentially), 64-bit int/uint. NaN is outside the statement.",
    },
}

NOT_APPLICABLE = {}
