package main

import (
	"fmt"
	"go/ast"
	"path/filepath"
	"regexp"
	"strings"
)

// Area Fs (C06): the guards of Copy / Move that the reference model's refusal branches stand for.
// Each fact is "the guard statement has the recognised shape AND sits before the first statement
// that touches the destination".

func init() {
	register(area{name: "Fs", run: extractFs, placeholder: fsPlaceholder})
}

const fsPlaceholder = `namespace GoUtils.Generated.Fs
def ok : Bool := false
def copySelfNoop : Bool := false
def copyIntoItselfRefused : Bool := false
def copyFileOntoItselfNoop : Bool := false
def copyDstRule : Bool := false
def moveSelfNoop : Bool := false
def moveBelowItselfRefused : Bool := false
def isSubPathLexical : Bool := false
end GoUtils.Generated.Fs
`

// index of the first top-level statement of body whose normalised source matches re; -1 if none
func stmtIndex(p *pkg, body *ast.BlockStmt, re *regexp.Regexp) int {
	for i, s := range body.List {
		if re.MatchString(norm(p.src(s))) {
			return i
		}
	}
	return -1
}

func extractFs(root string) (string, map[string]any, error) {
	p, err := parseDir(filepath.Join(root, "filesystem"))
	if err != nil {
		return "", nil, err
	}
	cp := p.funcDecl("CopyBetweenFSWithExclusionRegexes")
	cf := p.funcDecl("copyFileBetweenFSWithExclusionPatternsWithExclusionRegexes")
	mv := p.method("VFS", "MoveWithContext")
	sub := p.funcDecl("isSubPath")
	if cp == nil || cf == nil || mv == nil {
		return "", nil, fmt.Errorf("Copy/Move functions not found")
	}
	before := func(a, b int) bool { return a >= 0 && b >= 0 && a < b }
	facts := map[string]any{}
	// Copy
	iSelf := stmtIndex(p, cp.Body, regexp.MustCompile(`^if srcFs == destFs && src == dest \{ return \}$`))
	iGuard := stmtIndex(p, cp.Body, regexp.MustCompile(`^if isSrcDir && srcFs == destFs && isSubPath\(src, dest\) \{ err = commonerrors\.Newf\(commonerrors\.ErrInvalid, [^{}]*\) return \}$`))
	iTouch := stmtIndex(p, cp.Body, regexp.MustCompile(`MkDir\(|copyFolderBetweenFS|copyFileBetweenFS|CreateFile|WriteFile`))
	iExists := stmtIndex(p, cp.Body, regexp.MustCompile(`^if !srcFs\.Exists\(src\)`))
	iDst := stmtIndex(p, cp.Body, regexp.MustCompile(`^if !\(isSrcDir && !destExists\) && isDestDir \{ dst = filepath\.Join\(dest, filepath\.Base\(src\)\) \} else \{ dst = dest \}$`))
	copySelf := before(iSelf, iExists) && before(iSelf, iTouch)
	copyGuard := before(iGuard, iTouch)
	// copy of one file onto itself
	jSelf := stmtIndex(p, cf.Body, regexp.MustCompile(`^if srcFs == destFs && filepath\.Clean\(src\) == filepath\.Clean\(dest\) \{ return \}$`))
	jOpen := stmtIndex(p, cf.Body, regexp.MustCompile(`GenericOpen|CreateFile`))
	fileSelf := before(jSelf, jOpen)
	// Move
	kSelf := stmtIndex(p, mv.Body, regexp.MustCompile(`^if src == dest \{ return \}$`))
	kGuard := stmtIndex(p, mv.Body, regexp.MustCompile(`^if isSubPath\(src, dest\) \{ err = commonerrors\.Newf\(commonerrors\.ErrInvalid, [^{}]*\) return \}$`))
	kTouch := stmtIndex(p, mv.Body, regexp.MustCompile(`MkDir\(|Rename\(|moveFolder|moveFile`))
	moveSelf := before(kSelf, kTouch)
	moveGuard := before(kGuard, kTouch)
	// isSubPath: lexical, strict
	subOK := false
	if sub != nil {
		s := norm(p.src(sub.Body))
		subOK = s == `{ rel, err := filepath.Rel(filepath.Clean(parent), filepath.Clean(path)) if err != nil { return false } return rel != "." && rel != ".." && !strings.HasPrefix(rel, ".."+string(filepath.Separator)) }`
		facts["isSubPath"] = s
	}
	facts["copy"] = map[string]int{"self": iSelf, "exists": iExists, "guard": iGuard, "firstTouch": iTouch, "dst": iDst}
	facts["copyFile"] = map[string]int{"self": jSelf, "open": jOpen}
	facts["move"] = map[string]int{"self": kSelf, "guard": kGuard, "firstTouch": kTouch}
	var b strings.Builder
	b.WriteString("namespace GoUtils.Generated.Fs\n")
	b.WriteString("def ok : Bool := true\n")
	fmt.Fprintf(&b, "/-- `if srcFs == destFs && src == dest { return }` before anything else in Copy (%s) -/\n", p.pos(cp))
	fmt.Fprintf(&b, "def copySelfNoop : Bool := %s\n", leanBool(copySelf))
	fmt.Fprintf(&b, "/-- `if isSrcDir && srcFs == destFs && isSubPath(src, dest) { err = ErrInvalid; return }` before the destination is touched -/\n")
	fmt.Fprintf(&b, "def copyIntoItselfRefused : Bool := %s\n", leanBool(copyGuard))
	fmt.Fprintf(&b, "/-- copy of one file: `Clean(src) == Clean(dest)` returns before the destination is created (%s) -/\n", p.pos(cf))
	fmt.Fprintf(&b, "def copyFileOntoItselfNoop : Bool := %s\n", leanBool(fileSelf))
	fmt.Fprintf(&b, "/-- `dst = dest/base(src)` iff `!(isSrcDir && !destExists) && isDestDir`, else `dst = dest` -/\n")
	fmt.Fprintf(&b, "def copyDstRule : Bool := %s\n", leanBool(iDst >= 0))
	fmt.Fprintf(&b, "/-- `if src == dest { return }` before the destination is touched in Move (%s) -/\n", p.pos(mv))
	fmt.Fprintf(&b, "def moveSelfNoop : Bool := %s\n", leanBool(moveSelf))
	fmt.Fprintf(&b, "/-- `if isSubPath(src, dest) { err = ErrInvalid; return }` before MkDir / Rename -/\n")
	fmt.Fprintf(&b, "def moveBelowItselfRefused : Bool := %s\n", leanBool(moveGuard))
	fmt.Fprintf(&b, "/-- isSubPath is the lexical 'strictly below' test on cleaned paths -/\n")
	fmt.Fprintf(&b, "def isSubPathLexical : Bool := %s\n", leanBool(subOK))
	b.WriteString("end GoUtils.Generated.Fs\n")
	return b.String(), facts, nil
}
