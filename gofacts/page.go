package main

import (
	"fmt"
	"go/ast"
	"go/token"
	"path/filepath"
	"strings"
)

func init() {
	register(area{name: "Page", run: extractPage, placeholder: pagePlaceholder})
}

const pagePlaceholder = `import GoUtils.Model.Page
import GoUtils.Model.PageStream
namespace GoUtils.Generated.Page
open GoUtils.Page
def ok : Bool := false
def ctors : List CtorFacts := []
def stream : GoUtils.PageStream.SFacts := default
end GoUtils.Generated.Page
`

// For every paginator constructor: is the error produced by an inner constructor call handed to the
// caller?  Recognised shape: the function has a named error result R (its last result); every
// top-level statement `…, E := call(…)` / `…, E = call(…)` whose last LHS identifier E is an error
// variable must either use E == R (so that the bare `return` that follows returns it) or be
// followed by `if E != nil { return …, E }` with an explicit result list ending in E.
func extractPage(root string) (string, map[string]any, error) {
	p, err := parseDir(filepath.Join(root, "collection", "pagination"))
	if err != nil {
		return "", nil, err
	}
	names := []string{"newStaticPagePaginator", "newDynamicPagePaginator", "NewCollectionPaginator", "NewStaticPagePaginator",
		"newAbstractStreamPaginator", "NewStreamPaginator", "NewStaticPageStreamPaginator", "NewAbstractPaginator"}
	facts := map[string]any{}
	var items []string
	for _, n := range names {
		fd := p.funcDecl(n)
		if fd == nil {
			return "", nil, fmt.Errorf("constructor %s not found", n)
		}
		ok, why, err := ctorPropagates(p, fd)
		if err != nil {
			return "", nil, fmt.Errorf("%s: %w", n, err)
		}
		facts[n] = map[string]any{"propagatesInitError": ok, "why": why}
		items = append(items, fmt.Sprintf("{ name := %s, propagatesInitError := %s }", leanStr(n), leanBool(ok)))
	}
	sf, err := streamLoopFacts(p)
	if err != nil {
		return "", nil, err
	}
	facts["streamHasNextLoop"] = sf
	var b strings.Builder
	b.WriteString("import GoUtils.Model.Page\nimport GoUtils.Model.PageStream\nnamespace GoUtils.Generated.Page\nopen GoUtils.Page\ndef ok : Bool := true\n")
	b.WriteString("def ctors : List CtorFacts := [\n  " + strings.Join(items, ",\n  ") + "]\n")
	b.WriteString(fmt.Sprintf("def stream : GoUtils.PageStream.SFacts := { refreshOnItem := %s, refreshWhileNotDry := %s, contextTested := %s }\n",
		leanBool(sf["refreshOnItem"]), leanBool(sf["refreshWhileNotDry"]), leanBool(sf["contextTested"])))
	b.WriteString("end GoUtils.Generated.Page\n")
	return b.String(), facts, nil
}

func ctorPropagates(p *pkg, fd *ast.FuncDecl) (bool, string, error) {
	res := fd.Type.Results
	if res == nil || len(res.List) == 0 {
		return false, "", fmt.Errorf("no results")
	}
	last := res.List[len(res.List)-1]
	if id, ok := last.Type.(*ast.Ident); !ok || id.Name != "error" {
		return false, "", fmt.Errorf("last result is not an error")
	}
	if len(last.Names) != 1 {
		return false, "", fmt.Errorf("error result is not named")
	}
	R := last.Names[0].Name
	st := fd.Body.List
	for i, s := range st {
		as, ok := s.(*ast.AssignStmt)
		if !ok || len(as.Rhs) != 1 {
			continue
		}
		if _, isCall := as.Rhs[0].(*ast.CallExpr); !isCall {
			continue
		}
		lastL, ok := as.Lhs[len(as.Lhs)-1].(*ast.Ident)
		if !ok {
			continue
		}
		// is it an error variable? heuristic fixed by the code base: error variables are named err/er/e… and
		// are tested against nil right after. We look at the following `if X != nil`.
		E := lastL.Name
		if E == R {
			continue // assigned to the named result: a bare return hands it over
		}
		if len(as.Lhs) < 2 && as.Tok == token.DEFINE {
			// single-valued call defining a fresh variable: not an error unless tested below
		}
		// find the guard that follows
		if i+1 < len(st) {
			if ifs, ok := st[i+1].(*ast.IfStmt); ok {
				if be, ok := ifs.Cond.(*ast.BinaryExpr); ok && be.Op == token.NEQ && isIdent(be.X, E) && isIdent(be.Y, "nil") {
					// E is an error variable different from the named result
					if len(ifs.Body.List) == 1 {
						if r, ok := ifs.Body.List[0].(*ast.ReturnStmt); ok {
							if len(r.Results) == 0 {
								return false, fmt.Sprintf("%s: `%s` is tested but the bare return hands back `%s`", p.pos(as), E, R), nil
							}
							if isIdent(r.Results[len(r.Results)-1], E) {
								continue
							}
							return false, fmt.Sprintf("%s: return does not end with %s", p.pos(r), E), nil
						}
					}
					return false, "", fmt.Errorf("unrecognised guard at %s", p.pos(ifs))
				}
			}
		}
	}
	return true, "every inner error reaches the named result " + R, nil
}


// streamLoopFacts recognises the loop of (*AbstractStreamPaginator).HasNext statement by statement; any
// statement outside the known variants is an error (the area then falls back to its placeholder).
func streamLoopFacts(p *pkg) (map[string]bool, error) {
	fd := p.method("AbstractStreamPaginator", "HasNext")
	if fd == nil {
		return nil, fmt.Errorf("(*AbstractStreamPaginator).HasNext not found")
	}
	if len(fd.Body.List) != 1 {
		return nil, fmt.Errorf("stream HasNext: %d top-level statements, want one loop", len(fd.Body.List))
	}
	loop, ok := fd.Body.List[0].(*ast.ForStmt)
	if !ok || loop.Init != nil || loop.Cond != nil || loop.Post != nil {
		return nil, fmt.Errorf("stream HasNext: not a bare `for { … }` loop")
	}
	norm := func(n ast.Node) string { return strings.Join(strings.Fields(p.src(n)), " ") }
	res := map[string]bool{"refreshOnItem": false, "refreshWhileNotDry": false, "contextTested": false}
	seenItem, seenDry, seenFuture := false, false, false
	plain := map[string]bool{
		"page, err := s.AbstractPaginator.FetchCurrentPage()": true,
		"if err != nil { return false }":                      true,
		"stream, ok := page.(IStaticPageStream)":              true,
		"if !ok { return false }":                             true,
		"if !stream.HasFuture() { return false }":             true,
		"err = s.AbstractPaginator.SetCurrentPage(future)":    true,
		"parallelisation.SleepWithContext(s.GetContext(), s.backoff)": true,
	}
	// the order of the statements matters (the item test may move the paginator to another page before the current
	// page is looked at): the loop must be exactly this sequence, the context test being optional
	var seq []string
	for _, st := range loop.Body.List {
		seq = append(seq, norm(st))
	}
	wantSeq := []string{"<item>", "<ctx>?", "page, err := s.AbstractPaginator.FetchCurrentPage()", "if err != nil { return false }", "stream, ok := page.(IStaticPageStream)",
		"if !ok { return false }", "if !stream.HasFuture() { return false }", "<dry>", "future, err := s.FetchFuturePage(s.GetContext(), stream)", "if err != nil { return false }",
		"err = s.AbstractPaginator.SetCurrentPage(future)", "if err != nil { return false }", "parallelisation.SleepWithContext(s.GetContext(), s.backoff)"}
	i := 0
	for _, w := range wantSeq {
		switch {
		case w == "<item>":
			if i >= len(seq) || !strings.HasPrefix(seq[i], "if s.AbstractPaginator.HasNext() {") {
				return nil, fmt.Errorf("stream HasNext: the loop does not start with the item test")
			}
			i++
		case w == "<ctx>?":
			if i < len(seq) && seq[i] == "if parallelisation.DetermineContextError(s.GetContext()) != nil { return false }" {
				i++
			}
		case w == "<dry>":
			if i >= len(seq) || !strings.HasPrefix(seq[i], "if s.IsRunningDry()") {
				return nil, fmt.Errorf("stream HasNext: grace-period test not where it is expected: %v", seq)
			}
			i++
		default:
			if i >= len(seq) || seq[i] != w {
				return nil, fmt.Errorf("stream HasNext: statement %d is not `%s`: %v", i, w, seq)
			}
			i++
		}
	}
	if i != len(seq) {
		return nil, fmt.Errorf("stream HasNext: unexpected statements at the end of the loop: %v", seq[i:])
	}
	for _, st := range loop.Body.List {
		src := norm(st)
		switch {
		case src == "if s.AbstractPaginator.HasNext() { s.timeReachLast.Store(time.Now()) return true }":
			seenItem, res["refreshOnItem"] = true, true
		case src == "if s.AbstractPaginator.HasNext() { return true }":
			seenItem = true
		case src == "if parallelisation.DetermineContextError(s.GetContext()) != nil { return false }":
			if !seenFuture {
				res["contextTested"] = true
			}
		case src == "if s.IsRunningDry() { if time.Since(s.timeReachLast.Load()) >= s.timeOut { return false } } else { s.timeReachLast.Store(time.Now()) }":
			seenDry, res["refreshWhileNotDry"] = true, true
		case src == "if s.IsRunningDry() { if time.Since(s.timeReachLast.Load()) >= s.timeOut { return false } }",
			src == "if s.IsRunningDry() && time.Since(s.timeReachLast.Load()) >= s.timeOut { return false }":
			seenDry = true
		case src == "future, err := s.FetchFuturePage(s.GetContext(), stream)":
			if !seenItem || !seenDry {
				return nil, fmt.Errorf("stream HasNext: the future page is fetched before the item / grace-period tests")
			}
			seenFuture = true
		case plain[src]:
		default:
			return nil, fmt.Errorf("stream HasNext: statement not recognised: %s", src)
		}
	}
	if !seenItem || !seenDry || !seenFuture {
		return nil, fmt.Errorf("stream HasNext: item test / grace-period test / future fetch not all found")
	}
	du := p.method("AbstractStreamPaginator", "DryUp")
	ird := p.method("AbstractStreamPaginator", "IsRunningDry")
	if du == nil || ird == nil || norm(du.Body) != "{ s.runningOut.Store(true) return nil }" || norm(ird.Body) != "{ return s.runningOut.Load() }" {
		return nil, fmt.Errorf("DryUp / IsRunningDry not recognised")
	}
	return res, nil
}
