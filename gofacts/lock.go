package main

import (
	"fmt"
	"path/filepath"
	"regexp"
	"strings"
)

func init() {
	register(area{name: "Lock", run: extractLock, placeholder: lockPlaceholder})
}

const lockPlaceholder = `import GoUtils.Model.LockTime
namespace GoUtils.Generated.Lock
open GoUtils.LockTime
def ok : Bool := false
def stale : StaleFacts := default
def proto : ProtoFacts := default
end GoUtils.Generated.Lock
`

func extractLock(root string) (string, map[string]any, error) {
	p, err := parseDir(filepath.Join(root, "filesystem"))
	if err != nil {
		return "", nil, err
	}
	// constructor constants
	ctor := p.funcDecl("NewGenericRemoteLockFile")
	if ctor == nil {
		return "", nil, fmt.Errorf("NewGenericRemoteLockFile not found")
	}
	cs := norm(p.src(ctor.Body))
	m := regexp.MustCompile(`lockHeartBeatPeriod: (\d+) \* time\.Millisecond`).FindStringSubmatch(cs)
	m2 := regexp.MustCompile(`timeBetweenLockTries: (\d+) \* time\.Millisecond`).FindStringSubmatch(cs)
	if m == nil || m2 == nil {
		return "", nil, fmt.Errorf("constructor constants not recognised: %s", cs)
	}
	// isStale
	is := p.funcDecl("isStale")
	if is == nil {
		return "", nil, fmt.Errorf("isStale not found")
	}
	iss := norm(p.src(is.Body))
	mi := regexp.MustCompile(`^\{ if filetime == nil \{ return false \} return time\.Since\(filetime\.ModTime\(\)\)\.Milliseconds\(\) (>=|>) (\d+)\*beatPeriod\.Milliseconds\(\) \}$`).FindStringSubmatch(iss)
	if mi == nil {
		return "", nil, fmt.Errorf("isStale not recognised: %s", iss)
	}
	// heartBeat
	hb := p.funcDecl("heartBeat")
	if hb == nil {
		return "", nil, fmt.Errorf("heartBeat not found")
	}
	hbs := norm(p.src(hb.Body))
	wantHB := regexp.MustCompile(`^\{ for \{ if err := parallelisation\.DetermineContextError\(ctx\); err != nil \{ return \} now := time\.Now\(\) _ = fs\.WriteFile\(filepath, \[\]byte\(fmt\.Sprintf\("alive @ %v", now\)\), 0775\) _ = fs\.Chtimes\(filepath, now, now\) parallelisation\.SleepWithContext\(ctx, period-(\d*)\*?time\.Millisecond\) \} \}$`)
	mh := wantHB.FindStringSubmatch(hbs)
	if mh == nil {
		return "", nil, fmt.Errorf("heartBeat not recognised: %s", hbs)
	}
	sleepLess := "1"
	if mh[1] != "" {
		sleepLess = mh[1]
	}
	// IsStale structure
	im := p.method("RemoteLockFile", "IsStale")
	if im == nil {
		return "", nil, fmt.Errorf("IsStale not found")
	}
	ims := norm(p.src(im.Body))
	wantIS := "{ lockPath := l.lockPath() heartBeatFiles, err := l.fs.Ls(lockPath) if err != nil { return false } if len(heartBeatFiles) == 0 { dirInfo, err := l.fs.StatTimes(lockPath) if err != nil { return false } return isStale(dirInfo, l.lockHeartBeatPeriod) } return areHeartBeatFilesAllStale(l.fs, lockPath, heartBeatFiles, l.lockHeartBeatPeriod) }"
	if ims != wantIS {
		return "", nil, fmt.Errorf("IsStale not recognised: %s", ims)
	}
	ah := p.funcDecl("areHeartBeatFilesAllStale")
	if ah == nil {
		return "", nil, fmt.Errorf("areHeartBeatFilesAllStale not found")
	}
	ahs := norm(p.src(ah.Body))
	if !strings.Contains(ahs, "isStaleB := false if err == nil { isStaleB = isStale(info, lockHeartBeatPeriod) } staleFiles = append(staleFiles, isStaleB)") || !strings.HasSuffix(ahs, "return collection.All(staleFiles) }") {
		return "", nil, fmt.Errorf("areHeartBeatFilesAllStale not recognised: %s", ahs)
	}
	// TryLock: the branch structure on an existing lock directory
	tl := p.method("RemoteLockFile", "TryLock")
	if tl == nil {
		return "", nil, fmt.Errorf("TryLock not found")
	}
	tls := norm(p.src(tl.Body))
	mkdirFirst := strings.Contains(tls, "err = l.fs.vfs.Mkdir(lockPath, 0755) if commonerrors.Any(ConvertFileSystemError(err), commonerrors.ErrExists) { if l.IsStale() { if l.overrideStaleLock { _ = l.ReleaseIfStale(ctx) err = l.TryLock(ctx) return err } return commonerrors.ErrStaleLock } return commonerrors.ErrLocked }")
	if !mkdirFirst {
		return "", nil, fmt.Errorf("TryLock: acquisition branch not recognised: %s", tls)
	}
	stampsDir := strings.Contains(tls, "now := time.Now() _ = l.fs.Chtimes(lockPath, now, now)")
	ri := p.method("RemoteLockFile", "ReleaseIfStale")
	if ri == nil || norm(p.src(ri.Body)) != "{ if l.IsStale() { return l.Unlock(ctx) } return nil }" {
		return "", nil, fmt.Errorf("ReleaseIfStale not recognised")
	}
	// Lock / LockWithTimeout only ever ACQUIRE: a contender that gives up removes nothing
	lk := p.method("RemoteLockFile", "Lock")
	lwt := p.method("RemoteLockFile", "LockWithTimeout")
	if lk == nil || lwt == nil {
		return "", nil, fmt.Errorf("Lock / LockWithTimeout not found")
	}
	lks := norm(p.src(lk.Body)) + " " + norm(p.src(lwt.Body))
	for _, forbidden := range []string{"Unlock(", ".Rm(", ".Remove", "ReleaseIfStale(", "MakeStale(", "cancelStore.Cancel("} {
		if strings.Contains(lks, forbidden) {
			return "", nil, fmt.Errorf("Lock / LockWithTimeout: a waiting contender calls %s…): %s", forbidden, lks)
		}
	}
	lean := fmt.Sprintf("import GoUtils.Model.LockTime\nnamespace GoUtils.Generated.Lock\nopen GoUtils.LockTime\ndef ok : Bool := true\n"+
		"def stale : StaleFacts := { periodMs := %s, factor := %s, strict := %s, sleepLessMs := %s, statErrorMeansFresh := true, emptyDirJudgedByDir := true }\n"+
		"def proto : ProtoFacts := { tryPeriodMs := %s, mkdirIsTheAcquire := true, stampsDirAfterMkdir := %s, releaseIfStaleGuarded := true }\nend GoUtils.Generated.Lock\n",
		m[1], mi[2], leanBool(mi[1] == ">"), sleepLess, m2[1], leanBool(stampsDir))
	return lean, map[string]any{"periodMs": m[1], "factor": mi[2], "op": mi[1], "sleepLessMs": sleepLess, "tryPeriodMs": m2[1], "stampsDirAfterMkdir": stampsDir}, nil
}
