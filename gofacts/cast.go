package main

import (
	"fmt"
	"go/ast"
	"go/constant"
	"go/token"
	"go/types"
	"path/filepath"
	"sort"
	"strings"
)

func init() {
	register(area{name: "Cast", run: extractCast, placeholder: castPlaceholder})
}

const castPlaceholder = `import GoUtils.Model.Cast
namespace GoUtils.Generated.Cast
open GoUtils GoUtils.Cast
def ok : Bool := false
def less : BoundaryFn := default
def greater : BoundaryFn := default
def fns : List CastFn := []
end GoUtils.Generated.Cast
`

var goIntTy = map[string]string{"int8": "i8", "int16": "i16", "int32": "i32", "int64": "i64", "int": "int",
	"uint8": "u8", "uint16": "u16", "uint32": "u32", "uint64": "u64", "uint": "uint"}

var cmpName = map[token.Token]string{token.LSS: "lt", token.LEQ: "le", token.GTR: "gt", token.GEQ: "ge"}

func extractCast(root string) (string, map[string]any, error) {
	p, err := parseDir(filepath.Join(root, "safecast"))
	if err != nil {
		return "", nil, err
	}
	if err := p.typecheck("safecast"); err != nil {
		return "", nil, fmt.Errorf("typecheck: %w", err)
	}
	facts := map[string]any{}
	var b strings.Builder
	b.WriteString("import GoUtils.Model.Cast\nnamespace GoUtils.Generated.Cast\nopen GoUtils GoUtils.Cast\ndef ok : Bool := true\n")
	for _, h := range []struct{ goName, leanName string }{{"lessThanLowerBoundary", "less"}, {"greaterThanUpperBoundary", "greater"}} {
		s, f, err := castBoundary(p, h.goName)
		if err != nil {
			return "", nil, fmt.Errorf("%s: %w", h.goName, err)
		}
		facts[h.leanName] = f
		fmt.Fprintf(&b, "def %s : BoundaryFn := %s\n", h.leanName, s)
	}
	// all exported generic functions ToXxx
	var names []string
	for _, f := range p.files {
		for _, d := range f.Decls {
			if fd, ok := d.(*ast.FuncDecl); ok && fd.Recv == nil && strings.HasPrefix(fd.Name.Name, "To") && fd.Name.IsExported() {
				names = append(names, fd.Name.Name)
			}
		}
	}
	sort.Strings(names)
	var items []string
	for _, n := range names {
		s, f, err := castFn(p, n)
		if err != nil {
			return "", nil, fmt.Errorf("%s: %w", n, err)
		}
		facts[n] = f
		items = append(items, s)
	}
	if len(items) == 0 {
		return "", nil, fmt.Errorf("no To* functions found")
	}
	b.WriteString("def fns : List CastFn := [\n  " + strings.Join(items, ",\n  ") + "]\n")
	b.WriteString("end GoUtils.Generated.Cast\n")
	return b.String(), facts, nil
}

// castBoundary recognises
//
//	func h[..](value C1, boundary C2) (r bool) {
//	   if value <op> 0 { return }
//	   switch f := any(value).(type) {
//	   case float64: r = f <op> float64(boundary)
//	   case float32: r = float64(f) <op> float64(boundary)
//	   default:      r = T(value) <op> T(boundary)
//	   }
//	   return
//	}
func castBoundary(p *pkg, name string) (string, map[string]any, error) {
	fd := p.funcDecl(name)
	if fd == nil {
		return "", nil, fmt.Errorf("not found")
	}
	if len(fd.Type.Params.List) != 2 || fd.Type.Results == nil || len(fd.Type.Results.List) != 1 || len(fd.Type.Results.List[0].Names) != 1 {
		return "", nil, fmt.Errorf("unexpected signature")
	}
	val := fd.Type.Params.List[0].Names[0].Name
	bnd := fd.Type.Params.List[1].Names[0].Name
	res := fd.Type.Results.List[0].Names[0].Name
	st := fd.Body.List
	if len(st) != 3 {
		return "", nil, fmt.Errorf("body has %d statements, want 3", len(st))
	}
	// guard
	ifs, ok := st[0].(*ast.IfStmt)
	if !ok || ifs.Init != nil || ifs.Else != nil || len(ifs.Body.List) != 1 {
		return "", nil, fmt.Errorf("guard shape")
	}
	if r, ok := ifs.Body.List[0].(*ast.ReturnStmt); !ok || len(r.Results) != 0 {
		return "", nil, fmt.Errorf("guard must be a bare return")
	}
	gc, ok := ifs.Cond.(*ast.BinaryExpr)
	if !ok || !isIdent(gc.X, val) || !isLit(gc.Y, "0") || cmpName[gc.Op] == "" {
		return "", nil, fmt.Errorf("guard condition %s", p.src(ifs.Cond))
	}
	guard := cmpName[gc.Op]
	ts, ok := st[1].(*ast.TypeSwitchStmt)
	if !ok {
		return "", nil, fmt.Errorf("second statement is not a type switch")
	}
	as, ok := ts.Assign.(*ast.AssignStmt)
	if !ok || len(as.Lhs) != 1 || len(as.Rhs) != 1 {
		return "", nil, fmt.Errorf("type switch assign shape")
	}
	fvar := as.Lhs[0].(*ast.Ident).Name
	ta, ok := as.Rhs[0].(*ast.TypeAssertExpr)
	if !ok || ta.Type != nil {
		return "", nil, fmt.Errorf("type switch subject")
	}
	if c, ok := ta.X.(*ast.CallExpr); !ok || !isIdent(c.Fun, "any") || len(c.Args) != 1 || !isIdent(c.Args[0], val) {
		return "", nil, fmt.Errorf("type switch subject must be any(%s)", val)
	}
	if r, ok := st[2].(*ast.ReturnStmt); !ok || len(r.Results) != 0 {
		return "", nil, fmt.Errorf("last statement must be a bare return")
	}
	f64, f32, dflt, dconv := "none", "none", "", ""
	for _, c := range ts.Body.List {
		cc := c.(*ast.CaseClause)
		if len(cc.Body) != 1 {
			return "", nil, fmt.Errorf("case body shape at %s", p.pos(cc))
		}
		a, ok := cc.Body[0].(*ast.AssignStmt)
		if !ok || a.Tok != token.ASSIGN || len(a.Lhs) != 1 || !isIdent(a.Lhs[0], res) {
			return "", nil, fmt.Errorf("case must assign %s at %s", res, p.pos(cc))
		}
		be, ok := a.Rhs[0].(*ast.BinaryExpr)
		if !ok || cmpName[be.Op] == "" {
			return "", nil, fmt.Errorf("case rhs at %s", p.pos(cc))
		}
		op := cmpName[be.Op]
		if cc.List == nil { // default
			cx, okx := conv1(be.X)
			cy, oky := conv1(be.Y)
			if !okx || !oky || cx.ty != cy.ty || !isIdent(cx.arg, val) || !isIdent(cy.arg, bnd) || goIntTy[cx.ty] == "" {
				return "", nil, fmt.Errorf("default case shape: %s", p.src(be))
			}
			dflt, dconv = op, goIntTy[cx.ty]
			continue
		}
		if len(cc.List) != 1 {
			return "", nil, fmt.Errorf("multi-type case at %s", p.pos(cc))
		}
		tn, _ := cc.List[0].(*ast.Ident)
		if tn == nil {
			return "", nil, fmt.Errorf("case type at %s", p.pos(cc))
		}
		cy, oky := conv1(be.Y)
		if !oky || cy.ty != "float64" || !isIdent(cy.arg, bnd) {
			return "", nil, fmt.Errorf("float case rhs: %s", p.src(be))
		}
		switch tn.Name {
		case "float64":
			if !isIdent(be.X, fvar) {
				return "", nil, fmt.Errorf("float64 case lhs: %s", p.src(be))
			}
			f64 = "(some ." + op + ")"
		case "float32":
			cx, okx := conv1(be.X)
			if !okx || cx.ty != "float64" || !isIdent(cx.arg, fvar) {
				return "", nil, fmt.Errorf("float32 case lhs: %s", p.src(be))
			}
			f32 = "(some ." + op + ")"
		default:
			return "", nil, fmt.Errorf("unexpected case type %s", tn.Name)
		}
	}
	if dflt == "" {
		return "", nil, fmt.Errorf("no default case")
	}
	lean := fmt.Sprintf("{ guard := .%s, f64 := %s, f32 := %s, dflt := .%s, dfltConv := .%s }", guard, f64, f32, dflt, dconv)
	return lean, map[string]any{"guard": guard, "f64": f64, "f32": f32, "default": dflt, "defaultConv": dconv}, nil
}

type convCall struct {
	ty  string
	arg ast.Expr
}

func conv1(e ast.Expr) (convCall, bool) {
	c, ok := e.(*ast.CallExpr)
	if !ok || len(c.Args) != 1 {
		return convCall{}, false
	}
	id, ok := c.Fun.(*ast.Ident)
	if !ok {
		return convCall{}, false
	}
	return convCall{id.Name, c.Args[0]}, true
}

func isIdent(e ast.Expr, name string) bool {
	id, ok := e.(*ast.Ident)
	return ok && id.Name == name
}

func isLit(e ast.Expr, v string) bool {
	l, ok := e.(*ast.BasicLit)
	return ok && l.Value == v
}

// castFn recognises
//
//	func ToX[C IConvertable](i C) T {
//	    if lessThanLowerBoundary(i, LO) { return LORET }
//	    if greaterThanUpperBoundary(i, HI) { return HIRET }
//	    return T(i)
//	}
func castFn(p *pkg, name string) (string, map[string]any, error) {
	fd := p.funcDecl(name)
	if len(fd.Type.Params.List) != 1 || len(fd.Type.Params.List[0].Names) != 1 || fd.Type.Results == nil || len(fd.Type.Results.List) != 1 {
		return "", nil, fmt.Errorf("signature")
	}
	arg := fd.Type.Params.List[0].Names[0].Name
	rt, ok := fd.Type.Results.List[0].Type.(*ast.Ident)
	if !ok || goIntTy[rt.Name] == "" {
		return "", nil, fmt.Errorf("result type")
	}
	if len(fd.Body.List) != 3 {
		return "", nil, fmt.Errorf("body has %d statements, want 3", len(fd.Body.List))
	}
	type br struct {
		val, ty, ret string
	}
	get := func(s ast.Stmt, helper string) (br, error) {
		ifs, ok := s.(*ast.IfStmt)
		if !ok || ifs.Init != nil || ifs.Else != nil || len(ifs.Body.List) != 1 {
			return br{}, fmt.Errorf("if shape at %s", p.pos(s))
		}
		call, ok := ifs.Cond.(*ast.CallExpr)
		if !ok || !isIdent(call.Fun, helper) || len(call.Args) != 2 || !isIdent(call.Args[0], arg) {
			return br{}, fmt.Errorf("expected %s(%s, …) at %s, got %s", helper, arg, p.pos(s), p.src(ifs.Cond))
		}
		tv, ok := p.info.Types[call.Args[1]]
		if !ok || tv.Value == nil || tv.Value.Kind() != constant.Int {
			return br{}, fmt.Errorf("boundary is not an integer constant at %s", p.pos(s))
		}
		// the Go type the boundary has inside the helper = the instantiated 2nd type argument
		inst, ok := p.info.Instances[call.Fun.(*ast.Ident)]
		if !ok || inst.TypeArgs.Len() != 2 {
			return br{}, fmt.Errorf("no instance info at %s", p.pos(s))
		}
		bt, ok := inst.TypeArgs.At(1).(*types.Basic)
		if !ok || goIntTy[bt.Name()] == "" {
			return br{}, fmt.Errorf("boundary type %s not an integer type at %s", inst.TypeArgs.At(1), p.pos(s))
		}
		r, ok := ifs.Body.List[0].(*ast.ReturnStmt)
		if !ok || len(r.Results) != 1 {
			return br{}, fmt.Errorf("return shape at %s", p.pos(s))
		}
		rv, ok := p.info.Types[r.Results[0]]
		if !ok || rv.Value == nil || rv.Value.Kind() != constant.Int {
			return br{}, fmt.Errorf("returned value is not a constant at %s", p.pos(s))
		}
		return br{tv.Value.ExactString(), goIntTy[bt.Name()], rv.Value.ExactString()}, nil
	}
	lo, err := get(fd.Body.List[0], "lessThanLowerBoundary")
	if err != nil {
		return "", nil, err
	}
	hi, err := get(fd.Body.List[1], "greaterThanUpperBoundary")
	if err != nil {
		return "", nil, err
	}
	r, ok := fd.Body.List[2].(*ast.ReturnStmt)
	if !ok || len(r.Results) != 1 {
		return "", nil, fmt.Errorf("final return")
	}
	cc, ok := conv1(r.Results[0])
	if !ok || cc.ty != rt.Name || !isIdent(cc.arg, arg) {
		return "", nil, fmt.Errorf("final return must be %s(%s), got %s", rt.Name, arg, p.src(r.Results[0]))
	}
	lean := fmt.Sprintf("{ name := %s, tgt := .%s, lo := %s, loTy := .%s, loRet := %s, hi := %s, hiTy := .%s, hiRet := %s }",
		leanStr(name), goIntTy[rt.Name], leanInt(lo.val), lo.ty, leanInt(lo.ret), leanInt(hi.val), hi.ty, leanInt(hi.ret))
	return lean, map[string]any{"lo": lo.val, "loTy": lo.ty, "loRet": lo.ret, "hi": hi.val, "hiTy": hi.ty, "hiRet": hi.ret}, nil
}
