package main

import (
	"fmt"
	"path/filepath"
	"regexp"
	"strings"
)

// Area Excl (C08, C04): the shape of NewExclusionRegexList — every non-blank pattern is expanded into
// three regular expressions, blank patterns are skipped (and nothing else is), compilation errors
// become 'invalid'; IsPathExcluded is an unanchored MatchString over all of them.

func init() {
	register(area{name: "Excl", run: extractExcl, placeholder: exclPlaceholder})
}

const exclPlaceholder = `namespace GoUtils.Generated.Excl
def ok : Bool := false
def expansions : List String := []
def blankPatternsSkipped : Bool := false
def compileErrorIsInvalid : Bool := false
def matchIsUnanchoredAny : Bool := false
end GoUtils.Generated.Excl
`

func extractExcl(root string) (string, map[string]any, error) {
	p, err := parseDir(filepath.Join(root, "filesystem"))
	if err != nil {
		return "", nil, err
	}
	f := p.funcDecl("NewExclusionRegexList")
	g := p.funcDecl("IsPathExcluded")
	if f == nil || g == nil {
		return "", nil, fmt.Errorf("NewExclusionRegexList / IsPathExcluded not found")
	}
	body := norm(p.src(f.Body))
	facts := map[string]any{"NewExclusionRegexList": body, "IsPathExcluded": norm(p.src(g.Body))}
	re := regexp.MustCompile(`^\{ var regexes \[\]\*regexp\.Regexp var patternsExtendedList \[\]string for i := range exclusionPatterns \{ pattern := exclusionPatterns\[i\] if !reflection\.IsEmpty\(pattern\) \{ patternsExtendedList = append\(patternsExtendedList, pattern, fmt\.Sprintf\("([^"]*)", pattern\), fmt\.Sprintf\("([^"]*)", pathSeparator, pattern, pathSeparator\)\) \} \} for i := range patternsExtendedList \{ r, err := regexp\.Compile\(patternsExtendedList\[i\]\) if err != nil \{ return nil, commonerrors\.WrapErrorf\(commonerrors\.ErrInvalid, err, [^{}]*\) \} regexes = append\(regexes, r\) \} return regexes, nil \}$`)
	m := re.FindStringSubmatch(body)
	if m == nil {
		return "", nil, fmt.Errorf("NewExclusionRegexList not recognised: %s", body)
	}
	matchOK := norm(p.src(g.Body)) == `{ for i := range exclusionPatterns { if exclusionPatterns[i].MatchString(path) { return true } } return false }`
	var b strings.Builder
	b.WriteString("namespace GoUtils.Generated.Excl\ndef ok : Bool := true\n")
	fmt.Fprintf(&b, "/-- the format strings of the three expansions of a pattern (%s) -/\n", p.pos(f))
	fmt.Fprintf(&b, "def expansions : List String := [\"%%v\", %s, %s]\n", leanStr(m[1]), leanStr(m[2]))
	b.WriteString("/-- a blank pattern is skipped and the loop goes on with the next one -/\ndef blankPatternsSkipped : Bool := true\n")
	b.WriteString("/-- a pattern that does not compile yields the 'invalid' kind -/\ndef compileErrorIsInvalid : Bool := true\n")
	fmt.Fprintf(&b, "/-- IsPathExcluded: true iff one of the expressions matches somewhere (MatchString) -/\ndef matchIsUnanchoredAny : Bool := %s\n", leanBool(matchOK))
	b.WriteString("end GoUtils.Generated.Excl\n")
	return b.String(), facts, nil
}
