package main

import (
	"fmt"
	"path/filepath"
	"regexp"
	"strings"
)

// Area Cache (C16): the order of the steps of Store / Fetch that Model.Cache relies on.

func init() {
	register(area{name: "Cache", run: extractCache, placeholder: cachePlaceholder})
}

const cachePlaceholder = `namespace GoUtils.Generated.Cache
def ok : Bool := false
def immUploadsUnderPartName : Bool := false
def immRenamesAfterVerifiedTransfer : Bool := false
def immListingIgnoresPartAndHash : Bool := false
def immPartSuffixOnly : Bool := false
def immStoreReturnsRenameError : Bool := false
def immCleanUsesOneListing : Bool := false
def transferVerifiesHash : Bool := false
def mutStoreTransfersUnderLock : Bool := false
def mutFetchUnpacksUnderLock : Bool := false
end GoUtils.Generated.Cache
`

func extractCache(root string) (string, map[string]any, error) {
	p, err := parseDir(filepath.Join(root, "sharedcache"))
	if err != nil {
		return "", nil, err
	}
	immStore := p.method("SharedImmutableCacheRepository", "Store")
	immName := p.method("SharedImmutableCacheRepository", "generateCachedPackageName")
	listing := p.funcDecl("listCompleteFilesByModTime")
	transfer := p.funcDecl("TransferFiles")
	mutStore := p.method("SharedMutableCacheRepository", "Store")
	mutFetch := p.method("SharedMutableCacheRepository", "Fetch")
	if immStore == nil || immName == nil || listing == nil || transfer == nil || mutStore == nil || mutFetch == nil {
		return "", nil, fmt.Errorf("shared cache functions not found")
	}
	before := func(a, b int) bool { return a >= 0 && b >= 0 && a < b }
	facts := map[string]any{}
	// immutable
	nameSrc := norm(p.src(immName.Body))
	underPart := strings.Contains(nameSrc, `fmt.Sprintf("%v-%v%v", cacheUUID, defaultCachedPackage, partFileDescriptor)`)
	iTransfer := stmtIndex(p, immStore.Body, regexp.MustCompile(`^destZip, err := TransferFiles\(ctx, s\.fs, remoteDir, zipped\)$`))
	iErr := stmtIndex(p, immStore.Body, regexp.MustCompile(`^if err != nil \{ _ = s\.fs\.Rm\(destZip\) return \}$`))
	iRename := stmtIndex(p, immStore.Body, regexp.MustCompile(`^if strings\.EqualFold\(filepath\.Ext\(destZip\), partFileDescriptor\) \{ finalZip := .* err = s\.fs\.Move\(destZip, finalZip\)`))
	renameAfter := before(iTransfer, iErr) && before(iErr, iRename)
	suffixOnly := false
	if iRename >= 0 {
		s := norm(p.src(immStore.Body.List[iRename]))
		suffixOnly = strings.Contains(s, `finalZip := strings.TrimSuffix(destZip, partFileDescriptor)`) && !strings.Contains(s, "strings.ReplaceAll(destZip")
		facts["immRename"] = s
	}
	// the error Store returns after the transfer is the error of the rename of the package: nothing assigns `err` after it
	renameErrReturned := false
	if iRename >= 0 && iRename == len(immStore.Body.List)-2 {
		s := norm(p.src(immStore.Body.List[iRename]))
		tail := norm(p.src(immStore.Body.List[iRename+1]))
		i := strings.Index(s, "err = s.fs.Move(destZip, finalZip)")
		renameErrReturned = tail == "return" && i >= 0 && !regexp.MustCompile(`\berr\s*(:?=)[^=]`).MatchString(s[i+len("err = s.fs.Move(destZip, finalZip)"):])
	}
	ls := norm(p.src(listing.Body))
	ignores := strings.Contains(ls, `isPartFile := strings.EqualFold(filepath.Ext(file), partFileDescriptor)`) &&
		strings.Contains(ls, `isHashFile := strings.EqualFold(filepath.Ext(file), hashFileDescriptor)`) &&
		strings.Contains(ls, `if !isPartFile && !isHashFile {`)
	// transfer
	ts := norm(p.src(transfer.Body))
	verifies := regexp.MustCompile(`hash1, err := getHash\(ctx, fs, src, false\).*err = fs\.CopyWithContext\(ctx, src, destDir\).*hash2, err := getHash\(ctx, fs, destFile, true\).*if !strings\.EqualFold\(hash1, hash2\) \{ _ = fs\.Rm\(destFile\) err = `).MatchString(ts)
	// mutable
	mLock := stmtIndex(p, mutStore.Body, regexp.MustCompile(`^err = remoteLock\.LockWithTimeout\(ctx, s\.lockTimeout\)$`))
	mTransfer := stmtIndex(p, mutStore.Body, regexp.MustCompile(`^destZip, err := TransferFiles\(ctx, s\.fs, remoteDir, zipped\)$`))
	mUnlock := stmtIndex(p, mutStore.Body, regexp.MustCompile(`^err = remoteLock\.Unlock\(ctx\)$`))
	fLock := stmtIndex(p, mutFetch.Body, regexp.MustCompile(`^err = remoteLock\.LockWithTimeout\(ctx, s\.lockTimeout\)$`))
	fUnpack := stmtIndex(p, mutFetch.Body, regexp.MustCompile(`^err = s\.unpackPackageToLocalDestination\(ctx, cachedPackage, dest\)$`))
	fUnlock := stmtIndex(p, mutFetch.Body, regexp.MustCompile(`^err = remoteLock\.Unlock\(ctx\)$`))
	facts["immStore"] = map[string]int{"transfer": iTransfer, "errorExit": iErr, "rename": iRename}
	facts["mutStore"] = map[string]int{"lock": mLock, "transfer": mTransfer, "unlock": mUnlock}
	facts["mutFetch"] = map[string]int{"lock": fLock, "unpack": fUnpack, "unlock": fUnlock}
	var b strings.Builder
	b.WriteString("namespace GoUtils.Generated.Cache\ndef ok : Bool := true\n")
	fmt.Fprintf(&b, "/-- the immutable cache uploads under `<uuid>-cache.zip.part` (%s) -/\ndef immUploadsUnderPartName : Bool := %s\n", p.pos(immName), leanBool(underPart))
	fmt.Fprintf(&b, "/-- Store: TransferFiles, error exit, then (and only then) the rename of the `.part` file (%s) -/\ndef immRenamesAfterVerifiedTransfer : Bool := %s\n", p.pos(immStore), leanBool(renameAfter))
	fmt.Fprintf(&b, "/-- readers ignore `.part` and `.hash` files (%s) -/\ndef immListingIgnoresPartAndHash : Bool := %s\n", p.pos(listing), leanBool(ignores))
	fmt.Fprintf(&b, "/-- the final name is obtained by dropping the `.part` SUFFIX only (not every occurrence in the path) -/\ndef immPartSuffixOnly : Bool := %s\n", leanBool(suffixOnly))
	// CleanEntry decides from ONE listing: what it keeps (the first of the list) and what it removes (the rest) come
	// from the same call; nothing else reads the directory
	oneListing := false
	if ce := p.method("SharedImmutableCacheRepository", "CleanEntry"); ce != nil {
		cs := norm(p.src(ce.Body))
		oneListing = strings.Count(cs, "listCompleteFilesByModTime(") == 1 && strings.Contains(cs, "files, err := listCompleteFilesByModTime(ctx, s.fs, entryDir)") &&
			strings.Contains(cs, "toClean := files[1:]") && !strings.Contains(cs, "findCachedPackageFromEntryDir") && !strings.Contains(cs, ".Ls(") &&
			strings.Contains(cs, "packageFile := filepath.Join(entryDir, file) err = s.fs.Rm(packageFile)")
	}
	facts["immCleanUsesOneListing"] = oneListing
	fmt.Fprintf(&b, "/-- CleanEntry keeps the first and removes the rest of ONE listing of the complete packages -/\ndef immCleanUsesOneListing : Bool := %s\n", leanBool(oneListing))
	fmt.Fprintf(&b, "/-- the result of Store after the transfer is the result of the rename of the package (no later assignment to err) -/\ndef immStoreReturnsRenameError : Bool := %s\n", leanBool(renameErrReturned))
	fmt.Fprintf(&b, "/-- TransferFiles: hash of the source, copy, hash of the copy, removal of the copy on mismatch (%s) -/\ndef transferVerifiesHash : Bool := %s\n", p.pos(transfer), leanBool(verifies))
	fmt.Fprintf(&b, "/-- mutable Store: lock, transfer, unlock in that order (%s) -/\ndef mutStoreTransfersUnderLock : Bool := %s\n", p.pos(mutStore), leanBool(before(mLock, mTransfer) && before(mTransfer, mUnlock)))
	fmt.Fprintf(&b, "/-- mutable Fetch: lock, unpack, unlock in that order (%s) -/\ndef mutFetchUnpacksUnderLock : Bool := %s\n", p.pos(mutFetch), leanBool(before(fLock, fUnpack) && before(fUnpack, fUnlock)))
	b.WriteString("end GoUtils.Generated.Cache\n")
	return b.String(), facts, nil
}
