package main

import (
	"fmt"
	"go/ast"
	"path/filepath"
	"strings"
)

func init() {
	register(area{name: "Streamer", run: extractStreamer, placeholder: streamerPlaceholder})
}

const streamerPlaceholder = `import GoUtils.Model.Streamer
namespace GoUtils.Generated.Streamer
open GoUtils.Streamer
def ok : Bool := false
def write : WriteFacts := default
def exec : ExecFacts := default
end GoUtils.Generated.Streamer
`

func extractStreamer(root string) (string, map[string]any, error) {
	p, err := parseDir(filepath.Join(root, "subprocess"))
	if err != nil {
		return "", nil, err
	}
	// ---- logStreamer: no state besides the two configuration fields
	nfields := -1
	for _, f := range p.files {
		ast.Inspect(f, func(n ast.Node) bool {
			ts, ok := n.(*ast.TypeSpec)
			if ok && ts.Name.Name == "logStreamer" {
				if st, ok := ts.Type.(*ast.StructType); ok {
					nfields = 0
					for _, fl := range st.Fields.List {
						nfields += len(fl.Names)
					}
				}
			}
			return true
		})
	}
	if nfields < 0 {
		return "", nil, fmt.Errorf("type logStreamer not found")
	}
	fd := p.method("logStreamer", "Write")
	if fd == nil {
		return "", nil, fmt.Errorf("(*logStreamer).Write not found")
	}
	if len(fd.Body.List) != 3 {
		return "", nil, fmt.Errorf("Write: %d statements, want 3", len(fd.Body.List))
	}
	param := fd.Type.Params.List[0].Names[0].Name
	s0 := p.src(fd.Body.List[0])
	if s0 != "lines := strings.Split(string("+param+"), lineSep)" {
		return "", nil, fmt.Errorf("Write: first statement %q", s0)
	}
	loop, ok := fd.Body.List[1].(*ast.RangeStmt)
	if !ok || p.src(loop.X) != "lines" {
		return "", nil, fmt.Errorf("Write: second statement is not `for … range lines`")
	}
	loopSrc := strings.Join(strings.Fields(p.src(loop.Body)), " ")
	recv := fd.Recv.List[0].Names[0].Name
	wantGuarded := "{ line := lines[i] if line != \"\" { if " + recv + ".IsStdErr { " + recv + ".Loggers.LogError(line) } else { " + recv + ".Loggers.Log(line) } } }"
	wantPlain := "{ line := lines[i] if " + recv + ".IsStdErr { " + recv + ".Loggers.LogError(line) } else { " + recv + ".Loggers.Log(line) } }"
	dropsEmpty := false
	switch loopSrc {
	case wantGuarded:
		dropsEmpty = true
	case wantPlain:
	default:
		return "", nil, fmt.Errorf("Write: loop body not recognised: %s", loopSrc)
	}
	if p.src(fd.Body.List[2]) != "return len("+param+"), nil" {
		return "", nil, fmt.Errorf("Write: last statement %q", p.src(fd.Body.List[2]))
	}
	// lineSep must be the unix separator
	sepOK := false
	for _, f := range p.files {
		for _, d := range f.Decls {
			if gd, ok := d.(*ast.GenDecl); ok {
				for _, sp := range gd.Specs {
					if vs, ok := sp.(*ast.ValueSpec); ok && len(vs.Names) == 1 && vs.Names[0].Name == "lineSep" && len(vs.Values) == 1 {
						sepOK = p.src(vs.Values[0]) == "platform.UnixLineSeparator()"
					}
				}
			}
		}
	}
	if !sepOK {
		return "", nil, fmt.Errorf("lineSep is not platform.UnixLineSeparator()")
	}
	pp, err := parseDir(filepath.Join(root, "platform"))
	if err != nil {
		return "", nil, err
	}
	uls := pp.funcDecl("UnixLineSeparator")
	if uls == nil || !strings.Contains(p2src(pp, uls.Body), `return "\n"`) {
		return "", nil, fmt.Errorf("platform.UnixLineSeparator does not return \"\\n\"")
	}
	splitsAlone := nfields == 2 // only IsStdErr and Loggers: nothing can be carried from one Write to the next

	// ---- Execute skeleton: LogStart … err = cmd.Run() … LogEnd(err)
	ex := p.method("Subprocess", "Execute")
	if ex == nil {
		return "", nil, fmt.Errorf("(*Subprocess).Execute not found")
	}
	iStart, iRun, iEnd := -1, -1, -1
	for i, s := range ex.Body.List {
		switch strings.Join(strings.Fields(p.src(s)), " ") {
		case "s.messaging.LogStart()":
			iStart = i
		case "err = cmd.Run()":
			iRun = i
		case "s.messaging.LogEnd(err)":
			iEnd = i
		}
	}
	if iStart < 0 || iRun < 0 || iEnd < 0 {
		return "", nil, fmt.Errorf("Execute: LogStart/Run/LogEnd not all found at top level (%d,%d,%d)", iStart, iRun, iEnd)
	}
	le := p.method("subprocessMessaging", "LogEnd")
	if le == nil {
		return "", nil, fmt.Errorf("LogEnd not found")
	}
	leSrc := strings.Join(strings.Fields(p.src(le.Body)), " ")
	endOK := leSrc == "{ if !s.withAdditionalMessages { return } if err == nil { s.loggers.Log(s.messageOnSuccess) } else { s.loggers.LogError(s.messageOnFailure, err) } }"
	ls := p.method("subprocessMessaging", "LogStart")
	lsOK := ls != nil && strings.Join(strings.Fields(p.src(ls.Body)), " ") == "{ if s.withAdditionalMessages { s.loggers.Log(s.messageOnProcessStart) } }"
	// ---- Output…(): `err = p.Execute()` immediately followed by `output = stringLogger.GetLogContent()`
	outOK := false
	if of := p.funcDecl("OutputAsWithEnvironment"); of != nil {
		for i, st := range of.Body.List {
			if strings.Join(strings.Fields(p.src(st)), " ") == "err = p.Execute()" && i+1 < len(of.Body.List) {
				outOK = strings.Join(strings.Fields(p.src(of.Body.List[i+1])), " ") == "output = stringLogger.GetLogContent()"
			}
		}
		for _, name := range []string{"Output", "OutputWithEnvironment", "OutputAs"} {
			f := p.funcDecl(name)
			if f == nil || len(f.Body.List) != 1 || !strings.Contains(p.src(f.Body.List[0]), "return Output") {
				outOK = false
			}
		}
	}
	// the command is given no WaitDelay: exec.Cmd.Wait then returns only when the copies of both streams have reached
	// their end (with a WaitDelay the pipes are closed that long after the exit of the child and pending output is lost)
	waitsAll := true
	for _, f := range p.files {
		ast.Inspect(f, func(n ast.Node) bool {
			if se, ok := n.(*ast.SelectorExpr); ok && se.Sel.Name == "WaitDelay" {
				waitsAll = false
			}
			return true
		})
	}
	lean := fmt.Sprintf("import GoUtils.Model.Streamer\nnamespace GoUtils.Generated.Streamer\nopen GoUtils.Streamer\ndef ok : Bool := true\n"+
		"def write : WriteFacts := { splitsEachChunkAlone := %s, dropsEmpty := %s }\n"+
		"def exec : ExecFacts := { startBeforeRun := %s, endAfterRun := %s, endReflectsRunError := %s, startIsOneMessage := %s, waitsForTheWholeOutput := %s, outputReadsLogWhateverTheStatus := %s }\nend GoUtils.Generated.Streamer\n",
		leanBool(splitsAlone), leanBool(dropsEmpty), leanBool(iStart < iRun), leanBool(iRun < iEnd), leanBool(endOK), leanBool(lsOK), leanBool(waitsAll), leanBool(outOK))
	return lean, map[string]any{"outputReadsLogWhateverTheStatus": outOK, "splitsEachChunkAlone": splitsAlone, "dropsEmpty": dropsEmpty, "startBeforeRun": iStart < iRun, "endAfterRun": iRun < iEnd,
		"endReflectsRunError": endOK, "startIsOneMessage": lsOK}, nil
}

func p2src(p *pkg, n ast.Node) string { return p.src(n) }
