module verif/gofacts

go 1.23.0
