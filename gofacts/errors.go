package main

import (
	"fmt"
	"go/ast"
	"go/token"
	"path/filepath"
	"strconv"
	"strings"
)

func init() {
	register(area{name: "Errors", run: extractErrors, placeholder: errorsPlaceholder})
}

const errorsPlaceholder = `import GoUtils.Model.Err
namespace GoUtils.Generated.Errors
open GoUtils.Err
def ok : Bool := false
def kinds : List KindFact := []
def cases : List CaseFact := []
def commonList : List Nat := []
end GoUtils.Generated.Errors
`

func leanBytes(s string) string {
	var parts []string
	for i := 0; i < len(s); i++ {
		parts = append(parts, strconv.Itoa(int(s[i])))
	}
	return "[" + strings.Join(parts, ", ") + "]"
}

// Errors: (1) the table of sentinel errors `ErrX = errors.New("text")` in declaration order,
// (2) the ordered case list of deserialiseCommonError, (3) the list handed to Any in IsCommonError.
func extractErrors(root string) (string, map[string]any, error) {
	p, err := parseDir(filepath.Join(root, "commonerrors"))
	if err != nil {
		return "", nil, err
	}
	consts := map[string]string{}
	for _, f := range p.files {
		for _, d := range f.Decls {
			gd, ok := d.(*ast.GenDecl)
			if !ok || gd.Tok != token.CONST {
				continue
			}
			for _, sp := range gd.Specs {
				vs := sp.(*ast.ValueSpec)
				for i, n := range vs.Names {
					if i < len(vs.Values) {
						if bl, ok := vs.Values[i].(*ast.BasicLit); ok && bl.Kind == token.STRING {
							s, _ := strconv.Unquote(bl.Value)
							consts[n.Name] = s
						}
					}
				}
			}
		}
	}
	var names []string
	texts := map[string]string{}
	f := p.files["errors.go"]
	if f == nil {
		return "", nil, fmt.Errorf("errors.go missing")
	}
	for _, d := range f.Decls {
		gd, ok := d.(*ast.GenDecl)
		if !ok || gd.Tok != token.VAR {
			continue
		}
		for _, sp := range gd.Specs {
			vs := sp.(*ast.ValueSpec)
			if len(vs.Names) != 1 || len(vs.Values) != 1 || !strings.HasPrefix(vs.Names[0].Name, "Err") {
				continue
			}
			call, ok := vs.Values[0].(*ast.CallExpr)
			if !ok || p.src(call.Fun) != "errors.New" || len(call.Args) != 1 {
				continue
			}
			var text string
			switch a := call.Args[0].(type) {
			case *ast.BasicLit:
				text, _ = strconv.Unquote(a.Value)
			case *ast.Ident:
				t, ok := consts[a.Name]
				if !ok {
					return "", nil, fmt.Errorf("%s: text is not a constant", vs.Names[0].Name)
				}
				text = t
			default:
				return "", nil, fmt.Errorf("%s: unrecognised text expression", vs.Names[0].Name)
			}
			names = append(names, vs.Names[0].Name)
			texts[vs.Names[0].Name] = text
		}
	}
	if len(names) == 0 {
		return "", nil, fmt.Errorf("no sentinel errors found")
	}
	idx := map[string]int{}
	for i, n := range names {
		idx[n] = i
	}
	// ---- deserialiseCommonError
	fd := p.funcDecl("deserialiseCommonError")
	if fd == nil {
		return "", nil, fmt.Errorf("deserialiseCommonError not found")
	}
	if len(fd.Body.List) != 3 {
		return "", nil, fmt.Errorf("deserialiseCommonError: %d statements, want 3", len(fd.Body.List))
	}
	param := fd.Type.Params.List[0].Names[0].Name
	if p.src(fd.Body.List[0]) != param+" = strings.TrimSpace("+param+")" {
		return "", nil, fmt.Errorf("deserialiseCommonError: first statement %q", p.src(fd.Body.List[0]))
	}
	sw, ok := fd.Body.List[1].(*ast.SwitchStmt)
	if !ok || sw.Tag != nil || sw.Init != nil {
		return "", nil, fmt.Errorf("deserialiseCommonError: expected a tagless switch")
	}
	if p.src(fd.Body.List[2]) != "return false, ErrUnknown" {
		return "", nil, fmt.Errorf("deserialiseCommonError: fallthrough return %q", p.src(fd.Body.List[2]))
	}
	var caseItems []string
	var caseFacts []string
	for ci, c := range sw.Body.List {
		cc := c.(*ast.CaseClause)
		if len(cc.List) != 1 || len(cc.Body) != 1 {
			return "", nil, fmt.Errorf("case %d: shape", ci)
		}
		ret, ok := cc.Body[0].(*ast.ReturnStmt)
		if !ok || len(ret.Results) != 2 || p.src(ret.Results[0]) != "true" {
			return "", nil, fmt.Errorf("case %d: return shape", ci)
		}
		cond := p.src(cc.List[0])
		retName := p.src(ret.Results[1])
		if ci == 0 {
			if cond != param+` == ""` || retName != "nil" {
				return "", nil, fmt.Errorf("first case must be the empty string -> nil")
			}
			continue
		}
		ri, ok := idx[retName]
		if !ok {
			return "", nil, fmt.Errorf("case %d returns unknown %s", ci, retName)
		}
		var mode, probe string
		switch {
		case strings.HasPrefix(cond, param+" == ") && strings.HasSuffix(cond, ".Error()"):
			mode, probe = "exact", strings.TrimSuffix(strings.TrimPrefix(cond, param+" == "), ".Error()")
		case strings.HasPrefix(cond, "CorrespondTo(") && strings.HasSuffix(cond, ", "+param+")"):
			mode, probe = "corr", strings.TrimSuffix(strings.TrimPrefix(cond, "CorrespondTo("), ", "+param+")")
		default:
			return "", nil, fmt.Errorf("case %d: unrecognised condition %s", ci, cond)
		}
		pi, ok := idx[probe]
		if !ok {
			return "", nil, fmt.Errorf("case %d probes unknown %s", ci, probe)
		}
		caseItems = append(caseItems, fmt.Sprintf("{ exact := %s, probe := %d, ret := %d }", leanBool(mode == "exact"), pi, ri))
		caseFacts = append(caseFacts, fmt.Sprintf("%s(%s)->%s", mode, probe, retName))
	}
	// ---- CorrespondTo shape (case-insensitive equality or containment of the probe's text)
	ct := p.funcDecl("CorrespondTo")
	if ct == nil {
		return "", nil, fmt.Errorf("CorrespondTo not found")
	}
	ctSrc := strings.Join(strings.Fields(p.src(ct.Body)), " ")
	wantCT := "{ if target == nil { return false } desc := strings.ToLower(target.Error()) for i := range description { d := strings.ToLower(description[i]) if desc == d || strings.Contains(desc, d) { return true } } return false }"
	if ctSrc != wantCT {
		return "", nil, fmt.Errorf("CorrespondTo body not recognised: %s", ctSrc)
	}
	// ---- the constructors Model.Err renders: recognised statement by statement (fails closed)
	shapes := map[string]string{
		"ConvertContextError": "{ if err == nil { return nil } if Any(err, context.Canceled) { return ErrCancelled } if Any(err, context.DeadlineExceeded) { return ErrTimeout } return err }",
		"Errorf":              "{ tErr := ConvertContextError(targetErr) if tErr == nil { tErr = ErrUnknown } msg := format if len(args) > 0 { msg = fmt.Sprintf(format, args...) } return fmt.Errorf(\"%w%v %v\", tErr, string(TypeReasonErrorSeparator), msg) }",
		"New":                 "{ return Errorf(targetError, msg) }",
		"WrapError":           "{ tErr := targetError if tErr == nil { tErr = ErrUnknown } origErr := ConvertContextError(originalError) if Any(origErr, ErrTimeout, ErrCancelled) { tErr = origErr } if originalError == nil { return New(tErr, msg) } else { return Errorf(tErr, \"%v%v %v\", msg, string(TypeReasonErrorSeparator), originalError.Error()) } }",
		"WrapErrorf":           "{ if len(args) == 0 { return WrapError(targetError, originalError, msgFormat) } return WrapError(targetError, originalError, fmt.Sprintf(msgFormat, args...)) }",
		"WrapIfNotCommonErrorf": "{ if Any(ConvertContextError(targetError), ErrTimeout, ErrCancelled) { return WrapErrorf(targetError, originalError, msgFormat, args...) } if IsCommonError(originalError) { return Newf(originalError, msgFormat, args...) } return WrapErrorf(targetError, originalError, msgFormat, args...) }",
		"Newf":                 "{ return WrapErrorf(targetError, nil, msgFormat, args...) }",
		"WrapIfNotCommonError": "{ if Any(ConvertContextError(targetError), ErrTimeout, ErrCancelled) { return WrapError(targetError, originalError, msg) } if IsCommonError(originalError) { return New(originalError, msg) } return WrapError(targetError, originalError, msg) }",
	}
	for name, want := range shapes {
		fd := p.funcDecl(name)
		if fd == nil {
			return "", nil, fmt.Errorf("%s not found", name)
		}
		if got := strings.Join(strings.Fields(p.src(fd.Body)), " "); got != want {
			return "", nil, fmt.Errorf("%s not recognised: %s", name, got)
		}
	}
	// ---- IsCommonError
	ic := p.funcDecl("IsCommonError")
	if ic == nil || len(ic.Body.List) != 1 {
		return "", nil, fmt.Errorf("IsCommonError shape")
	}
	r, ok := ic.Body.List[0].(*ast.ReturnStmt)
	if !ok || len(r.Results) != 1 {
		return "", nil, fmt.Errorf("IsCommonError shape")
	}
	call, ok := r.Results[0].(*ast.CallExpr)
	if !ok || p.src(call.Fun) != "Any" || len(call.Args) < 2 || p.src(call.Args[0]) != ic.Type.Params.List[0].Names[0].Name {
		return "", nil, fmt.Errorf("IsCommonError: expected return Any(target, …)")
	}
	var common []string
	for _, a := range call.Args[1:] {
		i, ok := idx[p.src(a)]
		if !ok {
			return "", nil, fmt.Errorf("IsCommonError lists unknown %s", p.src(a))
		}
		common = append(common, strconv.Itoa(i))
	}
	var kindItems []string
	for _, n := range names {
		kindItems = append(kindItems, fmt.Sprintf("{ name := %s, text := %s }", leanStr(n), leanBytes(texts[n])))
	}
	var b strings.Builder
	b.WriteString("import GoUtils.Model.Err\nnamespace GoUtils.Generated.Errors\nopen GoUtils.Err\ndef ok : Bool := true\n")
	b.WriteString("def kinds : List KindFact := [\n  " + strings.Join(kindItems, ",\n  ") + "]\n")
	b.WriteString("def cases : List CaseFact := [\n  " + strings.Join(caseItems, ",\n  ") + "]\n")
	b.WriteString("def commonList : List Nat := [" + strings.Join(common, ", ") + "]\n")
	b.WriteString("end GoUtils.Generated.Errors\n")
	return b.String(), map[string]any{"kinds": names, "texts": texts, "cases": caseFacts, "common": len(common)}, nil
}
