package main

import (
	"bytes"
	"fmt"
	"go/ast"
	"go/build"
	"go/importer"
	"go/parser"
	"go/printer"
	"go/token"
	"go/types"
	"os"
	"path/filepath"
	"sort"
	"strings"
)

type pkg struct {
	fset  *token.FileSet
	files map[string]*ast.File // base name -> file
	dir   string
	info  *types.Info
}

// parseDir parses the non-test Go files of dir that match the default build context (no verif tag).
func parseDir(dir string) (*pkg, error) {
	fset := token.NewFileSet()
	ents, err := os.ReadDir(dir)
	if err != nil {
		return nil, err
	}
	p := &pkg{fset: fset, files: map[string]*ast.File{}, dir: dir}
	ctx := build.Default
	for _, e := range ents {
		n := e.Name()
		if e.IsDir() || !strings.HasSuffix(n, ".go") || strings.HasSuffix(n, "_test.go") {
			continue
		}
		ok, err := ctx.MatchFile(dir, n)
		if err != nil || !ok {
			continue
		}
		f, err := parser.ParseFile(fset, filepath.Join(dir, n), nil, parser.ParseComments)
		if err != nil {
			return nil, err
		}
		p.files[n] = f
	}
	if len(p.files) == 0 {
		return nil, fmt.Errorf("no go files in %s", dir)
	}
	return p, nil
}

// typecheck runs go/types with the source importer (only used for small leaf packages).
func (p *pkg) typecheck(path string) error {
	conf := types.Config{Importer: importer.ForCompiler(p.fset, "source", nil), Error: func(error) {}}
	p.info = &types.Info{
		Types:     map[ast.Expr]types.TypeAndValue{},
		Instances: map[*ast.Ident]types.Instance{},
		Uses:      map[*ast.Ident]types.Object{},
		Defs:      map[*ast.Ident]types.Object{},
	}
	var fs []*ast.File
	var names []string
	for n := range p.files {
		names = append(names, n)
	}
	sort.Strings(names)
	for _, n := range names {
		fs = append(fs, p.files[n])
	}
	_, err := conf.Check(path, p.fset, fs, p.info)
	return err
}

func (p *pkg) funcDecl(name string) *ast.FuncDecl {
	for _, f := range p.files {
		for _, d := range f.Decls {
			if fd, ok := d.(*ast.FuncDecl); ok && fd.Name.Name == name && fd.Recv == nil {
				return fd
			}
		}
	}
	return nil
}

// method finds func (recv) name; recv is matched on the type name with any pointer stripped.
func (p *pkg) method(recv, name string) *ast.FuncDecl {
	for _, f := range p.files {
		for _, d := range f.Decls {
			fd, ok := d.(*ast.FuncDecl)
			if !ok || fd.Name.Name != name || fd.Recv == nil || len(fd.Recv.List) != 1 {
				continue
			}
			if recvName(fd.Recv.List[0].Type) == recv {
				return fd
			}
		}
	}
	return nil
}

func recvName(e ast.Expr) string {
	switch t := e.(type) {
	case *ast.StarExpr:
		return recvName(t.X)
	case *ast.Ident:
		return t.Name
	case *ast.IndexExpr:
		return recvName(t.X)
	case *ast.IndexListExpr:
		return recvName(t.X)
	}
	return ""
}

func (p *pkg) src(n ast.Node) string {
	var b bytes.Buffer
	_ = printer.Fprint(&b, p.fset, n)
	return b.String()
}

func (p *pkg) pos(n ast.Node) string {
	ps := p.fset.Position(n.Pos())
	return fmt.Sprintf("%s:%d", filepath.Base(ps.Filename), ps.Line)
}

func leanStr(s string) string {
	var b strings.Builder
	b.WriteByte('"')
	for _, r := range s {
		switch r {
		case '"':
			b.WriteString("\\\"")
		case '\\':
			b.WriteString("\\\\")
		case '\n':
			b.WriteString("\\n")
		case '\t':
			b.WriteString("\\t")
		case '\r':
			b.WriteString("\\r")
		default:
			b.WriteRune(r)
		}
	}
	b.WriteByte('"')
	return b.String()
}

func leanBool(b bool) string {
	if b {
		return "true"
	}
	return "false"
}

func leanInt(s string) string {
	if strings.HasPrefix(s, "-") {
		return "(" + s + ")"
	}
	return s
}
