package main

import (
	"fmt"
	"path/filepath"
	"regexp"
	"strings"
)

// Area Logs (C13): which lock protects the shared state of the loggers' own sinks and wrappers.

func init() {
	register(area{name: "Logs", run: extractLogs, placeholder: logsPlaceholder})
}

const logsPlaceholder = `namespace GoUtils.Generated.Logs
def ok : Bool := false
def stringWriterWriteExclusive : Bool := false
def stringWriterReadsExclusive : Bool := false
def logrFieldGuarded : Bool := false
def multipleWritersSnapshotUnderLock : Bool := false
def jsonSettersExclusive : Bool := false
def compositeMembersUnderWriteLock : Bool := false
end GoUtils.Generated.Logs
`

func extractLogs(root string) (string, map[string]any, error) {
	p, err := parseDir(filepath.Join(root, "logs"))
	if err != nil {
		return "", nil, err
	}
	facts := map[string]any{}
	body := func(recv, name string) (string, error) {
		f := p.method(recv, name)
		if f == nil {
			return "", fmt.Errorf("%s.%s not found", recv, name)
		}
		s := norm(p.src(f.Body))
		facts[recv+"."+name] = s
		return s, nil
	}
	w, err := body("StringWriter", "Write")
	if err != nil {
		return "", nil, err
	}
	// exclusive: Lock/Unlock around the builder write; shared: RLock
	writeExclusive := regexp.MustCompile(`^\{ w\.mu\.Lock\(\) defer w\.mu\.Unlock\(\) w\.Logs\.Write\(p\) return \}$`).MatchString(w)
	if !writeExclusive && !regexp.MustCompile(`^\{ w\.mu\.RLock\(\) defer w\.mu\.RUnlock\(\) w\.Logs\.Write\(p\) return \}$`).MatchString(w) {
		return "", nil, fmt.Errorf("StringWriter.Write not recognised: %s", w)
	}
	g, err := body("StringWriter", "GetFullContent")
	if err != nil {
		return "", nil, err
	}
	c, err := body("StringWriter", "Close")
	if err != nil {
		return "", nil, err
	}
	readsExclusive := strings.HasPrefix(g, "{ w.mu.Lock() defer w.mu.Unlock()") && strings.HasPrefix(c, "{ w.mu.Lock() defer w.mu.Unlock()")
	// logr wrapper: the logger field is only touched under l.mu
	logrOK := true
	for _, m := range []string{"SetLogSource", "SetLoggerSource", "Log", "LogError"} {
		s, err := body("logrLogger", m)
		if err != nil {
			return "", nil, err
		}
		switch m {
		case "SetLogSource", "SetLoggerSource":
			if !regexp.MustCompile(`l\.mu\.Lock\(\) l\.logger = l\.logger\.[A-Za-z(.), ]+ l\.mu\.Unlock\(\)`).MatchString(s) || strings.Count(s, "l.logger") != 2 {
				logrOK = false
			}
		default:
			if strings.Contains(s, "l.logger") || !strings.Contains(s, "l.currentLogger()") {
				logrOK = false
			}
		}
	}
	if cur, err := body("logrLogger", "currentLogger"); err != nil || cur != `{ l.mu.RLock() defer l.mu.RUnlock() return l.logger }` {
		logrOK = false
	}
	mw, err := body("MultipleWritersWithSource", "GetWriters")
	if err != nil {
		return "", nil, err
	}
	aw, err := body("MultipleWritersWithSource", "AddWriters")
	if err != nil {
		return "", nil, err
	}
	multiOK := strings.HasPrefix(mw, "{ w.mu.RLock() defer w.mu.RUnlock()") && strings.HasPrefix(aw, "{ w.mu.Lock() defer w.mu.Unlock()")
	js1, err := body("JSONLoggers", "SetLogSource")
	if err != nil {
		return "", nil, err
	}
	js2, err := body("JSONLoggers", "SetLoggerSource")
	if err != nil {
		return "", nil, err
	}
	jsonOK := strings.HasPrefix(js1, "{ l.mu.Lock() defer l.mu.Unlock()") && strings.HasPrefix(js2, "{ l.mu.Lock() defer l.mu.Unlock()")
	// composite loggers: the member list is read, iterated and extended under the WRITE lock
	compOK := true
	for _, m := range []string{"Log", "LogError", "SetLogSource", "Append"} {
		s, err := body("MultipleLogger", m)
		if err != nil {
			return "", nil, err
		}
		if !strings.HasPrefix(s, "{ c.mu.Lock() defer c.mu.Unlock() ") || strings.Contains(s, "RLock") {
			compOK = false
		}
		if m == "Append" && s != "{ c.mu.Lock() defer c.mu.Unlock() c.loggers = append(c.loggers, l...) return nil }" {
			compOK = false
		}
	}
	if s, err := body("MultipleLoggerWithLoggerSource", "Append"); err != nil || s != "{ c.mu.Lock() defer c.mu.Unlock() c.loggers = append(c.loggers, l...) return c.setLoggerSource(c.loggerSource) }" {
		compOK = false
	}
	var b strings.Builder
	b.WriteString("namespace GoUtils.Generated.Logs\ndef ok : Bool := true\n")
	fmt.Fprintf(&b, "/-- StringWriter.Write appends to the builder under the WRITE lock (false: under the read lock) -/\ndef stringWriterWriteExclusive : Bool := %s\n", leanBool(writeExclusive))
	fmt.Fprintf(&b, "/-- GetFullContent / Close take the write lock -/\ndef stringWriterReadsExclusive : Bool := %s\n", leanBool(readsExclusive))
	fmt.Fprintf(&b, "/-- the logr wrapper's logger field is replaced under Lock and read through currentLogger() under RLock only -/\ndef logrFieldGuarded : Bool := %s\n", leanBool(logrOK))
	fmt.Fprintf(&b, "/-- the composite writer snapshots its member list under RLock and appends under Lock -/\ndef multipleWritersSnapshotUnderLock : Bool := %s\n", leanBool(multiOK))
	fmt.Fprintf(&b, "/-- the JSON logger's setters take the write lock -/\ndef jsonSettersExclusive : Bool := %s\n", leanBool(jsonOK))
	fmt.Fprintf(&b, "/-- composite loggers read, iterate and extend their member list under the write lock only -/\ndef compositeMembersUnderWriteLock : Bool := %s\n", leanBool(compOK))
	b.WriteString("end GoUtils.Generated.Logs\n")
	return b.String(), facts, nil
}
