package main

import (
	"fmt"
	"path/filepath"
	"regexp"
	"strings"
)

// Area Config (C15): the order of the loading steps and the pieces the name derivation is made of.

func init() {
	register(area{name: "Config", run: extractConfig, placeholder: configPlaceholder})
}

const configPlaceholder = `namespace GoUtils.Generated.Config
def ok : Bool := false
def loadOrder : List String := []
def envKeyReplacerDotToUnderscore : Bool := false
def automaticEnvWithPrefix : Bool := false
def reportedNameShape : Bool := false
def validationWrappedWithPrefix : Bool := false
end GoUtils.Generated.Config
`

func extractConfig(root string) (string, map[string]any, error) {
	p, err := parseDir(filepath.Join(root, "config"))
	if err != nil {
		return "", nil, err
	}
	load := p.funcDecl("LoadFromEnvironment")
	envOpt := p.funcDecl("setEnvOptions")
	flat := p.funcDecl("flattenDefaultsMap")
	det := p.funcDecl("DetermineConfigurationEnvironmentVariables")
	if load == nil || envOpt == nil || flat == nil || det == nil {
		return "", nil, fmt.Errorf("configuration functions not found")
	}
	steps := []struct {
		name string
		re   *regexp.Regexp
	}{
		{"defaults", regexp.MustCompile(`^err = viperSession\.MergeConfigMap\(defaults\)$`)},
		{"env", regexp.MustCompile(`^setEnvOptions\(viperSession, envVarPrefix\)$`)},
		{"file", regexp.MustCompile(`^if configFile != "" \{ err = LoadFromConfigurationFile\(viperSession, configFile\)`)},
		{"flags", regexp.MustCompile(`^linkFlagKeysToStructureKeys\(viperSession, envVarPrefix\)$`)},
		{"unmarshal", regexp.MustCompile(`^err = viperSession\.Unmarshal\(configurationToSet\)$`)},
		{"validate", regexp.MustCompile(`^err = WrapValidationError\(field\.ToOptionalString\(envVarPrefix\), configurationToSet\.Validate\(\)\)$`)},
	}
	type pos struct {
		name string
		i    int
	}
	var found []pos
	for _, s := range steps {
		i := stmtIndex(p, load.Body, s.re)
		if i < 0 {
			return "", nil, fmt.Errorf("LoadFromEnvironment: step %s not recognised", s.name)
		}
		found = append(found, pos{s.name, i})
	}
	// source order
	for a := 0; a < len(found); a++ {
		for b := a + 1; b < len(found); b++ {
			if found[b].i < found[a].i {
				found[a], found[b] = found[b], found[a]
			}
		}
	}
	var order []string
	for _, f := range found {
		order = append(order, leanStr(f.name))
	}
	eo := norm(p.src(envOpt.Body))
	replacer := strings.Contains(eo, `viperSession.SetEnvKeyReplacer(strings.NewReplacer(configKeySeparator, EnvVarSeparator))`) && strings.Contains(norm(p.src(p.files[fileOf(p, "service_configuration.go")])), `EnvVarSeparator = "_"`) && strings.Contains(norm(p.src(p.files[fileOf(p, "service_configuration.go")])), `configKeySeparator = "."`)
	auto := strings.Contains(eo, `viperSession.SetEnvPrefix(envVarPrefix)`) && strings.Contains(eo, `viperSession.AutomaticEnv()`)
	fl := norm(p.src(flat.Body))
	ds := norm(p.src(det.Body))
	shape := strings.Contains(fl, `output[strings.ToUpper(fmt.Sprintf("%s_%s", key, nextKey))] = nextValue`) && strings.Contains(fl, `output[strings.ToUpper(key)] = value`) &&
		strings.Contains(ds, `newKey := fmt.Sprintf("%s_%s", strings.ToUpper(appName), key)`)
	var b strings.Builder
	b.WriteString("namespace GoUtils.Generated.Config\ndef ok : Bool := true\n")
	fmt.Fprintf(&b, "/-- the steps of LoadFromEnvironment in source order (%s) -/\ndef loadOrder : List String := [%s]\n", p.pos(load), strings.Join(order, ", "))
	fmt.Fprintf(&b, "/-- environment keys: '.' replaced by '_' -/\ndef envKeyReplacerDotToUnderscore : Bool := %s\n", leanBool(replacer))
	fmt.Fprintf(&b, "/-- AutomaticEnv with the prefix -/\ndef automaticEnvWithPrefix : Bool := %s\n", leanBool(auto))
	fmt.Fprintf(&b, "/-- reported names: upper(app) + \"_\" + upper(tags joined by \"_\") -/\ndef reportedNameShape : Bool := %s\n", leanBool(shape))
	b.WriteString("def validationWrappedWithPrefix : Bool := true\n")
	b.WriteString("end GoUtils.Generated.Config\n")
	return b.String(), map[string]any{"order": found}, nil
}

func fileOf(p *pkg, base string) string {
	for n := range p.files {
		if filepath.Base(n) == base {
			return n
		}
	}
	return ""
}
