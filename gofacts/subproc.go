package main

import (
	"fmt"
	"path/filepath"
	"regexp"
	"strings"
)

// Area Subproc (C05): how the process tree of a subprocess is terminated.

func init() {
	register(area{name: "Subproc", run: extractSubproc, placeholder: subprocPlaceholder})
}

const subprocPlaceholder = `namespace GoUtils.Generated.Subproc
def ok : Bool := false
def ownProcessGroup : Bool := false
def contextEndKillsGroup : Bool := false
def stopKillsGroupFirst : Bool := false
def killGroupIsSigkillToMinusPid : Bool := false
def stopDelayMs : Nat := 0
end GoUtils.Generated.Subproc
`

func extractSubproc(root string) (string, map[string]any, error) {
	p, err := parseDir(filepath.Join(root, "subprocess"))
	if err != nil {
		return "", nil, err
	}
	create := p.method("command", "createCommand")
	stop := p.method("cmdWrapper", "Stop")
	setGroup := p.funcDecl("setGroupAttrToCmd")
	killGroup := p.funcDecl("killProcessGroup")
	if create == nil || stop == nil || setGroup == nil {
		return "", nil, fmt.Errorf("subprocess functions not found")
	}
	facts := map[string]any{}
	cs := norm(p.src(create.Body))
	ss := norm(p.src(stop.Body))
	gs := norm(p.src(setGroup.Body))
	facts["createCommand"] = cs
	facts["Stop"] = ss
	ownGroup := strings.Contains(gs, "Setpgid: true")
	ctxKill := regexp.MustCompile(`setGroupAttrToCmd\(cmd\) cmd\.Cancel = func\(\) error \{ if cmd\.Process == nil \{ return nil \} killProcessGroup\(cmd\.Process\.Pid\) return cmd\.Process\.Kill\(\) \} return cmd \}$`).MatchString(cs) &&
		strings.Contains(cs, "exec.CommandContext(cmdCtx,")
	m := regexp.MustCompile(`parallelisation\.ScheduleAfter\(ctx, (\d+)\*time\.Millisecond, func\(time\.Time\) \{ (killProcessGroup\(pid\) )?process, err := proc\.FindProcess\(ctx, pid\)`).FindStringSubmatch(ss)
	if m == nil {
		return "", nil, fmt.Errorf("cmdWrapper.Stop not recognised: %s", ss)
	}
	stopFirst := m[2] != ""
	kg := false
	if killGroup != nil {
		ks := norm(p.src(killGroup.Body))
		facts["killProcessGroup"] = ks
		kg = ks == `{ if pid > 0 { _ = syscall.Kill(-pid, syscall.SIGKILL) } }`
	}
	var b strings.Builder
	b.WriteString("namespace GoUtils.Generated.Subproc\ndef ok : Bool := true\n")
	fmt.Fprintf(&b, "/-- the subprocess is started as the leader of its own process group (%s) -/\ndef ownProcessGroup : Bool := %s\n", p.pos(setGroup), leanBool(ownGroup))
	fmt.Fprintf(&b, "/-- exec.Cmd.Cancel kills the group, then the process (%s) -/\ndef contextEndKillsGroup : Bool := %s\n", p.pos(create), leanBool(ctxKill))
	fmt.Fprintf(&b, "/-- the kill scheduled by Stop signals the group before looking the process up (%s) -/\ndef stopKillsGroupFirst : Bool := %s\n", p.pos(stop), leanBool(stopFirst))
	fmt.Fprintf(&b, "/-- killProcessGroup(pid) = kill(-pid, SIGKILL) -/\ndef killGroupIsSigkillToMinusPid : Bool := %s\n", leanBool(kg))
	fmt.Fprintf(&b, "def stopDelayMs : Nat := %s\n", m[1])
	b.WriteString("end GoUtils.Generated.Subproc\n")
	return b.String(), facts, nil
}
