package main

import (
	"fmt"
	"path/filepath"
	"regexp"
	"strings"
)

// Area Subproc (C05): how the process tree of a subprocess is terminated.

func init() {
	register(area{name: "Subproc", run: extractSubproc, placeholder: subprocPlaceholder})
}

const subprocPlaceholder = `namespace GoUtils.Generated.Subproc
def ok : Bool := false
def ownProcessGroup : Bool := false
def contextEndKillsGroup : Bool := false
def stopKillsGroupFirst : Bool := false
def stopKillsGroupBeforeWaiting : Bool := false
def killGroupIsSigkillToMinusPid : Bool := false
def stopDelayMs : Nat := 0
def executeHoldsMutexAcrossRun : Bool := true
def stopTakesTheSameMutex : Bool := true
end GoUtils.Generated.Subproc
`

func extractSubproc(root string) (string, map[string]any, error) {
	p, err := parseDir(filepath.Join(root, "subprocess"))
	if err != nil {
		return "", nil, err
	}
	create := p.method("command", "createCommand")
	stop := p.method("cmdWrapper", "Stop")
	setGroup := p.funcDecl("setGroupAttrToCmd")
	killGroup := p.funcDecl("killProcessGroup")
	if create == nil || stop == nil || setGroup == nil {
		return "", nil, fmt.Errorf("subprocess functions not found")
	}
	facts := map[string]any{}
	cs := norm(p.src(create.Body))
	ss := norm(p.src(stop.Body))
	gs := norm(p.src(setGroup.Body))
	facts["createCommand"] = cs
	facts["Stop"] = ss
	ownGroup := strings.Contains(gs, "Setpgid: true")
	ctxKill := regexp.MustCompile(`setGroupAttrToCmd\(cmd\) cmd\.Cancel = func\(\) error \{ if cmd\.Process == nil \{ return nil \} killProcessGroup\(cmd\.Process\.Pid\) return cmd\.Process\.Kill\(\) \} return cmd \}$`).MatchString(cs) &&
		strings.Contains(cs, "exec.CommandContext(cmdCtx,")
	m := regexp.MustCompile(`parallelisation\.ScheduleAfter\(ctx, (\d+)\*time\.Millisecond, func\(time\.Time\) \{ (killProcessGroup\(pid\) )?process, err := proc\.FindProcess\(ctx, pid\)`).FindStringSubmatch(ss)
	if m == nil {
		return "", nil, fmt.Errorf("cmdWrapper.Stop not recognised: %s", ss)
	}
	stopFirst := m[2] != ""
	kg := false
	if killGroup != nil {
		ks := norm(p.src(killGroup.Body))
		facts["killProcessGroup"] = ks
		kg = ks == `{ if pid > 0 { _ = syscall.Kill(-pid, syscall.SIGKILL) } }`
	}
	// locking: Execute holds the object's mutex from before cmd.Run() until it returns; stop() needs it
	execHolds, stopTakes := false, false
	if ex := p.method("Subprocess", "Execute"); ex != nil {
		iLock := stmtIndex(p, ex.Body, regexp.MustCompile(`^s\.mu\.Lock\(\)$`))
		iDefer := stmtIndex(p, ex.Body, regexp.MustCompile(`^defer s\.mu\.Unlock\(\)$`))
		iRun := stmtIndex(p, ex.Body, regexp.MustCompile(`^err = cmd\.Run\(\)$`))
		execHolds = iLock >= 0 && iDefer == iLock+1 && iRun > iDefer
		facts["Execute"] = map[string]int{"lock": iLock, "deferUnlock": iDefer, "run": iRun}
	}
	if st := p.method("Subprocess", "stop"); st != nil {
		iCheck := stmtIndex(p, st.Body, regexp.MustCompile(`^err = s\.Check\(\)$`))
		iLock := stmtIndex(p, st.Body, regexp.MustCompile(`^s\.mu\.Lock\(\)$`))
		iStop := stmtIndex(p, st.Body, regexp.MustCompile(`^err = s\.getCmd\(\)\.Stop\(\)$`))
		stopTakes = iLock >= 0 && iStop > iLock && iCheck >= 0 && iCheck < iLock
		facts["stop"] = map[string]int{"check": iCheck, "lock": iLock, "cmdStop": iStop}
	}
	var b strings.Builder
	b.WriteString("namespace GoUtils.Generated.Subproc\ndef ok : Bool := true\n")
	fmt.Fprintf(&b, "/-- the subprocess is started as the leader of its own process group (%s) -/\ndef ownProcessGroup : Bool := %s\n", p.pos(setGroup), leanBool(ownGroup))
	fmt.Fprintf(&b, "/-- exec.Cmd.Cancel kills the group, then the process (%s) -/\ndef contextEndKillsGroup : Bool := %s\n", p.pos(create), leanBool(ctxKill))
	fmt.Fprintf(&b, "/-- the kill scheduled by Stop signals the group before looking the process up (%s) -/\ndef stopKillsGroupFirst : Bool := %s\n", p.pos(stop), leanBool(stopFirst))
	// Stop() signals the group with the same SIGKILL straight away, before it waits: the scheduled kill is cancelled when
	// Wait returns early (the leader had already exited)
	stopNow := strings.Contains(ss, "pid := subprocess.Pid killProcessGroup(pid) parallelisation.ScheduleAfter(ctx,")
	fmt.Fprintf(&b, "/-- Stop() kills the group straight away, before scheduling the follow-up kill and waiting -/\ndef stopKillsGroupBeforeWaiting : Bool := %s\n", leanBool(stopNow))
	fmt.Fprintf(&b, "/-- killProcessGroup(pid) = kill(-pid, SIGKILL) -/\ndef killGroupIsSigkillToMinusPid : Bool := %s\n", leanBool(kg))
	fmt.Fprintf(&b, "def stopDelayMs : Nat := %s\n", m[1])
	fmt.Fprintf(&b, "/-- Execute takes the object's mutex, defers its release and only then runs the command -/\ndef executeHoldsMutexAcrossRun : Bool := %s\n", leanBool(execHolds))
	fmt.Fprintf(&b, "/-- stop() needs the same mutex (Check's read lock, then Lock) before it reaches cmd.Stop() -/\ndef stopTakesTheSameMutex : Bool := %s\n", leanBool(stopTakes))
	b.WriteString("end GoUtils.Generated.Subproc\n")
	return b.String(), facts, nil
}
