package main

import (
	"fmt"
	"path/filepath"
	"regexp"
	"strings"
)

// Area Rm (C04): does the recursive removal recognise a symbolic link (Lstat) and unlink it before any
// link-following test (Exists / IsDir / IsEmpty / listing)?

func init() {
	register(area{name: "Rm", run: extractRm, placeholder: rmPlaceholder})
}

const rmPlaceholder = `namespace GoUtils.Generated.Rm
def ok : Bool := false
def removeLinkFirst : Bool := false
def gcLinkFirst : Bool := false
def deepExclusion : Bool := false
end GoUtils.Generated.Rm
`

func extractRm(root string) (string, map[string]any, error) {
	p, err := parseDir(filepath.Join(root, "filesystem"))
	if err != nil {
		return "", nil, err
	}
	rm := p.method("VFS", "RemoveWithContextAndExclusionPatterns")
	gc := p.method("VFS", "garbageCollect")
	if rm == nil || gc == nil {
		return "", nil, fmt.Errorf("removal functions not found")
	}
	facts := map[string]any{}
	// the helper must be the Lstat-based test
	helperOK := false
	if h := p.method("VFS", "isSymbolicLink"); h != nil {
		s := norm(p.src(h.Body))
		helperOK = s == `{ fi, err := fs.Lstat(path) return err == nil && IsSymLink(fi) }`
		facts["isSymbolicLink"] = s
	}
	linkStmt := regexp.MustCompile(`^if fs\.isSymbolicLink\(dir\) \{ .*err = ConvertFileSystemError\(fs\.vfs\.Remove\(dir\)\) return \}$`)
	iLink := stmtIndex(p, rm.Body, linkStmt)
	iFollow := stmtIndex(p, rm.Body, regexp.MustCompile(`fs\.Exists\(|fs\.IsDir\(|fs\.IsEmpty\(|CleanDir`))
	removeLinkFirst := helperOK && iLink >= 0 && iFollow >= 0 && iLink < iFollow
	if iLink >= 0 {
		// inside the link branch nothing may follow the link
		s := norm(p.src(rm.Body.List[iLink]))
		if strings.Contains(s, "fs.Exists(") || strings.Contains(s, "fs.IsDir(") || strings.Contains(s, "CleanDir") {
			removeLinkFirst = false
		}
	}
	jLink := stmtIndex(p, gc.Body, regexp.MustCompile(`^if fs\.isSymbolicLink\(path\) \{ .*return.*\}$`))
	jFollow := stmtIndex(p, gc.Body, regexp.MustCompile(`fs\.Exists\(|fs\.IsDir\(|garbageCollectDir`))
	gcLinkFirst := helperOK && jLink >= 0 && jFollow >= 0 && jLink < jFollow
	facts["remove"] = map[string]int{"linkTest": iLink, "firstFollowingTest": iFollow}
	facts["garbageCollect"] = map[string]int{"linkTest": jLink, "firstFollowingTest": jFollow}
	// are the exclusion patterns handed down to the removal of the entries of a directory?
	deep := false
	if h := p.method("VFS", "removeFileWithContext"); h != nil {
		hs := norm(p.src(h.Body))
		facts["removeFileWithContext"] = hs
		switch {
		case strings.Contains(hs, "fs.RemoveWithContextAndExclusionPatterns(ctx, filepath.Join(dir, f), exclusionPatterns...)"):
			deep = true
		case strings.Contains(hs, "fs.RemoveWithContext(ctx, filepath.Join(dir, f))"):
			deep = false
		default:
			return "", nil, fmt.Errorf("removeFileWithContext not recognised: %s", hs)
		}
	} else {
		return "", nil, fmt.Errorf("removeFileWithContext not found")
	}
	var b strings.Builder
	b.WriteString("namespace GoUtils.Generated.Rm\ndef ok : Bool := true\n")
	fmt.Fprintf(&b, "/-- RemoveWithContextAndExclusionPatterns (%s) unlinks a symbolic link (Lstat) before any link-following test -/\n", p.pos(rm))
	fmt.Fprintf(&b, "def removeLinkFirst : Bool := %s\n", leanBool(removeLinkFirst))
	fmt.Fprintf(&b, "/-- garbageCollect (%s) treats a symbolic link as a leaf before any link-following test -/\n", p.pos(gc))
	fmt.Fprintf(&b, "def gcLinkFirst : Bool := %s\n", leanBool(gcLinkFirst))
	fmt.Fprintf(&b, "/-- the removal of the entries of a directory receives the exclusion patterns too -/\n")
	fmt.Fprintf(&b, "def deepExclusion : Bool := %s\n", leanBool(deep))
	b.WriteString("end GoUtils.Generated.Rm\n")
	return b.String(), facts, nil
}
