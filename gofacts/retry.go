package main

import (
	"fmt"
	"go/ast"
	"path/filepath"
	"regexp"
	"strings"
)

func init() {
	register(area{name: "Retry", run: extractRetry, placeholder: retryPlaceholder})
}

const retryPlaceholder = `import GoUtils.Model.Retry
namespace GoUtils.Generated.Retry
open GoUtils.Retry
def ok : Bool := false
def loop : LoopFacts := default
def expo : ExpoFacts := default
def retryAfter : RetryAfterFacts := default
def policies : PolicyFacts := default
def clientWiredToPolicy : Bool := false
end GoUtils.Generated.Retry
`

func norm(s string) string { return strings.Join(strings.Fields(s), " ") }

func extractRetry(root string) (string, map[string]any, error) {
	facts := map[string]any{}
	// ---------------- retry.RetryIf
	p, err := parseDir(filepath.Join(root, "retry"))
	if err != nil {
		return "", nil, err
	}
	fd := p.funcDecl("RetryIf")
	if fd == nil {
		return "", nil, fmt.Errorf("RetryIf not found")
	}
	body := norm(p.src(fd.Body))
	disabledOnce := strings.Contains(body, "if !retryPolicy.Enabled { return fn() }")
	m := regexp.MustCompile(`retry\.Attempts\(([^)]*\))\)`).FindStringSubmatch(body)
	if m == nil {
		return "", nil, fmt.Errorf("RetryIf: retry.Attempts(...) option not found")
	}
	attemptsFromToUint := m[1] == "safecast.ToUint(retryPolicy.RetryMax)"
	if !attemptsFromToUint {
		return "", nil, fmt.Errorf("RetryIf: attempts expression %q not recognised", m[1])
	}
	lastErrorOnly := strings.Contains(body, "retry.LastErrorOnly(true)")
	if !lastErrorOnly && !strings.Contains(body, "retry.LastErrorOnly(false)") && strings.Contains(body, "LastErrorOnly") {
		return "", nil, fmt.Errorf("RetryIf: LastErrorOnly argument not recognised")
	}
	hasRetryIf := strings.Contains(body, "retry.RetryIf(retryConditionFn)")
	hasCtx := strings.Contains(body, "retry.Context(ctx)")
	convertsCtx := strings.Contains(body, "return commonerrors.ConvertContextError( retry.Do( fn,")
	if !strings.Contains(body, "retry.Do( fn,") {
		return "", nil, fmt.Errorf("RetryIf: retry.Do(fn, …) not found")
	}
	for _, opt := range regexp.MustCompile(`retry\.([A-Za-z]+)\(`).FindAllStringSubmatch(body, -1) {
		switch opt[1] {
		case "CombineDelay", "Do", "OnRetry", "Delay", "MaxDelay", "MaxJitter", "DelayType", "Attempts", "RetryIf", "LastErrorOnly", "Context":
		default:
			return "", nil, fmt.Errorf("RetryIf: unknown retry-go option %s (model does not cover it)", opt[1])
		}
	}
	facts["loop"] = map[string]any{"disabledRunsOnce": disabledOnce, "lastErrorOnly": lastErrorOnly, "retryIf": hasRetryIf, "context": hasCtx, "convertsContextError": convertsCtx}

	// ---------------- http back-off policies
	hp, err := parseDir(filepath.Join(root, "http"))
	if err != nil {
		return "", nil, err
	}
	raGuard := "if p.ConsiderRetryAfter { sleep, found := findRetryAfter(resp) if found { return sleep } }"
	basic := hp.method("BasicRetryPolicy", "Apply")
	linear := hp.method("LinearBackoffPolicy", "Apply")
	expo := hp.method("ExponentialBackoffPolicy", "Apply")
	if basic == nil || linear == nil || expo == nil {
		return "", nil, fmt.Errorf("Apply methods not found")
	}
	bs := norm(hp.src(basic.Body))
	if bs != "{ "+raGuard+" return min }" {
		return "", nil, fmt.Errorf("BasicRetryPolicy.Apply not recognised: %s", bs)
	}
	ls := norm(hp.src(linear.Body))
	if ls != "{ "+raGuard+" return retryablehttp.LinearJitterBackoff(min, max, attemptNum, resp) }" {
		return "", nil, fmt.Errorf("LinearBackoffPolicy.Apply not recognised: %s", ls)
	}
	es := norm(hp.src(expo.Body))
	re := regexp.MustCompile(`^\{ if p\.ConsiderRetryAfter \{ sleep, found := findRetryAfter\(resp\) if found \{ return sleep \} return retryablehttp\.DefaultBackoff\(min, max, attemptNum, resp\) \} mult := math\.Pow\(2, float64\(attemptNum\)\) \* float64\(min\) sleep := time\.Duration\(mult\) if float64\(sleep\) != mult \|\| sleep (>=|>) max \{ sleep = (max|min) \} return sleep \}$`)
	em := re.FindStringSubmatch(es)
	if em == nil {
		return "", nil, fmt.Errorf("ExponentialBackoffPolicy.Apply not recognised: %s", es)
	}
	facts["expo"] = map[string]any{"capOp": em[1], "capValue": em[2]}
	// factory
	fa := hp.funcDecl("BackOffPolicyFactory")
	if fa == nil {
		return "", nil, fmt.Errorf("BackOffPolicyFactory not found")
	}
	fs := norm(hp.src(fa.Body))
	wantF := "{ if cfg == nil || !cfg.Enabled || !cfg.BackOffEnabled { policy = NewBasicRetryPolicy(cfg) return } if cfg.LinearBackOffEnabled { policy = NewLinearBackoffPolicy(cfg) } else { policy = NewExponentialBackoffPolicy(cfg) } return }"
	if fs != wantF {
		return "", nil, fmt.Errorf("BackOffPolicyFactory not recognised: %s", fs)
	}
	wp := hp.funcDecl("NewRetryWaitPolicy")
	if wp == nil || !strings.Contains(norm(hp.src(wp.Body)), "ConsiderRetryAfter: !cfg.RetryAfterDisabled") {
		return "", nil, fmt.Errorf("NewRetryWaitPolicy not recognised")
	}
	// ---------------- findRetryAfter
	fr := hp.funcDecl("findRetryAfter")
	if fr == nil {
		return "", nil, fmt.Errorf("findRetryAfter not found")
	}
	rs := norm(hp.src(fr.Body))
	reRA := regexp.MustCompile(`^\{ if resp != nil \{ if resp\.StatusCode == http\.StatusTooManyRequests \|\| resp\.StatusCode == http\.StatusServiceUnavailable \{ if s, ok := resp\.Header\[headers\.RetryAfter\]; ok \{ retryAfter := s\[0\] if sleep, err := strconv\.ParseInt\(retryAfter, 10, 64\); err == nil \{ if sleep < 0 \{ sleep = 0 \} (.*?)wait = time\.Second \* time\.Duration\(sleep\) found = true \} if afterTime, err := parseDate\(retryAfter\); err == nil \{ found = true if afterTime\.After\(time\.Now\(\)\) \{ wait = time\.Until\(afterTime\) \} else \{ wait = time\.Duration\(0\) \} \} \} \} \} return \}$`)
	rm := reRA.FindStringSubmatch(rs)
	if rm == nil {
		return "", nil, fmt.Errorf("findRetryAfter not recognised: %s", rs)
	}
	clamp := "none"
	switch strings.TrimSpace(rm[1]) {
	case "":
	case "if sleep > math.MaxInt64/int64(time.Second) { sleep = math.MaxInt64 / int64(time.Second) }":
		clamp = "(some 9223372036)"
	default:
		return "", nil, fmt.Errorf("findRetryAfter: unrecognised statement before the multiplication: %s", rm[1])
	}
	facts["retryAfter"] = map[string]any{"statuses": []int{429, 503}, "negativeToZero": true, "upperClampSeconds": clamp}
	// the retryable client takes its attempt limit, its waits, its retry decision and its back-off from the policy
	wired := false
	if hp2, herr := parseDir(filepath.Join(root, "http")); herr == nil {
		if cf := hp2.funcDecl("NewConfigurableRetryableClientWithLoggerFromClient"); cf != nil {
			cs := strings.Join(strings.Fields(hp2.src(cf.Body)), " ")
			wired = true
			for _, need := range []string{"RetryWaitMin: cfg.RetryPolicy.RetryWaitMin,", "RetryWaitMax: cfg.RetryPolicy.RetryWaitMax,", "RetryMax: cfg.RetryPolicy.RetryMax,",
				"CheckRetry: retryablehttp.DefaultRetryPolicy,", "Backoff: BackOffPolicyFactory(&cfg.RetryPolicy).Apply,"} {
				if !strings.Contains(cs, need) {
					wired = false
				}
			}
		}
	}
	facts["clientWiredToPolicy"] = wired
	var b strings.Builder
	b.WriteString("import GoUtils.Model.Retry\nnamespace GoUtils.Generated.Retry\nopen GoUtils.Retry\ndef ok : Bool := true\n")
	fmt.Fprintf(&b, "def loop : LoopFacts := { disabledRunsOnce := %s, lastErrorOnly := %s, usesRetryIf := %s, usesContext := %s, convertsContextError := %s }\n",
		leanBool(disabledOnce), leanBool(lastErrorOnly), leanBool(hasRetryIf), leanBool(hasCtx), leanBool(convertsCtx))
	fmt.Fprintf(&b, "def expo : ExpoFacts := { capIsStrict := %s, capToMax := %s }\n", leanBool(em[1] == ">"), leanBool(em[2] == "max"))
	fmt.Fprintf(&b, "def retryAfter : RetryAfterFacts := { statuses := [429, 503], negativeToZero := true, upperClampSeconds := %s }\n", clamp)
	b.WriteString("def policies : PolicyFacts := { basicReturnsMin := true, retryAfterFirstWhenEnabled := true, factoryDisabledIsBasic := true }\n")
	fmt.Fprintf(&b, "def clientWiredToPolicy : Bool := %s\n", leanBool(wired))
	b.WriteString("end GoUtils.Generated.Retry\n")
	_ = ast.Inspect
	return b.String(), facts, nil
}
