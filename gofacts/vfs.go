package main

import (
	"fmt"
	"go/ast"
	"path/filepath"
	"sort"
	"strings"
)

func init() {
	register(area{name: "Vfs", run: extractVfs, placeholder: vfsPlaceholder})
}

const vfsPlaceholder = `import GoUtils.Model.VfsTable
namespace GoUtils.Generated.Vfs
open GoUtils.VfsTable
def ok : Bool := false
def methods : List MethodFact := []
def loopsTouchingBackendWithoutContextTest : List String := ["?"]
end GoUtils.Generated.Vfs
`

type vfsFn struct {
	name     string
	exported bool
	isMethod bool
	hasCtx   bool
	guardPos int // position (event index) of the first closed-resource guard, -1 if none
	ctxPos   int // first DetermineContextError(ctx)
	backPos  int // first direct backend access (fs.vfs…)
	mutPos   int // first direct MUTATING backend access
	callees  []struct {
		name string
		pos  int
	}
	events []string // in source order: "ctx", "mut", "callee:<name>"
}

var mutatingBackend = map[string]bool{"Create": true, "Mkdir": true, "MkdirAll": true, "OpenFile": true, "Remove": true, "RemoveAll": true, "Rename": true,
	"Chmod": true, "Chown": true, "Chtimes": true, "SymlinkIfPossible": true, "LchownIfPossible": true}

// Vfs: for every function of package filesystem working on a VFS (methods of *VFS, and package
// functions with a parameter `fs`): order of the closed-resource guard, the context test, direct
// backend accesses and calls to other such functions (source order, flow-insensitive).
func extractVfs(root string) (string, map[string]any, error) {
	p, err := parseDir(filepath.Join(root, "filesystem"))
	if err != nil {
		return "", nil, err
	}
	var fns []*vfsFn
	var loopsNoCtx []string
	byName := map[string]*vfsFn{}
	var fileNames []string
	for n := range p.files {
		fileNames = append(fileNames, n)
	}
	sort.Strings(fileNames)
	for _, fname := range fileNames {
		if strings.HasSuffix(fname, "_verif.go") {
			continue
		}
		for _, d := range p.files[fname].Decls {
			fd, ok := d.(*ast.FuncDecl)
			if !ok || fd.Body == nil {
				continue
			}
			recv := ""
			isMethod := false
			if fd.Recv != nil && len(fd.Recv.List) == 1 && recvName(fd.Recv.List[0].Type) == "VFS" && len(fd.Recv.List[0].Names) == 1 {
				recv = fd.Recv.List[0].Names[0].Name
				isMethod = true
			} else if fd.Recv == nil {
				for _, prm := range fd.Type.Params.List {
					t := p.src(prm.Type)
					if (t == "FS" || t == "*VFS") && len(prm.Names) == 1 {
						recv = prm.Names[0].Name
					}
				}
			}
			if recv == "" {
				continue
			}
			f := &vfsFn{name: fd.Name.Name, exported: fd.Name.IsExported(), isMethod: isMethod, guardPos: -1, ctxPos: -1, backPos: -1, mutPos: -1}
			for _, prm := range fd.Type.Params.List {
				if p.src(prm.Type) == "context.Context" {
					f.hasCtx = true
				}
			}
			pos := 0
			ast.Inspect(fd.Body, func(n ast.Node) bool {
				switch x := n.(type) {
				case *ast.CallExpr:
					src := p.src(x.Fun)
					switch {
					case src == recv+".checkWhetherUnderlyingResourceIsClosed":
						if f.guardPos < 0 {
							f.guardPos = pos
						}
					case src == "parallelisation.DetermineContextError":
						if f.ctxPos < 0 {
							f.ctxPos = pos
						}
						f.events = append(f.events, "ctx")
					case strings.HasPrefix(src, recv+".vfs."):
						if f.backPos < 0 {
							f.backPos = pos
						}
						if mutatingBackend[strings.TrimPrefix(src, recv+".vfs.")] {
							if f.mutPos < 0 {
								f.mutPos = pos
							}
							f.events = append(f.events, "mut")
						}
					case strings.HasPrefix(src, recv+".") && strings.Count(src, ".") == 1:
						f.callees = append(f.callees, struct {
							name string
							pos  int
						}{strings.TrimPrefix(src, recv+"."), pos})
						f.events = append(f.events, "callee:"+strings.TrimPrefix(src, recv+"."))
					default:
						// package function receiving the filesystem as an argument
						if id, ok := x.Fun.(*ast.Ident); ok {
							for _, a := range x.Args {
								if isIdent(a, recv) {
									f.callees = append(f.callees, struct {
										name string
										pos  int
									}{id.Name, pos})
									f.events = append(f.events, "callee:"+id.Name)
								}
							}
						}
					}
					pos++
				case *ast.SelectorExpr:
					// fs.vfs handed to something else (e.g. afero helpers): a backend access
					if p.src(x) == recv+".vfs" && f.backPos < 0 {
						f.backPos = pos
					}
				}
				return true
			})
			if f.hasCtx {
				// loops: a loop whose body touches the filesystem through a call that does not take the context
				// must test the context itself (once per iteration)
				ast.Inspect(fd.Body, func(n ast.Node) bool {
					var body *ast.BlockStmt
					switch l := n.(type) {
					case *ast.ForStmt:
						body = l.Body
					case *ast.RangeStmt:
						body = l.Body
					}
					if body == nil {
						return true
					}
					direct, touchesWithoutCtx := false, false
					ast.Inspect(body, func(m ast.Node) bool {
						if _, isLit := m.(*ast.FuncLit); isLit {
							return false // closures run elsewhere (goroutines, callbacks)
						}
						c, ok := m.(*ast.CallExpr)
						if !ok {
							return true
						}
						src := p.src(c.Fun)
						if src == "parallelisation.DetermineContextError" {
							direct = true
							return true
						}
						takesCtx := false
						for _, a := range c.Args {
							if isIdent(a, "ctx") {
								takesCtx = true
							}
						}
						touches := strings.HasPrefix(src, recv+".")
						if id, ok := c.Fun.(*ast.Ident); ok && !touches {
							for _, a := range c.Args {
								if isIdent(a, recv) {
									touches = true
									_ = id
								}
							}
						}
						if touches && !takesCtx && src != recv+".checkWhetherUnderlyingResourceIsClosed" && src != recv+".PathSeparator" && src != recv+".pathConverter" {
							touchesWithoutCtx = true
						}
						return true
					})
					if touchesWithoutCtx && !direct {
						loopsNoCtx = append(loopsNoCtx, f.name)
					}
					return true
				})
			}
			if prev, dup := byName[f.name]; dup {
				_ = prev
				continue // platform variants: first one wins (build context already filtered)
			}
			byName[f.name] = f
			fns = append(fns, f)
		}
	}
	if len(fns) < 50 {
		return "", nil, fmt.Errorf("only %d VFS functions found", len(fns))
	}
	idx := map[string]int{}
	for i, f := range fns {
		idx[f.name] = i
	}
	var items []string
	summary := map[string]any{}
	for _, f := range fns {
		var before, all []string
		for _, c := range f.callees {
			j, ok := idx[c.name]
			if !ok {
				continue // not a VFS function (helper without backend access)
			}
			all = append(all, fmt.Sprint(j))
			if f.guardPos < 0 || c.pos < f.guardPos {
				before = append(before, fmt.Sprint(j))
			}
		}
		var beforeCtx []string
		for _, c := range f.callees {
			if j, ok := idx[c.name]; ok && (f.ctxPos < 0 || c.pos < f.ctxPos) {
				beforeCtx = append(beforeCtx, fmt.Sprint(j))
			}
		}
		// first event among {guard, direct backend access, call of another VFS function}
		first, firstPos := "none", 1<<30
		if f.guardPos >= 0 && f.guardPos < firstPos {
			first, firstPos = "guard", f.guardPos
		}
		if f.backPos >= 0 && f.backPos < firstPos {
			first, firstPos = "backend", f.backPos
		}
		for _, c := range f.callees {
			if j, ok := idx[c.name]; ok && c.pos < firstPos {
				first, firstPos = fmt.Sprintf("callee %d", j), c.pos
			}
		}
		var evs []string
		for _, e := range f.events {
			switch {
			case e == "ctx":
				evs = append(evs, ".ctx")
			case e == "mut":
				evs = append(evs, ".mut")
			default:
				if j, ok := idx[strings.TrimPrefix(e, "callee:")]; ok {
					evs = append(evs, fmt.Sprintf(".callee %d", j))
				}
			}
		}
		guardBeforeBackend := f.backPos < 0 || (f.guardPos >= 0 && f.guardPos < f.backPos)
		ctxBeforeMut := f.mutPos < 0 || (f.ctxPos >= 0 && f.ctxPos < f.mutPos)
		items = append(items, fmt.Sprintf("{ name := %s, exported := %s, isMethod := %s, hasCtx := %s, usesBackend := %s, mutatesBackend := %s, guardBeforeBackend := %s, ctxBeforeMutation := %s, first := .%s, events := [%s], calleesBeforeGuard := [%s], calleesBeforeCtx := [%s], callees := [%s] }",
			leanStr(f.name), leanBool(f.exported), leanBool(f.isMethod), leanBool(f.hasCtx), leanBool(f.backPos >= 0), leanBool(f.mutPos >= 0), leanBool(guardBeforeBackend), leanBool(ctxBeforeMut), first, strings.Join(evs, ", "),
			strings.Join(before, ", "), strings.Join(beforeCtx, ", "), strings.Join(all, ", ")))
	}
	summary["functions"] = len(fns)
	var ctxEntry []string
	for _, f := range fns {
		if f.exported && f.hasCtx {
			ctxEntry = append(ctxEntry, f.name)
		}
	}
	summary["ctxEntryPoints"] = ctxEntry
	summary["loopsTouchingBackendWithoutContextTest"] = uniqueSorted(loopsNoCtx)
	lean := "import GoUtils.Model.VfsTable\nnamespace GoUtils.Generated.Vfs\nopen GoUtils.VfsTable\ndef ok : Bool := true\ndef methods : List MethodFact := [\n  " +
		strings.Join(items, ",\n  ") + "]\n" +
		"/-- context-accepting functions with a loop whose body touches the filesystem through a call that does not take the context and that does not test the context itself -/\n" +
		"def loopsTouchingBackendWithoutContextTest : List String := [" + strings.Join(quoteAll(uniqueSorted(loopsNoCtx)), ", ") + "]\n" +
		"end GoUtils.Generated.Vfs\n"
	return lean, summary, nil
}

func uniqueSorted(l []string) []string {
	m := map[string]bool{}
	var out []string
	for _, x := range l {
		if !m[x] {
			m[x] = true
			out = append(out, x)
		}
	}
	sort.Strings(out)
	return out
}

func quoteAll(l []string) []string {
	out := make([]string, len(l))
	for i, x := range l {
		out[i] = leanStr(x)
	}
	return out
}
