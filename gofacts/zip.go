package main

import (
	"fmt"
	"go/ast"
	"path/filepath"
	"regexp"
	"strings"
)

func init() {
	register(area{name: "Zip", run: extractZip, placeholder: zipPlaceholder})
}

const zipPlaceholder = `import GoUtils.Model.ZipPath
import GoUtils.Model.Unzip
import GoUtils.Model.Archive
namespace GoUtils.Generated.Zip
def ok : Bool := false
def sanitise : GoUtils.ZipPath.SanitiseFacts := default
def limits : GoUtils.Unzip.LimitFacts := default
def zipReplacesDestination : Bool := false
def extract : GoUtils.Archive.ExtractFacts := default
def zipWritesDirEntries : Bool := false
end GoUtils.Generated.Zip
`

func cmpOf(body, pattern string) (string, error) {
	re := regexp.MustCompile(pattern)
	m := re.FindStringSubmatch(body)
	if m == nil {
		return "", fmt.Errorf("pattern not found: %s", pattern)
	}
	switch m[1] {
	case ">":
		return "true", nil
	case ">=":
		return "false", nil
	}
	return "", fmt.Errorf("unexpected operator %q", m[1])
}

func extractZip(root string) (string, map[string]any, error) {
	p, err := parseDir(filepath.Join(root, "filesystem"))
	if err != nil {
		return "", nil, err
	}
	sf := p.funcDecl("sanitiseZipExtractPath")
	if sf == nil {
		return "", nil, fmt.Errorf("sanitiseZipExtractPath not found")
	}
	sb := norm(p.src(sf.Body))
	wantS := "{ destPath = filepath.Join(destination, filePath) if destPath == destination { return } if !strings.Contains(destPath, \"..\") { if strings.HasPrefix(destPath, fmt.Sprintf(\"%v%v\", destination, string(fs.PathSeparator()))) { return } if strings.HasPrefix(destPath, fmt.Sprintf(\"%v/\", destination)) { return } } err = commonerrors.Newf(commonerrors.ErrMalicious, \"zip slip security breach detected, file dirPath '%s' not in destination directory '%s'\", filePath, destination) return }"
	if sb != wantS {
		return "", nil, fmt.Errorf("sanitiseZipExtractPath not recognised: %s", sb)
	}
	um := p.method("VFS", "unzip")
	if um == nil {
		return "", nil, fmt.Errorf("(*VFS).unzip not found")
	}
	ub := norm(p.src(um.Body))
	cleans := strings.Contains(ub, "destination = filepath.Clean(destination) err = fs.MkDir(destination)")
	iSan := strings.Index(ub, "filePath, subErr := sanitiseZipExtractPath(fs, zippedFile.Name, destination) if subErr != nil { return")
	if iSan < 0 {
		return "", nil, fmt.Errorf("unzip: sanitise call with its error return not found")
	}
	loopStart := strings.Index(ub, "for i := range zipReader.File {")
	if loopStart < 0 || loopStart > iSan {
		return "", nil, fmt.Errorf("unzip: loop not recognised")
	}
	before := true
	for _, mut := range []string{"fs.MkDir(filePath)", "fs.MkDir(directoryPath)", "fs.unzipZippedFile(", "fs.unzipNestedZipFiles("} {
		j := strings.Index(ub[loopStart:], mut)
		if j < 0 {
			return "", nil, fmt.Errorf("unzip: expected call %s not found", mut)
		}
		if loopStart+j < iSan {
			before = false
		}
	}
	// any other mutating call between the loop start and the sanitise call?
	for _, mut := range []string{"MkDir(", "OpenFile(", "Rm(", "Chtimes(", "WriteFile(", "Remove"} {
		if strings.Contains(ub[loopStart:iSan], mut) {
			before = false
		}
	}
	// ---- limits (C03)
	type op struct{ name, pat, where string }
	nz := p.funcDecl("newZipReader")
	uz := p.method("VFS", "unzipZippedFile")
	if nz == nil || uz == nil {
		return "", nil, fmt.Errorf("newZipReader / unzipZippedFile not found")
	}
	nb, zb := norm(p.src(nz.Body)), norm(p.src(uz.Body))
	ops := []op{
		{"archiveDepthStrict", `limits\.Apply\(\) && limits\.GetMaxDepth\(\) >= 0 && currentDepth (>=|>) limits\.GetMaxDepth\(\)`, nb},
		{"archiveSizeStrict", `limits\.Apply\(\) && zipFileSize (>=|>) limits\.GetMaxFileSize\(\)`, nb},
		{"entryDepthStrict", `if limits\.Apply\(\) && limits\.GetMaxDepth\(\) >= 0 \{ depth, subErr := FileTreeDepth\(fs, destination, filePath\) fileDepth = depth \+ currentDepth if subErr != nil \{ return fileList, fileCounter\.Load\(\), totalSizeOnDisk\.Load\(\), subErr \} if fileDepth (>=|>) limits\.GetMaxDepth\(\)`, ub},
		{"totalStrict", `if limits\.Apply\(\) && totalSizeOnDisk\.Load\(\) (>=|>) limits\.GetMaxTotalSize\(\)`, ub},
		{"countStrict", `limits\.Apply\(\) && filecount <= math\.MaxInt64 && safecast\.ToInt64\(filecount\) (>=|>) limits\.GetMaxFileCount\(\)`, ub},
		{"fileSizeStrict", `if limits\.Apply\(\) \{ if fileSizeOnDisk (>=|>) limits\.GetMaxFileSize\(\)`, zb},
	}
	vals := map[string]string{}
	for _, o := range ops {
		v, err := cmpOf(o.where, o.pat)
		if err != nil {
			return "", nil, fmt.Errorf("%s: %w", o.name, err)
		}
		vals[o.name] = v
	}
	copiesDeclared := strings.Contains(zb, "fileSizeOnDisk = info.Size()") && strings.Contains(zb, "safeio.CopyNWithContext(ctx, sourceFile, destinationFile, fileSizeOnDisk)")
	sizeCheckBeforeCopy := strings.Index(zb, "fileSizeOnDisk > limits.GetMaxFileSize()") >= 0 && strings.Index(zb, "fileSizeOnDisk > limits.GetMaxFileSize()") < strings.Index(zb, "safeio.CopyNWithContext(")
	if vals["fileSizeStrict"] == "false" {
		sizeCheckBeforeCopy = strings.Index(zb, "fileSizeOnDisk >= limits.GetMaxFileSize()") < strings.Index(zb, "safeio.CopyNWithContext(")
	}
	nestedDepth := strings.Contains(norm(p.src(p.method("VFS", "unzipNestedZipFiles").Body)), "fs.unzip(ctx, nestedZipFile, destination, limits, currentDepth+1)")
	countsSkipZipNames := strings.Contains(ub, "if !(limits.ApplyRecursively() && fs.isZipWithContext(ctx, zippedFile.Name)) { fileCounter.Inc() fileList = append(fileList, filePath) }")
	checksAfterEachFile := strings.Index(ub, "totalSizeOnDisk.Load() > limits.GetMaxTotalSize()") > strings.Index(ub, "fs.unzipZippedFile(")
	// every iteration that extracts a file must fall through to the two checks: the only `continue`
	// allowed in the loop is the one that ends the directory case, and no `break` / `goto`
	var loop *ast.RangeStmt
	ast.Inspect(um.Body, func(n ast.Node) bool {
		if r, ok := n.(*ast.RangeStmt); ok && loop == nil && p.src(r.X) == "zipReader.File" {
			loop = r
		}
		return true
	})
	if loop == nil {
		return "", nil, fmt.Errorf("unzip: range over zipReader.File not found")
	}
	var dirIf *ast.IfStmt
	for _, st := range loop.Body.List {
		if ifs, ok := st.(*ast.IfStmt); ok && p.src(ifs.Cond) == "zippedFile.FileInfo().IsDir()" {
			dirIf = ifs
		}
	}
	ast.Inspect(loop.Body, func(n ast.Node) bool {
		if b, ok := n.(*ast.BranchStmt); ok {
			inDir := dirIf != nil && b.Pos() >= dirIf.Pos() && b.End() <= dirIf.End()
			if !(b.Tok.String() == "continue" && inDir) {
				checksAfterEachFile = false
			}
		}
		return true
	})
	// the two checks must be the last statements of the loop body
	nst := len(loop.Body.List)
	if nst < 2 || !strings.Contains(norm(p.src(loop.Body.List[nst-2])), "totalSizeOnDisk.Load()") || !strings.Contains(norm(p.src(loop.Body.List[nst-1])), "limits.GetMaxFileCount()") {
		checksAfterEachFile = false
	}
	// the archive is written into a file that is created or TRUNCATED (fs.CreateFile), and its writer is closed with the error reported
	zipReplaces := false
	if zm := p.method("VFS", "ZipWithContextAndLimitsAndExclusionPatterns"); zm != nil {
		zb := norm(p.src(zm.Body))
		cf := p.method("VFS", "CreateFile")
		createTruncates := cf != nil && strings.Contains(norm(p.src(cf.Body)), "fs.vfs.Create(")
		zipReplaces = createTruncates && strings.Contains(zb, "file, err := fs.CreateFile(destination)") && strings.Contains(zb, "w := zip.NewWriter(file)") &&
			strings.Contains(zb, "if err == nil { err = w.Close() }")
	}
	// ---- the extraction loop as Model.Archive reads it (C07): the destination is created before the loop, a directory
	// entry is created, the directory of a file entry is created before the file is opened, MkDir is `mkdir -p`
	mk := p.method("VFS", "MkDir")
	if mk == nil || norm(p.src(mk.Body)) != "{ return fs.MkDirAll(dir, 0755) }" {
		return "", nil, fmt.Errorf("VFS.MkDir is not MkDirAll any more")
	}
	iDest := strings.Index(ub, "destination = filepath.Clean(destination) err = fs.MkDir(destination) if err != nil { return }")
	if iDest < 0 || iDest > loopStart {
		return "", nil, fmt.Errorf("unzip: creation of the destination before the loop not recognised")
	}
	dirEntriesCreated := dirIf != nil && len(dirIf.Body.List) > 1 && norm(p.src(dirIf.Body.List[0])) == "subErr = fs.MkDir(filePath)" &&
		strings.HasPrefix(norm(p.src(dirIf.Body.List[1])), "if subErr != nil { return ")
	iParent := strings.Index(ub, "directoryPath := filepath.Dir(filePath) subErr = fs.MkDir(directoryPath) if subErr != nil { return ")
	iFile := strings.Index(ub, "fs.unzipZippedFile(ctx, filePath, zippedFile,")
	if iFile < 0 {
		return "", nil, fmt.Errorf("unzip: call of unzipZippedFile not recognised")
	}
	parentsFirst := iParent >= 0 && iParent < iFile
	if !parentsFirst {
		// for archives written by Zip itself (directories listed before their content) this order does not matter, so
		// the model's refutation (a file listed before its directory) is not a failing input of the round trip: the
		// shape is reported as not recognised and the check searches for a failing input instead
		return "", nil, fmt.Errorf("unzip: creation of the parent directory before the file is opened not recognised")
	}
	// the walk of Zip writes an entry for every directory below the source (name + "/"), and a file entry under the relative path
	zipWritesDirs := false
	if zm := p.method("VFS", "ZipWithContextAndLimitsAndExclusionPatterns"); zm != nil {
		zb := norm(p.src(zm.Body))
		dirRe := regexp.MustCompile(`if info\.IsDir\(\) \{ if path == source \{ return nil \} header := &zip\.FileHeader\{ Name: relPath \+ "/", Method: zip\.Deflate, Modified: info\.ModTime\(\), \} _, err = w\.CreateHeader\(header\) return err \}`)
		fileRe := regexp.MustCompile(`relPath, err = filepath\.Rel\(source, path\) if err != nil \{ return err \} header := &zip\.FileHeader\{ Name: relPath, Method: zip\.Deflate, Modified: info\.ModTime\(\), \} dest, err := w\.CreateHeader\(header\)`)
		if !fileRe.MatchString(zb) || !strings.Contains(zb, "relPath, err := filepath.Rel(source, path)") {
			return "", nil, fmt.Errorf("Zip: file entries of the walk not recognised")
		}
		switch {
		case dirRe.MatchString(zb):
			zipWritesDirs = true
		case strings.Contains(zb, "if info.IsDir() { return nil }"):
			zipWritesDirs = false // directories are skipped altogether: the model's witness (an empty directory) is a failing input
		default:
			return "", nil, fmt.Errorf("Zip: directory entries of the walk not recognised")
		}
	}
	lean := fmt.Sprintf("import GoUtils.Model.ZipPath\nimport GoUtils.Model.Unzip\nimport GoUtils.Model.Archive\nnamespace GoUtils.Generated.Zip\ndef ok : Bool := true\n"+
		"def sanitise : GoUtils.ZipPath.SanitiseFacts := { joinsDestFirst := true, acceptsDestItself := true, rejectsDotDot := true, prefixWithSeparator := true, sanitiseBeforeMutation := %s, cleansDestination := %s }\n"+
		"def limits : GoUtils.Unzip.LimitFacts := { archiveDepthStrict := %s, archiveSizeStrict := %s, entryDepthStrict := %s, totalStrict := %s, countStrict := %s, fileSizeStrict := %s, copiesDeclaredSize := %s, sizeCheckBeforeCopy := %s, nestedDepthPlusOne := %s, zipNamesCountedAfterExtraction := %s, checksAfterEachFile := %s }\n"+
		"/-- Zip writes into a created-or-truncated destination and reports the error of closing the archive -/\ndef zipReplacesDestination : Bool := "+leanBool(zipReplaces)+"\n"+
		"def extract : GoUtils.Archive.ExtractFacts := { dirEntriesCreated := "+leanBool(dirEntriesCreated)+", parentsCreatedBeforeFiles := "+leanBool(parentsFirst)+" }\n"+
		"def zipWritesDirEntries : Bool := "+leanBool(zipWritesDirs)+"\n"+
		"end GoUtils.Generated.Zip\n",
		leanBool(before), leanBool(cleans), vals["archiveDepthStrict"], vals["archiveSizeStrict"], vals["entryDepthStrict"], vals["totalStrict"], vals["countStrict"], vals["fileSizeStrict"],
		leanBool(copiesDeclared), leanBool(sizeCheckBeforeCopy), leanBool(nestedDepth), leanBool(countsSkipZipNames), leanBool(checksAfterEachFile))
	f := map[string]any{"sanitiseBeforeMutation": before, "cleansDestination": cleans, "copiesDeclared": copiesDeclared, "sizeCheckBeforeCopy": sizeCheckBeforeCopy, "nestedDepthPlusOne": nestedDepth}
	for k, v := range vals {
		f[k] = v
	}
	return lean, f, nil
}
