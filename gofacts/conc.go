package main

import (
	"fmt"
	"path/filepath"
	"regexp"
	"strings"
)

func init() {
	register(area{name: "Conc", run: extractConc, placeholder: concPlaceholder})
}

const concPlaceholder = `import GoUtils.Model.Runner
import GoUtils.Model.CtxRunner
namespace GoUtils.Generated.Conc
open GoUtils.Runner
def ok : Bool := false
def runner : Facts := default
def parallelise : PFacts := default
def store : StoreFacts := default
def ctxRunner : CtxFacts := default
def ctxBlock : GoUtils.CtxRunner.Facts := default
end GoUtils.Generated.Conc
`

func chanCap(body, name string) (string, error) {
	m := regexp.MustCompile(name + ` := make\(chan [a-zA-Z.]+(?:, ([a-zA-Z0-9]+))?\)`).FindStringSubmatch(body)
	if m == nil {
		return "", fmt.Errorf("channel %s not found", name)
	}
	if m[1] == "" {
		return "0", nil
	}
	return m[1], nil
}

func extractConc(root string) (string, map[string]any, error) {
	p, err := parseDir(filepath.Join(root, "parallelisation"))
	if err != nil {
		return "", nil, err
	}
	fd := p.funcDecl("RunActionWithTimeout")
	if fd == nil {
		return "", nil, fmt.Errorf("RunActionWithTimeout not found")
	}
	body := norm(p.src(fd.Body))
	rc, err := chanCap(body, "channel")
	if err != nil {
		return "", nil, err
	}
	sc, err := chanCap(body, "stop")
	if err != nil {
		return "", nil, err
	}
	rest := regexp.MustCompile(`^\{ channel := make\(chan error(?:, \d+)?\) stop := make\(chan bool(?:, \d+)?\) completed := atomic\.NewBool\(false\) go func\(action func\(stop chan bool\) error\) \{ channel <- action\(stop\) \}\(blockingAction\) select \{ case err = <-channel: completed\.Store\(true\) case <-time\.After\(timeout\): stop <- true err = commonerrors\.ErrTimeout \} if !completed\.Load\(\) \{ <-channel \} return \}$`)
	if !rest.MatchString(body) {
		return "", nil, fmt.Errorf("RunActionWithTimeout not recognised: %s", body)
	}
	// Parallelise
	pd := p.funcDecl("Parallelise")
	if pd == nil {
		return "", nil, fmt.Errorf("Parallelise not found")
	}
	pb := norm(p.src(pd.Body))
	capIsLen := strings.Contains(pb, "length := argListValue.Len() channel := make(chan result, length)")
	oneGoPerArg := strings.Contains(pb, "for i := 0; i < length; i++ { go func(args reflect.Value, actionFunc func(arg interface{}) (interface{}, error)) {") && strings.Contains(pb, "channel <- r }(argListValue.Index(i), action) }")
	collects := strings.Contains(pb, "for i := 0; i < length; i++ { r := <-channel err = r.err if err != nil { return }")
	if !oneGoPerArg || !collects {
		return "", nil, fmt.Errorf("Parallelise not recognised: %s", pb)
	}
	// CancelFunctionStore
	reg := p.method("CancelFunctionStore", "RegisterCancelFunction")
	can := p.method("CancelFunctionStore", "Cancel")
	if reg == nil || can == nil {
		return "", nil, fmt.Errorf("CancelFunctionStore methods not found")
	}
	rs, cs := norm(p.src(reg.Body)), norm(p.src(can.Body))
	regExclusive := rs == "{ defer s.mu.Unlock() s.mu.Lock() s.cancelFunctions = append(s.cancelFunctions, cancel...) }"
	var cancelLock string
	switch cs {
	case "{ defer s.mu.RUnlock() s.mu.RLock() for _, c := range s.cancelFunctions { c() } }":
		cancelLock = "shared"
	case "{ defer s.mu.Unlock() s.mu.Lock() for _, c := range s.cancelFunctions { c() } }":
		cancelLock = "exclusive"
	default:
		return "", nil, fmt.Errorf("CancelFunctionStore.Cancel not recognised: %s", cs)
	}
	if !regExclusive {
		return "", nil, fmt.Errorf("RegisterCancelFunction not recognised: %s", rs)
	}
	// the context-based runner: which kind it answers with
	cr := p.funcDecl("RunActionWithTimeoutAndCancelStore")
	if cr == nil {
		return "", nil, fmt.Errorf("RunActionWithTimeoutAndCancelStore not found")
	}
	cb := norm(p.src(cr.Body))
	crRe := regexp.MustCompile(`^\{ err := DetermineContextError\(ctx\) if err != nil \{ return err \} timeoutContext, timeoutCancel := context\.WithTimeout\(ctx, timeout\) store\.RegisterCancelFunction\(timeoutCancel\) defer timeoutCancel\(\) cancelCtx, actionCancel := context\.WithCancel\(ctx\) store\.RegisterCancelFunction\(actionCancel\) channel := make\(chan error, 1\) go func\(actionCtx context\.Context, action func\(context\.Context\) error\) \{ channel <- action\(actionCtx\) \}\(cancelCtx, blockingAction\) select \{ case err = <-channel: if err != nil \{ actionCancel\(\) <-cancelCtx\.Done\(\) \} err2 := DetermineContextError\(timeoutContext\) if err2 != nil \{ (<-channel )?return err2 \} timeoutCancel\(\) return err case <-timeoutContext\.Done\(\): actionCancel\(\) timeoutCancel\(\) <-cancelCtx\.Done\(\) <-channel return (DetermineContextError\(timeoutContext\)|commonerrors\.ErrTimeout) \} \}$`)
	cm := crRe.FindStringSubmatch(cb)
	if cm == nil {
		return "", nil, fmt.Errorf("RunActionWithTimeoutAndCancelStore not recognised: %s", cb)
	}
	secondReceive := cm[1] != ""
	doneKindFromCtx := cm[2] == "DetermineContextError(timeoutContext)"
	wc := p.funcDecl("RunActionWithTimeoutAndContext")
	if wc == nil || norm(p.src(wc.Body)) != "{ store := NewCancelFunctionsStore() defer store.Cancel() return RunActionWithTimeoutAndCancelStore(ctx, timeout, store, blockingAction) }" {
		return "", nil, fmt.Errorf("RunActionWithTimeoutAndContext not recognised")
	}
	lean := fmt.Sprintf("import GoUtils.Model.Runner\nimport GoUtils.Model.CtxRunner\nnamespace GoUtils.Generated.Conc\nopen GoUtils.Runner\ndef ok : Bool := true\n"+
		"def runner : Facts := { resultCap := %s, stopCap := %s, waitsForAction := true }\n"+
		"def parallelise : PFacts := { chanCapIsArgCount := %s, oneGoroutinePerArg := true, stopsAtFirstError := true }\n"+
		"def store : StoreFacts := { registerExclusive := true, cancelHoldsLock := true, cancelInvokesAll := true }\n"+
		"def ctxRunner : CtxFacts := { entryTestsParent := true, resultBranchRechecksContext := true, doneBranchKindFromContext := %s }\n"+
		"def ctxBlock : GoUtils.CtxRunner.Facts := { resultBranchReceivesAgain := %s }\nend GoUtils.Generated.Conc\n",
		rc, sc, leanBool(capIsLen), leanBool(doneKindFromCtx), leanBool(secondReceive))
	return lean, map[string]any{"resultCap": rc, "stopCap": sc, "paralleliseCapIsLen": capIsLen, "cancelLock": cancelLock, "ctxRunnerDoneBranchKindFromContext": doneKindFromCtx, "ctxRunnerReadsTheResultTwice": secondReceive}, nil
}
