package main

import (
	"regexp"
	"fmt"
	"go/ast"
	"go/token"
	"path/filepath"
	"strings"
)

func init() {
	register(area{name: "Hash", run: extractHash, placeholder: hashPlaceholder})
}

const hashPlaceholder = `import GoUtils.Model.Hash
namespace GoUtils.Generated.Hash
open GoUtils.Hash
def ok : Bool := false
def skeleton : CalcFacts := default
def freshStatePerHasher : Bool := false
end GoUtils.Generated.Hash
`

// Skeleton of (*hashingAlgo).CalculateWithContext: where, relative to the copy into h.Hash, the
// hasher is Reset. Every top-level statement must be one of the recognised forms (fails closed).
func extractHash(root string) (string, map[string]any, error) {
	p, err := parseDir(filepath.Join(root, "hashing"))
	if err != nil {
		return "", nil, err
	}
	fd := p.method("hashingAlgo", "CalculateWithContext")
	if fd == nil {
		return "", nil, fmt.Errorf("(*hashingAlgo).CalculateWithContext not found")
	}
	recv := fd.Recv.List[0].Names[0].Name
	isReset := func(e ast.Expr) bool {
		c, ok := e.(*ast.CallExpr)
		return ok && len(c.Args) == 0 && p.src(c.Fun) == recv+".Hash.Reset"
	}
	var resetBefore, resetOnError, resetAfter, deferred bool
	stage := 0 // 0 before copy, 1 after copy (expect error guard), 2 after guard (expect sum), 3 after sum
	for _, s := range fd.Body.List {
		switch st := s.(type) {
		case *ast.IfStmt:
			cond := p.src(st.Cond)
			if stage == 0 && strings.HasSuffix(cond, "== nil") { // nil-reader guard
				continue
			}
			if stage == 1 && cond == "err != nil" {
				for _, b := range st.Body.List {
					if es, ok := b.(*ast.ExprStmt); ok && isReset(es.X) {
						resetOnError = true
					} else if _, ok := b.(*ast.ReturnStmt); ok {
					} else {
						return "", nil, fmt.Errorf("unrecognised statement in error guard at %s", p.pos(b))
					}
				}
				stage = 2
				continue
			}
			return "", nil, fmt.Errorf("unrecognised if at %s", p.pos(st))
		case *ast.DeferStmt:
			if stage == 0 && isReset(st.Call) {
				deferred = true
				continue
			}
			return "", nil, fmt.Errorf("unrecognised defer at %s", p.pos(st))
		case *ast.ExprStmt:
			if isReset(st.X) {
				switch stage {
				case 0:
					resetBefore = true
				case 3:
					resetAfter = true
				default:
					return "", nil, fmt.Errorf("Reset at unexpected place %s", p.pos(st))
				}
				continue
			}
			return "", nil, fmt.Errorf("unrecognised call at %s", p.pos(st))
		case *ast.AssignStmt:
			src := p.src(st)
			if stage == 0 && st.Tok == token.ASSIGN && strings.Contains(src, "safeio.CopyDataWithContext(") && strings.Contains(src, recv+".Hash)") {
				stage = 1
				continue
			}
			if stage == 2 && strings.Contains(src, recv+".Hash.Sum(nil)") && strings.Contains(src, "hex.EncodeToString(") {
				stage = 3
				continue
			}
			return "", nil, fmt.Errorf("unrecognised assignment at %s: %s", p.pos(st), src)
		case *ast.ReturnStmt:
			if stage == 3 {
				continue
			}
			return "", nil, fmt.Errorf("early return at %s", p.pos(st))
		default:
			return "", nil, fmt.Errorf("unrecognised statement at %s", p.pos(s))
		}
	}
	if stage != 3 {
		return "", nil, fmt.Errorf("skeleton incomplete (stage %d)", stage)
	}
	if deferred {
		resetOnError, resetAfter = true, true
	}
	// every hasher object owns its state: the constructors of the underlying hashes are called inside
	// NewHashingAlgorithm (one call per algorithm) and no package-level variable holds a hash state
	ctors := []string{"md5.New()", "sha1.New()", "sha256.New()", "blake2b.New256(nil)", "xxhash.New64()", "murmur3.New64()"}
	fresh := true
	nh := p.funcDecl("NewHashingAlgorithm")
	if nh == nil {
		return "", nil, fmt.Errorf("NewHashingAlgorithm not found")
	}
	nhSrc := norm(p.src(nh.Body))
	for _, c := range ctors {
		if !strings.Contains(nhSrc, c) {
			fresh = false
		}
	}
	for _, f := range p.files {
		for _, d := range f.Decls {
			gd, ok := d.(*ast.GenDecl)
			if !ok || gd.Tok != token.VAR {
				continue
			}
			for _, sp := range gd.Specs {
				vs, ok := sp.(*ast.ValueSpec)
				if !ok {
					continue
				}
				decl := norm(p.src(vs))
				if strings.Contains(decl, "hash.Hash") || regexp.MustCompile(`\b(md5|sha1|sha256|sha512|blake2b|xxhash|murmur3)\.New`).MatchString(decl) {
					fresh = false
				}
			}
		}
	}
	lean := fmt.Sprintf("import GoUtils.Model.Hash\nnamespace GoUtils.Generated.Hash\nopen GoUtils.Hash\ndef ok : Bool := true\n"+
		"def skeleton : CalcFacts := { resetBefore := %s, resetOnError := %s, resetAfter := %s }\ndef freshStatePerHasher : Bool := %s\nend GoUtils.Generated.Hash\n",
		leanBool(resetBefore), leanBool(resetOnError), leanBool(resetAfter), leanBool(fresh))
	return lean, map[string]any{"resetBefore": resetBefore, "resetOnError": resetOnError, "resetAfter": resetAfter, "freshStatePerHasher": fresh}, nil
}
