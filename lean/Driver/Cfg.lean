import GoUtils.Model.Cfg
/-! C15 protocol: `cfg <prefix> <tag.path> <bits: flagChanged env file default>` → `<ENV NAME> <winner>` -/
namespace Driver.Cfg
open GoUtils.Cfg

def bytes (s : String) : List Nat := s.toUTF8.toList.map (·.toNat)
def str (l : List Nat) : String := String.ofList (l.map fun n => Char.ofNat n)

def handle : List String → String
  | [pre, path, bits] =>
    let tags := (path.splitOn ".").map bytes
    let b := bits.toList
    match b with
    | [f, e, c, d] =>
      let w := winner (f == '1') (e == '1') (c == '1') (d == '1')
      let ws := match w with | .flag => "flag" | .env => "env" | .file => "file" | .default => "default" | .none => "none"
      str (honouredName (bytes pre) tags) ++ " " ++ ws
    | _ => "bad-op"
  | _ => "bad-op"

end Driver.Cfg
