/-! hex helpers shared by the drivers -/
namespace Driver

def hexDigit (n : Nat) : Char := if n < 10 then Char.ofNat (48 + n) else Char.ofNat (87 + n)

def toHex (bs : List Nat) : String :=
  if bs.isEmpty then "-" else String.ofList (bs.flatMap fun b => [hexDigit (b / 16 % 16), hexDigit (b % 16)])

def hexVal (c : Char) : Option Nat :=
  if '0' ≤ c ∧ c ≤ '9' then some (c.toNat - 48)
  else if 'a' ≤ c ∧ c ≤ 'f' then some (c.toNat - 87)
  else none

def fromHexChars : List Char → Option (List Nat)
  | [] => some []
  | a :: b :: rest => do
    let x ← hexVal a
    let y ← hexVal b
    let r ← fromHexChars rest
    some ((x * 16 + y) :: r)
  | _ => none

def fromHex (s : String) : Option (List Nat) := if s == "-" then some [] else fromHexChars s.toList

end Driver
