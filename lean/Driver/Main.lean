import Driver.Cast
import Driver.Page
import Driver.Hash
import Driver.Streamer
import Driver.Err
import Driver.Retry
import Driver.LockTime
import Driver.Runner
import Driver.Zip
import Driver.Fs
import Driver.IO
import Driver.Rm
import Driver.Regex
import Driver.Lock
import Driver.Cfg
import Driver.Archive

def dispatch (line : String) : String :=
  match (line.trimAscii.toString.splitOn " ").filter (· ≠ "") with
  | "cast" :: rest => Driver.Cast.handle rest
  | "page" :: rest => Driver.Page.handle rest
  | "hash" :: rest => Driver.Hash.handle rest
  | "stream" :: rest => Driver.Streamer.handle rest
  | "err" :: rest => Driver.Err.handle rest
  | "errtab" :: rest => Driver.Err.handleTab rest
  | "retryloop" :: rest => Driver.Retry.handleLoop rest
  | "backoff" :: rest => Driver.Retry.handleBackoff rest
  | "stale" :: rest => Driver.LockTime.handle rest
  | "runner" :: rest => Driver.Runner.handle rest
  | "collect" :: rest => Driver.Runner.handleCollect rest
  | "path" :: rest => Driver.Zip.handlePath rest
  | "sanitise" :: rest => Driver.Zip.handleSanitise rest
  | "unzip" :: rest => Driver.Zip.handleUnzip rest
  | "fsprog" :: rest => Driver.Fs.handle rest
  | "io" :: rest => Driver.IO.handle rest
  | "rm" :: rest => Driver.Rm.handle rest
  | "excl" :: rest => Driver.Regex.handle rest
  | "lockev" :: rest => Driver.Lock.handle rest
  | "cfg" :: rest => Driver.Cfg.handle rest
  | "arch" :: rest => Driver.Archive.handle rest
  | _ => "bad-op"

partial def loop (hin hout : IO.FS.Stream) : IO Unit := do
  let line ← hin.getLine
  if line.isEmpty then return ()
  if line.trimAscii.toString == "sync" then
    -- end of a batch: answer and flush so that the harness can read everything so far
    hout.putStrLn "synced"
    hout.flush
  else
    hout.putStrLn (dispatch line)
  loop hin hout

def main : IO Unit := do
  let hin ← IO.getStdin
  let hout ← IO.getStdout
  loop hin hout
  hout.flush
