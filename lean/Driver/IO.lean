import GoUtils.Model.IO
/-! Line protocol for C09 (I/O helpers):
  `io <copydata|copyn|readatmost> <len> <script: a,b,c or -> <failAt|-> <cancelAfter|-> <sinkLimit|-> <rf 0|1> <n>`
  the source holds `len` bytes (byte i = i mod 251). Answer: `<count> <err> <outLen> <reads> <lateReads> <ops>` -/
namespace Driver.IO
open GoUtils.IO

def optNat (s : String) : Option (Option Nat) := if s == "-" then some none else s.toNat?.map some

def showErr : Option Err → String
  | none => "nil"
  | some .eof => "eof"
  | some .cancelled => "cancelled"
  | some .src => "src"
  | some .sink => "sink"
  | some .empty => "empty"

def handle : List String → String
  | [op, len, script, fail, cancel, sink, rf, n] =>
    match len.toNat?, optNat fail, optNat cancel, optNat sink, n.toInt?,
          (if script == "-" then some [] else (script.splitOn ",").mapM (·.toNat?)) with
    | some l, some f, some ca, some sk, some n, some sc =>
      let c : Cfg := { data := (List.range l).map (· % 251), failAt := f, cancelAfter := ca, sinkLimit := sk }
      let o : Option Out := match op with
        | "copydata" => some (copyData c sc (rf == "1"))
        | "copyn" => some (copyN c sc (rf == "1") n)
        | "readatmost" => some (readAtMost c sc n)
        | _ => none
      match o with
      | some o => s!"{o.count} {showErr o.err} {o.st.out.length} {o.st.reads} {o.st.lateReads} {o.st.ops}"
      | none => "bad-op"
    | _, _, _, _, _, _ => "bad-op"
  | _ => "bad-op"

end Driver.IO
