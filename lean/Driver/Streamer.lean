import GoUtils.Model.Streamer
import GoUtils.Generated.Streamer
/-! Line protocol for C18: `stream <chunk>|<chunk>|…` (chunk = `.`-separated byte values, may be
  empty). Answer: logged messages joined by `|`, each `.`-separated bytes; `-` if nothing logged. -/
namespace Driver.Streamer
open GoUtils.Streamer

def parseChunk (s : String) : Option Bytes :=
  if s.isEmpty then some [] else (s.splitOn ".").mapM (·.toNat?)

def handle : List String → String
  | [c] =>
    match (c.splitOn "|").mapM parseChunk with
    | some chunks =>
      let msgs := logged GoUtils.Generated.Streamer.write chunks
      if msgs.isEmpty then "-" else "|".intercalate (msgs.map fun m => ".".intercalate (m.map toString))
    | none => "bad-op"
  | [] => "-"
  | _ => "bad-op"

end Driver.Streamer
