import GoUtils.Model.Rm
import GoUtils.Generated.Rm
/-! C04 protocol: `rm <remove|clean> <path> <excluded names, comma separated or -> -- <entry> …`
  entry: `a/b=d`, `a/c=f3` (file of 3 bytes), `a/l=>x/y` (symbolic link to the absolute model path x/y).
  answer: `ok|err:notempty|err:other|noreturn || dump` -/
namespace Driver.Rm
open GoUtils.Rm

def parsePath (s : String) : Path :=
  if s == "." || s == "" then [] else
    ((s.splitOn "/").filter (· ≠ "")).map fun c => c.toList.foldl (fun acc ch => acc * 256 + ch.toNat) 0

def showName (n : Nat) : String :=
  let rec go (fuel : Nat) (n : Nat) (acc : List Char) : List Char :=
    match fuel with
    | 0 => acc
    | fuel + 1 => if n = 0 then acc else go fuel (n / 256) (Char.ofNat (n % 256) :: acc)
  String.ofList (go 16 n [])

def showPath (p : Path) : String := if p.isEmpty then "." else "/".intercalate (p.map showName)

def dump (t : Tree) : String :=
  let lines := t.map fun (p, n) => showPath p ++ (match n with
    | .dir => "=d" | .file c => s!"=f{c}" | .link tg => "=>" ++ showPath tg)
  ",".intercalate (lines.toArray.qsort (· < ·)).toList

def parseEntry (s : String) : Option (Path × Node) :=
  match s.splitOn "=>" with
  | [p, tg] => some (parsePath p, .link (parsePath tg))
  | _ =>
    match s.splitOn "=" with
    | [p, "d"] => some (parsePath p, .dir)
    | [p, v] => if v.startsWith "f" then (v.drop 1).toString.toNat?.map fun c => (parsePath p, .file c) else none
    | _ => none

def handle : List String → String
  | op :: path :: excl :: "--" :: entries =>
    match entries.mapM parseEntry with
    | none => "bad-op"
    | some t =>
      let c : Cfg := { linkFirst := GoUtils.Generated.Rm.removeLinkFirst, deepExclusion := GoUtils.Generated.Rm.deepExclusion,
                       excluded := if excl == "-" then [] else (excl.splitOn ",").map fun s => (parsePath s).headD 0 }
      let r := match op with
        | "remove" => remove c (fuelFor t) t (parsePath path)
        | "clean" => cleanDir c (fuelFor t) t (parsePath path)
        | _ => none
      match r with
      | none => "noreturn || " ++ dump t
      | some (.ok, t') => "ok || " ++ dump t'
      | some (.err .notEmpty, t') => "err:notempty || " ++ dump t'
      | some (.err .other, t') => "err:other || " ++ dump t'
  | _ => "bad-op"

end Driver.Rm
