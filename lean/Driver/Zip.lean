import GoUtils.Model.ZipPath
import GoUtils.Model.Unzip
import GoUtils.Generated.Zip
import Driver.Util
/-! C02/C03 protocol:
  `path <clean|dir|base|ext|stem> <hex>` · `path join <hex> <hex>` → hex
  `sanitise <hex dest> <hex name>` → hex | `malicious`
  `unzip <apply> <recursive> <maxFile> <maxTotal> <maxCount> <maxDepth> <archiveSize> <arch tokens…>`
     arch: `N` | `D <depth> <arch>` | `F <depth> <zn> <decl> <act> <isZip> [ <arch> ] <arch>`
     → `ok <count> <total> <maxWrite> <size@depth,…|->` | `err:tooLarge` | `err:eof` -/
namespace Driver.Zip
open GoUtils GoUtils.Path

def handlePath : List String → String
  | [fn, a] =>
    match Driver.fromHex a with
    | some x =>
      match fn with
      | "clean" => Driver.toHex (clean x) | "dir" => Driver.toHex (dir x) | "base" => Driver.toHex (base x)
      | "ext" => Driver.toHex (ext x) | "stem" => Driver.toHex (stem x) | _ => "bad-op"
    | none => "bad-op"
  | ["join", a, b] =>
    match Driver.fromHex a, Driver.fromHex b with
    | some x, some y => Driver.toHex (join [x, y])
    | _, _ => "bad-op"
  | _ => "bad-op"

def handleSanitise : List String → String
  | [d, n] =>
    match Driver.fromHex d, Driver.fromHex n with
    | some d, some n =>
      match ZipPath.sanitise Generated.Zip.sanitise d n with
      | some p => Driver.toHex p
      | none => "malicious"
    | _, _ => "bad-op"
  | _ => "bad-op"

open GoUtils.Unzip in
partial def parseArch : List String → Option (Arch × List String)
  | "N" :: r => some (.nil, r)
  | "D" :: d :: r => do
    let d ← d.toNat?
    let (rest, r') ← parseArch r
    some (.dirE d rest, r')
  | "F" :: d :: zn :: decl :: act :: iz :: "[" :: r => do
    let d ← d.toNat?
    let decl ← decl.toNat?
    let act ← act.toNat?
    let (inner, r1) ← parseArch r
    match r1 with
    | "]" :: r2 =>
      let (rest, r3) ← parseArch r2
      some (.fileE d (zn == "1") decl act (iz == "1") inner rest, r3)
    | _ => none
  | _ => none

open GoUtils.Unzip in
def handleUnzip : List String → String
  | ap :: rc :: mf :: mt :: mc :: md :: sz :: arch =>
    match mf.toNat?, mt.toNat?, mc.toNat?, md.toInt?, sz.toNat?, parseArch arch with
    | some mf, some mt, some mc, some md, some sz, some (a, []) =>
      let lim : Limits := { apply := ap == "1", recursive := rc == "1", maxFile := mf, maxTotal := mt, maxCount := mc, maxDepth := md }
      match unzip Generated.Zip.limits lim sz a with
      | .ok r =>
        let fs := r.files.map fun (s, d) => s!"{s}@{d}"
        s!"ok {r.count} {r.total} {r.maxWrite} " ++ (if fs.isEmpty then "-" else ",".intercalate fs)
      | .error .tooLarge => "err:tooLarge"
      | .error .eof => "err:eof"
    | _, _, _, _, _, _ => "bad-op"
  | _ => "bad-op"

end Driver.Zip
