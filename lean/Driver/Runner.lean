import GoUtils.Model.Runner
import GoUtils.Generated.Conc
/-! C12 protocol: `runner <early 0|1> <readsStop 0|1>` → sorted possible outcomes (own/timeout/stuck);
  `collect <r>,<r>…` with r = `v<n>` or `e<n>` in arrival order → `ok:<values>` or `err:<n>` -/
namespace Driver.Runner
open GoUtils.Runner

def handle : List String → String
  | [e, r] =>
    let os := outcomes GoUtils.Generated.Conc.runner (e == "1") (r == "1")
    ",".intercalate (os.toArray.qsort (· < ·)).toList
  | _ => "bad-op"

def handleCollect : List String → String
  | [rs] =>
    let parsed := (rs.splitOn ",").mapM fun s =>
      if s.startsWith "v" then (s.drop 1).toString.toNat?.map (Except.ok (ε := Nat))
      else if s.startsWith "e" then (s.drop 1).toString.toNat?.map (Except.error (α := Nat))
      else none
    match parsed with
    | some l => match collect l with
      | .ok vs => "ok:" ++ ",".intercalate (vs.map toString)
      | .error e => s!"err:{e}"
    | none => "bad-op"
  | [] => "ok:"
  | _ => "bad-op"

end Driver.Runner
