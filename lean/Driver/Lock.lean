import GoUtils.Model.Lock
/-! C01 protocol: `lockev <event> <event> …` with events `mk+<i>` `mk-<i>` `ub<i>` `rm<i>` `ue<i>` `die<i>`.
  Answer: `ok holds=<max simultaneous holders> foreign=<n>` or `disabled@<index>:<event>` -/
namespace Driver.Lock
open GoUtils.Lock

def parseEv (s : String) : Option Ev :=
  let num (p : String) : Option Nat := (s.drop p.length).toString.toNat?
  if s.startsWith "mk+" then (num "mk+").map .mkOk
  else if s.startsWith "mk-" then (num "mk-").map .mkFail
  else if s.startsWith "ub" then (num "ub").map .unlockBegin
  else if s.startsWith "rm" then (num "rm").map .rmOk
  else if s.startsWith "ue" then (num "ue").map .unlockEnd
  else if s.startsWith "die" then (num "die").map .die
  else if s.startsWith "hb" then (num "hb").map .revive
  else none

def handle (toks : List String) : String :=
  match toks.mapM parseEv with
  | none => "bad-op"
  | some evs =>
    let rec go (s : St) (evs : List Ev) (toks : List String) (idx maxH : Nat) : String :=
      match evs, toks with
      | [], _ => s!"ok holds={maxH} foreign={s.foreign}"
      | e :: es, t :: ts =>
        match step s e with
        | none => s!"disabled@{idx}:{t}"
        | some s' => go s' es ts (idx + 1) (max maxH s'.holds.length)
      | _ :: _, [] => "bad-op"
    go St.init evs toks 0 0

end Driver.Lock
