import GoUtils.Model.Page
/-! Line protocol for C19:  `page <budget|-> <pages> <ops>`
  pages = `;`-separated, each `<0|1>:<comma separated items>` (flag = the page's own HasNext())
  ops   = string over h (HasNext) g (GetNext) s (Stop)
  answer = outputs of the calls joined by `,` : t/f for HasNext, the item or `e` for GetNext, `k` for Stop -/
namespace Driver.Page
open GoUtils.Page

def parsePg (s : String) : Option Pg :=
  match s.splitOn ":" with
  | [f, items] =>
    let its := if items.isEmpty then some [] else (items.splitOn ",").mapM (·.toNat?)
    its.map fun l => { items := l, hasNext := f == "1" }
  | _ => none

def runOps (s : St) : List Char → List String → List String
  | [], acc => acc.reverse
  | 'h' :: r, acc => let (b, s') := hasNext s; runOps s' r ((if b then "t" else "f") :: acc)
  | 'g' :: r, acc => match getNext s with
      | (some x, s') => runOps s' r (toString x :: acc)
      | (none, s') => runOps s' r ("e" :: acc)
  | 's' :: r, acc => runOps (stop s) r ("k" :: acc)
  | _ :: r, acc => runOps s r ("?" :: acc)

def handle3 (b pages ops : String) : String :=
    let budget : Option (Option Nat) := if b == "-" then some none else b.toNat?.map some
    match budget, (pages.splitOn ";").mapM parsePg with
    | some bd, some (p :: rest) =>
      ",".intercalate (runOps { cur := p, pos := 0, rest := rest, budget := bd, cancelled := false } ops.toList [])
    | _, _ => "bad-op"

def handle : List String → String
  | [b, pages, ops] => handle3 b pages ops
  | [b, pages] => handle3 b pages ""
  | _ => "bad-op"

end Driver.Page
