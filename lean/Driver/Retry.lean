import GoUtils.Model.Retry
import GoUtils.Generated.Retry
/-! Line protocol for C14:
  `retryloop <enabled 0|1> <attempts> <script over o r f|-> <ctxDoneFrom k|->`  → `<res> <invocations>`
  `backoff <b|l|e> <considerRA 0|1> <min> <max> <n> <status|-> <hdr> <x> <j>` → integer (ns)
     hdr: `-` absent · `s:<int>` · `d:<untilNs>` · `g` garbage -/
namespace Driver.Retry
open GoUtils.Retry

def outcomeAt (s : List Char) (n : Nat) : Outcome :=
  match s[n]? with
  | some 'o' => .ok
  | some 'f' => .fatal n
  | _ => .retriable n

def showRes : Res → String
  | .nil => "nil" | .err i => s!"err{i}" | .ctxKind => "ctx" | .rawCtx => "rawctx"
  | .joined l => "joined" ++ toString l

def handleLoop : List String → String
  | [en, att, script, ctx] =>
    match att.toNat? with
    | some a =>
      let sc := if script == "-" then [] else script.toList
      let k : Option Nat := if ctx == "-" then none else ctx.toNat?
      let r := retryIf GoUtils.Generated.Retry.loop (en == "1") a (outcomeAt sc)
        (fun n => match k with | some k => decide (n ≥ k) | none => false)
      s!"{showRes r.1} {r.2}"
    | none => "bad-op"
  | _ => "bad-op"

def parseHdr (s : String) : Option Header :=
  if s == "-" then some .absent else if s == "g" then some .garbage
  else match s.splitOn ":" with
    | ["s", v] => v.toInt?.map .seconds
    | ["d", v] => v.toInt?.map .date
    | _ => none

def handleBackoff : List String → String
  | [k, ra, mn, mx, n, st, hdr, x, j] =>
    let kind : Option Kind := match k with | "b" => some .basic | "l" => some .linear | "e" => some .expo | _ => none
    match kind, mn.toInt?, mx.toInt?, n.toNat?, parseHdr hdr, x.toInt?, j.toInt? with
    | some kind, some mn, some mx, some n, some h, some x, some j =>
      let status : Option Nat := if st == "-" then none else st.toNat?
      toString (apply GoUtils.Generated.Retry.expo GoUtils.Generated.Retry.retryAfter kind (ra == "1") mn mx n status h x j)
    | _, _, _, _, _, _, _ => "bad-op"
  | _ => "bad-op"

end Driver.Retry
