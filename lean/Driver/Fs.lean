import GoUtils.Model.Fs
/-! C06 protocol: `fsprog <entry> <entry> … -- <op> ; <op> ; …`
  entry: `a/b=d` (directory) or `a/c=f7` (file whose content is 7 bytes); names are single letters.
  ops: mkdir p · touch p · write p n · read p · exists p · isfile p · isdir p · isempty p · ls p · lsr p ·
       rm p · clean p · cp s d · mv s d · size p      (`.` = the root; a destination may end with `/`)
  answer: results joined by ` ; `, then ` || `, then the final tree dump (sorted `path=kind`) -/
namespace Driver.Fs
open GoUtils.Fs

def parsePath (s : String) : Path :=
  if s == "." || s == "" then [] else
    ((s.splitOn "/").filter (· ≠ "")).map fun c => (c.toList.headD 'a').toNat

def showPath (p : Path) : String :=
  if p.isEmpty then "." else "/".intercalate (p.map fun n => String.singleton (Char.ofNat n))

def showRes : Res → String
  | .ok => "ok"
  | .bool b => toString b
  | .names l => "[" ++ ",".intercalate (l.map showPath) ++ "]"
  | .content c => s!"c{c}"
  | .size n => s!"s{n}"
  | .err .notFound => "err:notfound"
  | .err .conflict => "err:conflict"
  | .err .invalid => "err:invalid"
  | .err .empty => "err:empty"
  | .err .other => "err:other"

def dump (t : Tree) : String :=
  let lines := t.map fun (p, n) => showPath p ++ "=" ++ (match n with | .dir => "d" | .file c => s!"f{c}")
  ",".intercalate (lines.toArray.qsort (· < ·)).toList

def parseEntry (s : String) : Option (Path × Node) :=
  match s.splitOn "=" with
  | [p, "d"] => some (parsePath p, .dir)
  | [p, v] => if v.startsWith "f" then (v.drop 1).toString.toNat?.map fun c => (parsePath p, .file c) else none
  | _ => none

def parseOp (op : List String) : Option Op :=
  match op with
  | ["mkdir", p] => some (.mkdir (parsePath p))
  | ["touch", p] => some (.touch (parsePath p))
  | ["write", p, n] => n.toNat?.map fun c => .write (parsePath p) c
  | ["read", p] => some (.read (parsePath p))
  | ["exists", p] => some (.exists_ (parsePath p))
  | ["isfile", p] => some (.isfile (parsePath p))
  | ["isdir", p] => some (.isdir (parsePath p))
  | ["isempty", p] => some (.isempty (parsePath p))
  | ["ls", p] => some (.ls (parsePath p))
  | ["lsr", p] => some (.lsr (parsePath p))
  | ["rm", p] => some (.rm (parsePath p))
  | ["clean", p] => some (.clean (parsePath p))
  | ["cp", s, d] => some (.cp (parsePath s) (parsePath d) (d.endsWith "/"))
  | ["mv", s, d] => some (.mv (parsePath s) (parsePath d))
  | ["size", p] => some (.size (parsePath p))
  | _ => none

/-- `CopyToDirectory` / `CopyToFile` as the reference model renders them (`Model.Fs.copyToDirectory`, `copyToFile`) -/
def runCopyTo (t : Tree) (op : List String) : Option (Option (Res × Tree)) :=
  match op with
  | ["cpd", s, d] => some (copyToDirectory t (parsePath s) (parsePath d) (d.endsWith "/"))
  | ["cpf", s, d] => some (copyToFile t (parsePath s) (parsePath d) (d.endsWith "/"))
  | _ => none

def runOp (t : Tree) (op : List String) : Option (Res × Tree) :=
  match runCopyTo t op with
  | some r => r
  | none =>
  match parseOp op with
  | some o => step t o
  | none => some (.err .other, t)

def handle (toks : List String) : String :=
  let (entries, rest) := toks.span (· ≠ "--")
  match entries.mapM parseEntry with
  | none => "bad-op"
  | some t0 =>
    let ops := (rest.drop 1).foldr (fun tok acc =>
        if tok == ";" then [] :: acc else match acc with | [] => [[tok]] | o :: r => (tok :: o) :: r) [[]]
    let rec go (t : Tree) (ops : List (List String)) (out : List String) : List String × Tree :=
      match ops with
      | [] => (out.reverse, t)
      | op :: more =>
        if op.isEmpty then go t more out else
        match runOp t op with
        | none => (("noreturn" :: out).reverse, t)
        | some (r, t') => go t' more (showRes r :: out)
    let (outs, t) := go t0 ops []
    " ; ".intercalate outs ++ " || " ++ dump t

end Driver.Fs
