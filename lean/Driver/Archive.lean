import GoUtils.Model.Archive
import GoUtils.Generated.Zip
/-! C07 protocol: `arch <dest> <entry> <entry> …` — the entries of an archive in the archive's own order, extracted
  below `dest` on an empty filesystem by the extraction loop as found in the source (`Generated.Zip.extract`).
  paths: numbers joined by `.` (`-` = empty); entry: `d:<path>` or `f:<path>:<content id>`
  answer: `<ok|err> list=<path;path;…> tree=<path=d|path=f<c>;…>` (the tree at and below dest, sorted) -/
namespace Driver.Archive
open GoUtils.Fs GoUtils.Archive

def parsePath (s : String) : Option Path :=
  if s == "-" then some [] else (s.splitOn ".").mapM (·.toNat?)

def showPath (p : Path) : String := if p.isEmpty then "-" else ".".intercalate (p.map toString)

def parseEntry (s : String) : Option Entry :=
  match s.splitOn ":" with
  | ["d", p] => (parsePath p).map fun q => (q, .dir)
  | ["f", p, c] => do
    let q ← parsePath p
    let n ← c.toNat?
    some (q, .file n)
  | _ => none

def handle (args : List String) : String :=
  match args with
  | d :: rest =>
    match parsePath d, rest.mapM parseEntry with
    | some dest, some es =>
      let r := extractF GoUtils.Generated.Zip.extract dest es []
      let res := match r.1 with | .ok => "ok" | _ => "err"
      let lines := (r.2.1.filter fun e => under dest e.1).map fun (p, n) =>
        showPath p ++ "=" ++ (match n with | .dir => "d" | .file c => s!"f{c}")
      s!"{res} list={";".intercalate (r.2.2.map showPath)} tree={";".intercalate (lines.toArray.qsort (· < ·)).toList}"
    | _, _ => "bad-op"
  | _ => "bad-op"

end Driver.Archive
