import GoUtils.Model.Hash
import GoUtils.Generated.Hash
/-! Line protocol for C20: `hash <calc>;<calc>;…` with calc = `o:<chunk>|<chunk>…` (success) or
  `f<w>:<chunk>|…` (copy stopped after w bytes were written); a chunk is a `.`-separated list of
  byte values (possibly empty). Answer: per calc, `-` for a failed one, else the byte string the
  model says was hashed (`.`-separated, `e` if empty), joined by `;`. -/
namespace Driver.Hash
open GoUtils.Hash

def parseChunk (s : String) : Option (List Nat) :=
  if s.isEmpty then some [] else (s.splitOn ".").mapM (·.toNat?)

def parseCalc (s : String) : Option Calc :=
  match s.splitOn ":" with
  | [hd, body] => do
    let chunks ← (body.splitOn "|").mapM parseChunk
    if hd == "o" then some ⟨chunks, none⟩
    else if hd.startsWith "f" then (hd.drop 1).toString.toNat?.map fun w => ⟨chunks, some w⟩
    else none
  | _ => none

def render : Option (List Nat) → String
  | none => "-"
  | some [] => "e"
  | some l => ".".intercalate (l.map toString)

def handle : List String → String
  | [h] =>
    match (h.splitOn ";").mapM parseCalc with
    | some hist => ";".intercalate ((runHist GoUtils.Generated.Hash.skeleton id [] hist).map render)
    | none => "bad-op"
  | _ => "bad-op"

end Driver.Hash
