import GoUtils.Model.Regex
/-! C08 protocol: `excl <pattern> ; <pattern> ; … -- <root path> -- <rel path> <rel path> …`
  pattern in prefix notation, tokens: `c<byte>` `.` `k<b>-<b>-…` `e` `&` r r  `|` r r  `*` r  `+` r  `?` r
  paths are raw ASCII with '/' separators. Answer, one word per rel path, made of flags:
    `n` every component is name-visible (no expansion matches in it)      — name-based operations process it
    `p` every prefix of root/rel is path-visible                          — path-based operations process it
    `F` some component is matched IN FULL by a pattern                    — must never be processed
    `C` some component CONTAINS a match of a pattern                      — otherwise it must be processed
  or `-` when no flag applies. -/
namespace Driver.Regex
open GoUtils.Regex

partial def parseRe : List String → Option (Re × List String)
  | [] => none
  | tok :: rest =>
    if tok == "." then some (.any, rest)
    else if tok == "e" then some (.eps, rest)
    else if tok == "&" || tok == "|" then
      match parseRe rest with
      | some (a, r1) => match parseRe r1 with
        | some (b, r2) => some (if tok == "&" then .cat a b else .alt a b, r2)
        | none => none
      | none => none
    else if tok == "*" || tok == "+" || tok == "?" then
      match parseRe rest with
      | some (a, r1) => some (if tok == "*" then .star a else if tok == "+" then a.plus else a.opt, r1)
      | none => none
    else if tok.startsWith "c" then (tok.drop 1).toString.toNat?.map fun n => (.chr n, rest)
    else if tok.startsWith "k" then
      (((tok.drop 1).toString.splitOn "-").mapM (fun (x : String) => x.toNat?)).map fun cs => (.cls cs, rest)
    else none

def bytes (s : String) : List Nat := s.toUTF8.toList.map (·.toNat)

def comps (s : String) : List (List Nat) := ((s.splitOn "/").filter (· ≠ "")).map bytes

def splitOnTok (sep : String) (l : List String) : List (List String) :=
  l.foldr (fun t acc => if t == sep then [] :: acc else match acc with | [] => [[t]] | h :: r => (t :: h) :: r) [[]]

def handle (toks : List String) : String :=
  match splitOnTok "--" toks with
  | [patToks, [root], rels] =>
    let pats := (splitOnTok ";" patToks).filter (· ≠ [])
    match pats.mapM (fun p => match parseRe p with | some (r, []) => some r | _ => none) with
    | none => "bad-op"
    | some ps =>
      let rootBytes := bytes root
      let one (rel : String) : String :=
        let cs := comps rel
        let n := nameVisible ps cs
        let p := pathVisible ps rootBytes cs
        let f := cs.any fun c => ps.any fun r => fullMatch r c
        let c := cs.any fun c => ps.any fun r => search r c
        let s := (if n then "n" else "") ++ (if p then "p" else "") ++ (if f then "F" else "") ++ (if c then "C" else "")
        if s.isEmpty then "-" else s
      " ".intercalate (rels.map one)
  | _ => "bad-op"

end Driver.Regex
