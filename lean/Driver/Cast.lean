import GoUtils.Model.Cast
import GoUtils.Generated.Cast
/-! Line protocol for C10:
  `cast <ToFn> <kind> <value>`
  kind  ∈ int8 … uint | f32 | f64 | nf32 | nf64   (n = named type over the float)
  value = decimal integer | `F <mant> <exp2>` (mant·2^exp2) | `+Inf` | `-Inf` | `NaN`
  answer: decimal integer, or `undef` (the code relied on an implementation-defined conversion)
-/
namespace Driver.Cast
open GoUtils GoUtils.Cast

def parseKind (s : String) : Option SrcKind :=
  match s with
  | "f32" => some (.f32 false) | "f64" => some (.f64 false)
  | "nf32" => some (.f32 true) | "nf64" => some (.f64 true)
  | _ => (IntTy.ofName? s).map .int

def parseVal : List String → Option Val
  | ["+Inf"] => some (.flt .pinf)
  | ["-Inf"] => some (.flt .ninf)
  | ["NaN"] => some (.flt .nan)
  | ["F", m, e] => do
      let m ← m.toInt?
      let e ← e.toInt?
      if e ≥ 0 then some (.flt (.fin (m * (2 ^ e.toNat : Nat)) 1))
      else some (.flt (.fin m (2 ^ (-e).toNat)))
  | [v] => v.toInt?.map .int
  | _ => none

def handle (args : List String) : String :=
  match args with
  | fn :: kind :: rest =>
    match GoUtils.Generated.Cast.fns.find? (fun c => c.name == fn), parseKind kind, parseVal rest with
    | some c, some k, some v =>
      match c.eval GoUtils.Generated.Cast.less GoUtils.Generated.Cast.greater k v with
      | some r => toString r
      | none => "undef"
    | _, _, _ => "bad-op"
  | _ => "bad-op"

end Driver.Cast
