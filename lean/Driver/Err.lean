import GoUtils.Model.Err
import GoUtils.Generated.Errors
import Driver.Util
/-! Line protocol for C11: `err <tok> <tok> …` — a stack program building one error.
  `S<k>` sentinel k · `C` context.Canceled · `D` context.DeadlineExceeded · `F:<hex>` errors.New ·
  `N` nil · `new:<hex>` · `we:<hex>` (WrapError: pops orig, target) · `wi:<hex>` (WrapIfNotCommonError)
  answer: `text=<hex> kinds=<k,k,…|-> ctx=<c?d?|-> ser=<hex> de=<hex|nil> dekinds=… reason=<hex> dereason=<hex>` -/
namespace Driver.Err
open GoUtils.Err

def T : Tables :=
  { kinds := GoUtils.Generated.Errors.kinds, cases := GoUtils.Generated.Errors.cases,
    common := GoUtils.Generated.Errors.commonList }

def kindsOf (e : GoErr) : String :=
  let ks := (List.range T.kinds.length).filter (fun k => e.has (.common k))
  if ks.isEmpty then "-" else ",".intercalate (ks.map toString)

def ctxOf (e : GoErr) : String :=
  let s := (if e.has .canceled then "c" else "") ++ (if e.has .deadline then "d" else "")
  if s.isEmpty then "-" else s

def step (stack : List (Option GoErr)) (tok : String) : Option (List (Option GoErr)) :=
  if tok == "C" then some (some (.leaf .canceled) :: stack)
  else if tok == "D" then some (some (.leaf .deadline) :: stack)
  else if tok == "N" then some (none :: stack)
  else if tok.startsWith "S" then (tok.drop 1).toString.toNat?.map fun k => some (.leaf (.common k)) :: stack
  else match tok.splitOn ":" with
    | ["F", h] => (fromHex h).map fun t => some (.leaf (.foreign t)) :: stack
    | ["new", h] => match stack, fromHex h with
        | t :: rest, some m => some (some (errorf T t m) :: rest)
        | _, _ => none
    | ["we", h] => match stack, fromHex h with
        | o :: t :: rest, some m => some (some (wrapError T t o m) :: rest)
        | _, _ => none
    | ["wi", h] => match stack, fromHex h with
        | o :: t :: rest, some m => some (some (wrapIfNotCommon T t o m) :: rest)
        | _, _ => none
    | _ => none

def handle (toks : List String) : String :=
  match toks.foldlM step [] with
  | some (some e :: _) =>
    let ser := serialise T e
    let de := deserialise T ser
    let deS := match de with
      | some d => s!"de={Driver.toHex (d.text T)} dekinds={kindsOf d} dereason={Driver.toHex (reasonOf T d)}"
      | none => "de=nil dekinds=- dereason=-"
    s!"text={Driver.toHex (e.text T)} kinds={kindsOf e} ctx={ctxOf e} ser={Driver.toHex ser} {deS} reason={Driver.toHex (reasonOf T e)}"
  | _ => "bad-op"

/-- `errtab <hex>`: deserialiseCommonError on an arbitrary string -/
def handleTab : List String → String
  | [h] => match Driver.fromHex h with
    | some s => match deserialiseCommon T s with
      | none => "unknown"
      | some none => "nil"
      | some (some k) => toString k
    | none => "bad-op"
  | _ => "bad-op"

end Driver.Err
