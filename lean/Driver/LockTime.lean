import GoUtils.Model.LockTime
import GoUtils.Generated.Lock
/-! Line protocol for C17: `stale <now ns> <dirMtime ns|-> <listing>` where listing is `x` (cannot be
  listed), `e` (empty) or a comma separated list of mtimes (`-` = stat error). Answer `true`/`false`. -/
namespace Driver.LockTime
open GoUtils.LockTime

def handle : List String → String
  | [now, dir, listing] =>
    match now.toInt? with
    | none => "bad-op"
    | some n =>
      let d : Option Int := if dir == "-" then none else dir.toInt?
      let l : Option (Option (List (Option Int))) :=
        if listing == "x" then some none
        else if listing == "e" then some (some [])
        else ((listing.splitOn ",").mapM fun s => if s == "-" then some none else s.toInt?.map some).map some
      match l with
      | some l => toString (lockIsStale GoUtils.Generated.Lock.stale l d n)
      | none => "bad-op"
  | _ => "bad-op"

end Driver.LockTime
