/-
Model.Regex — anchor-free regular expressions over bytes with a derivative matcher, and the exclusion
test of package filesystem built on it: every pattern is expanded into `p`, `.*/p/.*` and
`.*<sep>p<sep>.*` (where `<sep>` is the path separator formatted with %v, i.e. the digits "47"), and a
name or path is excluded when one of the expansions matches SOMEWHERE in it (regexp.MatchString is
unanchored).
-/
namespace GoUtils.Regex

inductive Re
  | none                      -- matches nothing
  | eps                       -- the empty string
  | chr (c : Nat)
  | any                       -- `.`  (any byte; names never contain a newline)
  | cls (cs : List Nat)       -- `[abc]`
  | cat (a b : Re)
  | alt (a b : Re)
  | star (a : Re)
  deriving Repr, DecidableEq, Inhabited

def Re.plus (a : Re) : Re := .cat a (.star a)
def Re.opt (a : Re) : Re := .alt a .eps

def nullable : Re → Bool
  | .none => false
  | .eps => true
  | .chr _ => false
  | .any => false
  | .cls _ => false
  | .cat a b => nullable a && nullable b
  | .alt a b => nullable a || nullable b
  | .star _ => true

def deriv : Re → Nat → Re
  | .none, _ => .none
  | .eps, _ => .none
  | .chr c, x => if c = x then .eps else .none
  | .any, _ => .eps
  | .cls cs, x => if cs.contains x then .eps else .none
  | .cat a b, x => if nullable a then .alt (.cat (deriv a x) b) (deriv b x) else .cat (deriv a x) b
  | .alt a b, x => .alt (deriv a x) (deriv b x)
  | .star a, x => .cat (deriv a x) (.star a)

/-- the whole string is in the language of `r` -/
def fullMatch (r : Re) (s : List Nat) : Bool := nullable (s.foldl deriv r)

/-- `.*` -/
def anything : Re := .star .any

/-- regexp.MatchString without anchors: `r` matches somewhere in `s` -/
def search (r : Re) (s : List Nat) : Bool := fullMatch (.cat anything (.cat r anything)) s

def lit (s : List Nat) : Re := s.foldr (fun c acc => .cat (.chr c) acc) .eps

/-- NewExclusionRegexList: the three expansions of one pattern -/
def expand (p : Re) : List Re :=
  [p,
   .cat anything (.cat (.chr 47) (.cat p (.cat (.chr 47) anything))),            -- .*/p/.*
   .cat anything (.cat (lit [52, 55]) (.cat p (.cat (lit [52, 55]) anything)))]  -- .*47p47.*  (rune formatted with %v)

/-- IsPathExcluded -/
def excluded (pats : List Re) (s : List Nat) : Bool := pats.any fun p => (expand p).any fun r => search r s

/-- join path components with '/' -/
def joinPath : List (List Nat) → List Nat
  | [] => []
  | [c] => c
  | c :: rest => c ++ [47] ++ joinPath rest

/-- an entry (given by its components below the root) is processed by a NAME-based operation (walk,
    ls, lsRecursive, listDirTree, subDirectories, zip): none of its components is excluded — the
    operations prune, so an excluded ancestor hides everything beneath it -/
def nameVisible (pats : List Re) (comps : List (List Nat)) : Bool := comps.all fun c => !excluded pats c

/-- … by a PATH-based operation (copy): no prefix of root/comps, as a path string, is excluded -/
def pathVisible (pats : List Re) (root : List Nat) (comps : List (List Nat)) : Bool :=
  (List.range comps.length).all fun i => !excluded pats (root ++ [47] ++ joinPath (comps.take (i + 1)))

end GoUtils.Regex
