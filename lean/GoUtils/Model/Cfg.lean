/-
Model.Cfg — configuration loading: which source wins for a field, and the name of the environment
variable that is consulted for it.

Names are byte strings. viper's AutomaticEnv consults, for the key `a.b.c` (mapstructure tags joined by
'.' and lower-cased), the variable `upper(prefix + "_" + key)` after the key replacer '.' → '_';
DetermineConfigurationEnvironmentVariables reports `upper(appName) + "_" + upper(tags joined by "_")`.
-/
namespace GoUtils.Cfg

def toUpper (c : Nat) : Nat := if 97 ≤ c ∧ c ≤ 122 then c - 32 else c
def toLower (c : Nat) : Nat := if 65 ≤ c ∧ c ≤ 90 then c + 32 else c

def upper (s : List Nat) : List Nat := s.map toUpper
def lower (s : List Nat) : List Nat := s.map toLower

def joinWith (sep : Nat) : List (List Nat) → List Nat
  | [] => []
  | [c] => c
  | c :: rest => c ++ [sep] ++ joinWith sep rest

/-- the '.' → '_' key replacer -/
def replaceDots (s : List Nat) : List Nat := s.map fun c => if c = 46 then 95 else c

/-- the variable viper consults for the structure key made of the given tags -/
def honouredName (pre : List Nat) (tags : List (List Nat)) : List Nat :=
  replaceDots (upper (pre ++ [95] ++ lower (joinWith 46 tags)))

/-- the name DetermineConfigurationEnvironmentVariables reports -/
def reportedName (app : List Nat) (tags : List (List Nat)) : List Nat :=
  upper app ++ [95] ++ upper (joinWith 95 tags)

inductive Source | flag | env | file | default | none
  deriving Repr, DecidableEq, Inhabited

/-- documented precedence: an explicitly set flag, the environment, the configuration file, the defaults -/
def winner (flagChanged envSet inFile hasDefault : Bool) : Source :=
  if flagChanged then .flag else if envSet then .env else if inFile then .file else if hasDefault then .default else .none

end GoUtils.Cfg
