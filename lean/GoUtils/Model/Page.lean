/-
Model.Page — executable model of `collection/pagination` (AbstractPaginator and the static /
dynamic paginators built on it; the stream paginator's extra loop is `streamHasNext`).

A page is its item list plus the answer of its own `HasNext()`. The pages that successive
"fetch next page" calls will return are `rest`; `budget = some k` means the (k+1)-th fetch from now
fails (`none`: fetches never fail). A fetch with no page left fails as well.
Core-only: linked into the driver.
-/
namespace GoUtils.Page

structure Pg where
  items : List Nat
  hasNext : Bool
  deriving Repr, DecidableEq, Inhabited

structure St where
  cur : Pg
  pos : Nat            -- position of the current page's iterator
  rest : List Pg
  budget : Option Nat
  cancelled : Bool     -- context of the paginator done (Stop / Close / parent cancelled)
  deriving Repr, DecidableEq, Inhabited

def decBudget : Option Nat → Option Nat
  | some (k + 1) => some k
  | b => b

/-- `AbstractPaginator.HasNext` once the context check has passed: returns the answer and the new
    (cur, pos, rest, budget). Recursion is on the pages still to fetch. -/
def hasNextAux (cur : Pg) (pos : Nat) (rest : List Pg) (budget : Option Nat) :
    Bool × Pg × Nat × List Pg × Option Nat :=
  if pos < cur.items.length then (true, cur, pos, rest, budget)
  else if !cur.hasNext then (false, cur, pos, rest, budget)
  else match rest with
    | [] => (false, cur, pos, rest, budget)                 -- fetch fails: nothing to fetch
    | p :: rest' =>
      if budget = some 0 then (false, cur, pos, rest, budget)   -- fetch fails: injected error
      else hasNextAux p 0 rest' (decBudget budget)

def hasNext (s : St) : Bool × St :=
  if s.cancelled then (false, s)
  else
    let r := hasNextAux s.cur s.pos s.rest s.budget
    (r.1, { s with cur := r.2.1, pos := r.2.2.1, rest := r.2.2.2.1, budget := r.2.2.2.2 })

/-- `AbstractPaginator.GetNext`: `none` = an error was returned (cancelled / not found). -/
def getNext (s : St) : Option Nat × St :=
  if s.cancelled then (none, s)
  else
    let (b, s') := hasNext s
    if !b then (none, s')
    else match s'.cur.items[s'.pos]? with
      | some x => (some x, { s' with pos := s'.pos + 1 })
      | none => (none, s')      -- unreachable (lemma `hasNext_true_pos`)

def stop (s : St) : St := { s with cancelled := true }

inductive Op | hasNext | getNext | stop
  deriving Repr, DecidableEq, Inhabited

/-- one API call; the observable output is `some (some x)` for a yielded item, `some none` for a
    GetNext error, and HasNext's answer is encoded as 1/0. -/
def step (s : St) : Op → St × String
  | .hasNext => let (b, s') := hasNext s; (s', if b then "true" else "false")
  | .getNext => match getNext s with
      | (some x, s') => (s', "item " ++ toString x)
      | (none, s') => (s', "err")
  | .stop => (stop s, "ok")

/-- items yielded by a run of calls -/
def runItems : St → List Op → List Nat
  | _, [] => []
  | s, .getNext :: ops => match getNext s with
      | (some x, s') => x :: runItems s' ops
      | (none, s') => runItems s' ops
  | s, .hasNext :: ops => runItems (hasNext s).2 ops
  | s, .stop :: ops => runItems (stop s) ops

/-- the canonical loop `for p.HasNext() { p.GetNext() }` with fuel -/
def drain : Nat → St → List Nat
  | 0, _ => []
  | fuel + 1, s =>
    let (b, s') := hasNext s
    if !b then [] else
      match getNext s' with
      | (some x, s'') => x :: drain fuel s''
      | (none, _) => []

/-- Specification: the items of the pages reachable *after* `cur`. -/
def tailAvail (cur : Pg) (rest : List Pg) (budget : Option Nat) : List Nat :=
  if !cur.hasNext then [] else
    match rest with
    | [] => []
    | p :: rest' => if budget = some 0 then [] else p.items ++ tailAvail p rest' (decBudget budget)

/-- the whole collection as seen from the beginning of `cur` -/
def avail (cur : Pg) (rest : List Pg) (budget : Option Nat) : List Nat :=
  cur.items ++ tailAvail cur rest budget

/-- what is still to be yielded in state `s` -/
def remaining (s : St) : List Nat :=
  if s.cancelled then [] else s.cur.items.drop s.pos ++ tailAvail s.cur s.rest s.budget

/-- Constructor facts (from gofacts): does the constructor return the error of the embedded
    `NewAbstractPaginator` (first page's iterator creation failed)? -/
structure CtorFacts where
  name : String
  propagatesInitError : Bool
  deriving Repr, Inhabited

/-- outcome of a constructor when iterator creation for the first page fails:
    `true` = an error is returned. -/
def ctorReportsError (f : CtorFacts) : Bool := f.propagatesInitError

end GoUtils.Page
