/-
Model.Proc — the process table rules the subprocess wrapper relies on: a process group is signalled as a
whole (SIGKILL cannot be ignored), `Wait` on a command returns when the process is dead and no live
process still holds the inherited output pipes. Tree shape (parents, depth, fan-out) does not appear:
a group kill does not walk the tree.
-/
namespace GoUtils.Proc

structure P where
  pid : Nat
  pgid : Nat
  alive : Bool
  ignoresTerm : Bool
  holdsPipe : Bool            -- holds the write end of the output pipes inherited from the command
  deriving Repr, DecidableEq, Inhabited

abbrev Table := List P

/-- kill(-g, SIGKILL) -/
def killGroup (g : Nat) (t : Table) : Table := t.map fun p => if p.pgid = g then { p with alive := false } else p

/-- kill(pid, SIGKILL) -/
def killPid (pid : Nat) (t : Table) : Table := t.map fun p => if p.pid = pid then { p with alive := false } else p

/-- kill(pid, SIGTERM) -/
def termPid (pid : Nat) (t : Table) : Table :=
  t.map fun p => if p.pid = pid ∧ !p.ignoresTerm then { p with alive := false } else p

/-- what happens when the command's context ends -/
def onContextEnd (groupKill : Bool) (root : Nat) (t : Table) : Table :=
  if groupKill then killPid root (killGroup root t)     -- cmd.Cancel: the group, then the process
  else killPid root t                                    -- the runtime's default: the process only

/-- `exec.Cmd.Wait` can return: the process is dead and nobody alive holds the pipes -/
def waitReturns (root : Nat) (t : Table) : Bool :=
  t.all fun p => (p.pid ≠ root || !p.alive) && (!p.holdsPipe || !p.alive)

end GoUtils.Proc
