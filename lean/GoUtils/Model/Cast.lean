/-
Model.Cast — executable model of `utils/safecast` (cast.go, boundary.go).

The *shape* of the Go code (guards, comparison operators, conversion types, boundary constants and
their Go types after untyped-constant defaulting) is NOT written here: it is extracted from the
current source by `gofacts` into `Generated/Cast.lean` as values of the structures below.
This file only gives those facts a semantics.

Go semantics modelled:
* integer → integer conversion: two's complement wrap (`IntTy.wrap`);
* float → integer conversion: truncation toward zero when the truncated value is representable in
  the target, otherwise *implementation defined* (Go spec) — the model returns `none`;
* integer → float64 conversion: `roundF64`;
* float comparisons with ±Inf as usual; every comparison with NaN is false;
* `switch any(value).(type) { case float64: … case float32: … default: … }`: a *named* float type
  matches neither case and takes the default branch.
-/
import GoUtils.GoStd.Num

namespace GoUtils.Cast

inductive Cmp | lt | le | gt | ge
  deriving DecidableEq, Repr, Inhabited

def Cmp.int : Cmp → Int → Int → Bool
  | .lt, a, b => decide (a < b)
  | .le, a, b => decide (a ≤ b)
  | .gt, a, b => decide (a > b)
  | .ge, a, b => decide (a ≥ b)

/-- A float value: a finite rational `num/den` (every float32/float64 is one), ±Inf or NaN. -/
inductive FV
  | fin (num : Int) (den : Nat)
  | pinf | ninf | nan
  deriving DecidableEq, Repr, Inhabited

/-- compare a float with the integer-valued float `b`. -/
def Cmp.flt (c : Cmp) : FV → Int → Bool
  | .fin n d, b => c.int n (b * d)
  | .pinf, _ => match c with | .gt | .ge => true | _ => false
  | .ninf, _ => match c with | .lt | .le => true | _ => false
  | .nan, _ => false

inductive Val
  | int (v : Int)
  | flt (f : FV)
  deriving DecidableEq, Repr, Inhabited

/-- Source kinds: the 10 integer types (a named integer type behaves identically), and the two
    float types with a flag telling whether the static type is a *named* type over the float. -/
inductive SrcKind
  | int (t : IntTy)
  | f32 (named : Bool)
  | f64 (named : Bool)
  deriving DecidableEq, Repr, Inhabited

/-- truncation toward zero (the "fraction dropped" of the property). -/
def FV.trunc? : FV → Option Int
  | .fin n d => some (n.tdiv d)
  | _ => none

/-- Go conversion `T(x)` to an integer type. `none` = implementation-defined result. -/
def convInt (t : IntTy) : Val → Option Int
  | .int v => some (t.wrap v)
  | .flt (.fin n d) =>
      let q := n.tdiv d
      if t.min ≤ q ∧ q ≤ t.max then some q else none
  | .flt _ => none

/-- `value <op> 0` in the generic code (constant 0 converted to the source type). -/
def cmpZero (c : Cmp) : Val → Bool
  | .int v => c.int v 0
  | .flt f => c.flt f 0

/-- Facts about one boundary helper (`greaterThanUpperBoundary` / `lessThanLowerBoundary`). -/
structure BoundaryFn where
  guard : Cmp                 -- `if value <guard> 0 { return false }`
  f64 : Option Cmp            -- `case float64:  f <op> float64(boundary)`
  f32 : Option Cmp            -- `case float32:  float64(f) <op> float64(boundary)`
  dflt : Cmp                  -- `default: T(value) <op> T(boundary)`
  dfltConv : IntTy            -- the `T` above
  deriving Repr, Inhabited

/-- Facts about one `ToX` function:
    `if less(i, lo) {return loRet}; if greater(i, hi) {return hiRet}; return tgt(i)` -/
structure CastFn where
  name : String
  tgt : IntTy
  lo : Int
  loTy : IntTy                -- Go type of the boundary argument (after defaulting)
  loRet : Int
  hi : Int
  hiTy : IntTy
  hiRet : Int
  deriving Repr, Inhabited

/-- Which comparison a boundary helper performs for a source kind: `some op` = the float case with
    that operator, `none` = the default (integer conversion) branch. -/
def BoundaryFn.floatCase (b : BoundaryFn) : SrcKind → Option Cmp
  | .f64 false => b.f64
  | .f32 false => b.f32
  | _ => none

/-- Did the helper rely on an implementation-defined conversion (out-of-range float → integer)? -/
def BoundaryFn.undef (b : BoundaryFn) (k : SrcKind) (v : Val) : Bool :=
  !cmpZero b.guard v && (b.floatCase k).isNone && (convInt b.dfltConv v).isNone

/-- Result of the helper (meaningful when `undef` is false). -/
def BoundaryFn.val (b : BoundaryFn) (k : SrcKind) (v : Val) (bv : Int) : Bool :=
  !cmpZero b.guard v &&
  match b.floatCase k, v with
  | some op, .flt f => op.flt f (roundF64 bv)
  | _, _ => match convInt b.dfltConv v with
    | some x => b.dflt.int x (b.dfltConv.wrap bv)
    | none => false

/-- Evaluate a `ToX` function on a source value.
    `none` = the code relied on an implementation-defined conversion. -/
def CastFn.eval (less greater : BoundaryFn) (c : CastFn) (k : SrcKind) (v : Val) : Option Int :=
  if less.undef k v then none
  else if less.val k v c.lo then some c.loRet
  else if greater.undef k v then none
  else if greater.val k v c.hi then some c.hiRet
  else convInt c.tgt v

/-- The specification: clamp of the truncated value (±Inf clamp to the extremes). -/
def spec (t : IntTy) : Val → Option Int
  | .int v => some (clamp t.min t.max v)
  | .flt (.fin n d) => some (clamp t.min t.max (n.tdiv d))
  | .flt .pinf => some t.max
  | .flt .ninf => some t.min
  | .flt .nan => none

/-- Values that inhabit a source kind (floats: any rational with positive denominator — a superset
    of the representable ones — and the infinities; NaN is excluded, as the property does). -/
def ValidFor : SrcKind → Val → Prop
  | .int t, .int v => t.min ≤ v ∧ v ≤ t.max
  | .f32 _, .flt (.fin _ d) => 0 < d
  | .f64 _, .flt (.fin _ d) => 0 < d
  | .f32 _, .flt .pinf | .f32 _, .flt .ninf | .f64 _, .flt .pinf | .f64 _, .flt .ninf => True
  | _, _ => False

end GoUtils.Cast
