/-
Model.Runner — `parallelisation.RunActionWithTimeout` as a small transition system.

Processes: the runner R (select on result channel / timer, then `stop <- true`, then `<-channel`),
the action goroutine A (an arbitrary environment: it may receive from `stop` once, and returns when
it likes — with or without having received), and the timer.
Channel capacities come from gofacts (`make(chan error, 1)`, `make(chan bool)` …).
-/
namespace GoUtils.Runner

structure Facts where
  resultCap : Nat     -- capacity of the channel carrying the action's result
  stopCap : Nat       -- capacity of the `stop` channel
  waitsForAction : Bool   -- after the select, `<-channel` unless completed
  deriving Repr, DecidableEq, Inhabited

inductive RPc | select | sendStop | waitResult | doneOwn | doneTimeout
  deriving Repr, DecidableEq, Inhabited
inductive APc | running | signalled | sending | returned
  deriving Repr, DecidableEq, Inhabited

structure St where
  r : RPc
  a : APc
  resultBuf : Nat     -- results sitting in the channel (0/1)
  stopBuf : Nat       -- signals sitting in `stop`
  timer : Bool        -- timer has fired
  deriving Repr, DecidableEq, Inhabited

def init : St := { r := .select, a := .running, resultBuf := 0, stopBuf := 0, timer := false }

def terminal (s : St) : Bool := s.r == .doneOwn || s.r == .doneTimeout

/-- all successor states (every interleaving, every resolution of the `select`) -/
def succ (f : Facts) (s : St) : List St :=
  -- timer fires
  (if !s.timer then [{ s with timer := true }] else []) ++
  -- A receives a buffered stop signal
  (if s.a == .running && s.stopBuf > 0 then [{ s with a := .signalled, stopBuf := s.stopBuf - 1 }] else []) ++
  -- A decides to return: it goes on to send its result
  (if s.a == .running || s.a == .signalled then [{ s with a := .sending }] else []) ++
  -- A's send into a buffered result channel
  (if s.a == .sending && s.resultBuf < f.resultCap then [{ s with a := .returned, resultBuf := s.resultBuf + 1 }] else []) ++
  -- R at the select
  (match s.r with
   | .select =>
     (if s.resultBuf > 0 then [{ s with r := .doneOwn, resultBuf := s.resultBuf - 1 }] else []) ++
     -- rendezvous on an unbuffered result channel
     (if f.resultCap == 0 && s.a == .sending then [{ s with r := .doneOwn, a := .returned }] else []) ++
     (if s.timer then [{ s with r := .sendStop }] else [])
   | .sendStop =>
     (if s.stopBuf < f.stopCap then [{ s with r := (if f.waitsForAction then .waitResult else .doneTimeout), stopBuf := s.stopBuf + 1 }] else []) ++
     -- rendezvous on an unbuffered stop channel: needs A to be receiving
     (if f.stopCap == 0 && s.a == .running then [{ s with r := (if f.waitsForAction then .waitResult else .doneTimeout), a := .signalled }] else [])
   | .waitResult =>
     (if s.resultBuf > 0 then [{ s with r := .doneTimeout, resultBuf := s.resultBuf - 1 }] else []) ++
     (if f.resultCap == 0 && s.a == .sending then [{ s with r := .doneTimeout, a := .returned }] else [])
   | _ => [])

inductive Reachable (f : Facts) : St → Prop
  | init : Reachable f init
  | step {s t : St} : Reachable f s → t ∈ succ f s → Reachable f t

/-- a state in which the caller of RunActionWithTimeout is blocked for ever -/
def stuck (f : Facts) (s : St) : Bool := !terminal s && (succ f s).isEmpty

/-- progress measure: strictly decreases along every step (so every run is finite) -/
def measure (s : St) : Nat :=
  (if s.timer then 0 else 1) +
  (match s.a with | .running => 3 | .signalled => 2 | .sending => 1 | .returned => 0) +
  (match s.r with | .select => 3 | .sendStop => 2 | .waitResult => 1 | _ => 0)

/-! ### scripted actions (used by the correspondence): restrict the environment's choices -/

/-- `early`: the action returns before the deadline (the timer cannot fire before the runner is done);
    otherwise the action returns only after the runner has taken the timer arm, and — if `readsStop` —
    only after it has received the stop signal. -/
def allowed (early readsStop : Bool) (s t : St) : Bool :=
  -- an action that never looks at `stop` never receives from it
  !(!readsStop && t.a == .signalled && s.a != .signalled) &&
  if early then !(t.timer && !s.timer && !terminal s)
  else
    -- the action may start returning only once the runner has left the select through the timer arm
    !(t.a == .sending && s.a != .sending &&
        (s.r == .select || (readsStop && s.a != .signalled)))

def explore (f : Facts) (early readsStop : Bool) : Nat → List St → List St → List St
  | 0, _, acc => acc
  | fuel + 1, frontier, acc =>
    let next := (frontier.flatMap fun s => (succ f s).filter (allowed early readsStop s)).eraseDups
    let fresh := next.filter (fun t => !acc.contains t)
    if fresh.isEmpty then acc else explore f early readsStop fuel fresh (acc ++ fresh)

/-- possible ends of a run: "own" (action's result), "timeout", "stuck" -/
def outcomes (f : Facts) (early readsStop : Bool) : List String :=
  let all := explore f early readsStop 12 [init] [init]
  let ends := all.filter fun s =>
    terminal s || ((succ f s).filter (allowed early readsStop s)).isEmpty
  (ends.map fun s => if s.r == .doneOwn then "own" else if s.r == .doneTimeout then "timeout" else "stuck").eraseDups

/-! ### Parallelise -/

structure PFacts where
  chanCapIsArgCount : Bool
  oneGoroutinePerArg : Bool
  stopsAtFirstError : Bool
  deriving Repr, DecidableEq, Inhabited

/-- the collector loop over the results in ARRIVAL order: first error wins, else all values -/
def collect : List (Except Nat Nat) → Except Nat (List Nat)
  | [] => .ok []
  | .error e :: _ => .error e
  | .ok v :: rest => match collect rest with
      | .ok vs => .ok (v :: vs)
      | .error e => .error e

/-! ### CancelFunctionStore -/

structure StoreFacts where
  registerExclusive : Bool   -- RegisterCancelFunction appends under the write lock
  cancelHoldsLock : Bool     -- Cancel iterates under a (read or write) lock
  cancelInvokesAll : Bool    -- Cancel calls every stored function
  deriving Repr, DecidableEq, Inhabited

inductive SOp | register (f : Nat) | cancel
  deriving Repr, DecidableEq, Inhabited

/-- With both operations under the mutex each is atomic w.r.t. the other; a history is a sequence of
    atomic operations. Returns, per Cancel (in order), the functions it invoked. -/
def runStore : List Nat → List SOp → List (List Nat)
  | _, [] => []
  | st, .register f :: ops => runStore (st ++ [f]) ops
  | st, .cancel :: ops => st :: runStore st ops


/-! ### the context-based runner: which kind it answers with -/

/-- how the runner's own context (deadline `timeout`, child of the caller's) has ended when the runner decides -/
inductive CtxEnd | alive | deadline | parentCancelled
  deriving Repr, DecidableEq, Inhabited

inductive ROut | own (failed : Bool) | timeout | cancelled
  deriving Repr, DecidableEq, Inhabited

structure CtxFacts where
  entryTestsParent : Bool            -- `DetermineContextError(ctx)` before anything else
  resultBranchRechecksContext : Bool -- after the action's result: `err2 := DetermineContextError(timeoutContext)`
  doneBranchKindFromContext : Bool   -- Done branch: `return DetermineContextError(timeoutContext)` (not a fixed kind)
  deriving Repr, DecidableEq, Inhabited

def kindOf : CtxEnd → ROut
  | .deadline => .timeout
  | .parentCancelled => .cancelled
  | .alive => .own false      -- never used: the Done branch is taken only once the context has ended

/-- `RunActionWithTimeoutAndCancelStore`: `cancelledAtEntry` — the caller's context is done at the call;
    `resultFirst` — the select takes the action's result (else the Done branch); `ended` — state of the runner's
    context when it is looked at; `failed` — the action returned an error -/
def ctxRunner (f : CtxFacts) (cancelledAtEntry resultFirst : Bool) (ended : CtxEnd) (failed : Bool) : ROut :=
  if cancelledAtEntry && f.entryTestsParent then .cancelled
  else if resultFirst then
    (if f.resultBranchRechecksContext then (match ended with | .alive => .own failed | e => kindOf e) else .own failed)
  else if f.doneBranchKindFromContext then kindOf ended else .timeout

end GoUtils.Runner
