/-
Model.Rm — recursive removal (RemoveWithContextAndExclusionPatterns / CleanDir…) on a tree with
symbolic links, in two variants selected by a fact read from the source:
  * `linkFirst = false`: the kind tests (Exists / IsDir / IsEmpty / Ls) follow links (Stat), as the
    original code did: a link to a directory is entered and its target emptied;
  * `linkFirst = true`: a symbolic link (Lstat) is unlinked as a link before anything else.
Paths are physical: the algorithm always recurses with "directory it listed" ++ [name], and the
directory it listed is the resolved one. Link targets are absolute paths whose proper prefixes are
real directories (the harness generates only such); chains and loops of links are allowed.
Exclusion is abstract here (C08 owns the pattern semantics): a set of excluded names.
-/
namespace GoUtils.Rm

abbrev Name := Nat
abbrev Path := List Name

inductive Node
  | dir
  | file (size : Nat)
  | link (target : Path)
  deriving Repr, DecidableEq, Inhabited

abbrev Tree := List (Path × Node)

def lookup (t : Tree) (p : Path) : Option Node :=
  if p = [] then some .dir else (t.find? (·.1 = p)).map (·.2)

def under (q p : Path) : Bool := q.isPrefixOf p

def children (t : Tree) (p : Path) : List Name :=
  t.filterMap fun (q, _) => if q.length = p.length + 1 ∧ p.isPrefixOf q then q.getLast? else none

/-- remove the entry `p` itself -/
def unlink (t : Tree) (p : Path) : Tree := t.filter (·.1 ≠ p)

/-- follow the chain of links starting AT `p` (Stat semantics); `none`: missing, dangling or a loop -/
def resolve (t : Tree) : Nat → Path → Option Path
  | 0, _ => none
  | fuel + 1, p =>
    match lookup t p with
    | none => none
    | some (.link target) => resolve t fuel target
    | some _ => some p

inductive Err | notEmpty | other
  deriving Repr, DecidableEq, Inhabited

inductive Res | ok | err (e : Err)
  deriving Repr, DecidableEq, Inhabited

structure Cfg where
  linkFirst : Bool            -- a symbolic link is recognised (Lstat) and unlinked before anything else
  excluded : List Name        -- names matched by an exclusion pattern
  deepExclusion : Bool := false -- the patterns are handed down to the removal of the entries of a directory
  linkFuel : Nat := 8         -- how many links Stat follows before giving up (ELOOP)
  deriving Repr, Inhabited

def Cfg.isExcluded (c : Cfg) (p : Path) : Bool := p.any (c.excluded.contains ·)

/-- is the (resolved) path empty: a directory without entries, a file of size 0 -/
def isEmptyAt (t : Tree) (q : Path) : Bool :=
  match lookup t q with
  | some .dir => (children t q).isEmpty
  | some (.file n) => n == 0
  | _ => true

/-- the backend's Remove on the entry itself: a non-empty directory is refused -/
def vfsRemove (t : Tree) (p : Path) : Res × Tree :=
  match lookup t p with
  | some .dir => if (children t p).isEmpty then (.ok, unlink t p) else (.err .notEmpty, t)
  | some _ => (.ok, unlink t p)
  | none => (.err .other, t)

/-- run `f` over the names, stopping at the first error -/
def foldNames (f : Tree → Name → Option (Res × Tree)) (ns : List Name) (init : Option (Res × Tree)) :
    Option (Res × Tree) :=
  ns.foldl (fun acc n =>
    match acc with
    | none => none
    | some (.err e, ta) => some (.err e, ta)
    | some (.ok, ta) => f ta n) init

def isLink (t : Tree) (p : Path) : Bool := match lookup t p with | some (.link _) => true | _ => false
def isDirAt (t : Tree) (q : Path) : Bool := lookup t q == some .dir

/-- the configuration handed to the removal of the entries of a directory -/
def childCfg (c : Cfg) : Cfg := if c.deepExclusion then c else { c with excluded := [] }

/-- the names CleanDir works on: the listing of the (resolved) directory without the excluded names -/
def listing (c : Cfg) (t : Tree) (q : Path) : List Name := (children t q).filter fun n => !c.excluded.contains n

/-- where Stat(p) ends up after the content has been dealt with -/
def statPath (c : Cfg) (t1 : Tree) (p q : Path) : Path :=
  match resolve t1 c.linkFuel p with
  | some q1 => q1
  | none => q

/-- the end of a removal, once the content has been dealt with: stop when something was left, keep an
    excluded path, otherwise remove the entry itself -/
def finish (c : Cfg) (isDir : Bool) (t1 : Tree) (q p : Path) : Res × Tree :=
  if isDir && !isEmptyAt t1 (statPath c t1 p q) then (.ok, t1)
  else if c.isExcluded p then (.ok, t1)
  else vfsRemove t1 p

/-- RemoveWithContextAndExclusionPatterns(p) -/
def remove (c : Cfg) : Nat → Tree → Path → Option (Res × Tree)
  | 0, _, _ => none
  | fuel + 1, t, p =>
    if p = [] then some (.ok, t)
    else if c.linkFirst && isLink t p then
      (if c.isExcluded p then some (.ok, t) else some (vfsRemove t p))      -- a link is unlinked as a link
    else
      match resolve t c.linkFuel p with
      | none => some (.ok, t)                        -- "does not exist": nothing to do, success
      | some q =>
        match (if isDirAt t q && !isEmptyAt t q then
                 -- CleanDir: list the (resolved) directory, skip excluded names, remove each entry
                 foldNames (fun ta n => remove (childCfg c) fuel ta (q ++ [n])) (listing c t q) (some (.ok, t))
               else some (.ok, t)) with
        | none => none
        | some (.err e, t1) => some (.err e, t1)
        | some (.ok, t1) => some (finish c (isDirAt t q) t1 q p)

/-- CleanDirWithContextAndExclusionPatterns(p): empty the directory, keep it -/
def cleanDir (c : Cfg) (fuel : Nat) (t : Tree) (p : Path) : Option (Res × Tree) :=
  match resolve t c.linkFuel p with
  | none => some (.ok, t)
  | some q =>
    if isEmptyAt t q then some (.ok, t)
    else if isDirAt t q then
      foldNames (fun ta n => remove (childCfg c) fuel ta (q ++ [n])) (listing c t q) (some (.ok, t))
    else some (.err .other, t)

def fuelFor (t : Tree) : Nat := 2 * t.length + 8

end GoUtils.Rm
