/-
Model.Lock — the file lock as a transition system over the only shared state, the lock directory.
Events are the backend operations that decide everything (the atomic Mkdir of the lock directory and
the successful Remove of it) plus the call boundaries of Unlock; any number of contenders.

  mkOk i        Mkdir by i succeeded: i created the directory and holds the lock
  mkFail i      Mkdir by i failed with 'exists'
  unlockBegin i i entered Unlock (its hold ends here; a non-holder may do it too: ReleaseIfStale)
  rmOk i        a Remove of the lock directory issued inside i's Unlock succeeded
  unlockEnd i   i's Unlock returned
  die i         i's process / heartbeat stopped (its lock becomes stale, it no longer counts as holder)
  revive i      i's heartbeat writer re-created the (removed) lock directory by writing its heartbeat file
                (in-memory backend only: a file created below a missing directory creates the directory)

`step` returns `none` when the event cannot happen in the model (e.g. a second successful Mkdir while
the directory exists): the harness feeds it the events observed on the real code.
-/
namespace GoUtils.Lock

inductive Ev
  | mkOk (i : Nat) | mkFail (i : Nat) | unlockBegin (i : Nat) | rmOk (i : Nat) | unlockEnd (i : Nat) | die (i : Nat)
  | revive (i : Nat)
  deriving Repr, DecidableEq, Inhabited

structure St where
  dir : Option Nat          -- creator of the lock directory that exists now
  holds : List Nat          -- contenders that acquired and have not begun to release (alive)
  releasing : List Nat      -- contenders inside Unlock
  dead : List Nat
  foreign : Nat             -- removals of a directory created by somebody else who is alive
  deriving Repr, DecidableEq, Inhabited

def St.init : St := { dir := none, holds := [], releasing := [], dead := [], foreign := 0 }

def step (s : St) : Ev → Option St
  | .mkOk i =>
    -- (a contender may create the directory while the model still counts it as a holder: its previous
    --  directory was removed by somebody else, or a timed-out LockWithTimeout acquired in the background)
    if s.dir = none ∧ i ∉ s.releasing ∧ i ∉ s.dead then
      some { s with dir := some i, holds := if i ∈ s.holds then s.holds else i :: s.holds }
    else none
  | .mkFail _ => if s.dir ≠ none then some s else none
  | .unlockBegin i =>
    if i ∉ s.releasing then some { s with holds := s.holds.erase i, releasing := i :: s.releasing } else none
  | .rmOk i =>
    if i ∈ s.releasing then
      match s.dir with
      | none => none                       -- nothing to remove: a Remove cannot succeed
      | some j =>
        some { s with dir := none,
                      foreign := if j = i ∨ j ∈ s.dead then s.foreign else s.foreign + 1 }
    else none
  | .unlockEnd i => if i ∈ s.releasing then some { s with releasing := s.releasing.erase i } else none
  | .die i => some { s with dead := i :: s.dead, holds := s.holds.erase i }
  | .revive i => if s.dir = none then some { s with dir := some i } else none

def run : St → List Ev → Option St
  | s, [] => some s
  | s, e :: es => match step s e with
    | none => none
    | some s' => run s' es

end GoUtils.Lock
