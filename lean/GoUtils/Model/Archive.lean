/- Model.Archive — extraction of an archive (a list of entries: relative path, kind, content) below a destination, on
   the reference filesystem model of Model.Fs: the destination is created, then every entry in the order of the archive —
   a directory entry is `mkdir -p`, a file entry creates its parent directories and then the file. Core-only, executable. -/
import GoUtils.Model.Fs
namespace GoUtils.Archive
open GoUtils.Fs

abbrev Entry := Path × Node

/-- one entry of the archive extracted below `dest`: a directory entry is `mkdir -p`, a file entry creates the
    parent directories and then the file -/
def unzipStep (dest : Path) (t : Tree) (e : Entry) : Res × Tree :=
  match e.2 with
  | .dir => mkdirAll t (dest ++ e.1)
  | .file c =>
    match mkdirAll t (parent (dest ++ e.1)) with
    | (.ok, t1) => writeFile t1 (dest ++ e.1) c
    | (r, t1) => (r, t1)

/-- the entries one after the other, stopping at the first error; answers with the list of extracted paths -/
def unzip (dest : Path) : List Entry → Tree → Res × Tree × List Path
  | [], t => (.ok, t, [])
  | e :: es, t =>
    match unzipStep dest t e with
    | (.ok, t1) => let r := unzip dest es t1; (r.1, r.2.1, (dest ++ e.1) :: r.2.2)
    | (r, t1) => (r, t1, [])

/-- the whole extraction: the destination is created first -/
def extract (dest : Path) (es : List Entry) (t0 : Tree) : Res × Tree × List Path :=
  match mkdirAll t0 dest with
  | (.ok, t1) => unzip dest es t1
  | (r, t1) => (r, t1, [])

/-- what the extraction loop does for each kind of entry, as found in the source -/
structure ExtractFacts where
  dirEntriesCreated : Bool           -- a directory entry is created (`MkDir(filePath)`)
  parentsCreatedBeforeFiles : Bool   -- the directory of a file entry is created before the file is opened
  deriving Repr, DecidableEq, Inhabited

def unzipStepF (f : ExtractFacts) (dest : Path) (t : Tree) (e : Entry) : Res × Tree :=
  match e.2 with
  | .dir => if f.dirEntriesCreated then mkdirAll t (dest ++ e.1) else (.ok, t)
  | .file c =>
    match (if f.parentsCreatedBeforeFiles then mkdirAll t (parent (dest ++ e.1)) else (.ok, t)) with
    | (.ok, t1) => writeFile t1 (dest ++ e.1) c
    | (r, t1) => (r, t1)

def unzipF (f : ExtractFacts) (dest : Path) : List Entry → Tree → Res × Tree × List Path
  | [], t => (.ok, t, [])
  | e :: es, t =>
    match unzipStepF f dest t e with
    | (.ok, t1) => let r := unzipF f dest es t1; (r.1, r.2.1, (dest ++ e.1) :: r.2.2)
    | (r, t1) => (r, t1, [])

def extractF (f : ExtractFacts) (dest : Path) (es : List Entry) (t0 : Tree) : Res × Tree × List Path :=
  match mkdirAll t0 dest with
  | (.ok, t1) => unzipF f dest es t1
  | (r, t1) => (r, t1, [])

/-- a check that can be computed: every proper ancestor of every entry is listed as a directory -/
def ancestorsListed (t : Tree) : Bool :=
  t.all fun e => (prefixes e.1).all fun x => x == e.1 || t.contains (x, .dir)


/-- the archive written for a tree (one entry per path, in the order of the walk): directory entries are written or not -/
def zipOfF (writesDirEntries : Bool) (t : Tree) : List Entry := t.filter fun e => writesDirEntries || e.2 != .dir

end GoUtils.Archive
