/-
Model.PageStream — the extra loop of the stream paginators (`AbstractStreamPaginator.HasNext`) in logical
time. The loop polls: an item is there (HasNext returns true), or the current page is exhausted but has a
future — then, when the stream has been marked as running dry, the grace period is tested against the
time of the last sign of life (`timeReachLast`), otherwise that time is refreshed; the future page is
fetched and the loop goes round after a back-off.

Events carry the instant at which they happen: a poll that finds an item, a poll that finds nothing,
`DryUp()`, and the end of the paginator's context (Stop / Close / cancellation).
The shape of the loop comes from gofacts (`SFacts`). Core-only.
-/
namespace GoUtils.PageStream

structure SFacts where
  refreshOnItem : Bool        -- an item found: timeReachLast := now
  refreshWhileNotDry : Bool   -- nothing found and not running dry: timeReachLast := now
  contextTested : Bool        -- the loop tests the paginator's context before fetching the future page
  deriving Repr, DecidableEq, Inhabited

inductive Ev
  | item (τ : Nat) | empty (τ : Nat) | dryUp (τ : Nat) | cancel (τ : Nat)
  deriving Repr, DecidableEq, Inhabited

/-- why HasNext answered false for good -/
inductive Stop
  | graceElapsed (τ : Nat) | cancelled (τ : Nat)
  deriving Repr, DecidableEq, Inhabited

structure St where
  last : Nat              -- timeReachLast
  dry : Bool              -- runningOut
  cancelled : Bool
  stopped : Option Stop
  deriving Repr, DecidableEq, Inhabited

def init (t0 : Nat) : St := { last := t0, dry := false, cancelled := false, stopped := none }

/-- one turn of the loop at instant `τ`; `hasItem`: the current page iterator has an item -/
def poll (f : SFacts) (T : Nat) (s : St) (τ : Nat) (hasItem : Bool) : St :=
  if s.stopped.isSome then s
  else if hasItem && !s.cancelled then { s with last := if f.refreshOnItem then τ else s.last }
  else if s.cancelled && f.contextTested then { s with stopped := some (.cancelled τ) }
  else if s.dry then (if T ≤ τ - s.last then { s with stopped := some (.graceElapsed τ) } else s)
  else { s with last := if f.refreshWhileNotDry then τ else s.last }

def step (f : SFacts) (T : Nat) (s : St) : Ev → St
  | .item τ => poll f T s τ true
  | .empty τ => poll f T s τ false
  | .dryUp _ => { s with dry := true }
  | .cancel _ => { s with cancelled := true }

def run (f : SFacts) (T : Nat) (s : St) (evs : List Ev) : St := evs.foldl (step f T) s

/-- instants do not go backwards, and until DryUp every event comes at most `g` after the previous poll
    (`now`: instant of the previous event, `lp`: of the previous poll) -/
def WellTimed (g : Nat) : Nat → Nat → Bool → List Ev → Prop
  | _, _, _, [] => True
  | now, lp, d, .item τ :: r => now ≤ τ ∧ (d = true ∨ τ ≤ lp + g) ∧ WellTimed g τ τ d r
  | now, lp, d, .empty τ :: r => now ≤ τ ∧ (d = true ∨ τ ≤ lp + g) ∧ WellTimed g τ τ d r
  | now, lp, d, .dryUp τ :: r => now ≤ τ ∧ (d = true ∨ τ ≤ lp + g) ∧ WellTimed g τ lp true r
  | now, lp, d, .cancel τ :: r => now ≤ τ ∧ WellTimed g τ lp d r


/-! ### pages linked by `next` and by `future` links — the two-level loop of the stream paginators without the clock:
    the embedded AbstractPaginator follows `next` links; when it has nothing more, the stream loop looks at the page the
    paginator is on NOW and follows its `future` link (the future page being available). -/

inductive Link | none | next | future
  deriving Repr, DecidableEq, Inhabited

structure SPg where
  items : List Nat
  link : Link
  deriving Repr, DecidableEq, Inhabited

/-- `AbstractPaginator.HasNext`: moves along `next` links only -/
def absHasNext (cur : SPg) (pos : Nat) (rest : List SPg) : Bool × SPg × Nat × List SPg :=
  match rest with
  | [] => (decide (pos < cur.items.length), cur, pos, [])
  | p :: r =>
    if pos < cur.items.length then (true, cur, pos, p :: r)
    else if cur.link ≠ .next then (false, cur, pos, p :: r)
    else absHasNext p 0 r

/-- the stream paginator's HasNext: item test first (which may move the paginator), THEN the current page's future link -/
def streamHasNext : Nat → SPg → Nat → List SPg → Bool × SPg × Nat × List SPg
  | 0, cur, pos, rest => (false, cur, pos, rest)
  | fuel + 1, cur, pos, rest =>
    let a := absHasNext cur pos rest
    if a.1 then a
    else if a.2.1.link ≠ .future then (false, a.2.1, a.2.2.1, a.2.2.2)
    else match a.2.2.2 with
      | [] => (false, a.2.1, a.2.2.1, a.2.2.2)
      | p :: r => streamHasNext fuel p 0 r

/-- the same chain with every link seen as a `next` link -/
def flatHasNext (cur : SPg) (pos : Nat) (rest : List SPg) : Bool × SPg × Nat × List SPg :=
  match rest with
  | [] => (decide (pos < cur.items.length), cur, pos, [])
  | p :: r =>
    if pos < cur.items.length then (true, cur, pos, p :: r)
    else if cur.link = .none then (false, cur, pos, p :: r)
    else flatHasNext p 0 r

end GoUtils.PageStream
