/- The context-based runner (RunActionWithTimeoutAndCancelStore) as a transition system of three parties:
   the action's goroutine (one write into a channel of capacity 1), the context (deadline or caller's cancellation),
   and the runner (select, then one of the two branches). Core-only, executable. -/
namespace GoUtils.CtxRunner

/-- where the runner is -/
inductive PC | select | resultBranch | doneBranch | secondReceive | returned
  deriving Repr, DecidableEq, Inhabited

structure St where
  pc : PC
  actionDone : Bool     -- the action has returned and written its result (one write, buffered channel of capacity 1)
  buf : Bool            -- a value sits in the channel
  ctxDone : Bool        -- the runner's context (deadline, or the caller's cancellation) has ended
  deriving Repr, DecidableEq, Inhabited

structure Facts where
  resultBranchReceivesAgain : Bool   -- after taking the action's result, the runner reads the channel a second time when the context has ended
  deriving Repr, DecidableEq, Inhabited

def init : St := { pc := .select, actionDone := false, buf := false, ctxDone := false }

/-- every move of the three parties: the action finishing, the context ending, the runner advancing -/
def succ (f : Facts) (s : St) : List St :=
  (if !s.actionDone then [{ s with actionDone := true, buf := true }] else []) ++
  (if !s.ctxDone then [{ s with ctxDone := true }] else []) ++
  (match s.pc with
   | .select =>
     (if s.buf then [{ s with pc := .resultBranch, buf := false }] else []) ++
     (if s.ctxDone then [{ s with pc := .doneBranch }] else [])
   | .resultBranch =>
     if s.ctxDone && f.resultBranchReceivesAgain then [{ s with pc := .secondReceive }] else [{ s with pc := .returned }]
   | .doneBranch => if s.buf then [{ s with pc := .returned, buf := false }] else []      -- `<-channel`
   | .secondReceive => if s.buf then [{ s with pc := .returned, buf := false }] else []
   | .returned => [])

/-- the runner waits for a value that can never come: the action has already delivered its only result -/
def stuck (s : St) : Bool :=
  (s.pc == .doneBranch || s.pc == .secondReceive) && !s.buf && s.actionDone

def allStates : List St :=
  [PC.select, .resultBranch, .doneBranch, .secondReceive, .returned].flatMap fun pc =>
    [false, true].flatMap fun a => [false, true].flatMap fun b => [false, true].map fun c =>
      { pc := pc, actionDone := a, buf := b, ctxDone := c }

/-- an inductive invariant: the result is in the channel exactly when the action has written it and the runner has not taken it -/
def Inv (s : St) : Bool :=
  match s.pc with
  | .select | .doneBranch => s.buf == s.actionDone
  | .resultBranch | .returned => s.actionDone && !s.buf
  | .secondReceive => false

def measure (s : St) : Nat :=
  (if s.actionDone then 0 else 1) + (if s.ctxDone then 0 else 1) +
  (match s.pc with | .select => 2 | .resultBranch => 1 | .doneBranch => 1 | .secondReceive => 1 | .returned => 0)

end GoUtils.CtxRunner
