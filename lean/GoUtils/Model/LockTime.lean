/-
Model.LockTime — timed model of stale-lock detection (utils/filesystem/lockfile.go).
Times are integer nanoseconds. Constants and operators come from gofacts (`Generated.Lock`).
-/
namespace GoUtils.LockTime

structure StaleFacts where
  periodMs : Nat               -- lockHeartBeatPeriod
  factor : Nat                 -- `… > factor * beatPeriod.Milliseconds()`
  strict : Bool                -- `>` (true) or `>=`
  sleepLessMs : Nat            -- heart-beat writer sleeps `period - sleepLessMs` ms between stamps
  statErrorMeansFresh : Bool   -- a heart-beat file that cannot be stat'ed counts as not stale
  emptyDirJudgedByDir : Bool   -- no heart-beat file: judge by the lock directory's own mtime
  deriving Repr, DecidableEq, Inhabited

structure ProtoFacts where
  tryPeriodMs : Nat
  mkdirIsTheAcquire : Bool
  stampsDirAfterMkdir : Bool
  releaseIfStaleGuarded : Bool
  deriving Repr, DecidableEq, Inhabited

def msNs : Int := 1000000

/-- `time.Duration.Milliseconds()` : truncation toward zero -/
def toMs (ns : Int) : Int := ns.tdiv msNs

/-- `isStale(filetime, period)` evaluated at time `now` -/
def isStale (f : StaleFacts) (mtime now : Int) : Bool :=
  if f.strict then toMs (now - mtime) > (f.factor * f.periodMs : Nat)
  else toMs (now - mtime) ≥ (f.factor * f.periodMs : Nat)

/-- `RemoteLockFile.IsStale()` given what the observer read: `none` = the lock directory could not be
    listed; `files` = per heart-beat file the mtime read (`none` = stat error); `dirMtime` likewise. -/
def lockIsStale (f : StaleFacts) (listing : Option (List (Option Int))) (dirMtime : Option Int)
    (now : Int) : Bool :=
  match listing with
  | none => false
  | some [] =>
    if f.emptyDirJudgedByDir then
      match dirMtime with
      | none => false
      | some m => isStale f m now
    else false
  | some files => files.all fun
    | none => !f.statErrorMeansFresh
    | some m => isStale f m now

/-- threshold in ns beyond which `isStale` answers true: strictly more than factor·period ms, i.e.
    at least (factor·period + 1) ms for the strict comparison -/
def staleFromNs (f : StaleFacts) : Int :=
  if f.strict then ((f.factor * f.periodMs : Nat) + 1) * msNs else (f.factor * f.periodMs : Nat) * msNs

end GoUtils.LockTime
