/-
Model.Fs — the small reference model of the documented filesystem semantics (mkdir -p, touch, write,
read, ls, rm -rf, cp -r with the destination-shape rules of the library, mv, exists / is-file / is-dir /
is-empty, size) on an abstract tree. This is the SPECIFICATION side of C06: the implementation
(*VFS over MemMapFs and over OsFs) is compared with it call by call by the harness `h fsprog`.

A tree is a finite map from paths (lists of names) to nodes; the root `[]` always exists as a directory.
-/
namespace GoUtils.Fs

abbrev Name := Nat
abbrev Path := List Name

inductive Node
  | dir
  | file (content : Nat)
  deriving Repr, DecidableEq, Inhabited

abbrev Tree := List (Path × Node)

def lookup (t : Tree) (p : Path) : Option Node :=
  if p = [] then some .dir else (t.find? (·.1 = p)).map (·.2)

def isDir (t : Tree) (p : Path) : Bool := lookup t p == some .dir
def isFile (t : Tree) (p : Path) : Bool := match lookup t p with | some (.file _) => true | _ => false
def exists_ (t : Tree) (p : Path) : Bool := (lookup t p).isSome

/-- `p` is `q` or lies below `q` -/
def under (q p : Path) : Bool := q.isPrefixOf p

def children (t : Tree) (p : Path) : List Name :=
  (t.filterMap fun (q, _) => if q.length = p.length + 1 ∧ p.isPrefixOf q then q.getLast? else none)

def insert (t : Tree) (p : Path) (n : Node) : Tree :=
  if p = [] then t else (t.filter (·.1 ≠ p)) ++ [(p, n)]

def removeUnder (t : Tree) (p : Path) : Tree := t.filter fun (q, _) => !under p q

inductive Err | notFound | conflict | invalid | empty | other
  deriving Repr, DecidableEq, Inhabited

inductive Res
  | ok
  | bool (b : Bool)
  | names (l : List Path)      -- listings, as sorted paths relative to the argument
  | content (c : Nat)
  | size (n : Nat)
  | err (e : Err)
  deriving Repr, DecidableEq, Inhabited

/-- prefixes of a path, shortest first, excluding the root -/
def prefixes (p : Path) : List Path := (List.range p.length).map fun i => p.take (i + 1)

/-- `mkdir -p` -/
def mkdirAll (t : Tree) (p : Path) : Res × Tree :=
  if (prefixes p).any (isFile t) then (.err .conflict, t)
  else (.ok, (prefixes p).foldl (fun acc q => if exists_ acc q then acc else insert acc q .dir) t)

def parent (p : Path) : Path := p.dropLast

/-- content of a file of `n` bytes is abstracted by an identifier; size is carried separately -/
def writeFile (t : Tree) (p : Path) (c : Nat) : Res × Tree :=
  if p = [] ∨ isDir t p then (.err .conflict, t)
  else if !isDir t (parent p) then (if exists_ t (parent p) then (.err .conflict, t) else (.err .notFound, t))
  else (.ok, insert t p (.file c))

def touch (t : Tree) (p : Path) : Res × Tree :=
  if exists_ t p then (.ok, t)
  else if !isDir t (parent p) then (if exists_ t (parent p) then (.err .conflict, t) else (.err .notFound, t))
  else (.ok, insert t p (.file 0))

def readFile (t : Tree) (p : Path) : Res :=
  match lookup t p with
  | some (.file c) => if c = 0 then .err .empty else .content c   -- reading an empty file is reported as 'empty'
  | some .dir => .err .conflict
  | none => .err .notFound

def insertSorted (x : Path) : List Path → List Path
  | [] => [x]
  | y :: ys => if compare x y == .gt then y :: insertSorted x ys else x :: y :: ys

def sortPaths (l : List Path) : List Path := l.foldr insertSorted []

def ls (t : Tree) (p : Path) : Res :=
  match lookup t p with
  | some .dir => .names (sortPaths ((children t p).map fun n => [n]))
  | some (.file _) => .err .invalid
  | none => .err .invalid

/-- every path strictly below `p`, relative to `p` -/
def lsRecursive (t : Tree) (p : Path) : Res :=
  match lookup t p with
  | some .dir => .names (sortPaths (t.filterMap fun (q, _) => if under p q ∧ q ≠ p then some (q.drop p.length) else none))
  | some (.file _) => .err .invalid
  | none => .err .invalid

def isEmpty (t : Tree) (p : Path) : Res :=
  match lookup t p with
  | some .dir => .bool (children t p).isEmpty
  | some (.file c) => .bool (c == 0)
  | none => .bool true

/-- `rm -rf`: removing something that does not exist is fine -/
def rm (t : Tree) (p : Path) : Res × Tree :=
  if p = [] then (.ok, t.filter fun _ => false) else (.ok, removeUnder t p)

/-- remove the content of a directory, keep the directory -/
def cleanDir (t : Tree) (p : Path) : Res × Tree :=
  match lookup t p with
  | some .dir => (.ok, t.filter fun (q, _) => !(under p q) || q == p)
  | some (.file _) => (.err .conflict, t)
  | none => (.ok, t)

/-- run `f` over the names one after the other, stopping at the first error; `none` = no answer -/
def foldNames (f : Tree → Name → Option (Res × Tree)) (ns : List Name) (init : Option (Res × Tree)) :
    Option (Res × Tree) :=
  ns.foldl (fun acc n =>
    match acc with
    | none => none
    | some (.err e, ta) => some (.err e, ta)
    | some (_, ta) => f ta n) init

/-- make sure the place to copy to exists; the Bool says whether the destination is a directory -/
def copyPrep (t : Tree) (srcDir : Bool) (dest : Path) (destSlash : Bool) : Res × Tree × Bool :=
  if exists_ t dest then (.ok, t, isDir t dest)
  else if srcDir || destSlash then ((mkdirAll t dest).1, (mkdirAll t dest).2, true)
  else ((mkdirAll t (parent dest)).1, (mkdirAll t (parent dest)).2, false)

/-- the path the source is copied to -/
def copyDst (srcDir destExists destIsDir : Bool) (src dest : Path) : Path :=
  if !(srcDir && !destExists) && destIsDir then dest ++ [src.getLast?.getD 0] else dest

/-- copy of one regular file -/
def copyFile (t : Tree) (src dst : Path) : Res × Tree :=
  match lookup t src with
  | some (.file c) => if isDir t dst then (.err .conflict, t) else (.ok, insert t dst (.file c))
  | _ => (.err .other, t)

/-- `Copy(src, dest)`; `destSlash`: the destination was written with a trailing separator.
    Recursion on the source subtree is bounded by `fuel`; `none` = fuel exhausted (the call does not
    return: the copy keeps feeding on what it creates). -/
def copy : Nat → Tree → Path → Path → Bool → Option (Res × Tree)
  | 0, _, _, _, _ => none
  | fuel + 1, t, src, dest, destSlash =>
    if src = dest ∧ !destSlash then some (.ok, t)
    else if !exists_ t src then some (.err .notFound, t)
    else if isDir t src && under src dest && src ≠ dest then some (.err .invalid, t)   -- a directory into itself
    else if destSlash && isFile t dest then some (.err .conflict, t)   -- `file/`: a file where a directory is needed
    else
      match copyPrep t (isDir t src) dest destSlash with
      | (.err e, t', _) => some (.err e, t')
      | (_, t1, destIsDir) =>
        let dst := copyDst (isDir t src) (exists_ t dest) destIsDir src dest
        if isDir t src then
          match mkdirAll t1 dst with
          | (.err e, t2) => some (.err e, t2)
          | (_, t2) =>
            -- children of the source as listed NOW (after the destination directory was created)
            foldNames (fun ta n => copy fuel ta (src ++ [n]) dst false) (children t2 src) (some (.ok, t2))
        else some (copyFile t1 src dst)

/-- re-root the subtree at `src` to `dest` (a rename of a directory or file to a fresh name) -/
def rename (t : Tree) (src dest : Path) : Tree :=
  t.map fun (q, n) => if under src q then (dest ++ q.drop src.length, n) else (q, n)

/-- `Move(src, dest)`: a rename to the path `dest` (NOT "into" an existing directory); when the
    destination exists the library falls back to merging a directory into it / replacing a file.
    A directory moved below itself is a kind conflict of the model (the implementation misbehaves
    there: see the recorded findings). -/
def move : Nat → Tree → Path → Path → Option (Res × Tree)
  | 0, _, _, _ => none
  | fuel + 1, t, src, dest =>
    if src = dest then some (.ok, t)
    else if !exists_ t src then some (.err .notFound, t)
    else if under src dest then some (.err .invalid, t)                  -- below itself
    else if src = [] then some (.err .conflict, t)
    else match mkdirAll t (parent dest) with
      | (.err e, t1) => some (.err e, t1)
      | (_, t1) =>
        match lookup t1 src, lookup t1 dest with
        | some (.file c), none => some (.ok, removeUnder (insert t1 dest (.file c)) src)
        | some (.file c), some (.file _) => some (.ok, removeUnder (insert t1 dest (.file c)) src)
        | some (.file _), some .dir => some (.err .conflict, t1)
        | some .dir, none => some (.ok, rename t1 src dest)
        | some .dir, some (.file _) => some (.err .conflict, t1)
        | some .dir, some .dir =>
          -- merge the children into the existing destination, then remove the source
          match foldNames (fun ta n => move fuel ta (src ++ [n]) (dest ++ [n])) (children t1 src) (some (Res.ok, t1)) with
          | none => none
          | some (.err e, t2) => some (.err e, t2)
          | some (_, t2) => some (.ok, removeUnder t2 src)
        | none, _ => some (.err .notFound, t1)

def fileSize (t : Tree) (sizes : Nat → Nat) (p : Path) : Res :=
  match lookup t p with
  | some (.file c) => .size (sizes c)
  | some .dir => .err .conflict
  | none => .err .notFound

/-! ### programs -/

inductive Op
  | mkdir (p : Path) | touch (p : Path) | write (p : Path) (c : Nat) | read (p : Path)
  | exists_ (p : Path) | isfile (p : Path) | isdir (p : Path) | isempty (p : Path)
  | ls (p : Path) | lsr (p : Path) | rm (p : Path) | clean (p : Path)
  | cp (s d : Path) (destSlash : Bool) | mv (s d : Path) | size (p : Path)
  deriving Repr, DecidableEq, Inhabited

/-- every path argument of a call -/
def Op.paths : Op → List Path
  | .mkdir p | .touch p | .write p _ | .read p | .exists_ p | .isfile p | .isdir p | .isempty p
  | .ls p | .lsr p | .rm p | .clean p | .size p => [p]
  | .cp s d _ | .mv s d => [s, d]

/-- the destinations of a call: the only places it may alter (a move also removes its source) -/
def Op.targets : Op → List Path
  | .mkdir p | .touch p | .write p _ | .rm p | .clean p => [p]
  | .cp _ d _ => [d]
  | .mv s d => [s, d]
  | _ => []

/-- a path argument that goes THROUGH a regular file is a kind conflict (a file where a directory is needed) -/
def throughFile (t : Tree) (p : Path) : Bool := (prefixes p).dropLast.any (isFile t)

/-- the total length of the tree's paths -/
def totalLen (t : Tree) : Nat := (t.map fun e => e.1.length).sum

/-- enough fuel for every copy and move on `t` (proved: Proofs.FsTerm2, `copy_always_returns`,
    `move_always_returns`) -/
def fuelFor (t : Tree) : Nat := totalLen t + 2

/-- one API call on the reference model; `none` = the call does not return -/
def step (t : Tree) (op : Op) : Option (Res × Tree) :=
  if op.paths.any (throughFile t) then some (.err .conflict, t) else
  match op with
  | .mkdir p => some (mkdirAll t p)
  | .touch p => some (touch t p)
  | .write p c => some (writeFile t p c)
  | .read p => some (readFile t p, t)
  | .exists_ p => some (.bool (exists_ t p), t)
  | .isfile p => some (.bool (isFile t p), t)
  | .isdir p => some (if exists_ t p then .bool (isDir t p) else .err .notFound, t)
  | .isempty p => some (isEmpty t p, t)
  | .ls p => some (ls t p, t)
  | .lsr p => some (lsRecursive t p, t)
  | .rm p => some (rm t p)
  | .clean p => some (cleanDir t p)
  | .cp s d sl => copy (fuelFor t) t s d sl
  | .mv s d => move (fuelFor t) t s d
  | .size p => some (fileSize t id p, t)

/-- a program: the results so far (latest first) and the tree; stops at a call that does not return -/
def run : Tree → List Op → Option Tree
  | t, [] => some t
  | t, op :: ops => match step t op with
    | none => none
    | some (_, t') => run t' ops

/-- `CopyToDirectory(src, dir)`: `mkdir -p dir`, then `cp src dir` -/
def copyToDirectory (t : Tree) (s d : Path) (destSlash : Bool) : Option (Res × Tree) :=
  match step t (.mkdir d) with
  | none => none
  | some (.err e, t1) => some (.err e, t1)
  | some (_, t1) => step t1 (.cp s d destSlash)

/-- `CopyToFile(src, file)`: `cp src file` once the source is a file and the destination a file or a missing plain name -/
def copyToFile (t : Tree) (s d : Path) (destSlash : Bool) : Option (Res × Tree) :=
  if !isFile t s then some (.err .invalid, t)
  else if exists_ t d then (if !isFile t d then some (.err .invalid, t) else step t (.cp s d false))
  else if d.isEmpty || destSlash then some (.err .invalid, t)
  else step t (.cp s d false)

/-- well-formedness: every entry has its parent directory, no entry for the root, keys unique -/
def WF (t : Tree) : Prop :=
  (∀ e ∈ t, e.1 ≠ []) ∧ (∀ e ∈ t, isDir t (parent e.1) = true) ∧ (t.map (·.1)).Nodup

end GoUtils.Fs
