/-
Model.Fs — the small reference model of the documented filesystem semantics (mkdir -p, touch, write,
read, ls, rm -rf, cp -r with the destination-shape rules of the library, mv, exists / is-file / is-dir /
is-empty, size) on an abstract tree. This is the SPECIFICATION side of C06: the implementation
(*VFS over MemMapFs and over OsFs) is compared with it call by call by the harness `h fsprog`.

A tree is a finite map from paths (lists of names) to nodes; the root `[]` always exists as a directory.
-/
namespace GoUtils.Fs

abbrev Name := Nat
abbrev Path := List Name

inductive Node
  | dir
  | file (content : Nat)
  deriving Repr, DecidableEq, Inhabited

abbrev Tree := List (Path × Node)

def lookup (t : Tree) (p : Path) : Option Node :=
  if p = [] then some .dir else (t.find? (·.1 = p)).map (·.2)

def isDir (t : Tree) (p : Path) : Bool := lookup t p == some .dir
def isFile (t : Tree) (p : Path) : Bool := match lookup t p with | some (.file _) => true | _ => false
def exists_ (t : Tree) (p : Path) : Bool := (lookup t p).isSome

/-- `p` is `q` or lies below `q` -/
def under (q p : Path) : Bool := q.isPrefixOf p

def children (t : Tree) (p : Path) : List Name :=
  (t.filterMap fun (q, _) => if q.length = p.length + 1 ∧ p.isPrefixOf q then q.getLast? else none)

def insert (t : Tree) (p : Path) (n : Node) : Tree :=
  if p = [] then t else (t.filter (·.1 ≠ p)) ++ [(p, n)]

def removeUnder (t : Tree) (p : Path) : Tree := t.filter fun (q, _) => !under p q

inductive Err | notFound | conflict | invalid | empty | other
  deriving Repr, DecidableEq, Inhabited

inductive Res
  | ok
  | bool (b : Bool)
  | names (l : List Path)      -- listings, as sorted paths relative to the argument
  | content (c : Nat)
  | size (n : Nat)
  | err (e : Err)
  deriving Repr, DecidableEq, Inhabited

/-- prefixes of a path, shortest first, excluding the root -/
def prefixes (p : Path) : List Path := (List.range p.length).map fun i => p.take (i + 1)

/-- `mkdir -p` -/
def mkdirAll (t : Tree) (p : Path) : Res × Tree :=
  if (prefixes p).any (isFile t) then (.err .conflict, t)
  else (.ok, (prefixes p).foldl (fun acc q => if exists_ acc q then acc else insert acc q .dir) t)

def parent (p : Path) : Path := p.dropLast

/-- content of a file of `n` bytes is abstracted by an identifier; size is carried separately -/
def writeFile (t : Tree) (p : Path) (c : Nat) : Res × Tree :=
  if p = [] ∨ isDir t p then (.err .conflict, t)
  else if !isDir t (parent p) then (if exists_ t (parent p) then (.err .conflict, t) else (.err .notFound, t))
  else (.ok, insert t p (.file c))

def touch (t : Tree) (p : Path) : Res × Tree :=
  if exists_ t p then (.ok, t)
  else if !isDir t (parent p) then (if exists_ t (parent p) then (.err .conflict, t) else (.err .notFound, t))
  else (.ok, insert t p (.file 0))

def readFile (t : Tree) (p : Path) : Res :=
  match lookup t p with
  | some (.file c) => if c = 0 then .err .empty else .content c   -- reading an empty file is reported as 'empty'
  | some .dir => .err .conflict
  | none => .err .notFound

def insertSorted (x : Path) : List Path → List Path
  | [] => [x]
  | y :: ys => if compare x y == .gt then y :: insertSorted x ys else x :: y :: ys

def sortPaths (l : List Path) : List Path := l.foldr insertSorted []

def ls (t : Tree) (p : Path) : Res :=
  match lookup t p with
  | some .dir => .names (sortPaths ((children t p).map fun n => [n]))
  | some (.file _) => .err .invalid
  | none => .err .invalid

/-- every path strictly below `p`, relative to `p` -/
def lsRecursive (t : Tree) (p : Path) : Res :=
  match lookup t p with
  | some .dir => .names (sortPaths (t.filterMap fun (q, _) => if under p q ∧ q ≠ p then some (q.drop p.length) else none))
  | some (.file _) => .err .invalid
  | none => .err .invalid

def isEmpty (t : Tree) (p : Path) : Res :=
  match lookup t p with
  | some .dir => .bool (children t p).isEmpty
  | some (.file c) => .bool (c == 0)
  | none => .bool true

/-- `rm -rf`: removing something that does not exist is fine -/
def rm (t : Tree) (p : Path) : Res × Tree :=
  if p = [] then (.ok, t.filter fun _ => false) else (.ok, removeUnder t p)

/-- remove the content of a directory, keep the directory -/
def cleanDir (t : Tree) (p : Path) : Res × Tree :=
  match lookup t p with
  | some .dir => (.ok, t.filter fun (q, _) => !(under p q) || q == p)
  | some (.file _) => (.err .conflict, t)
  | none => (.ok, t)

/-- `Copy(src, dest)`; `destSlash`: the destination was written with a trailing separator.
    Recursion on the source subtree is bounded by `fuel`; `none` = fuel exhausted (the call does not
    return: the copy keeps feeding on what it creates). -/
def copy : Nat → Tree → Path → Path → Bool → Option (Res × Tree)
  | 0, _, _, _, _ => none
  | fuel + 1, t, src, dest, destSlash =>
    if src = dest ∧ !destSlash then some (.ok, t)
    else if !exists_ t src then some (.err .notFound, t)
    else if isDir t src && under src dest && src ≠ dest then some (.err .invalid, t)   -- a directory into itself
    else
      let srcDir := isDir t src
      let destExists := exists_ t dest
      -- make sure the place to copy to exists
      let prep : Res × Tree × Bool :=
        if destExists then (.ok, t, isDir t dest)
        else if srcDir || destSlash then let (r, t') := mkdirAll t dest; (r, t', true)
        else let (r, t') := mkdirAll t (parent dest); (r, t', false)
      match prep with
      | (.err e, t', _) => some (.err e, t')
      | (_, t1, destIsDir) =>
        let dst := if !(srcDir && !destExists) && destIsDir then dest ++ [src.getLast?.getD 0] else dest
        if srcDir then
          match mkdirAll t1 dst with
          | (.err e, t2) => some (.err e, t2)
          | (_, t2) =>
            -- children of the source as listed NOW (after the destination directory was created)
            (children t2 src).foldl (fun acc n =>
              match acc with
              | none => none
              | some (.err e, ta) => some (.err e, ta)
              | some (_, ta) => copy fuel ta (src ++ [n]) dst false) (some (.ok, t2))
        else
          match lookup t1 src with
          | some (.file c) =>
            if isDir t1 dst then some (.err .conflict, t1) else some (.ok, insert t1 dst (.file c))
          | _ => some (.err .other, t1)

/-- re-root the subtree at `src` to `dest` (a rename of a directory or file to a fresh name) -/
def rename (t : Tree) (src dest : Path) : Tree :=
  t.map fun (q, n) => if under src q then (dest ++ q.drop src.length, n) else (q, n)

/-- `Move(src, dest)`: a rename to the path `dest` (NOT "into" an existing directory); when the
    destination exists the library falls back to merging a directory into it / replacing a file.
    A directory moved below itself is a kind conflict of the model (the implementation misbehaves
    there: see the recorded findings). -/
def move : Nat → Tree → Path → Path → Option (Res × Tree)
  | 0, _, _, _ => none
  | fuel + 1, t, src, dest =>
    if src = dest then some (.ok, t)
    else if !exists_ t src then some (.err .notFound, t)
    else if under src dest then some (.err .invalid, t)                  -- below itself
    else if src = [] then some (.err .conflict, t)
    else match mkdirAll t (parent dest) with
      | (.err e, t1) => some (.err e, t1)
      | (_, t1) =>
        match lookup t1 src, lookup t1 dest with
        | some (.file c), none => some (.ok, removeUnder (insert t1 dest (.file c)) src)
        | some (.file c), some (.file _) => some (.ok, removeUnder (insert t1 dest (.file c)) src)
        | some (.file _), some .dir => some (.err .conflict, t1)
        | some .dir, none => some (.ok, rename t1 src dest)
        | some .dir, some (.file _) => some (.err .conflict, t1)
        | some .dir, some .dir =>
          -- merge the children into the existing destination, then remove the source
          let r : Option (Res × Tree) := (children t1 src).foldl (fun (acc : Option (Res × Tree)) n =>
            match acc with
            | none => none
            | some (Res.err e, ta) => some (Res.err e, ta)
            | some (_, ta) => move fuel ta (src ++ [n]) (dest ++ [n])) (some (Res.ok, t1))
          match r with
          | none => none
          | some (.err e, t2) => some (.err e, t2)
          | some (_, t2) => some (.ok, removeUnder t2 src)
        | none, _ => some (.err .notFound, t1)

def fileSize (t : Tree) (sizes : Nat → Nat) (p : Path) : Res :=
  match lookup t p with
  | some (.file c) => .size (sizes c)
  | some .dir => .err .conflict
  | none => .err .notFound

/-- well-formedness: every entry has its parent directory, no entry for the root, keys unique -/
def WF (t : Tree) : Prop :=
  (∀ e ∈ t, e.1 ≠ []) ∧ (∀ e ∈ t, isDir t (parent e.1) = true) ∧ (t.map (·.1)).Nodup

end GoUtils.Fs
