/-
Model.IO — the context-aware I/O helpers of package safeio (ReadAtMost / ReadAll, CopyDataWithContext,
CopyNWithContext) over scripted streams.

Hand model of: safeio's glue (context test first, error conversion, empty / EOF rules), the
`contextio` reader / writer (test the context, then delegate), `io.LimitedReader`, the `io.Copy`
loop, `io.CopyN`'s result rule and the `ReadFrom` loop of a `bytes.Buffer`-like sink. The context is
a monotone flag that becomes true once `cancelAfter` stream operations (reads reaching the source,
writes reaching the sink) have been issued.
-/
namespace GoUtils.IO

inductive Err | eof | cancelled | src | sink | empty
  deriving Repr, DecidableEq, Inhabited

structure Cfg where
  data : List Nat
  failAt : Option Nat        -- the source answers with its own error instead of reading once `pos ≥ failAt`
  cancelAfter : Option Nat   -- the context is done once this many stream operations were issued
  sinkLimit : Option Nat     -- the sink accepts this many bytes in total, then fails
  sinkCounts : Bool := true  -- writes reaching the sink are stream operations (false: a plain in-memory buffer)
  deriving Repr, Inhabited

structure St where
  pos : Nat                  -- bytes handed out by the source
  script : List Nat          -- sizes the source hands out on its next reads (0 = zero-length read)
  ops : Nat                  -- stream operations issued so far
  out : List Nat             -- what the sink has received
  reads : Nat                -- reads that reached the source
  lateReads : Nat            -- … of which were started while the context was done
  deriving Repr, Inhabited

def St.init (script : List Nat) : St := { pos := 0, script := script, ops := 0, out := [], reads := 0, lateReads := 0 }

def done (c : Cfg) (st : St) : Bool :=
  match c.cancelAfter with
  | some k => decide (k ≤ st.ops)
  | none => false

/-- how many bytes the source hands out for a read into a buffer of `cap` bytes -/
def grant (c : Cfg) (st : St) (cap : Nat) : Nat :=
  min (match st.script with | [] => cap | s :: _ => min s cap) (c.data.length - st.pos)

def srcFails (c : Cfg) (st : St) : Bool :=
  match c.failAt with
  | some k => decide (k ≤ st.pos)
  | none => false

/-- a read that reaches the source -/
def srcRead (c : Cfg) (cap : Nat) (st : St) : (Nat × Option Err) × St :=
  let st1 := { st with ops := st.ops + 1, reads := st.reads + 1,
                       lateReads := st.lateReads + (if done c st then 1 else 0) }
  if srcFails c st then ((0, some .src), st1)
  else if c.data.length ≤ st.pos then ((0, some .eof), st1)
  else ((grant c st cap, none), { st1 with pos := st.pos + grant c st cap, script := st.script.tail })

/-- contextio reader over an optional io.LimitedReader (`lim` = bytes it still allows) -/
def readStep (c : Cfg) (lim : Option Nat) (cap : Nat) (st : St) : (Nat × Option Err) × St × Option Nat :=
  if done c st then ((0, some .cancelled), st, lim)
  else match lim with
    | some 0 => ((0, some .eof), st, lim)
    | some (n + 1) =>
      (srcRead c (min cap (n + 1)) st |>.1, srcRead c (min cap (n + 1)) st |>.2,
        some (n + 1 - (srcRead c (min cap (n + 1)) st).1.1))
    | none => (srcRead c cap st |>.1, srcRead c cap st |>.2, none)

/-- how many of `k` bytes the sink still takes -/
def room (c : Cfg) (st : St) (k : Nat) : Nat :=
  match c.sinkLimit with
  | some m => m - st.out.length
  | none => k

/-- a write that reaches the sink: `k` bytes starting at `frm` in the data -/
def sinkWrite (c : Cfg) (frm k : Nat) (st : St) : (Nat × Option Err) × St :=
  ((min k (room c st k), if room c st k < k then some .sink else none),
   { st with ops := if c.sinkCounts then st.ops + 1 else st.ops,
             out := st.out ++ (c.data.drop frm).take (min k (room c st k)) })

/-- contextio writer (`checked`) or the sink's own ReadFrom loop writing into itself (`!checked`) -/
def writeStep (c : Cfg) (checked : Bool) (frm k : Nat) (st : St) : (Nat × Option Err) × St :=
  if checked && done c st then ((0, some .cancelled), st) else sinkWrite c frm k st

/-- the `io.Copy` loop (and the ReadFrom loop of a buffer-like sink): read, write what was read, stop at
    the first error; EOF is the normal end -/
def pump (c : Cfg) (checked : Bool) (cap : Nat) : Nat → Option Nat → St → Nat → (Nat × Option Err) × St
  | 0, _, st, written => ((written, none), st)
  | fuel + 1, lim, st, written =>
    match readStep c lim cap st with
    | ((nr, er), st1, lim1) =>
      if nr > 0 then
        match writeStep c checked st.pos nr st1 with
        | ((nw, some ew), st2) => ((written + nw, some ew), st2)
        | ((nw, none), st2) =>
          match er with
          | some .eof => ((written + nw, none), st2)
          | some e => ((written + nw, some e), st2)
          | none => pump c checked cap fuel lim1 st2 (written + nw)
      else
        match er with
        | some .eof => ((written, none), st1)
        | some e => ((written, some e), st1)
        | none => pump c checked cap fuel lim1 st1 written

/-- enough fuel: every iteration consumes a byte or a script entry, or ends the loop -/
def fuelFor (c : Cfg) (script : List Nat) : Nat := c.data.length + script.length + 2

/-- the buffer `io.Copy` allocates: 32 KiB, or the limit of a LimitedReader when smaller -/
def copyCap (sinkReaderFrom : Bool) (lim : Option Nat) : Nat :=
  if sinkReaderFrom then 512 else
  match lim with
  | some n => if n < 1 then 1 else min 32768 n
  | none => 32768

structure Out where
  count : Nat
  err : Option Err
  st : St
  deriving Repr, Inhabited

/-- CopyDataWithContext: context first, then the loop; writes go through the contextio writer unless
    the sink brings its own ReadFrom -/
def copyData (c : Cfg) (script : List Nat) (sinkReaderFrom : Bool) : Out :=
  let st := St.init script
  if done c st then { count := 0, err := some .cancelled, st := st } else
  let r := pump c (!sinkReaderFrom) (copyCap sinkReaderFrom none) (fuelFor c script) none st 0
  { count := r.1.1, err := r.1.2, st := r.2 }

/-- io.CopyN's result rule -/
def copyNErr (count : Nat) (err : Option Err) (n : Int) : Option Err :=
  if (count : Int) = n then none else if (count : Int) < n ∧ err = none then some Err.eof else err

/-- CopyNWithContext -/
def copyN (c : Cfg) (script : List Nat) (sinkReaderFrom : Bool) (n : Int) : Out :=
  let st := St.init script
  if done c st then { count := 0, err := some .cancelled, st := st } else
  let r := pump c (!sinkReaderFrom) (copyCap sinkReaderFrom (some n.toNat)) (fuelFor c script) (some n.toNat) st 0
  { count := r.1.1, err := copyNErr r.1.1 r.1.2 n, st := r.2 }

/-- the configuration ReadAtMost runs the loop with: an in-memory buffer as sink -/
def bufCfg (c : Cfg) : Cfg := { c with sinkLimit := none, sinkCounts := false }
def readLim (max : Int) : Option Nat := if max < 0 then none else some max.toNat

/-- ReadAtMost's result rule: an error hides the content, nothing read is 'empty' -/
def readResult (r : (Nat × Option Err) × St) : Out :=
  match r.1.2 with
  | some e => { count := 0, err := some e, st := r.2 }
  | none => if r.1.1 = 0 then { count := 0, err := some .empty, st := r.2 }
            else { count := r.2.out.length, err := none, st := r.2 }

/-- ReadAtMost (`max < 0`: no limit): the sink is a bytes.Buffer, which never fails -/
def readAtMost (c : Cfg) (script : List Nat) (max : Int) : Out :=
  let st := St.init script
  if done c st then { count := 0, err := some .cancelled, st := st } else
  readResult (pump (bufCfg c) false 512 (fuelFor c script) (readLim max) st 0)

end GoUtils.IO
