/-
Model.Hash — (*hashingAlgo).CalculateWithContext as a skeleton over an abstract hash.Hash.

hash.Hash contract assumed (and exercised by the harness on the six real algorithms):
`Write` appends to the absorbed byte string, `Reset` empties it, `Sum` = `H absorbed` for a fixed
function `H` — the theorems hold for EVERY `H`.
Where the hasher is Reset relative to the copy comes from gofacts (`CalcFacts`).
-/
namespace GoUtils.Hash

structure CalcFacts where
  resetBefore : Bool     -- Reset before copying the reader into the hasher
  resetOnError : Bool    -- Reset on the error exit (explicitly or deferred)
  resetAfter : Bool      -- Reset after Sum on the success exit
  deriving Repr, DecidableEq, Inhabited

/-- one calculation: the reader delivers `chunks`; it either reaches EOF (`fail = none`) or the copy
    stops with an error/cancellation after `w` bytes have been written to the hasher. -/
structure Calc where
  chunks : List (List Nat)
  fail : Option Nat
  deriving Repr, DecidableEq, Inhabited

def Calc.content (c : Calc) : List Nat := c.chunks.flatten

/-- state = bytes absorbed by the hasher; result `some d` = success with digest `d`. -/
def calcStep {D : Type} (f : CalcFacts) (H : List Nat → D) (st : List Nat) (c : Calc) :
    Option D × List Nat :=
  let st1 := if f.resetBefore then [] else st
  match c.fail with
  | some w =>
    let st2 := st1 ++ c.content.take w
    (none, if f.resetOnError then [] else st2)
  | none =>
    let st2 := st1 ++ c.content
    (some (H st2), if f.resetAfter then [] else st2)

/-- results of a history of calculations on ONE hasher object (fresh at the start) -/
def runHist {D : Type} (f : CalcFacts) (H : List Nat → D) : List Nat → List Calc → List (Option D)
  | _, [] => []
  | st, c :: cs => (calcStep f H st c).1 :: runHist f H (calcStep f H st c).2 cs

/-- what the property demands of a history: every successful calculation returns `H content`. -/
def expected {D : Type} (H : List Nat → D) : List Calc → List (Option D)
  | [] => []
  | c :: cs => (match c.fail with | some _ => none | none => some (H c.content)) :: expected H cs

end GoUtils.Hash
