/- Model.Members — the member list of a composite logger extended by several producers. An Append reads the
   current list (`read`) and later stores that list plus its own member (`publish`). Under the EXCLUSIVE lock the
   two halves are adjacent; otherwise they interleave freely. Core-only, executable. -/
namespace GoUtils.Members

inductive Step
  | read (p : Nat)       -- producer p reads the composite's member list
  | publish (p : Nat)    -- producer p stores "the list it read, plus its own member" as the composite's member list
  deriving Repr, DecidableEq, Inhabited

structure St where
  members : List Nat
  snap : Nat → Option (List Nat)

def St.init (ms : List Nat) : St := { members := ms, snap := fun _ => none }

def step (s : St) : Step → Option St
  | .read p => match s.snap p with
    | none => some { s with snap := fun q => if q = p then some s.members else s.snap q }
    | some _ => none
  | .publish p => match s.snap p with
    | some l => some { members := l ++ [p], snap := fun q => if q = p then none else s.snap q }
    | none => none

def run : St → List Step → Option St
  | s, [] => some s
  | s, e :: es => match step s e with
    | none => none
    | some s' => run s' es

/-- Append under the exclusive lock: read and publish are adjacent -/
def atomicSchedule (order : List Nat) : List Step := order.flatMap fun p => [.read p, .publish p]

/-- the schedules a lock mode lets happen -/
def allowed (exclusive : Bool) (sched : List Step) : Prop :=
  if exclusive then ∃ order, sched = atomicSchedule order else True

end GoUtils.Members
