/-
Model.Sink — a shared in-memory sink (strings.Builder behind a writer) written by several producers.
An append is not atomic: it reads the current length (`load`) and later publishes its bytes at that
offset (`store`), overwriting whatever was published there in between. Under an EXCLUSIVE lock the two
halves of a write are adjacent; under a shared (read) lock, or none, they interleave freely.
-/
namespace GoUtils.Sink

abbrev Msg := List Nat

inductive Step
  | load (p : Nat)            -- producer p reads the length of the buffer for its next message
  | store (p : Nat)           -- producer p publishes its message at the offset it read
  deriving Repr, DecidableEq, Inhabited

structure St where
  buf : List Nat
  queue : Nat → List Msg       -- messages each producer still has to write
  offset : Nat → Option Nat    -- the length a producer read and has not used yet

def St.init (queue : Nat → List Msg) : St := { buf := [], queue := queue, offset := fun _ => none }

def step (s : St) : Step → Option St
  | .load p => match s.queue p, s.offset p with
    | _ :: _, none => some { s with offset := fun q => if q = p then some s.buf.length else s.offset q }
    | _, _ => none
  | .store p => match s.queue p, s.offset p with
    | m :: rest, some off =>
      some { buf := s.buf.take off ++ m ++ s.buf.drop (off + m.length),
             queue := fun q => if q = p then rest else s.queue q,
             offset := fun q => if q = p then none else s.offset q }
    | _, _ => none

def run : St → List Step → Option St
  | s, [] => some s
  | s, e :: es => match step s e with
    | none => none
    | some s' => run s' es

/-- an exclusive lock: every write is `load p` immediately followed by `store p` -/
def atomicSchedule (order : List Nat) : List Step := order.flatMap fun p => [.load p, .store p]

/-- what the writes of a schedule deliver when each is atomic: the scheduled messages, whole, in order -/
def deliver (queue : Nat → List Msg) : List Nat → List Msg
  | [] => []
  | p :: ps => match queue p with
    | [] => deliver queue ps
    | m :: rest => m :: deliver (fun q => if q = p then rest else queue q) ps

end GoUtils.Sink
