/-
Model.Err — commonerrors: sentinel kinds, the constructors (New/Newf/Errorf/WrapError/
WrapIfNotCommonError), `Any`/`errors.Is` on wrapping chains, and text (de)serialisation of a single
error (`processErrorStrLine`, `deserialiseCommonError`, `ConvertToError`, `SerialiseError`,
`DeserialiseError`).

Tables (sentinel texts, the ordered `case` list of deserialiseCommonError, the IsCommonError list)
are regenerated from the source by gofacts (`Generated.Errors`) and passed in as `Tables`.
Strings are byte lists; `strings.ToLower` / `TrimSpace` are modelled for ASCII (the harness keeps
non-ASCII bytes to caseless, non-space runes).
-/
namespace GoUtils.Err

abbrev Bytes := List Nat

structure KindFact where
  name : String
  text : Bytes
  deriving Repr, Inhabited

structure CaseFact where
  exact : Bool      -- `errStr == ErrX.Error()`  vs  `CorrespondTo(ErrX, errStr)`
  probe : Nat       -- index of ErrX
  ret : Nat         -- index of the returned sentinel
  deriving Repr, Inhabited

structure Tables where
  kinds : List KindFact
  cases : List CaseFact
  common : List Nat     -- the sentinels listed in IsCommonError
  deriving Repr, Inhabited

/-! ### strings -/

def lowerByte (b : Nat) : Nat := if 65 ≤ b ∧ b ≤ 90 then b + 32 else b
def lower (s : Bytes) : Bytes := s.map lowerByte

def isSpace (b : Nat) : Bool := b == 32 || (9 ≤ b && b ≤ 13)

def trimLeft : Bytes → Bytes
  | [] => []
  | b :: bs => if isSpace b then trimLeft bs else b :: bs

def trimSpace (s : Bytes) : Bytes := (trimLeft (trimLeft s).reverse).reverse

def hasPrefix : Bytes → Bytes → Bool
  | _, [] => true
  | [], _ :: _ => false
  | a :: as, b :: bs => a == b && hasPrefix as bs

/-- `strings.Contains hay needle` -/
def containsSub : Bytes → Bytes → Bool
  | [], needle => needle.isEmpty
  | h :: hs, needle => hasPrefix (h :: hs) needle || containsSub hs needle

/-- `strings.Split(s, ":")` -/
def splitColon : Bytes → List Bytes
  | [] => [[]]
  | c :: cs =>
    if c = 58 then [] :: splitColon cs
    else match splitColon cs with
      | [] => [[c]]
      | l :: ls => (c :: l) :: ls

def joinWith (sep : Bytes) : List Bytes → Bytes
  | [] => []
  | [x] => x
  | x :: xs => x ++ sep ++ joinWith sep xs

def colonSpace : Bytes := [58, 32]

/-! ### sentinels, chains -/

inductive Sent
  | common (k : Nat)
  | canceled            -- context.Canceled
  | deadline            -- context.DeadlineExceeded
  | foreign (text : Bytes)   -- errors.New(text), not one of the library's
  deriving Repr, DecidableEq, Inhabited

/-- an error value: a leaf, or `fmt.Errorf("%w: msg", inner)` (text = inner's text ++ ": " ++ msg) -/
inductive GoErr
  | leaf (s : Sent)
  | wrap (inner : GoErr) (msg : Bytes)
  deriving Repr, DecidableEq, Inhabited

def kindText (T : Tables) (k : Nat) : Bytes := (T.kinds.getD k default).text

def sentText (T : Tables) : Sent → Bytes
  | .common k => kindText T k
  | .canceled => [99, 111, 110, 116, 101, 120, 116, 32, 99, 97, 110, 99, 101, 108, 101, 100]
  | .deadline => [99, 111, 110, 116, 101, 120, 116, 32, 100, 101, 97, 100, 108, 105, 110, 101, 32,
                  101, 120, 99, 101, 101, 100, 101, 100]
  | .foreign t => t

def GoErr.text (T : Tables) : GoErr → Bytes
  | .leaf s => sentText T s
  | .wrap inner msg => inner.text T ++ colonSpace ++ msg

/-- `errors.Is(e, sentinel)` along the Unwrap chain (equivalently `Any(e, sentinel)`) -/
def GoErr.has : GoErr → Sent → Bool
  | .leaf s, t => s == t
  | .wrap inner _, t => inner.has t

def GoErr.root : GoErr → Sent
  | .leaf s => s
  | .wrap inner _ => inner.root

/-- index of a sentinel by name (e.g. "ErrCancelled") -/
def kindIdx (T : Tables) (name : String) : Nat :=
  (T.kinds.findIdx? (fun k => k.name == name)).getD 0

def cancelledK (T : Tables) := kindIdx T "ErrCancelled"
def timeoutK (T : Tables) := kindIdx T "ErrTimeout"
def unknownK (T : Tables) := kindIdx T "ErrUnknown"

/-- `ConvertContextError` -/
def convertCtx (T : Tables) (e : GoErr) : GoErr :=
  if e.has .canceled then .leaf (.common (cancelledK T))
  else if e.has .deadline then .leaf (.common (timeoutK T))
  else e

def isCtxKind (T : Tables) (e : GoErr) : Bool :=
  e.has (.common (timeoutK T)) || e.has (.common (cancelledK T))

def isCommon (T : Tables) (e : GoErr) : Bool := T.common.any (fun k => e.has (.common k))

/-- `Errorf(target, msg)` / `New(target, msg)` with the message already formatted -/
def errorf (T : Tables) (target : Option GoErr) (msg : Bytes) : GoErr :=
  let tErr := match target with
    | none => GoErr.leaf (.common (unknownK T))
    | some t => convertCtx T t
  .wrap tErr msg

/-- `WrapError(target, original, msg)` -/
def wrapError (T : Tables) (target orig : Option GoErr) (msg : Bytes) : GoErr :=
  let tErr := target.getD (.leaf (.common (unknownK T)))
  match orig with
  | none => errorf T (some tErr) msg
  | some o =>
    let o' := convertCtx T o
    let tErr := if isCtxKind T o' then o' else tErr
    errorf T (some tErr) (msg ++ colonSpace ++ o.text T)

/-- `WrapIfNotCommonError(target, original, msg)` -/
def wrapIfNotCommon (T : Tables) (target orig : Option GoErr) (msg : Bytes) : GoErr :=
  if (match target with | some t => isCtxKind T (convertCtx T t) | none => false) then
    wrapError T target orig msg
  else match orig with
    | some o => if isCommon T o then errorf T (some o) msg else wrapError T target orig msg
    | none => wrapError T target orig msg

/-! ### (de)serialisation of one error -/

/-- `CorrespondTo(ErrX, errStr)` -/
def correspondTo (text errStr : Bytes) : Bool :=
  let desc := lower text
  let d := lower errStr
  desc == d || containsSub desc d

/-- `deserialiseCommonError` on the already trimmed string.
    `none` = (false, ErrUnknown); `some none` = (true, nil); `some (some k)` = (true, sentinel k) -/
def deserialiseCommon (T : Tables) (errStr : Bytes) : Option (Option Nat) :=
  let s := trimSpace errStr
  if s.isEmpty then some none
  else
    match T.cases.find? (fun c =>
        if c.exact then s == kindText T c.probe else correspondTo (kindText T c.probe) s) with
    | some c => some (some c.ret)
    | none => none

/-- `processErrorStrLine`: `none` for a blank line, else (type, reason). -/
def parseLine (T : Tables) (line : Bytes) : Option (Sent × Bytes) :=
  let s := trimSpace line
  if s.isEmpty then none
  else
    match splitColon s with
    | [] => none
    | seg0 :: rest =>
      let ty := match deserialiseCommon T seg0 with
        | some (some k) => Sent.common k
        | _ => Sent.foreign (trimSpace seg0)
      some (ty, joinWith colonSpace (rest.map trimSpace))

/-- text produced by `marshallingError.ConvertToError().Error()` -/
def marshalText (T : Tables) (ty : GoErr) (reason : Bytes) : Bytes :=
  if reason.isEmpty then ty.text T else (errorf T (some ty) reason).text T

/-- `SerialiseError` of a single-line error -/
def serialise (T : Tables) (e : GoErr) : Bytes :=
  match parseLine T (e.text T) with
  | none => (errorf T (some (.leaf (.common (unknownK T)))) []).text T   -- placeholder, see driver
  | some (ty0, reason) =>
    let ty := match e with
      | .wrap inner _ => inner            -- SetWrappedError(err.Unwrap())
      | .leaf _ => GoErr.leaf ty0
    marshalText T ty reason

/-- `DeserialiseError` of a single line: `none` = nil / error -/
def deserialise (T : Tables) (text : Bytes) : Option GoErr :=
  match parseLine T text with
  | none => none
  | some (ty, reason) =>
    if reason.isEmpty then some (.leaf ty) else some (errorf T (some (.leaf ty)) reason)

/-- `GetErrorReason` -/
def reasonOf (T : Tables) (e : GoErr) : Bytes :=
  match parseLine T (e.text T) with
  | none => []
  | some (_, r) => r

end GoUtils.Err
