/-
Model.Cache — the two shared-cache protocols at the granularity of the steps that change the remote
entry directory, with a crash possible between any two steps (a crash = the remaining steps of that
Store never happen) and any interleaving of clients.

Contents are abstract: `complete v` is the archive of stored version `v`, `trunc v k` a prefix of it
(what an interrupted copy leaves). Two assumptions about contents are explicit parameters of the
theorems, not axioms: hashes of different contents differ (`hashOf` injective on what occurs), and a
truncated archive cannot be unpacked (`unpacks (trunc _ _) = false`).
-/
namespace GoUtils.Cache

inductive Content
  | complete (v : Nat)
  | trunc (v : Nat) (k : Nat)
  deriving Repr, DecidableEq, Inhabited

/-- what unzip does with the archive: only complete archives unpack -/
def unpacks : Content → Bool
  | .complete _ => true
  | .trunc _ _ => false

/-! ### immutable cache: upload under a `.part` name, verify, rename -/

structure File where
  id : Nat                 -- the uuid of the package
  part : Bool              -- still carries the `.part` suffix
  content : Content
  mtime : Nat
  deriving Repr, DecidableEq, Inhabited

structure ImmState where
  files : List File
  clock : Nat
  stored : List Nat        -- versions passed to Store so far
  pending : List (Nat × Nat) := []   -- CleanEntry in progress: packages (id, mtime) its listing told it to remove
  deriving Repr, Inhabited

inductive ImmEv
  | beginStore (id v : Nat)          -- Store(v) starts: the version is handed over, nothing remote yet
  | writePart (id v k : Nat)         -- the copy has written a prefix of the archive under `<id>.part`
  | finishPart (id v : Nat)          -- the copy is complete (still `.part`)
  | failVerify (id : Nat)            -- hash mismatch: the part file is removed
  | rename (id : Nat)                -- `.part` dropped: only after the hashes matched
  | clean                            -- CleanEntry in one step: keep the newest complete package only
  | cleanList                        -- CleanEntry, first half: ONE listing; everything complete but the newest is to go
  | cleanRemove (id m : Nat)         -- CleanEntry, second half: one of the packages of that listing is removed
  deriving Repr, DecidableEq, Inhabited

/-- keep the newer of the candidate so far and the next file -/
def newer (acc : Option File) (f : File) : Option File :=
  match acc with
  | none => some f
  | some g => if g.mtime < f.mtime then some f else some g

def newest (fs : List File) : Option File := (fs.filter (!·.part)).foldl newer none

def immStep (s : ImmState) : ImmEv → Option ImmState
  | .beginStore id v =>
    if s.files.any (·.id = id) then none else some { s with stored := v :: s.stored }
  | .writePart id v k =>
    if v ∈ s.stored ∧ !(s.files.any fun f => f.id = id ∧ !f.part) then
      some { s with files := { id := id, part := true, content := .trunc v k, mtime := s.clock } :: s.files.filter (·.id ≠ id),
                    clock := s.clock + 1 }
    else none
  | .finishPart id v =>
    if v ∈ s.stored ∧ (s.files.any fun f => f.id = id ∧ f.part) then
      some { s with files := { id := id, part := true, content := .complete v, mtime := s.clock } :: s.files.filter (·.id ≠ id),
                    clock := s.clock + 1 }
    else none
  | .failVerify id => some { s with files := s.files.filter fun f => !(f.id = id ∧ f.part) }
  | .rename id =>
    -- the rename is issued only when the hash of the uploaded file equals the hash of the local archive
    match s.files.find? (fun f => f.id = id ∧ f.part) with
    | some f => match f.content with
      | .complete _ => some { s with files := { f with part := false } :: s.files.filter (·.id ≠ id) }
      | .trunc _ _ => none
    | none => none
  | .clean =>
    match newest s.files with
    | some n => some { s with files := s.files.filter fun f => f.part || f.id = n.id }
    | none => some s
  | .cleanList =>
    match newest s.files with
    | some n => some { s with pending := s.pending ++ ((s.files.filter fun f => !f.part && f.id != n.id).map fun f => (f.id, f.mtime)) }
    | none => some s
  | .cleanRemove id m =>
    if (id, m) ∈ s.pending then some { s with files := s.files.filter fun f => !(f.id = id ∧ f.mtime = m ∧ !f.part) } else none

def immRun : ImmState → List ImmEv → Option ImmState
  | s, [] => some s
  | s, e :: es => match immStep s e with
    | none => none
    | some s' => immRun s' es

/-- Fetch (immutable): the newest file without `.part` / `.hash` suffix, unpacked -/
def immFetch (s : ImmState) : Option Content :=
  match newest s.files with
  | some f => if unpacks f.content then some f.content else none
  | none => none

def ImmState.init : ImmState := { files := [], clock := 0, stored := [] }

/-! ### mutable cache: one `cache.zip` overwritten in place under the entry lock, hash side file -/

structure MutState where
  zip : Option Content
  hashFile : Option Content    -- the content whose hash the side file holds
  stored : List Nat
  deriving Repr, Inhabited

inductive MutEv
  | beginStore (v : Nat)
  | overwrite (v k : Nat)      -- the in-place copy has written a prefix of the new archive
  | finishCopy (v : Nat)       -- the copy is complete
  | writeHash                  -- the side file is recomputed from the uploaded archive
  | removeZip                  -- hash mismatch after the transfer: the uploaded file is removed
  deriving Repr, DecidableEq, Inhabited

def mutStep (s : MutState) : MutEv → Option MutState
  | .beginStore v => some { s with stored := v :: s.stored }
  | .overwrite v k => if v ∈ s.stored then some { s with zip := some (.trunc v k) } else none
  | .finishCopy v => if v ∈ s.stored then some { s with zip := some (.complete v) } else none
  | .writeHash => match s.zip with
    | some c => some { s with hashFile := some c }
    | none => none
  | .removeZip => some { s with zip := none }

def mutRun : MutState → List MutEv → Option MutState
  | s, [] => some s
  | s, e :: es => match mutStep s e with
    | none => none
    | some s' => mutRun s' es

/-- Fetch (mutable): expected hash = side file if present, else computed from the archive; the copy
    must have that hash; then it must unpack. Hashes are compared through `hashOf`. -/
def expectedHash (hashOf : Content → Nat) (s : MutState) (c : Content) : Nat :=
  match s.hashFile with
  | some h => hashOf h
  | none => hashOf c

def mutFetch (hashOf : Content → Nat) (s : MutState) : Option Content :=
  match s.zip with
  | none => none
  | some c => if expectedHash hashOf s c = hashOf c ∧ unpacks c then some c else none

def MutState.init : MutState := { zip := none, hashFile := none, stored := [] }

end GoUtils.Cache
