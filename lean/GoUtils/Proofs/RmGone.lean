/-
Proofs.RmGone — "when the call reports success without exclusion patterns the tree is really gone,
dangling links included": for the link-first removal of Model.Rm, on well-formed trees.
-/
import GoUtils.Proofs.Rm
set_option linter.unusedSimpArgs false
set_option linter.unusedVariables false
namespace GoUtils.Rm

/-- well-formed: keys are unique, no entry for the root, and every proper non-empty prefix of a key is
    the key of a DIRECTORY entry (so links and files have nothing below them) -/
structure WFm (t : Tree) : Prop where
  nodup : (t.map (·.1)).Nodup
  noRoot : ∀ e ∈ t, e.1 ≠ []
  parents : ∀ e ∈ t, ∀ a : Path, a ≠ [] → under a e.1 = true → a ≠ e.1 → (a, Node.dir) ∈ t

/-- nothing is left at or below `p` -/
def Gone (t : Tree) (p : Path) : Prop := ∀ e ∈ t, under p e.1 = false

theorem lookup_eq_some_of_mem {t : Tree} (hn : (t.map (·.1)).Nodup) {p : Path} {nd : Node} (hp : p ≠ [])
    (h : (p, nd) ∈ t) : lookup t p = some nd := by
  unfold lookup
  simp only [hp, if_false]
  induction t with
  | nil => cases h
  | cons e t ih =>
    simp only [List.map_cons, List.nodup_cons] at hn
    rcases List.mem_cons.1 h with rfl | h'
    · simp [List.find?_cons]
    · have hne : e.1 ≠ p := by
        intro he
        apply hn.1
        rw [he]
        exact List.mem_map.2 ⟨(p, nd), h', rfl⟩
      simp only [List.find?_cons, hne, decide_false]
      exact ih hn.2 h'

theorem mem_of_lookup {t : Tree} {p : Path} {nd : Node} (hp : p ≠ []) (h : lookup t p = some nd) : (p, nd) ∈ t := by
  unfold lookup at h
  simp only [hp, if_false] at h
  cases hf : t.find? (fun e => decide (e.1 = p)) with
  | none => simp [hf] at h
  | some e =>
    simp [hf] at h
    have hm := List.mem_of_find?_eq_some hf
    have hk := List.find?_some hf
    simp at hk
    obtain ⟨a, b⟩ := e
    simp at hk h
    subst hk; subst h
    exact hm

theorem mem_children_iff (t : Tree) (p : Path) (n : Name) : n ∈ children t p ↔ ∃ nd, (p ++ [n], nd) ∈ t := by
  unfold children
  rw [List.mem_filterMap]
  constructor
  · rintro ⟨⟨q, nd⟩, hq, hcond⟩
    simp only at hcond
    split at hcond
    · rename_i hc
      obtain ⟨hlen, hpre⟩ := hc
      obtain ⟨r, rfl⟩ := List.isPrefixOf_iff_prefix.1 hpre
      have hr : r.length = 1 := by simp at hlen; omega
      match r, hr with
      | [x], _ => simp at hcond; subst hcond; exact ⟨nd, hq⟩
    · cases hcond
  · rintro ⟨nd, h⟩
    refine ⟨(p ++ [n], nd), h, ?_⟩
    simp only
    have h1 : (p ++ [n]).length = p.length + 1 := by simp
    have h2 : p.isPrefixOf (p ++ [n]) = true := List.isPrefixOf_iff_prefix.2 (List.prefix_append p [n])
    simp [h1, h2]

/-- in a well-formed tree, something strictly below `p` implies `p` has a child entry -/
theorem child_of_descendant {t : Tree} (w : WFm t) {p : Path} {e : Path × Node} (he : e ∈ t)
    (hu : under p e.1 = true) (hne : e.1 ≠ p) : ∃ n, n ∈ children t p := by
  obtain ⟨r, hr⟩ := (under_iff p e.1).1 hu
  cases r with
  | nil => simp at hr; exact absurd hr.symm hne
  | cons x r' =>
    refine ⟨x, (mem_children_iff t p x).2 ?_⟩
    by_cases hr0 : r' = []
    · subst hr0; exact ⟨e.2, by rw [hr]; exact he⟩
    · refine ⟨.dir, w.parents e he (p ++ [x]) (by simp) ?_ ?_⟩
      · rw [← hr]; exact (under_iff _ _).2 ⟨r', by simp⟩
      · intro h; rw [← hr] at h; simp at h; exact hr0 h

theorem gone_unlink_leaf {t : Tree} (w : WFm t) {p : Path} (hleaf : children t p = []) : Gone (unlink t p) p := by
  intro e he
  unfold unlink at he
  have hm := List.mem_filter.1 he
  have hne : e.1 ≠ p := by simpa using hm.2
  cases hu : under p e.1 with
  | false => rfl
  | true =>
    obtain ⟨n, hn⟩ := child_of_descendant w hm.1 hu hne
    rw [hleaf] at hn; cases hn

/-- a file or a link has no children in a well-formed tree -/
theorem children_of_nondir {t : Tree} (w : WFm t) {p : Path} {nd : Node} (hp : p ≠ []) (h : lookup t p = some nd)
    (hnd : nd ≠ .dir) : children t p = [] := by
  cases hc : children t p with
  | nil => rfl
  | cons n l =>
    have hn : n ∈ children t p := by rw [hc]; simp
    obtain ⟨nd', hmem⟩ := (mem_children_iff t p n).1 hn
    have hdir := w.parents _ hmem p hp (under_append p [n]) (by simp)
    have := lookup_eq_some_of_mem w.nodup hp hdir
    rw [h] at this
    simp only [Option.some.injEq] at this
    exact absurd this hnd


/-! ### the result of a successful removal -/

/-- what a successful removal of `p` guarantees about the new tree -/
structure Removed (t t' : Tree) (p : Path) : Prop where
  gone : Gone t' p
  wf : WFm t'
  sub : ∀ e ∈ t', e ∈ t
  keep : ∀ e ∈ t, under p e.1 = false → e ∈ t'

theorem wf_of_removed {t t' : Tree} {p : Path} (w : WFm t) (hg : Gone t' p) (hs : ∀ e ∈ t', e ∈ t)
    (hk : ∀ e ∈ t, under p e.1 = false → e ∈ t') (hsl : t'.Sublist t) : WFm t' := by
  refine ⟨(hsl.map (·.1)).nodup w.nodup, fun e he => w.noRoot e (hs e he), ?_⟩
  intro e he a ha hu hne
  have hmem := w.parents e (hs e he) a ha hu hne
  cases hpa : under p a with
  | false => exact hk _ hmem hpa
  | true =>
    have := hg e he
    rw [under_trans hpa hu] at this; cases this

theorem unlink_sublist (t : Tree) (p : Path) : (unlink t p).Sublist t := List.filter_sublist

theorem removed_unlink_leaf {t : Tree} (w : WFm t) {p : Path} (hleaf : children t p = []) : Removed t (unlink t p) p := by
  have hg := gone_unlink_leaf w hleaf
  have hs : ∀ e ∈ unlink t p, e ∈ t := fun e he => (List.mem_filter.1 he).1
  have hk : ∀ e ∈ t, under p e.1 = false → e ∈ unlink t p := by
    intro e he hu
    refine List.mem_filter.2 ⟨he, ?_⟩
    have : e.1 ≠ p := by intro h; rw [h, under_refl] at hu; cases hu
    simpa using this
  exact ⟨hg, wf_of_removed w hg hs hk (unlink_sublist t p), hs, hk⟩

theorem foldNames_err (f : Tree → Name → Option (Res × Tree)) (ns : List Name) (e : Err) (ta : Tree) :
    foldNames f ns (some (.err e, ta)) = some (.err e, ta) := by
  induction ns with
  | nil => rfl
  | cons n ns ih => simpa [foldNames, List.foldl_cons] using ih

theorem foldNames_none (f : Tree → Name → Option (Res × Tree)) (ns : List Name) : foldNames f ns none = none := by
  induction ns with
  | nil => rfl
  | cons n ns ih => simpa [foldNames, List.foldl_cons] using ih

theorem foldNames_cons_ok (f : Tree → Name → Option (Res × Tree)) (n : Name) (ns : List Name) (t0 : Tree) :
    foldNames f (n :: ns) (some (.ok, t0)) = foldNames f ns (f t0 n) := by
  simp [foldNames, List.foldl_cons]

/-- removing the listed entries of `q` one after the other, each removal satisfying `Removed` -/
theorem foldNames_removed {f : Tree → Name → Option (Res × Tree)} {q : Path}
    (hf : ∀ ta n tb, WFm ta → f ta n = some (.ok, tb) → Removed ta tb (q ++ [n]) ∧ tb.Sublist ta) :
    ∀ (ns : List Name) (t0 t1 : Tree), WFm t0 → foldNames f ns (some (.ok, t0)) = some (.ok, t1) →
      WFm t1 ∧ t1.Sublist t0 ∧ (∀ e ∈ t0, (∀ n ∈ ns, under (q ++ [n]) e.1 = false) → e ∈ t1) ∧
      (∀ n ∈ ns, Gone t1 (q ++ [n])) := by
  intro ns
  induction ns with
  | nil =>
    intro t0 t1 w h
    simp only [foldNames, List.foldl_nil, Option.some.injEq, Prod.mk.injEq] at h
    rw [← h.2]
    exact ⟨w, List.Sublist.refl _, fun e he _ => he, fun n hn => by cases hn⟩
  | cons n ns ih =>
    intro t0 t1 w h
    rw [foldNames_cons_ok] at h
    cases hfn : f t0 n with
    | none => rw [hfn, foldNames_none] at h; cases h
    | some x =>
      obtain ⟨r, ta⟩ := x
      rw [hfn] at h
      cases r with
      | err e => rw [foldNames_err] at h; simp at h
      | ok =>
        obtain ⟨hrem, hsl⟩ := hf t0 n ta w hfn
        obtain ⟨w1, hsl1, hk1, hg1⟩ := ih ta t1 hrem.wf h
        refine ⟨w1, hsl1.trans hsl, ?_, ?_⟩
        · intro e he hall
          exact hk1 e (hrem.keep e he (hall n List.mem_cons_self)) (fun m hm => hall m (List.mem_cons_of_mem _ hm))
        · intro m hm
          rcases List.mem_cons.1 hm with rfl | hm'
          · intro e he; exact hrem.gone e (hsl1.subset he)
          · exact hg1 m hm'


/-! ### the main theorem -/

theorem isExcluded_nil {c : Cfg} (h : c.excluded = []) (p : Path) : c.isExcluded p = false := by
  unfold Cfg.isExcluded
  rw [h]
  induction p with
  | nil => rfl
  | cons a l ih => simp [List.any_cons]

theorem listing_nil {c : Cfg} (h : c.excluded = []) (t : Tree) (q : Path) : listing c t q = children t q := by
  unfold listing
  rw [h]
  simp

theorem childCfg_excluded {c : Cfg} (h : c.excluded = []) : (childCfg c).excluded = [] := by
  unfold childCfg; split
  · exact h
  · rfl

theorem childCfg_linkFuel (c : Cfg) : (childCfg c).linkFuel = c.linkFuel := by
  unfold childCfg; split <;> rfl

theorem resolve_nonlink {t : Tree} {k : Nat} {p : Path} {nd : Node} (hl : lookup t p = some nd)
    (hnl : ∀ tg, nd ≠ .link tg) : resolve t (k + 1) p = some p := by
  cases nd with
  | link tg => exact absurd rfl (hnl tg)
  | dir => simp [resolve, hl]
  | file s => simp [resolve, hl]

theorem resolve_missing {t : Tree} {k : Nat} {p : Path} (hl : lookup t p = none) : resolve t (k + 1) p = none := by
  simp [resolve, hl]

theorem gone_of_missing {t : Tree} (w : WFm t) {p : Path} (hp : p ≠ []) (hl : lookup t p = none) : Gone t p := by
  intro e he
  cases hu : under p e.1 with
  | false => rfl
  | true =>
    by_cases hep : e.1 = p
    · have := lookup_eq_some_of_mem w.nodup hp (show (p, e.2) ∈ t by rw [← hep]; exact he)
      rw [hl] at this; cases this
    · have hm := w.parents e he p hp hu (fun h => hep h.symm)
      have := lookup_eq_some_of_mem w.nodup hp hm
      rw [hl] at this; cases this

theorem vfsRemove_leaf {t : Tree} {p : Path} {nd : Node} (hl : lookup t p = some nd) (hc : children t p = []) :
    vfsRemove t p = (.ok, unlink t p) := by
  unfold vfsRemove
  rw [hl]
  cases nd with
  | dir => simp [hc]
  | file s => rfl
  | link tg => rfl

/-- REALLY GONE: a link-first removal without exclusion that reports success leaves nothing at or
    below its argument (dangling links and links to anywhere included), keeps everything else, and the
    remaining tree is well-formed — for every well-formed tree and every fuel -/
theorem remove_gone : ∀ (fuel : Nat) (c : Cfg), c.linkFirst = true → c.excluded = [] → 0 < c.linkFuel →
    ∀ (t : Tree) (p : Path) (t' : Tree), WFm t → p ≠ [] → remove c fuel t p = some (.ok, t') →
      Removed t t' p ∧ t'.Sublist t := by
  intro fuel
  induction fuel with
  | zero => intro c _ _ _ t p t' _ _ h; simp [remove] at h
  | succ fuel ih =>
    intro c hlf hex hfuel t p t' w hp h
    obtain ⟨k, hk⟩ : ∃ k, c.linkFuel = k + 1 := ⟨c.linkFuel - 1, by omega⟩
    simp only [remove, hp, if_false] at h
    by_cases hlink : (c.linkFirst && isLink t p) = true
    · -- a symbolic link: unlinked as a link
      rw [if_pos hlink, isExcluded_nil hex p] at h
      simp only [Bool.false_eq_true, if_false, Option.some.injEq] at h
      have hil : isLink t p = true := by simpa [hlf] using hlink
      obtain ⟨tg, htg⟩ : ∃ tg, lookup t p = some (.link tg) := by
        unfold isLink at hil
        cases hl : lookup t p with
        | none => simp [hl] at hil
        | some nd => cases nd with
          | link tg => exact ⟨tg, rfl⟩
          | dir => simp [hl] at hil
          | file s => simp [hl] at hil
      have hleaf := children_of_nondir w hp htg (by simp)
      rw [vfsRemove_leaf htg hleaf] at h
      simp only [Prod.mk.injEq, true_and] at h
      rw [← h]
      exact ⟨removed_unlink_leaf w hleaf, unlink_sublist t p⟩
    · rw [if_neg hlink] at h
      have hnl : isLink t p = false := by simpa [hlf] using hlink
      cases hl : lookup t p with
      | none =>
        rw [hk, resolve_missing hl] at h
        simp only [Option.some.injEq, Prod.mk.injEq, true_and] at h
        rw [← h]
        exact ⟨⟨gone_of_missing w hp hl, w, fun e he => he, fun e he _ => he⟩, List.Sublist.refl _⟩
      | some nd =>
        have hndl : ∀ tg, nd ≠ .link tg := by
          intro tg hh; subst hh; simp [isLink, hl] at hnl
        rw [hk, resolve_nonlink hl hndl] at h
        simp only at h
        by_cases hcond : (isDirAt t p && !isEmptyAt t p) = true
        · -- a non-empty directory: its entries first
          rw [if_pos hcond, listing_nil hex] at h
          cases hfold : foldNames (fun ta n => remove (childCfg c) fuel ta (p ++ [n])) (children t p) (some (.ok, t)) with
          | none => rw [hfold] at h; cases h
          | some x =>
            obtain ⟨r1, t1⟩ := x
            rw [hfold] at h
            cases r1 with
            | err e => simp at h
            | ok =>
              simp only [Option.some.injEq] at h
              have hf : ∀ ta n tb, WFm ta → (fun ta n => remove (childCfg c) fuel ta (p ++ [n])) ta n = some (.ok, tb) →
                  Removed ta tb (p ++ [n]) ∧ tb.Sublist ta := by
                intro ta n tb wa hrem
                exact ih (childCfg c) (by rw [childCfg_linkFirst]; exact hlf) (childCfg_excluded hex)
                  (by rw [childCfg_linkFuel]; exact hfuel) ta (p ++ [n]) tb wa (by simp) hrem
              obtain ⟨w1, hsl1, hk1, hg1⟩ := foldNames_removed hf (children t p) t t1 w hfold
              have hdir : lookup t p = some .dir := by
                have : isDirAt t p = true := by
                  cases hd : isDirAt t p with
                  | true => rfl
                  | false => simp [hd] at hcond
                unfold isDirAt at this; simpa using this
              -- `p` itself is still there, as a directory without entries
              have hpmem : (p, Node.dir) ∈ t1 := by
                apply hk1 _ (mem_of_lookup hp hdir)
                intro n _
                cases hh : under (p ++ [n]) p with
                | false => rfl
                | true =>
                  have := (under_iff _ _).1 hh
                  have hlen := this.length_le
                  simp at hlen
                  omega
              have hl1 : lookup t1 p = some .dir := lookup_eq_some_of_mem w1.nodup hp hpmem
              have hch1 : children t1 p = [] := by
                cases hc : children t1 p with
                | nil => rfl
                | cons n l =>
                  have hn : n ∈ children t1 p := by rw [hc]; simp
                  obtain ⟨nd', hmem⟩ := (mem_children_iff t1 p n).1 hn
                  have hn0 : n ∈ children t p := (mem_children_iff t p n).2 ⟨nd', hsl1.subset hmem⟩
                  have := hg1 n hn0 _ hmem
                  rw [under_refl] at this; cases this
              have hfin : finish c (isDirAt t p) t1 p p = (.ok, unlink t1 p) := by
                unfold finish statPath
                rw [hk, resolve_nonlink hl1 (by simp)]
                simp only [isEmptyAt, hl1, hch1, List.isEmpty_nil, Bool.not_true, Bool.and_false, Bool.false_eq_true, if_false,
                  isExcluded_nil hex p]
                exact vfsRemove_leaf hl1 hch1
              rw [hfin] at h
              simp only [Prod.mk.injEq, true_and] at h
              rw [← h]
              have hr1 := removed_unlink_leaf w1 hch1
              refine ⟨⟨hr1.gone, hr1.wf, fun e he => hsl1.subset (hr1.sub e he), ?_⟩, (unlink_sublist t1 p).trans hsl1⟩
              intro e he hu
              apply hr1.keep e _ hu
              apply hk1 e he
              intro n _
              exact under_false_of_under (under_append p [n]) hu
        · -- a file, or an empty directory: removed at once
          rw [if_neg hcond] at h
          simp only [Option.some.injEq] at h
          have hleaf : children t p = [] := by
            cases nd with
            | link tg => exact absurd rfl (hndl tg)
            | file s => exact children_of_nondir w hp hl (by simp)
            | dir =>
              have hd : isDirAt t p = true := by simp [isDirAt, hl]
              have he : isEmptyAt t p = true := by
                cases hh : isEmptyAt t p with
                | true => rfl
                | false => simp [hd, hh] at hcond
              simp only [isEmptyAt, hl] at he
              cases hc : children t p with
              | nil => rfl
              | cons a l => simp [hc] at he
          have hfin : finish c (isDirAt t p) t p p = (.ok, unlink t p) := by
            unfold finish statPath
            rw [hk, resolve_nonlink hl hndl]
            have hem : isEmptyAt t p = true ∨ isDirAt t p = false := by
              cases nd with
              | link tg => exact absurd rfl (hndl tg)
              | file s => right; simp [isDirAt, hl]
              | dir => left; simp [isEmptyAt, hl, hleaf]
            have hb : (isDirAt t p && !isEmptyAt t p) = false := by
              rcases hem with h1 | h1 <;> simp [h1]
            simp only [hb, Bool.false_eq_true, if_false, isExcluded_nil hex p]
            exact vfsRemove_leaf hl hleaf
          rw [hfin] at h
          simp only [Prod.mk.injEq, true_and] at h
          rw [← h]
          exact ⟨removed_unlink_leaf w hleaf, unlink_sublist t p⟩

end GoUtils.Rm
