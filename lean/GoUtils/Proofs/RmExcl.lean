/-
Proofs.RmExcl — what the exclusion patterns DO protect in the code as it is (patterns applied to the entries
of the directory handed to the call, not handed further down): an excluded direct child survives with
everything below it, and so does the directory itself.
-/
import GoUtils.Proofs.Rm
import GoUtils.Proofs.RmGone
set_option linter.unusedSimpArgs false
set_option linter.unusedVariables false
namespace GoUtils.Rm

/-- `x` is kept by a fold whose every step only touches the subtree of the name it works on, when `x` lies in
    none of these subtrees -/
theorem foldNames_keeps {f : Tree → Name → Option (Res × Tree)} {q x : Path}
    (hf : ∀ ta n r' tb, f ta n = some (r', tb) → Frame ta tb (q ++ [n])) :
    ∀ (ns : List Name) (r0 : Res) (t0 : Tree) (r : Res) (t' : Tree),
      (∀ m ∈ ns, under (q ++ [m]) x = false) →
      foldNames f ns (some (r0, t0)) = some (r, t') → lookup t' x = lookup t0 x := by
  intro ns
  induction ns with
  | nil =>
    intro r0 t0 r t' _ h
    simp only [foldNames, List.foldl_nil, Option.some.injEq, Prod.mk.injEq] at h
    rw [← h.2]
  | cons n ns ih =>
    intro r0 t0 r t' hx h
    have hx' : ∀ m ∈ ns, under (q ++ [m]) x = false := fun m hm => hx m (List.mem_cons_of_mem _ hm)
    cases r0 with
    | err e => exact ih (.err e) t0 r t' hx' h
    | ok =>
      cases hc : f t0 n with
      | none =>
        have : foldNames f (n :: ns) (some (.ok, t0)) = foldNames f ns none := by
          simp only [foldNames, List.foldl_cons, hc]
        rw [this] at h
        have hnone : ∀ l : List Name, foldNames f l none = none := by
          intro l; induction l with
          | nil => rfl
          | cons m l ihl => simpa [foldNames, List.foldl_cons] using ihl
        rw [hnone] at h; cases h
      | some y =>
        obtain ⟨r1, t1⟩ := y
        have : foldNames f (n :: ns) (some (.ok, t0)) = foldNames f ns (some (r1, t1)) := by
          simp only [foldNames, List.foldl_cons, hc]
        rw [this] at h
        rw [ih r1 t1 r t' hx' h]
        exact hf _ _ _ _ hc x (hx n List.mem_cons_self)

theorem sibling_not_under (q : Path) {m n : Name} (h : m ≠ n) (x : Path) (hx : under (q ++ [n]) x = true) :
    under (q ++ [m]) x = false := by
  cases hu : under (q ++ [m]) x with
  | false => rfl
  | true =>
    have h1 := (under_iff _ _).1 hu
    have h2 := (under_iff _ _).1 hx
    have := List.prefix_of_prefix_length_le h1 h2 (by simp)
    have := List.IsPrefix.eq_of_length this (by simp)
    have := List.append_cancel_left this
    simp at this
    exact absurd this h

/-- CleanDir with exclusion patterns, FIRST LEVEL: an entry of the directory whose name is excluded keeps
    everything at and below it (with links recognised first, on a real directory) -/
theorem cleanDir_keeps_excluded_child (c : Cfg) (hc : c.linkFirst = true) (fuel : Nat) (t : Tree) (p : Path)
    (r : Res) (t' : Tree) (hnl : ∀ tg, lookup t p ≠ some (.link tg)) (h : cleanDir c fuel t p = some (r, t'))
    (n : Name) (hn : c.excluded.contains n = true) :
    ∀ x, under (p ++ [n]) x = true → lookup t' x = lookup t x := by
  intro x hx
  unfold cleanDir at h
  split at h
  · simp only [Option.some.injEq, Prod.mk.injEq] at h; rw [← h.2]
  · rename_i q hq
    have hqp : q = p := resolve_not_link t _ p q hnl hq
    subst hqp
    split at h
    · simp only [Option.some.injEq, Prod.mk.injEq] at h; rw [← h.2]
    · split at h
      · refine foldNames_keeps (q := q) (x := x) ?_ _ _ _ _ _ ?_ h
        · intro ta m r' tb hrec
          exact remove_frame fuel (childCfg c) (by rw [childCfg_linkFirst]; exact hc) ta _ r' tb hrec
        · intro m hm
          have hmn : m ≠ n := by
            intro e; subst e
            unfold listing at hm
            have := (List.mem_filter.1 hm).2
            rw [hn] at this
            cases this
          exact sibling_not_under q hmn x hx
      · simp only [Option.some.injEq, Prod.mk.injEq] at h; rw [← h.2]

theorem child_of_lookup {t : Tree} {p : Path} {n : Name} {nd : Node} (h : lookup t (p ++ [n]) = some nd) :
    n ∈ children t p :=
  (mem_children_iff t p n).2 ⟨nd, mem_of_lookup (by simp) h⟩

theorem not_under_child_self (p : Path) (m : Name) : under (p ++ [m]) p = false := by
  cases h : under (p ++ [m]) p with
  | false => rfl
  | true =>
    have := ((under_iff _ _).1 h).length_le
    simp at this
    omega

/-- Remove with exclusion patterns on a real directory, FIRST LEVEL: an excluded entry of the directory keeps
    everything at and below it, AND the directory itself survives ("with its ancestors", one level) —
    whatever the call answers -/
theorem remove_keeps_excluded_child (c : Cfg) (hc : c.linkFirst = true) (fuel : Nat) (t : Tree) (p : Path)
    (r : Res) (t' : Tree) (hdir : lookup t p = some .dir) (hp : p ≠ [])
    (h : remove c (fuel + 1) t p = some (r, t'))
    (n : Name) (hn : c.excluded.contains n = true) (nd : Node) (hchild : lookup t (p ++ [n]) = some nd) :
    (∀ x, under (p ++ [n]) x = true → lookup t' x = lookup t x) ∧ lookup t' p = some .dir := by
  have hnl : ∀ tg, lookup t p ≠ some (.link tg) := by intro tg e; rw [hdir] at e; cases e
  have hnotlink : isLink t p = false := by unfold isLink; rw [hdir]
  have hres : resolve t c.linkFuel p = some p ∨ resolve t c.linkFuel p = none := by
    cases hr : resolve t c.linkFuel p with
    | none => exact Or.inr rfl
    | some q => left; rw [resolve_not_link t _ p q hnl hr]
  simp only [remove, hp, if_false, hnotlink, Bool.and_false, Bool.false_eq_true] at h
  rcases hres with hr | hr
  · rw [hr] at h
    simp only at h
    have hisdir : isDirAt t p = true := by unfold isDirAt; rw [hdir]; rfl
    have hne : isEmptyAt t p = false := by
      unfold isEmptyAt; rw [hdir]
      have := child_of_lookup hchild
      cases hc' : children t p with
      | nil => rw [hc'] at this; cases this
      | cons a l => rfl
    simp only [hisdir, hne, Bool.not_false, Bool.and_self, if_true] at h
    -- the fold over the entries that are not excluded
    cases hfold : foldNames (fun ta m => remove (childCfg c) fuel ta (p ++ [m])) (listing c t p) (some (.ok, t)) with
    | none => rw [hfold] at h; cases h
    | some y =>
      obtain ⟨r1, t1⟩ := y
      rw [hfold] at h
      have hstep : ∀ ta m r' tb, remove (childCfg c) fuel ta (p ++ [m]) = some (r', tb) → Frame ta tb (p ++ [m]) :=
        fun ta m r' tb hrec => remove_frame fuel (childCfg c) (by rw [childCfg_linkFirst]; exact hc) ta _ r' tb hrec
      have hkeep : ∀ x, under (p ++ [n]) x = true → lookup t1 x = lookup t x := by
        intro x hx
        refine foldNames_keeps (q := p) (x := x) hstep _ _ _ _ _ ?_ hfold
        intro m hm
        have hmn : m ≠ n := by
          intro e; subst e
          unfold listing at hm
          have := (List.mem_filter.1 hm).2
          rw [hn] at this
          cases this
        exact sibling_not_under p hmn x hx
      have hp1 : lookup t1 p = some .dir := by
        rw [foldNames_keeps (q := p) (x := p) hstep _ _ _ _ _ (fun m _ => not_under_child_self p m) hfold]
        exact hdir
      have hchild1 : lookup t1 (p ++ [n]) = some nd := by rw [hkeep _ (under_refl _)]; exact hchild
      -- the end of the removal leaves `t1` as it is: the directory still has an entry
      have hfin : ∀ rr tt, finish c true t1 p p = (rr, tt) → tt = t1 := by
        intro rr tt hf
        unfold finish at hf
        generalize statPath c t1 p p = qq at hf
        by_cases h1 : (true && !isEmptyAt t1 qq) = true
        · rw [if_pos h1] at hf; exact (Prod.mk.inj hf).2.symm
        · rw [if_neg h1] at hf
          by_cases h2 : c.isExcluded p = true
          · rw [if_pos h2] at hf; exact (Prod.mk.inj hf).2.symm
          · rw [if_neg h2] at hf
            unfold vfsRemove at hf
            rw [hp1] at hf
            have := child_of_lookup hchild1
            cases hc' : children t1 p with
            | nil => rw [hc'] at this; cases this
            | cons a l =>
              rw [hc'] at hf
              simp only [List.isEmpty_cons, Bool.false_eq_true, if_false] at hf
              exact (Prod.mk.inj hf).2.symm
      cases r1 with
      | err e =>
        simp only [Option.some.injEq, Prod.mk.injEq] at h
        rw [← h.2]; exact ⟨hkeep, hp1⟩
      | ok =>
        simp only [Option.some.injEq] at h
        have := hfin _ _ h
        rw [this]; exact ⟨hkeep, hp1⟩
  · rw [hr] at h
    simp only [Option.some.injEq, Prod.mk.injEq] at h
    rw [← h.2]; exact ⟨fun _ _ => rfl, hdir⟩

end GoUtils.Rm
