/-
Proofs.Lock — mutual exclusion of the file lock for any number of contenders and any history, as long
as no contender removes a lock directory created by a live other one; and nothing more than that.
-/
import GoUtils.Model.Lock
set_option linter.unusedSimpArgs false
set_option linter.unusedVariables false
namespace GoUtils.Lock

/-- every holder is the creator of the directory that exists now; holders are distinct, alive and not
    inside Unlock -/
structure Good (s : St) : Prop where
  own : ∀ h ∈ s.holds, s.dir = some h
  nodup : s.holds.Nodup
  notRel : ∀ h ∈ s.holds, h ∉ s.releasing
  alive : ∀ h ∈ s.holds, h ∉ s.dead

theorem good_init : Good St.init := ⟨by simp [St.init], by simp [St.init], by simp [St.init], by simp [St.init]⟩

theorem holds_le_one {s : St} (g : Good s) : s.holds.length ≤ 1 := by
  match h : s.holds, g.own, g.nodup with
  | [], _, _ => simp
  | [a], _, _ => simp
  | a :: b :: rest, own, nd =>
    have h1 := own a (by simp)
    have h2 := own b (by simp)
    rw [h1] at h2
    simp only [Option.some.injEq] at h2
    subst h2
    simp at nd

theorem foreign_mono {s s' : St} {e : Ev} (h : step s e = some s') : s.foreign ≤ s'.foreign := by
  cases e with
  | mkOk i => simp only [step] at h; split at h <;> simp at h; rw [← h]; exact Nat.le_refl _
  | mkFail i => simp only [step] at h; split at h <;> simp at h; rw [← h]; exact Nat.le_refl _
  | unlockBegin i => simp only [step] at h; split at h <;> simp at h; rw [← h]; exact Nat.le_refl _
  | unlockEnd i => simp only [step] at h; split at h <;> simp at h; rw [← h]; exact Nat.le_refl _
  | die i => simp only [step] at h; simp at h; rw [← h]; exact Nat.le_refl _
  | revive i => simp only [step] at h; split at h <;> simp at h; rw [← h]; exact Nat.le_refl _
  | rmOk i =>
    simp only [step] at h
    split at h
    · split at h
      · cases h
      · simp at h; rw [← h]; simp only; split <;> omega
    · cases h

/-- one step without foreign removal preserves `Good` -/
theorem good_step {s s' : St} {e : Ev} (h : step s e = some s') (hf : s'.foreign = s.foreign) (g : Good s) : Good s' := by
  cases e with
  | mkOk i =>
    simp only [step] at h
    split at h
    · rename_i hc
      obtain ⟨hd, hr, hdd⟩ := hc
      have hemp : s.holds = [] := by
        cases hs : s.holds with
        | nil => rfl
        | cons a l => have := g.own a (by simp [hs]); rw [hd] at this; cases this
      simp [hemp] at h; subst h
      refine ⟨?_, ?_, ?_, ?_⟩ <;> simp [hr, hdd]
    · cases h
  | mkFail i => simp only [step] at h; split at h <;> simp at h; subst h; exact g
  | unlockBegin i =>
    simp only [step] at h
    split at h
    · simp at h; subst h
      refine ⟨?_, ?_, ?_, ?_⟩
      · intro x hx; exact g.own x (List.mem_of_mem_erase hx)
      · exact g.nodup.erase i
      · intro x hx
        have hx' := List.mem_of_mem_erase hx
        simp only [List.mem_cons, not_or]
        refine ⟨?_, g.notRel x hx'⟩
        intro hxi; subst hxi
        exact (List.Nodup.mem_erase_iff g.nodup).1 hx |>.1 rfl
      · intro x hx; exact g.alive x (List.mem_of_mem_erase hx)
    · cases h
  | unlockEnd i =>
    simp only [step] at h
    split at h
    · simp at h; subst h
      exact ⟨g.own, g.nodup, fun x hx hxr => g.notRel x hx (List.mem_of_mem_erase hxr), g.alive⟩
    · cases h
  | die i =>
    simp only [step] at h; simp at h; subst h
    refine ⟨fun x hx => g.own x (List.mem_of_mem_erase hx), g.nodup.erase i, fun x hx => g.notRel x (List.mem_of_mem_erase hx), ?_⟩
    intro x hx
    simp only [List.mem_cons, not_or]
    refine ⟨?_, g.alive x (List.mem_of_mem_erase hx)⟩
    intro hxi; subst hxi
    exact (List.Nodup.mem_erase_iff g.nodup).1 hx |>.1 rfl
  | revive i =>
    simp only [step] at h
    split at h
    · rename_i hd
      simp at h; subst h
      have hemp : s.holds = [] := by
        cases hs : s.holds with
        | nil => rfl
        | cons a l => have := g.own a (by simp [hs]); rw [hd] at this; cases this
      refine ⟨?_, ?_, ?_, ?_⟩ <;> simp [hemp]
    · cases h
  | rmOk i =>
    simp only [step] at h
    split at h
    · rename_i hrel
      split at h
      · cases h
      · rename_i j hj
        simp at h; subst h
        simp only at hf
        -- no foreign removal: the directory was i's own or a dead contender's: nobody holds
        have hcase : j = i ∨ j ∈ s.dead := by
          by_cases hc : j = i ∨ j ∈ s.dead
          · exact hc
          · simp only [hc, if_false] at hf; omega
        have hemp : s.holds = [] := by
          cases hs : s.holds with
          | nil => rfl
          | cons a l =>
            have hmem : a ∈ s.holds := by simp [hs]
            have := g.own a hmem
            rw [hj] at this
            simp only [Option.some.injEq] at this
            subst this
            rcases hcase with rfl | hd
            · exact absurd hrel (g.notRel _ hmem)
            · exact absurd hd (g.alive _ hmem)
        refine ⟨?_, ?_, ?_, ?_⟩ <;> simp [hemp]
    · cases h

theorem run_foreign_mono : ∀ (es : List Ev) (s s' : St), run s es = some s' → s.foreign ≤ s'.foreign := by
  intro es
  induction es with
  | nil => intro s s' h; simp only [run, Option.some.injEq] at h; subst h; exact Nat.le_refl _
  | cons e es ih =>
    intro s s' h
    simp only [run] at h
    split at h
    · cases h
    · rename_i s1 hs1
      exact Nat.le_trans (foreign_mono hs1) (ih s1 s' h)

/-- MUTUAL EXCLUSION (partial): along every history in which nobody removes a lock directory created
    by a live other contender, at most one contender holds the lock in the final — hence in every —
    state. Any number of contenders, any history length. -/
theorem mutex_of_no_foreign_removal : ∀ (es : List Ev) (s s' : St), Good s → run s es = some s' →
    s'.foreign = s.foreign → Good s' := by
  intro es
  induction es with
  | nil => intro s s' g h _; simp only [run, Option.some.injEq] at h; subst h; exact g
  | cons e es ih =>
    intro s s' g h hf
    simp only [run] at h
    split at h
    · cases h
    · rename_i s1 hs1
      have m1 := foreign_mono hs1
      have m2 := run_foreign_mono es s1 s' h
      exact ih s1 s' (good_step hs1 (by omega) g) h (by omega)

end GoUtils.Lock
