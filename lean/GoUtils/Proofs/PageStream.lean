import GoUtils.Model.PageStream
set_option linter.unusedSimpArgs false
set_option linter.unusedVariables false
namespace GoUtils.PageStream

theorem step_frozen (f : SFacts) (T : Nat) (s : St) (e : Ev) (x : Stop) (h : s.stopped = some x) :
    (step f T s e).stopped = some x := by
  cases e <;> simp [step, poll, h]

theorem run_frozen (f : SFacts) (T : Nat) (evs : List Ev) : ∀ (s : St) (x : Stop), s.stopped = some x →
    (run f T s evs).stopped = some x := by
  induction evs with
  | nil => intro s x h; exact h
  | cons e evs ih => intro s x h; exact ih _ x (step_frozen f T s e x h)

/-- the invariant of the loop while it has not stopped -/
structure Inv (g : Nat) (s : St) (now lp : Nat) (d : Bool) (D : List Nat) : Prop where
  running : s.stopped = none
  le_now : s.last ≤ now
  dry_eq : s.dry = d
  fresh : d = false → s.last = lp
  grace : d = true → ∃ td ∈ D, td ≤ s.last + g

theorem poll_cases (f : SFacts) (hf1 : f.refreshOnItem = true) (hf2 : f.refreshWhileNotDry = true)
    (T g : Nat) (s : St) (now lp : Nat) (d : Bool) (D : List Nat) (τ : Nat) (b : Bool)
    (hinv : Inv g s now lp d D) (hnow : now ≤ τ) (hgap : d = true ∨ τ ≤ lp + g) :
    Inv g (poll f T s τ b) τ τ d D ∨
    (∃ σ, (poll f T s τ b).stopped = some (.cancelled σ)) ∨
    ((poll f T s τ b).stopped = some (.graceElapsed τ) ∧ ∃ td ∈ D, td + T ≤ τ + g) := by
  obtain ⟨hrun, hle, hdry, hfresh, hgrace⟩ := hinv
  unfold poll
  have h0 : ¬ (s.stopped.isSome = true) := by rw [hrun]; simp
  rw [if_neg h0]
  simp only [hf1, hf2, if_true]
  by_cases h1 : (b && !s.cancelled) = true
  · rw [if_pos h1]
    left
    refine ⟨hrun, Nat.le_refl _, hdry, fun _ => rfl, ?_⟩
    intro hd
    obtain ⟨td, htd, hle2⟩ := hgrace hd
    exact ⟨td, htd, by simp only; omega⟩
  · rw [if_neg h1]
    by_cases h2 : (s.cancelled && f.contextTested) = true
    · rw [if_pos h2]
      right; left
      exact ⟨τ, rfl⟩
    · rw [if_neg h2]
      by_cases h3 : s.dry = true
      · rw [if_pos h3]
        have hd : d = true := by rw [← hdry]; exact h3
        obtain ⟨td, htd, hle2⟩ := hgrace hd
        by_cases h4 : T ≤ τ - s.last
        · rw [if_pos h4]
          right; right
          exact ⟨rfl, td, htd, by omega⟩
        · rw [if_neg h4]
          left
          exact ⟨hrun, by omega, hdry, (fun h => by rw [hd] at h; cases h), fun _ => ⟨td, htd, hle2⟩⟩
      · rw [if_neg h3]
        left
        have hd : d = false := by
          rw [← hdry]; cases hh : s.dry with
          | false => rfl
          | true => exact absurd hh h3
        exact ⟨hrun, Nat.le_refl _, hdry, fun _ => rfl, (fun h => by rw [hd] at h; cases h)⟩

/-- GRACE: with both refreshes in place, whenever HasNext gives up because the grace period has elapsed at
    instant `τ`, DryUp() had been called at some instant `td` with `td + T ≤ τ + g` — the iteration went on
    for at least the grace period minus one polling gap after it was told the stream was drying up. -/
theorem grace_general (f : SFacts) (hf1 : f.refreshOnItem = true) (hf2 : f.refreshWhileNotDry = true) (T g : Nat) :
    ∀ (evs : List Ev) (s : St) (now lp : Nat) (d : Bool) (D : List Nat),
      Inv g s now lp d D → WellTimed g now lp d evs →
      ∀ τ, (run f T s evs).stopped = some (.graceElapsed τ) →
        ∃ td, (td ∈ D ∨ Ev.dryUp td ∈ evs) ∧ td + T ≤ τ + g := by
  intro evs
  induction evs with
  | nil =>
    intro s now lp d D hinv _ τ h
    simp only [run, List.foldl_nil] at h
    rw [hinv.running] at h; cases h
  | cons e evs ih =>
    intro s now lp d D hinv hwt τ h
    have hrun : run f T s (e :: evs) = run f T (step f T s e) evs := rfl
    rw [hrun] at h
    -- a poll at instant σ
    have hpoll : ∀ σ b, step f T s e = poll f T s σ b → now ≤ σ → (d = true ∨ σ ≤ lp + g) → WellTimed g σ σ d evs →
        (∀ x, e ≠ Ev.dryUp x) → ∃ td, (td ∈ D ∨ Ev.dryUp td ∈ e :: evs) ∧ td + T ≤ τ + g := by
      intro σ b hst hnow hgap hwt' _
      rw [hst] at h
      rcases poll_cases f hf1 hf2 T g s now lp d D σ b hinv hnow hgap with hI | ⟨σ', hc⟩ | ⟨hs, td, htd, hle⟩
      · obtain ⟨td, hmem, hle⟩ := ih _ σ σ d D hI hwt' τ h
        exact ⟨td, hmem.elim Or.inl (fun hm => Or.inr (List.mem_cons_of_mem _ hm)), hle⟩
      · rw [run_frozen f T evs _ _ hc] at h; cases h
      · rw [run_frozen f T evs _ _ hs] at h
        simp only [Option.some.injEq, Stop.graceElapsed.injEq] at h
        subst h
        exact ⟨td, Or.inl htd, hle⟩
    cases e with
    | item σ =>
      obtain ⟨h1, h2, h3⟩ := hwt
      exact hpoll σ true rfl h1 h2 h3 (fun x hx => by cases hx)
    | empty σ =>
      obtain ⟨h1, h2, h3⟩ := hwt
      exact hpoll σ false rfl h1 h2 h3 (fun x hx => by cases hx)
    | dryUp σ =>
      obtain ⟨h1, h2, h3⟩ := hwt
      have hI : Inv g (step f T s (.dryUp σ)) σ lp true (σ :: D) := by
        refine ⟨hinv.running, Nat.le_trans hinv.le_now h1, rfl, (fun hh => by cases hh), ?_⟩
        intro _
        cases hd : d with
        | true =>
          obtain ⟨td, htd, hle⟩ := hinv.grace hd
          exact ⟨td, List.mem_cons_of_mem _ htd, hle⟩
        | false =>
          have hl := hinv.fresh hd
          rcases h2 with h2 | h2
          · rw [hd] at h2; cases h2
          · exact ⟨σ, List.mem_cons_self, by simp only [step]; omega⟩
      obtain ⟨td, hmem, hle⟩ := ih _ σ lp true (σ :: D) hI h3 τ h
      refine ⟨td, ?_, hle⟩
      rcases hmem with hm | hm
      · rcases List.mem_cons.1 hm with rfl | hm'
        · exact Or.inr List.mem_cons_self
        · exact Or.inl hm'
      · exact Or.inr (List.mem_cons_of_mem _ hm)
    | cancel σ =>
      obtain ⟨h1, h3⟩ := hwt
      have hI : Inv g (step f T s (.cancel σ)) σ lp d D :=
        ⟨hinv.running, Nat.le_trans hinv.le_now h1, hinv.dry_eq, hinv.fresh, hinv.grace⟩
      obtain ⟨td, hmem, hle⟩ := ih _ σ lp d D hI h3 τ h
      exact ⟨td, hmem.elim Or.inl (fun hm => Or.inr (List.mem_cons_of_mem _ hm)), hle⟩

theorem inv_init (g t0 : Nat) : Inv g (init t0) t0 t0 false [] :=
  ⟨rfl, Nat.le_refl _, rfl, fun _ => rfl, (fun h => by cases h)⟩

/-- once the context is done, the next turn of the loop answers false (the loop cannot spin) -/
theorem cancelled_poll_stops (f : SFacts) (hf : f.contextTested = true) (T : Nat) (s : St) (τ : Nat) (b : Bool)
    (hc : s.cancelled = true) : (poll f T s τ b).stopped.isSome = true := by
  unfold poll
  by_cases h0 : s.stopped.isSome = true
  · rw [if_pos h0]; exact h0
  · rw [if_neg h0]
    simp [hc, hf]

/-- without the context test a cancelled, not-dry stream never stops however often it is polled -/
theorem spins_without_context_test (f : SFacts) (hf : f.contextTested = false) (T : Nat) (polls : List Nat) (t0 : Nat) :
    (run f T { init t0 with cancelled := true } (polls.map Ev.empty)).stopped = none := by
  have key : ∀ (l : List Nat) (s : St), s.stopped = none → s.cancelled = true → s.dry = false →
      (run f T s (l.map Ev.empty)).stopped = none := by
    intro l
    induction l with
    | nil => intro s h _ _; exact h
    | cons x l ih =>
      intro s h1 h2 h3
      simp only [List.map_cons, run, List.foldl_cons]
      apply ih
      · simp [step, poll, h1, h2, h3, hf]
      · simp [step, poll, h1, h2, h3, hf]
      · simp [step, poll, h1, h2, h3, hf]
  exact key polls _ rfl rfl rfl

/-- no DryUp, no cancellation: the stream paginator never gives up -/
theorem never_stops_unasked (f : SFacts) (T : Nat) : ∀ (evs : List Ev) (s : St), s.stopped = none → s.dry = false →
    s.cancelled = false → (∀ e ∈ evs, (∃ τ, e = .item τ) ∨ (∃ τ, e = .empty τ)) → (run f T s evs).stopped = none := by
  intro evs
  induction evs with
  | nil => intro s h _ _ _; exact h
  | cons e evs ih =>
    intro s h1 h2 h3 hall
    simp only [run, List.foldl_cons]
    have hrest : ∀ e' ∈ evs, (∃ τ, e' = .item τ) ∨ (∃ τ, e' = .empty τ) := fun e' he' => hall e' (List.mem_cons_of_mem _ he')
    rcases hall e List.mem_cons_self with ⟨τ, rfl⟩ | ⟨τ, rfl⟩
    · apply ih _ _ _ _ hrest <;> simp [step, poll, h1, h2, h3]
    · apply ih _ _ _ _ hrest <;> simp [step, poll, h1, h2, h3]


/-! ### future links are as good as next links -/

/-- for a stream paginator a chain of pages linked by `next` and `future` links in any mix is iterated exactly as
    the same chain linked by `next` links only (same answer, same page, same position, same pages still to come) -/
theorem stream_eq_flat : ∀ (rest : List SPg) (cur : SPg) (pos fuel : Nat), rest.length < fuel →
    streamHasNext fuel cur pos rest = flatHasNext cur pos rest := by
  intro rest
  induction rest with
  | nil =>
    intro cur pos fuel hf
    cases fuel with
    | zero => omega
    | succ f =>
      by_cases hp : pos < cur.items.length
      · simp [streamHasNext, flatHasNext, absHasNext, hp]
      · cases hl : cur.link <;> simp [streamHasNext, flatHasNext, absHasNext, hp, hl]
  | cons p r ih =>
    intro cur pos fuel hf
    cases fuel with
    | zero => omega
    | succ f =>
      by_cases hp : pos < cur.items.length
      · simp [streamHasNext, flatHasNext, absHasNext, hp]
      · cases hl : cur.link with
        | none => simp [streamHasNext, flatHasNext, absHasNext, hp, hl]
        | next =>
          -- the embedded paginator moves on by itself: same fuel
          have h1 : absHasNext cur pos (p :: r) = absHasNext p 0 r := by simp [absHasNext, hp, hl]
          have h2 : streamHasNext (f + 1) cur pos (p :: r) = streamHasNext (f + 1) p 0 r := by
            simp only [streamHasNext, h1]
          have h3 : flatHasNext cur pos (p :: r) = flatHasNext p 0 r := by simp [flatHasNext, hp, hl]
          rw [h2, h3]
          exact ih p 0 (f + 1) (by simp at hf; omega)
        | future =>
          have h1 : absHasNext cur pos (p :: r) = (false, cur, pos, p :: r) := by simp [absHasNext, hp, hl]
          have h3 : flatHasNext cur pos (p :: r) = flatHasNext p 0 r := by simp [flatHasNext, hp, hl]
          rw [h3]
          simp only [streamHasNext, h1, hl]
          simp
          exact ih p 0 f (by simp at hf; omega)

end GoUtils.PageStream
