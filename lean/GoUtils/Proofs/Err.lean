import GoUtils.Model.Err
namespace GoUtils.Err

variable (T : Tables)

@[simp] theorem has_errorf_some (t : GoErr) (m : Bytes) (s : Sent) :
    (errorf T (some t) m).has s = (convertCtx T t).has s := by
  simp [errorf, GoErr.has]

/-- a target that carries no context marker is left alone by ConvertContextError -/
theorem convertCtx_of_plain (t : GoErr) (h1 : t.has .canceled = false) (h2 : t.has .deadline = false) :
    convertCtx T t = t := by simp [convertCtx, h1, h2]

theorem convertCtx_isCtx_of_marker (t : GoErr) (h : t.has .canceled = true ∨ t.has .deadline = true) :
    isCtxKind T (convertCtx T t) = true := by
  unfold convertCtx isCtxKind
  by_cases h1 : t.has .canceled = true
  · simp [h1, GoErr.has]
  · have h2 : t.has .deadline = true := by cases h with | inl h => exact absurd h h1 | inr h => exact h
    simp [h1, h2, GoErr.has]

/-- New / Newf / Errorf: the result is recognised as every kind of its (context-free) target. -/
theorem errorf_keeps_kind (t : GoErr) (m : Bytes) (k : Nat)
    (h1 : t.has .canceled = false) (h2 : t.has .deadline = false) (hk : t.has (.common k) = true) :
    (errorf T (some t) m).has (.common k) = true := by
  simp [convertCtx_of_plain T t h1 h2, hk]

/-- … and a target that is a cancellation / deadline becomes Cancelled / Timeout. -/
theorem errorf_ctx_target (t : GoErr) (m : Bytes) (h : t.has .canceled = true ∨ t.has .deadline = true) :
    isCtxKind T (errorf T (some t) m) = true := by
  have := convertCtx_isCtx_of_marker T t h
  simpa [isCtxKind] using this

/-- WrapError with a cause that is not a cancellation / deadline keeps the target's kind. -/
theorem wrapError_keeps_kind (t : GoErr) (o : Option GoErr) (m : Bytes) (k : Nat)
    (h1 : t.has .canceled = false) (h2 : t.has .deadline = false) (hk : t.has (.common k) = true)
    (ho : ∀ o', o = some o' → isCtxKind T (convertCtx T o') = false) :
    (wrapError T (some t) o m).has (.common k) = true := by
  unfold wrapError
  cases o with
  | none => simp [convertCtx_of_plain T t h1 h2, hk]
  | some o' => simp [ho o' rfl, convertCtx_of_plain T t h1 h2, hk]

/-- WrapError with a cancellation / deadline among the causes: the result is Cancelled / Timeout
    and is recognised as nothing but the kinds of the (converted) cause. -/
theorem wrapError_ctx_cause (t : Option GoErr) (o : GoErr) (m : Bytes)
    (ho : isCtxKind T (convertCtx T o) = true) :
    isCtxKind T (wrapError T t (some o) m) = true ∧
    ∀ s, (wrapError T t (some o) m).has s = (convertCtx T (convertCtx T o)).has s := by
  have key : isCtxKind T (convertCtx T (convertCtx T o)) = true := by
    unfold convertCtx at ho ⊢
    by_cases h1 : o.has .canceled = true
    · simp [h1, GoErr.has, isCtxKind]
    · by_cases h2 : o.has .deadline = true
      · simp [h1, h2, GoErr.has, isCtxKind]
      · have h1' : o.has .canceled = false := by simpa using h1
        have h2' : o.has .deadline = false := by simpa using h2
        simp only [h1', h2', Bool.false_eq_true, if_false] at ho ⊢
        simp only [isCtxKind] at ho ⊢
        simp only [h1', h2', Bool.false_eq_true, if_false, ho]
  have hw : wrapError T t (some o) m
      = errorf T (some (convertCtx T o)) (m ++ colonSpace ++ o.text T) := by
    simp only [wrapError, ho, if_true]
  rw [hw]
  refine ⟨?_, fun s => by simp⟩
  simpa [isCtxKind] using key

/-- WrapIfNotCommonError: a common-error cause (not a context one, target not a context one)
    keeps the CAUSE's kind. -/
theorem wrapIfNotCommon_keeps_cause (t o : GoErr) (m : Bytes) (j : Nat)
    (ht : isCtxKind T (convertCtx T t) = false)
    (hoc : isCommon T o = true) (h1 : o.has .canceled = false) (h2 : o.has .deadline = false)
    (hj : o.has (.common j) = true) :
    (wrapIfNotCommon T (some t) (some o) m).has (.common j) = true := by
  unfold wrapIfNotCommon
  simp [ht, hoc, convertCtx_of_plain T o h1 h2, hj]

/-- WrapIfNotCommonError: a foreign cause (and nothing context-like) keeps the TARGET's kind. -/
theorem wrapIfNotCommon_keeps_target (t : GoErr) (o : Option GoErr) (m : Bytes) (k : Nat)
    (h1 : t.has .canceled = false) (h2 : t.has .deadline = false) (hk : t.has (.common k) = true)
    (hoc : ∀ o', o = some o' → isCommon T o' = false ∧ isCtxKind T (convertCtx T o') = false) :
    (wrapIfNotCommon T (some t) o m).has (.common k) = true := by
  have hw := fun o => wrapError_keeps_kind T t o m k h1 h2 hk
  unfold wrapIfNotCommon
  cases o with
  | none =>
    have := hw none (by simp)
    simp only []
    split <;> exact this
  | some o' =>
    have ⟨hc, hx⟩ := hoc o' rfl
    have := hw (some o') (by intro o'' h; injection h with h; subst h; exact hx)
    simp only [hc, Bool.false_eq_true, if_false]
    split <;> exact this

end GoUtils.Err
