/-
Proofs.Regex — the derivative matcher is closed under the constructions the exclusion test relies on:
a full match of `p` on a name is a match of `p` SOMEWHERE in any string containing that name.
-/
import GoUtils.Model.Regex
set_option linter.unusedSimpArgs false
namespace GoUtils.Regex

theorem foldl_none (s : List Nat) : s.foldl deriv .none = .none := by
  induction s with
  | nil => rfl
  | cons x s ih => simpa [List.foldl_cons, deriv] using ih

theorem fullMatch_none (s : List Nat) : fullMatch .none s = false := by
  unfold fullMatch; rw [foldl_none]; rfl

theorem fullMatch_cons (r : Re) (x : Nat) (s : List Nat) : fullMatch r (x :: s) = fullMatch (deriv r x) s := rfl

theorem fullMatch_alt (a b : Re) (s : List Nat) : fullMatch (.alt a b) s = (fullMatch a s || fullMatch b s) := by
  induction s generalizing a b with
  | nil => rfl
  | cons x s ih => simp only [fullMatch_cons, deriv]; exact ih _ _

/-- a nullable left factor can be skipped -/
theorem fullMatch_cat_nullable (a b : Re) (s : List Nat) (ha : nullable a = true) (hb : fullMatch b s = true) :
    fullMatch (.cat a b) s = true := by
  cases s with
  | nil => simp only [fullMatch, List.foldl_nil, nullable] at *; simp [ha, hb]
  | cons x s =>
    simp only [fullMatch_cons, deriv, ha, if_true]
    rw [fullMatch_alt]
    rw [fullMatch_cons] at hb
    simp [hb]

/-- concatenation: a match of `a` followed by a match of `b` -/
theorem fullMatch_cat (a b : Re) (s1 s2 : List Nat) (ha : fullMatch a s1 = true) (hb : fullMatch b s2 = true) :
    fullMatch (.cat a b) (s1 ++ s2) = true := by
  induction s1 generalizing a with
  | nil => exact fullMatch_cat_nullable a b s2 (by simpa [fullMatch] using ha) hb
  | cons x s1 ih =>
    rw [fullMatch_cons] at ha
    simp only [List.cons_append, fullMatch_cons, deriv]
    have := ih (deriv a x) ha
    split
    · rw [fullMatch_alt, this]; rfl
    · exact this

/-- `.*` matches everything -/
theorem fullMatch_anything (s : List Nat) : fullMatch anything s = true := by
  induction s with
  | nil => rfl
  | cons x s ih =>
    simp only [anything, fullMatch_cons, deriv]
    exact fullMatch_cat_nullable .eps (.star .any) s rfl ih

/-- a full match of `p` on `n` is a match somewhere in `a ++ n ++ c` -/
theorem search_of_fullMatch (p : Re) (a n c : List Nat) (h : fullMatch p n = true) : search p (a ++ n ++ c) = true := by
  unfold search
  rw [List.append_assoc]
  exact fullMatch_cat _ _ a (n ++ c) (fullMatch_anything a) (fullMatch_cat _ _ n c h (fullMatch_anything c))

theorem mem_joinPath (comps : List (List Nat)) (n : List Nat) (h : n ∈ comps) :
    ∃ a c, joinPath comps = a ++ n ++ c := by
  induction comps with
  | nil => cases h
  | cons x rest ih =>
    cases rest with
    | nil =>
      simp only [List.mem_singleton] at h; subst h
      exact ⟨[], [], by simp [joinPath]⟩
    | cons y rest' =>
      rcases List.mem_cons.1 h with rfl | h'
      · exact ⟨[], [47] ++ joinPath (y :: rest'), by simp [joinPath]⟩
      · obtain ⟨a, c, hac⟩ := ih h'
        exact ⟨x ++ [47] ++ a, c, by simp [joinPath, hac]⟩

/-- the pattern itself is always among its expansions -/
theorem excluded_of_search (pats : List Re) (p : Re) (hp : p ∈ pats) (s : List Nat) (h : search p s = true) :
    excluded pats s = true := by
  unfold excluded
  rw [List.any_eq_true]
  exact ⟨p, hp, by simp [expand, h]⟩

end GoUtils.Regex
