/-
Proofs.Rm — recursive removal that unlinks symbolic links first never touches anything outside the
path it was given (Model.Rm, `linkFirst = true`), for every tree, fuel and set of excluded names.
-/
import GoUtils.Model.Rm
set_option linter.unusedSimpArgs false
set_option linter.unusedVariables false
namespace GoUtils.Rm

theorem lookup_filter_keep (t : Tree) (f : Path × Node → Bool) (q : Path)
    (h : ∀ e ∈ t, e.1 = q → f e = true) : lookup (t.filter f) q = lookup t q := by
  unfold lookup
  by_cases hq0 : q = []
  · simp [hq0]
  · simp only [hq0, if_false]
    congr 1
    induction t with
    | nil => rfl
    | cons e t ih =>
      have ih' := ih (fun e' he' => h e' (List.mem_cons_of_mem _ he'))
      by_cases heq : e.1 = q
      · have := h e (List.mem_cons_self) heq
        simp [List.filter_cons, this, List.find?_cons, heq]
      · cases hf : f e <;> simp [List.filter_cons, hf, List.find?_cons, heq, ih']

theorem lookup_unlink_ne (t : Tree) (p q : Path) (h : q ≠ p) : lookup (unlink t p) q = lookup t q := by
  unfold unlink
  apply lookup_filter_keep
  intro e _ he
  simp [he, h]

theorem under_iff (a b : Path) : under a b = true ↔ a <+: b := by
  unfold under; exact List.isPrefixOf_iff_prefix

theorem under_refl (a : Path) : under a a = true := (under_iff a a).2 (List.prefix_refl a)

theorem under_append (a x : Path) : under a (a ++ x) = true := (under_iff _ _).2 (List.prefix_append a x)

theorem under_trans {a b c : Path} (h1 : under a b = true) (h2 : under b c = true) : under a c = true :=
  (under_iff a c).2 (List.IsPrefix.trans ((under_iff a b).1 h1) ((under_iff b c).1 h2))

theorem under_false_of_under {d d' q : Path} (hdd : under d d' = true) (h : under d q = false) :
    under d' q = false := by
  cases h' : under d' q with
  | false => rfl
  | true => rw [under_trans hdd h'] at h; exact h

/-- outside `p` nothing changes -/
def Frame (t t' : Tree) (p : Path) : Prop := ∀ q, under p q = false → lookup t' q = lookup t q

theorem Frame.refl (t : Tree) (p : Path) : Frame t t p := fun _ _ => rfl
theorem Frame.trans {t t1 t2 : Tree} {p : Path} (h1 : Frame t t1 p) (h2 : Frame t1 t2 p) : Frame t t2 p :=
  fun q hq => (h2 q hq).trans (h1 q hq)
theorem Frame.weaken {t t' : Tree} {p p' : Path} (hpp : under p p' = true) (h : Frame t t' p') : Frame t t' p :=
  fun q hq => h q (under_false_of_under hpp hq)

theorem frame_vfsRemove (t : Tree) (p : Path) : Frame t (vfsRemove t p).2 p := by
  intro q hq
  have hne : q ≠ p := by intro h; subst h; rw [under_refl] at hq; cases hq
  unfold vfsRemove
  split
  · split
    · exact lookup_unlink_ne t p q hne
    · rfl
  · exact lookup_unlink_ne t p q hne
  · rfl

theorem foldNames_frame {f : Tree → Name → Option (Res × Tree)} {p : Path} {t : Tree}
    (hf : ∀ ta n r' tb, f ta n = some (r', tb) → Frame ta tb p) :
    ∀ (ns : List Name) (acc : Option (Res × Tree)) (r : Res) (t' : Tree),
      (∀ r0 t0, acc = some (r0, t0) → Frame t t0 p) →
      foldNames f ns acc = some (r, t') → Frame t t' p := by
  intro ns
  induction ns with
  | nil =>
    intro acc r t' hacc h
    simp only [foldNames, List.foldl_nil] at h
    exact hacc r t' h
  | cons n ns ih =>
    intro acc r t' hacc h
    simp only [foldNames, List.foldl_cons] at h
    refine ih _ r t' ?_ h
    intro r0 t0 h0
    match acc, hacc, h0 with
    | none, _, h0 => simp at h0
    | some (.err e, ta), hacc, h0 =>
      simp only [Option.some.injEq, Prod.mk.injEq] at h0
      obtain ⟨_, rfl⟩ := h0
      exact hacc _ _ rfl
    | some (.ok, ta), hacc, h0 => exact (hacc _ _ rfl).trans (hf _ _ _ _ h0)

/-- Stat on something that is not a link stays where it is -/
theorem resolve_not_link (t : Tree) (fuel : Nat) (p q : Path)
    (hnl : ∀ tg, lookup t p ≠ some (.link tg)) (h : resolve t fuel p = some q) : q = p := by
  cases fuel with
  | zero => simp [resolve] at h
  | succ fuel =>
    simp only [resolve] at h
    cases hl : lookup t p with
    | none => simp [hl] at h
    | some n =>
      cases n with
      | link tg => exact absurd hl (hnl tg)
      | dir => simp [hl] at h; exact h.symm
      | file s => simp [hl] at h; exact h.symm

theorem childCfg_linkFirst (c : Cfg) : (childCfg c).linkFirst = c.linkFirst := by
  unfold childCfg; split <;> rfl

theorem frame_finish (c : Cfg) (isDir : Bool) (t1 : Tree) (q p : Path) : Frame t1 (finish c isDir t1 q p).2 p := by
  unfold finish
  generalize statPath c t1 p q = qq
  by_cases h1 : (isDir && !isEmptyAt t1 qq) = true
  · rw [if_pos h1]; exact Frame.refl _ _
  · rw [if_neg h1]
    by_cases h2 : c.isExcluded p = true
    · rw [if_pos h2]; exact Frame.refl _ _
    · rw [if_neg h2]; exact frame_vfsRemove t1 p

/-- FRAME: with links unlinked first, a removal that returns has changed nothing outside its argument -/
theorem remove_frame :
    ∀ (fuel : Nat) (c : Cfg), c.linkFirst = true → ∀ (t : Tree) (p : Path) (r : Res) (t' : Tree),
      remove c fuel t p = some (r, t') → Frame t t' p := by
  intro fuel
  induction fuel with
  | zero => intro c _ t p r t' h; simp [remove] at h
  | succ fuel ih =>
    intro c hc t p r t' h
    simp only [remove] at h
    split at h
    · simp only [Option.some.injEq, Prod.mk.injEq] at h; rw [← h.2]; exact Frame.refl _ _
    split at h
    · split at h
      · simp only [Option.some.injEq, Prod.mk.injEq] at h; rw [← h.2]; exact Frame.refl _ _
      · simp only [Option.some.injEq] at h
        have := frame_vfsRemove t p; rw [h] at this; exact this
    · rename_i hp hl
      -- `p` is not a link: Stat stays at `p`
      have hnl : ∀ tg, lookup t p ≠ some (.link tg) := by
        intro tg htg
        apply hl
        simp [hc, isLink, htg]
      split at h
      · simp only [Option.some.injEq, Prod.mk.injEq] at h; rw [← h.2]; exact Frame.refl _ _
      · rename_i q hq
        have hqp : q = p := resolve_not_link t _ p q hnl hq
        subst hqp
        split at h
        · cases h
        · rename_i e t1 hcl
          simp only [Option.some.injEq, Prod.mk.injEq] at h; rw [← h.2]
          split at hcl
          · refine foldNames_frame (t := t) (p := q) ?_ _ _ _ _ ?_ hcl
            · intro ta n r' tb hrec
              exact Frame.weaken (under_append _ _) (ih (childCfg c) (by rw [childCfg_linkFirst]; exact hc) ta _ r' tb hrec)
            · intro r0 t0 h0
              simp only [Option.some.injEq, Prod.mk.injEq] at h0; rw [← h0.2]; exact Frame.refl _ _
          · simp only [Option.some.injEq, Prod.mk.injEq] at hcl; cases hcl.1
        · rename_i t1 hcl
          simp only [Option.some.injEq] at h
          have hf1 : Frame t t1 q := by
            split at hcl
            · refine foldNames_frame (t := t) (p := q) ?_ _ _ _ _ ?_ hcl
              · intro ta n r' tb hrec
                exact Frame.weaken (under_append _ _) (ih (childCfg c) (by rw [childCfg_linkFirst]; exact hc) ta _ r' tb hrec)
              · intro r0 t0 h0
                simp only [Option.some.injEq, Prod.mk.injEq] at h0; rw [← h0.2]; exact Frame.refl _ _
            · simp only [Option.some.injEq, Prod.mk.injEq] at hcl; rw [← hcl.2]; exact Frame.refl _ _
          have hf2 := frame_finish c (isDirAt t q) t1 q q
          rw [h] at hf2
          exact hf1.trans hf2

/-- the same for CleanDir: nothing outside the directory changes -/
theorem cleanDir_frame (c : Cfg) (hc : c.linkFirst = true) (fuel : Nat) (t : Tree) (p : Path) (r : Res) (t' : Tree)
    (hnl : ∀ tg, lookup t p ≠ some (.link tg)) (h : cleanDir c fuel t p = some (r, t')) : Frame t t' p := by
  unfold cleanDir at h
  split at h
  · simp only [Option.some.injEq, Prod.mk.injEq] at h; rw [← h.2]; exact Frame.refl _ _
  · rename_i q hq
    have hqp : q = p := resolve_not_link t _ p q hnl hq
    subst hqp
    split at h
    · simp only [Option.some.injEq, Prod.mk.injEq] at h; rw [← h.2]; exact Frame.refl _ _
    · split at h
      · refine foldNames_frame (t := t) (p := q) ?_ _ _ _ _ ?_ h
        · intro ta n r' tb hrec
          exact Frame.weaken (under_append _ _) (remove_frame fuel (childCfg c) (by rw [childCfg_linkFirst]; exact hc) ta _ r' tb hrec)
        · intro r0 t0 h0
          simp only [Option.some.injEq, Prod.mk.injEq] at h0; rw [← h0.2]; exact Frame.refl _ _
      · simp only [Option.some.injEq, Prod.mk.injEq] at h; rw [← h.2]; exact Frame.refl _ _

end GoUtils.Rm
