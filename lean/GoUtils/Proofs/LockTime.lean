import GoUtils.Model.LockTime
namespace GoUtils.LockTime

/-- exact characterisation: stale ⇔ at least `staleFromNs` nanoseconds since the stamp -/
theorem isStale_iff (f : StaleFacts) (mtime now : Int) (h : f.strict = true ∨ mtime ≤ now) :
    isStale f mtime now = true ↔ now - mtime ≥ staleFromNs f := by
  have h' : f.strict = true ∨ 0 ≤ now - mtime := by rcases h with h | h; exact Or.inl h; right; omega
  clear h
  unfold isStale staleFromNs toMs msNs
  generalize now - mtime = d at h' ⊢
  generalize (f.factor * f.periodMs : Nat) = K
  have hq := Int.mul_tdiv_add_tmod d 1000000
  have hlt : ∀ x : Int, 0 ≤ x → 0 ≤ x.tmod 1000000 ∧ x.tmod 1000000 < 1000000 := fun x hx =>
    ⟨Int.tmod_nonneg _ hx, Int.tmod_lt_of_pos _ (by decide)⟩
  have hneg : d < 0 → d.tmod 1000000 ≤ 0 ∧ -1000000 < d.tmod 1000000 := by
    intro hd
    have h1 := Int.lt_tmod_of_pos d (by decide : (0:Int) < 1000000)
    have h2 := Int.tmod_nonneg (1000000:Int) (a := -d) (by omega)
    rw [Int.neg_tmod] at h2
    exact ⟨by omega, h1⟩
  have h1 := hlt d
  generalize d.tdiv 1000000 = q at *
  generalize d.tmod 1000000 = r at *
  by_cases hd : 0 ≤ d
  · have := h1 hd
    cases f.strict <;> simp <;> omega
  · have := hneg (by omega)
    rcases h' with hs | hs
    · simp [hs]; omega
    · omega

end GoUtils.LockTime
