/- Proofs.Retry — float rounding lemmas, the retry loop invariant, back-off ranges (C14). -/
import GoUtils.Model.Retry
namespace GoUtils
open GoUtils.Retry

theorem natBits_le (a k : Nat) (h : a < 2 ^ k) : natBits a ≤ k := by
  unfold natBits
  split
  · omega
  · rename_i h0
    have := (Nat.log2_lt h0).mpr h
    omega

theorem roundF64_small (v : Int) (h : v.natAbs < 2 ^ 53) : roundF64 v = v := by
  unfold roundF64
  have := natBits_le v.natAbs 53 h
  simp [this]

theorem roundF64_mul_pow2 (a n : Nat) (ha : a < 2 ^ 53) :
    roundF64 ((a * 2 ^ n : Nat) : Int) = ((a * 2 ^ n : Nat) : Int) := by
  unfold roundF64
  simp only [Int.natAbs_natCast]
  by_cases hb : natBits (a * 2 ^ n) ≤ 53
  · simp [hb]
  · simp only [hb, if_false]
    have hlt : a * 2 ^ n < 2 ^ (53 + n) := by
      rw [Nat.pow_add]; exact Nat.mul_lt_mul_of_lt_of_le ha (Nat.le_refl _) (Nat.pow_pos (by decide))
    have hbn := natBits_le (a * 2 ^ n) (53 + n) hlt
    -- e ≤ n
    generalize he : natBits (a * 2 ^ n) - 53 = e
    have hen : e ≤ n := by omega
    have he1 : 1 ≤ e := by omega
    obtain ⟨k, hk⟩ : ∃ k, n = e + k := ⟨n - e, by omega⟩
    have hv : a * 2 ^ n = (a * 2 ^ k) * 2 ^ e := by
      rw [hk, Nat.pow_add, Nat.mul_comm (2 ^ e), Nat.mul_assoc]
    have hpos : 0 < 2 ^ e := Nat.pow_pos (by decide)
    have hq : (a * 2 ^ n) >>> e = a * 2 ^ k := by
      rw [Nat.shiftRight_eq_div_pow, hv, Nat.mul_div_cancel _ hpos]
    have hr : a * 2 ^ n - ((a * 2 ^ n) >>> e) <<< e = 0 := by
      rw [hq, Nat.shiftLeft_eq, ← hv]; omega
    have hhalf : 0 < 1 <<< (e - 1) := by
      rw [Nat.shiftLeft_eq, Nat.one_mul]; exact Nat.pow_pos (by decide : 0 < 2)
    simp only [hr]
    have h1 : ¬ (0 > 1 <<< (e - 1) ∨ 0 = 1 <<< (e - 1) ∧ (a * 2 ^ n) >>> e % 2 = 1) := by
      intro h; rcases h with h | ⟨h, _⟩ <;> omega
    simp only [h1, if_false]
    rw [hq, Nat.shiftLeft_eq, ← hv]
    simp
    intro hneg
    have : (0:Int) ≤ (a:Int) * 2 ^ n :=
      Int.mul_nonneg (Int.natCast_nonneg a) (Int.pow_nonneg (by decide))
    omega

namespace Retry

/-! ### exponential policy -/

theorem roundF64_neg (v : Int) (h : v < 0) : roundF64 v ≤ 0 := by
  unfold roundF64
  simp only []
  split
  · omega
  · exact Int.neg_nonpos_of_nonneg (Int.natCast_nonneg _)

theorem exponential_range (f : ExpoFacts) (hf : f.capToMax = true) (min max : Int) (n : Nat) (x : Int)
    (h0 : 0 ≤ min) (h1 : min ≤ max) (h53 : min < 2 ^ 53) :
    min ≤ exponential f min max n x ∧ exponential f min max n x ≤ max := by
  have hr : roundF64 min = min := roundF64_small min (by omega)
  unfold exponential
  simp only [hr, hf, if_true]
  by_cases hz : min = 0
  · subst hz
    simp only [if_true]
    split
    · omega
    · split <;> omega
  · simp only [hz, if_false]
    by_cases h63 : n ≥ 63
    · simp only [h63, if_true]; omega
    · simp only [h63, if_false]
      have hp : (1 : Int) ≤ 2 ^ n := by
        have : (0:Int) < 2 ^ n := Int.pow_pos (by decide)
        omega
      have hm : min ≤ min * 2 ^ n := by
        have := Int.mul_le_mul_of_nonneg_left hp h0
        simpa using this
      generalize min * 2 ^ n = mult at *
      by_cases hc : (roundF64 (if mult < 9223372036854775808 then mult else x) ≠ mult ∨
          (if f.capIsStrict = true then (if mult < 9223372036854775808 then mult else x) > max
           else (if mult < 9223372036854775808 then mult else x) ≥ max))
      · simp only [hc, if_true]; omega
      · simp only [hc, if_false]
        simp only [not_or, Decidable.not_not] at hc
        obtain ⟨hround, hover⟩ := hc
        by_cases hin : mult < 9223372036854775808
        · simp only [hin, if_true] at hover ⊢
          refine ⟨hm, ?_⟩
          split at hover <;> omega
        · simp only [hin, if_false] at hover hround ⊢
          refine ⟨?_, by split at hover <;> omega⟩
          -- float64(x) = mult ≥ 2^63 forces x ≥ min
          by_cases hx0 : x < 0
          · have := roundF64_neg x hx0; omega
          · by_cases hxm : x < min
            · have := roundF64_small x (by omega); omega
            · omega

/-- canonical facts of the exponential formula (`sleep > max` → `max`) -/
def ExpoFacts.canonical (f : ExpoFacts) : Prop := f.capIsStrict = true ∧ f.capToMax = true

theorem exponential_in_range_value (f : ExpoFacts) (hf : f.canonical) (a : Nat) (max : Int) (n : Nat)
    (x : Int) (ha : a < 2 ^ 53) (hpos : 0 < a) (hn : n < 63)
    (hin : ((a * 2 ^ n : Nat) : Int) < 9223372036854775808) :
    exponential f a max n x = if ((a * 2 ^ n : Nat) : Int) > max then max else ((a * 2 ^ n : Nat) : Int) := by
  have hr : roundF64 (a : Int) = a := roundF64_small a (by simpa using ha)
  have hex := roundF64_mul_pow2 a n ha
  have hcast : ((a * 2 ^ n : Nat) : Int) = (a : Int) * 2 ^ n := by simp
  unfold exponential
  have hz : (a : Int) ≠ 0 := by omega
  have h63 : ¬ n ≥ 63 := by omega
  simp only [hr, hf.1, hf.2, if_true, hz, if_false, h63]
  rw [← hcast]
  simp only [hin, if_true, hex, ne_eq, not_true_eq_false, false_or]

/-- monotone in the attempt number while the product stays representable (no implementation-defined
    conversion is involved) -/
theorem exponential_mono_in_range (f : ExpoFacts) (hf : f.canonical) (a : Nat) (max : Int) (n : Nat)
    (x y : Int) (ha : a < 2 ^ 53) (hpos : 0 < a) (hn : n + 1 < 63)
    (hin : ((a * 2 ^ (n + 1) : Nat) : Int) < 9223372036854775808) :
    exponential f a max n x ≤ exponential f a max (n + 1) y := by
  have hle : a * 2 ^ n ≤ a * 2 ^ (n + 1) :=
    Nat.mul_le_mul_left a (Nat.pow_le_pow_right (by decide) (Nat.le_succ n))
  have hin' : ((a * 2 ^ n : Nat) : Int) < 9223372036854775808 := by omega
  rw [exponential_in_range_value f hf a max n x ha hpos (by omega) hin',
    exponential_in_range_value f hf a max (n + 1) y ha hpos hn hin]
  have : ((a * 2 ^ n : Nat) : Int) ≤ ((a * 2 ^ (n + 1) : Nat) : Int) := by exact_mod_cast hle
  split <;> split <;> omega

/-- … and into the capped region: once the product is out of range the result is `max`, provided
    the platform's out-of-range conversion result `y` does not happen to round to the product. -/
theorem exponential_mono_into_cap (f : ExpoFacts) (hf : f.canonical) (min max : Int) (n : Nat)
    (x y : Int) (h0 : 0 < min) (h1 : min ≤ max) (h53 : min < 2 ^ 53)
    (hout : n + 1 ≥ 63 ∨ (¬ min * 2 ^ (n + 1) < 9223372036854775808 ∧ roundF64 y ≠ min * 2 ^ (n + 1))) :
    exponential f min max n x ≤ exponential f min max (n + 1) y := by
  have hrange := (exponential_range f hf.2 min max n x (by omega) h1 h53).2
  have hr : roundF64 min = min := roundF64_small min (by omega)
  have : exponential f min max (n + 1) y = max := by
    unfold exponential
    have hz : min ≠ 0 := by omega
    simp only [hr, hf.1, hf.2, if_true, hz, if_false]
    rcases hout with h | ⟨hno, hy⟩
    · simp [h]
    · by_cases h63 : n + 1 ≥ 63
      · simp [h63]
      · simp only [h63, if_false, hno, hy, ne_eq, not_false_eq_true, true_or, if_true]
  omega

/-! ### linear policy and Retry-After -/

theorem linear_range (min max : Int) (n : Nat) (j : Int) (h0 : 0 ≤ min) (h1 : min ≤ max)
    (hj : 0 ≤ j ∧ j ≤ max - min) (hrep : max * (n + 1) ≤ maxI64) :
    min * (n + 1) ≤ linear min max n j ∧ linear min max n j ≤ max * (n + 1) := by
  have hn : (0 : Int) ≤ (n : Int) + 1 := by omega
  have hlo : min * ((n : Int) + 1) ≤ (j + min) * (n + 1) := Int.mul_le_mul_of_nonneg_right (by omega) hn
  have hhi : (j + min) * ((n : Int) + 1) ≤ max * (n + 1) := Int.mul_le_mul_of_nonneg_right (by omega) hn
  have hmin0 : 0 ≤ min * ((n : Int) + 1) := Int.mul_nonneg h0 hn
  have hmm : min * ((n : Int) + 1) ≤ max * (n + 1) := Int.mul_le_mul_of_nonneg_right h1 hn
  unfold linear IntTy.wrap maxI64 at *
  simp only [IntTy.signed, IntTy.min, IntTy.modulus, if_true]
  generalize min * ((n : Int) + 1) = A at *
  generalize (j + min) * ((n : Int) + 1) = B at *
  generalize max * ((n : Int) + 1) = C at *
  split <;> omega

theorem retryAfterSeconds_spec (f : RetryAfterFacts) (hneg : f.negativeToZero = true)
    (hclamp : f.upperClampSeconds = some 9223372036) (s : Int) :
    0 ≤ retryAfterSeconds f s ∧
    (0 ≤ s → s ≤ 9223372036 → retryAfterSeconds f s = second * s) ∧
    (s < 0 → retryAfterSeconds f s = 0) := by
  unfold retryAfterSeconds second
  simp only [hneg, hclamp, true_and]
  -- the clamped number of seconds c satisfies 0 ≤ c ≤ 9223372036, so 10^9 * c does not wrap
  have key : ∀ c : Int, 0 ≤ c → c ≤ 9223372036 → IntTy.i64.wrap (1000000000 * c) = 1000000000 * c := by
    intro c h0 h1
    unfold IntTy.wrap
    simp only [IntTy.signed, IntTy.min, IntTy.modulus, if_true]
    have h2 : 0 ≤ 1000000000 * c - -9223372036854775808 := by omega
    have h3 : 1000000000 * c - -9223372036854775808 < 18446744073709551616 := by omega
    rw [Int.emod_eq_of_lt h2 h3]; omega
  refine ⟨?_, ?_, ?_⟩
  · by_cases hs : s < 0
    · simp only [hs, if_true]; rw [if_neg (by omega), key 0 (by omega) (by omega)]; omega
    · simp only [hs, if_false]
      by_cases hc : s > 9223372036
      · rw [if_pos hc, key _ (by omega) (by omega)]; omega
      · rw [if_neg hc, key _ (by omega) (by omega)]; omega
  · intro h0 h1
    rw [if_neg (by omega), if_neg (by omega), key s h0 h1]
  · intro h
    rw [if_pos h, if_neg (by omega), key 0 (by omega) (by omega)]; omega

/-! ### the retry loop -/

/-- canonical option list of RetryIf -/
def LoopFacts.canonical (f : LoopFacts) : Prop :=
  f.disabledRunsOnce = true ∧ f.lastErrorOnly = true ∧ f.usesRetryIf = true ∧ f.usesContext = true ∧
  f.convertsContextError = true

/-- what a run of the loop looks like from invocation `n` on -/
structure LoopSpec (script : Nat → Outcome) (ctxDone : Nat → Bool) (attempts n : Nat)
    (r : Res) (inv : Nat) : Prop where
  more : n < inv
  bounded : inv ≤ attempts
  /-- every invocation before the last one failed with a retriable error and the context was alive
      when the loop looked at it afterwards -/
  before : ∀ i, n ≤ i → i + 1 < inv → (∃ e, script i = .retriable e) ∧ ctxDone (i + 1) = false
  /-- the last invocation decides the result -/
  last : (script (inv - 1) = .ok ∧ r = .nil) ∨
         (∃ e, script (inv - 1) = .fatal e ∧ r = .err e) ∨
         (∃ e, script (inv - 1) = .retriable e ∧
            ((inv = attempts ∧ r = .err e) ∨ (inv < attempts ∧ ctxDone inv = true ∧ r = .ctxKind)))

theorem loopAux_spec (f : LoopFacts) (hf : f.canonical) (script : Nat → Outcome)
    (ctxDone : Nat → Bool) (attempts : Nat) (fuel n : Nat) (log : List Nat)
    (hfuel : n + fuel = attempts) (hpos : 0 < fuel) :
    LoopSpec script ctxDone attempts n (loopAux f script ctxDone attempts fuel n log).1
      (loopAux f script ctxDone attempts fuel n log).2 := by
  obtain ⟨_, h2, h3, h4, h5⟩ := hf
  induction fuel generalizing n log with
  | zero => omega
  | succ fuel ih =>
    rw [loopAux]
    cases hs : script n with
    | ok =>
      simp only []
      exact ⟨by omega, by omega, by intro i h1 h2; omega, by simp [hs]⟩
    | fatal e =>
      simp only [h3, h2, if_true]
      exact ⟨by omega, by omega, by intro i h1 h2; omega, by simp [hs]⟩
    | retriable e =>
      simp only []
      by_cases hlast : n + 1 = attempts
      · simp only [hlast, h2, if_true]
        refine ⟨by omega, by omega, by intro i h1 h2; omega, ?_⟩
        right; right; exact ⟨e, by simp [← hlast, hs], Or.inl ⟨rfl, rfl⟩⟩
      · simp only [hlast, if_false, h4, Bool.true_and]
        by_cases hctx : ctxDone (n + 1) = true
        · simp only [hctx, if_true, h5]
          refine ⟨by omega, by omega, by intro i h1 h2; omega, ?_⟩
          right; right; exact ⟨e, by simp [hs], Or.inr ⟨by omega, by simpa using hctx, rfl⟩⟩
        · have hctx' : ctxDone (n + 1) = false := by simpa using hctx
          simp only [hctx', Bool.false_eq_true, if_false]
          have := ih (n + 1) (log ++ [e]) (by omega) (by omega)
          obtain ⟨m, b, bf, l⟩ := this
          refine ⟨by omega, b, ?_, l⟩
          intro i h1 h2
          by_cases hi : i = n
          · subst hi; exact ⟨⟨e, hs⟩, hctx'⟩
          · exact bf i (by omega) h2

end Retry
end GoUtils
