/-
Proofs.FsTerm2 — termination of the reference model's Copy in the remaining overlap cases and of Move
in every case.

Two measures:
* `LenLe t L` (no path of the tree is longer than `L`) — preserved by a copy / move whose destination is
  not longer than its source (every entry it creates is at most as long as the entry it comes from), and
  a recursion on `src ++ [n]` needs an entry of that length: depth ≤ L − |src|. This covers a source that
  lies BELOW the destination directory, where the call feeds on the subtree it is writing into.
* `Bounded t src h` with `Shrinks` (below a path apart from the destination a move only removes) for a
  move between unrelated places, where the destination may be deeper than the source.
-/
import GoUtils.Proofs.FsTerm
set_option linter.unusedSimpArgs false
set_option linter.unusedVariables false
namespace GoUtils.Fs

def LenLe (t : Tree) (L : Nat) : Prop := ∀ e ∈ t, e.1.length ≤ L

theorem under_length {a b : Path} (h : under a b = true) : a.length ≤ b.length :=
  ((under_iff a b).1 h).length_le

theorem lenLe_totalLen (t : Tree) : LenLe t (totalLen t) := fun e he => length_le_totalLen t e he

theorem lenLe_filter {t : Tree} {L : Nat} (f : Path × Node → Bool) (h : LenLe t L) : LenLe (t.filter f) L :=
  fun e he => h e (List.mem_filter.1 he).1

theorem lenLe_insert {t : Tree} {L : Nat} (p : Path) (n : Node) (h : LenLe t L) (hp : p.length ≤ L) :
    LenLe (insert t p n) L := by
  unfold insert
  split
  · exact h
  · intro e he
    rcases List.mem_append.1 he with h1 | h1
    · exact h e (List.mem_filter.1 h1).1
    · simp at h1; subst h1; exact hp

theorem lenLe_mkdirs (l : List Path) (L : Nat) (hl : ∀ x ∈ l, x.length ≤ L) (t : Tree) (h : LenLe t L) :
    LenLe (l.foldl (fun acc x => if exists_ acc x then acc else insert acc x .dir) t) L := by
  induction l generalizing t with
  | nil => exact h
  | cons x l ih =>
    simp only [List.foldl_cons]
    apply ih (fun y hy => hl y (List.mem_cons_of_mem _ hy))
    split
    · exact h
    · exact lenLe_insert x .dir h (hl x List.mem_cons_self)

theorem lenLe_mkdirAll {t : Tree} {L : Nat} (p : Path) (h : LenLe t L) (hp : p.length ≤ L) :
    LenLe (mkdirAll t p).2 L := by
  unfold mkdirAll
  split
  · exact h
  · apply lenLe_mkdirs _ _ _ _ h
    intro x hx
    have := under_length (mem_prefixes hx).2
    omega

theorem parent_length (p : Path) : (parent p).length ≤ p.length := by
  unfold parent; simp

theorem lenLe_copyPrep {t : Tree} {L : Nat} (sd : Bool) (dest : Path) (sl : Bool) (h : LenLe t L)
    (hp : dest.length ≤ L) : LenLe (copyPrep t sd dest sl).2.1 L := by
  unfold copyPrep
  split
  · exact h
  · split
    · exact lenLe_mkdirAll dest h hp
    · exact lenLe_mkdirAll (parent dest) h (by have := parent_length dest; omega)

theorem lenLe_copyFile {t : Tree} {L : Nat} (src dst : Path) (h : LenLe t L) (hp : dst.length ≤ L) :
    LenLe (copyFile t src dst).2 L := by
  unfold copyFile
  split
  · split
    · exact h
    · exact lenLe_insert dst _ h hp
  · exact h

theorem length_le_of_exists {t : Tree} {L : Nat} {p : Path} (h : LenLe t L) (he : exists_ t p = true) :
    p.length ≤ L := by
  unfold exists_ lookup at he
  split at he
  · rename_i hp; rw [hp]; simp
  · cases hf : t.find? (·.1 = p) with
    | none => rw [hf] at he; simp at he
    | some e =>
      have hm := List.mem_of_find?_eq_some hf
      have hp := List.find?_some hf
      simp at hp
      rw [← hp]; exact h e hm

theorem copyDst_length (a b c : Bool) (src dest : Path) : (copyDst a b c src dest).length ≤ dest.length + 1 := by
  unfold copyDst; split <;> simp

/-- the fold over the names of a directory returns when every step does and keeps the invariant -/
theorem foldNames_inv {f : Tree → Name → Option (Res × Tree)} (I : Tree → Prop) :
    ∀ (ns : List Name), (∀ ta n, I ta → n ∈ ns → ∃ r tb, f ta n = some (r, tb) ∧ I tb) →
      ∀ (r0 : Res) (t0 : Tree), I t0 → ∃ r t', foldNames f ns (some (r0, t0)) = some (r, t') ∧ I t' := by
  intro ns
  induction ns with
  | nil => intro _ r0 t0 h; exact ⟨r0, t0, by simp [foldNames], h⟩
  | cons n ns ih =>
    intro hstep r0 t0 hI
    have ih' := ih (fun ta m hta hm => hstep ta m hta (List.mem_cons_of_mem _ hm))
    simp only [foldNames, List.foldl_cons]
    cases r0 with
    | err e => exact ih' (.err e) t0 hI
    | ok =>
      obtain ⟨r, tb, hf, hI'⟩ := hstep t0 n hI List.mem_cons_self
      simp only [hf]; exact ih' r tb hI'
    | bool b =>
      obtain ⟨r, tb, hf, hI'⟩ := hstep t0 n hI List.mem_cons_self
      simp only [hf]; exact ih' r tb hI'
    | names l =>
      obtain ⟨r, tb, hf, hI'⟩ := hstep t0 n hI List.mem_cons_self
      simp only [hf]; exact ih' r tb hI'
    | content c =>
      obtain ⟨r, tb, hf, hI'⟩ := hstep t0 n hI List.mem_cons_self
      simp only [hf]; exact ih' r tb hI'
    | size k =>
      obtain ⟨r, tb, hf, hI'⟩ := hstep t0 n hI List.mem_cons_self
      simp only [hf]; exact ih' r tb hI'

theorem child_length {t : Tree} {L : Nat} {p : Path} {n : Name} (h : LenLe t L) (hn : n ∈ children t p) :
    p.length + 1 ≤ L := by
  obtain ⟨nd, he⟩ := child_entry hn
  have := h _ he
  simpa using this

/-- TERMINATION of Copy towards a place that is not deeper than the source's parent (in particular: the
    source lies below the destination directory): the copy returns and no path of the result is longer
    than the longest path before -/
theorem copy_terminates_shallow : ∀ (fuel : Nat) (t : Tree) (src dest : Path) (sl : Bool) (L : Nat),
    LenLe t L → dest.length < src.length → 0 < fuel → L < fuel + src.length →
    ∃ r t', copy fuel t src dest sl = some (r, t') ∧ LenLe t' L := by
  intro fuel
  induction fuel with
  | zero => intro t src dest sl L _ _ h0 _; omega
  | succ fuel ih =>
    intro t src dest sl L hL hlen _ hfuel
    simp only [copy]
    split
    · exact ⟨_, _, rfl, hL⟩
    split
    · exact ⟨_, _, rfl, hL⟩
    rename_i hex
    have hsrcL : src.length ≤ L := length_le_of_exists hL (by simpa using hex)
    split
    · exact ⟨_, _, rfl, hL⟩
    split
    · exact ⟨_, _, rfl, hL⟩
    have hprep := lenLe_copyPrep (isDir t src) dest sl hL (by omega)
    split
    · rename_i e t1 b heq
      rw [heq] at hprep
      exact ⟨_, _, rfl, hprep⟩
    · rename_i r1 t1 b hne heq
      rw [heq] at hprep
      simp only at hprep
      have hdl := copyDst_length (isDir t src) (exists_ t dest) b src dest
      split
      · have hmk := lenLe_mkdirAll (copyDst (isDir t src) (exists_ t dest) b src dest) hprep (by omega)
        split
        · rename_i e t2 heq2
          rw [heq2] at hmk
          exact ⟨_, _, rfl, hmk⟩
        · rename_i r2 t2 hne2 heq2
          rw [heq2] at hmk
          simp only at hmk
          apply foldNames_inv (fun ta => LenLe ta L) _ _ .ok t2 hmk
          intro ta n hta hn
          have hc := child_length hmk hn
          exact ih ta (src ++ [n]) _ false L hta (by simp; omega) (by omega) (by simp; omega)
      · exact ⟨_, _, rfl, lenLe_copyFile src _ hprep (by omega)⟩

/-! ### Move -/

theorem lenLe_rename {t : Tree} {L : Nat} (src dest : Path) (h : LenLe t L) (hd : dest.length ≤ src.length) :
    LenLe (rename t src dest) L := by
  intro e he
  unfold rename at he
  rw [List.mem_map] at he
  obtain ⟨⟨q, n⟩, hq, rfl⟩ := he
  have hql := h _ hq
  simp only at hql
  by_cases hu : under src q = true
  · have := under_length hu
    simp only [hu, if_true, List.length_append, List.length_drop]
    omega
  · simp only [hu]
    exact hql

theorem lenLe_removeUnder {t : Tree} {L : Nat} (p : Path) (h : LenLe t L) : LenLe (removeUnder t p) L := by
  unfold removeUnder; exact lenLe_filter _ h

/-- TERMINATION of Move towards a place that is not deeper than the source (in particular: the source
    lies below the destination) -/
theorem move_terminates_shallow : ∀ (fuel : Nat) (t : Tree) (src dest : Path) (L : Nat),
    LenLe t L → dest.length ≤ src.length → 0 < fuel → L < fuel + src.length →
    ∃ r t', move fuel t src dest = some (r, t') ∧ LenLe t' L := by
  intro fuel
  induction fuel with
  | zero => intro t src dest L _ _ h0 _; omega
  | succ fuel ih =>
    intro t src dest L hL hlen _ hfuel
    simp only [move]
    split
    · exact ⟨_, _, rfl, hL⟩
    split
    · exact ⟨_, _, rfl, hL⟩
    rename_i hex
    have hsrcL : src.length ≤ L := length_le_of_exists hL (by simpa using hex)
    split
    · exact ⟨_, _, rfl, hL⟩
    split
    · exact ⟨_, _, rfl, hL⟩
    have hmk := lenLe_mkdirAll (parent dest) hL (by have := parent_length dest; omega)
    split
    · rename_i e t1 heq
      rw [heq] at hmk
      exact ⟨_, _, rfl, hmk⟩
    · rename_i r1 t1 hne heq
      rw [heq] at hmk
      simp only at hmk
      split
      · exact ⟨_, _, rfl, lenLe_removeUnder _ (lenLe_insert _ _ hmk (by omega))⟩
      · exact ⟨_, _, rfl, lenLe_removeUnder _ (lenLe_insert _ _ hmk (by omega))⟩
      · exact ⟨_, _, rfl, hmk⟩
      · exact ⟨_, _, rfl, lenLe_rename _ _ hmk hlen⟩
      · exact ⟨_, _, rfl, hmk⟩
      · have hfold := foldNames_inv (f := fun ta n => move fuel ta (src ++ [n]) (dest ++ [n])) (fun ta => LenLe ta L)
            (children t1 src) (by
              intro ta n hta hn
              have hc := child_length hmk hn
              exact ih ta (src ++ [n]) (dest ++ [n]) L hta (by simp; omega) (by omega) (by simp; omega))
            .ok t1 hmk
        obtain ⟨r2, t2, hf2, hL2⟩ := hfold
        rw [hf2]
        cases r2 with
        | err e => exact ⟨_, _, rfl, hL2⟩
        | ok => exact ⟨_, _, rfl, lenLe_removeUnder _ hL2⟩
        | bool b => exact ⟨_, _, rfl, lenLe_removeUnder _ hL2⟩
        | names l => exact ⟨_, _, rfl, lenLe_removeUnder _ hL2⟩
        | content c => exact ⟨_, _, rfl, lenLe_removeUnder _ hL2⟩
        | size k => exact ⟨_, _, rfl, lenLe_removeUnder _ hL2⟩
      · exact ⟨_, _, rfl, hmk⟩

/-- below `s` the tree `t'` has nothing that `t` did not have -/
def Shrinks (t t' : Tree) (s : Path) : Prop := ∀ e ∈ t', under s e.1 = true → e ∈ t

theorem Shrinks.refl (t : Tree) (s : Path) : Shrinks t t s := fun _ he _ => he

theorem Shrinks.trans {t t1 t2 : Tree} {s : Path} (h1 : Shrinks t t1 s) (h2 : Shrinks t1 t2 s) : Shrinks t t2 s :=
  fun e he hu => h1 e (h2 e he hu) hu

theorem shrinks_of_sub {t t' : Tree} {s : Path} (h : sub t' s = sub t s) : Shrinks t t' s := by
  intro e he hu
  have : e ∈ sub t' s := List.mem_filter.2 ⟨he, hu⟩
  rw [h] at this
  exact (List.mem_filter.1 this).1

theorem shrinks_filter (t : Tree) (f : Path × Node → Bool) (s : Path) : Shrinks t (t.filter f) s :=
  fun e he _ => (List.mem_filter.1 he).1

theorem shrinks_rename (t : Tree) (src dest s : Path) (h : Apart s dest) : Shrinks t (rename t src dest) s := by
  intro e he hu
  unfold rename at he
  rw [List.mem_map] at he
  obtain ⟨⟨q, n⟩, hq, rfl⟩ := he
  by_cases hsq : under src q = true
  · simp only [hsq, if_true] at hu
    rw [(apart_append _ h).1] at hu; cases hu
  · simp only [hsq] at hu ⊢
    exact hq

theorem bounded_of_shrinks {t t' : Tree} {p : Path} {h : Nat} (hs : Shrinks t t' p) (hb : Bounded t p h) :
    Bounded t' p h := fun e he hu => hb e (hs e he hu) hu

theorem foldNames_none (f : Tree → Name → Option (Res × Tree)) (l : List Name) : foldNames f l none = none := by
  induction l with
  | nil => rfl
  | cons m l ihl => simpa [foldNames, List.foldl_cons] using ihl

theorem foldNames_rel {f : Tree → Name → Option (Res × Tree)} (R : Tree → Tree → Prop)
    (hrefl : ∀ a, R a a) (htrans : ∀ a b c, R a b → R b c → R a c)
    (hf : ∀ ta n r' tb, f ta n = some (r', tb) → R ta tb) :
    ∀ (ns : List Name) (r0 : Res) (t0 : Tree) (r : Res) (t' : Tree),
      foldNames f ns (some (r0, t0)) = some (r, t') → R t0 t' := by
  intro ns
  induction ns with
  | nil =>
    intro r0 t0 r t' h
    simp only [foldNames, List.foldl_nil, Option.some.injEq, Prod.mk.injEq] at h
    rw [← h.2]; exact hrefl _
  | cons n ns ih =>
    intro r0 t0 r t' h
    have hgo : ∀ x, f t0 n = x → foldNames f ns x = some (r, t') → R t0 t' := by
      intro x hc hx
      match x, hc, hx with
      | none, hc, hx => rw [foldNames_none] at hx; cases hx
      | some (r1, t1), hc, hx => exact htrans _ _ _ (hf _ _ _ _ hc) (ih r1 t1 r t' hx)
    cases r0 with
    | err e => exact ih (.err e) t0 r t' h
    | ok => exact hgo _ rfl h
    | bool b => exact hgo _ rfl h
    | names l0 => exact hgo _ rfl h
    | content c0 => exact hgo _ rfl h
    | size k0 => exact hgo _ rfl h

theorem under_parent_false {s d : Path} (h : under s d = false) : under s (parent d) = false := by
  cases hh : under s (parent d) with
  | false => rfl
  | true => rw [under_trans hh (under_parent d)] at h; cases h

/-- below a path apart from its destination a move adds nothing -/
theorem move_shrinks : ∀ (fuel : Nat) (t : Tree) (src dest : Path) (r : Res) (t' : Tree),
    move fuel t src dest = some (r, t') → ∀ s, Apart s dest → Shrinks t t' s := by
  intro fuel
  induction fuel with
  | zero => intro t src dest r t' h; simp [move] at h
  | succ fuel ih =>
    intro t src dest r t' h s hs
    simp only [move] at h
    split at h
    · simp only [Option.some.injEq, Prod.mk.injEq] at h; rw [← h.2]; exact Shrinks.refl _ _
    split at h
    · simp only [Option.some.injEq, Prod.mk.injEq] at h; rw [← h.2]; exact Shrinks.refl _ _
    split at h
    · simp only [Option.some.injEq, Prod.mk.injEq] at h; rw [← h.2]; exact Shrinks.refl _ _
    split at h
    · simp only [Option.some.injEq, Prod.mk.injEq] at h; rw [← h.2]; exact Shrinks.refl _ _
    have hmk : Shrinks t (mkdirAll t (parent dest)).2 s :=
      shrinks_of_sub (sub_mkdirAll t (parent dest) s (under_parent_false hs.1))
    split at h
    · rename_i e t1 heq
      simp only [Option.some.injEq, Prod.mk.injEq] at h
      rw [heq] at hmk; rw [← h.2]; exact hmk
    · rename_i r1 t1 hne heq
      rw [heq] at hmk
      simp only at hmk
      have hfile : ∀ c, Shrinks t (removeUnder (insert t1 dest (.file c)) src) s := by
        intro c
        have h1 : Shrinks t1 (insert t1 dest (.file c)) s := shrinks_of_sub (sub_insert t1 dest s _ hs.1)
        have h2 : Shrinks (insert t1 dest (.file c)) (removeUnder (insert t1 dest (.file c)) src) s := by
          unfold removeUnder; exact shrinks_filter _ _ _
        exact hmk.trans (h1.trans h2)
      split at h
      · simp only [Option.some.injEq, Prod.mk.injEq] at h; rw [← h.2]; exact hfile _
      · simp only [Option.some.injEq, Prod.mk.injEq] at h; rw [← h.2]; exact hfile _
      · simp only [Option.some.injEq, Prod.mk.injEq] at h; rw [← h.2]; exact hmk
      · simp only [Option.some.injEq, Prod.mk.injEq] at h; rw [← h.2]
        exact hmk.trans (shrinks_rename _ _ _ _ hs)
      · simp only [Option.some.injEq, Prod.mk.injEq] at h; rw [← h.2]; exact hmk
      · have hstep : ∀ ta n r' tb, move fuel ta (src ++ [n]) (dest ++ [n]) = some (r', tb) → Shrinks ta tb s :=
          fun ta n r' tb hc => ih _ _ _ _ _ hc s (apart_append _ hs)
        split at h
        · cases h
        · rename_i e t2 hfold
          simp only [Option.some.injEq, Prod.mk.injEq] at h; rw [← h.2]
          exact hmk.trans (foldNames_rel (fun a b => Shrinks a b s) (fun a => Shrinks.refl a s)
            (fun a b c => Shrinks.trans) hstep _ _ _ _ _ hfold)
        · rename_i r2 t2 hne2 hfold
          simp only [Option.some.injEq, Prod.mk.injEq] at h; rw [← h.2]
          refine (hmk.trans (foldNames_rel (fun a b => Shrinks a b s) (fun a => Shrinks.refl a s)
            (fun a b c => Shrinks.trans) hstep _ _ _ _ _ hfold)).trans ?_
          unfold removeUnder; exact shrinks_filter _ _ _
      · simp only [Option.some.injEq, Prod.mk.injEq] at h; rw [← h.2]; exact hmk

/-- TERMINATION of Move between places apart from each other, whatever their depths -/
theorem move_terminates_apart : ∀ (fuel : Nat) (t : Tree) (src dest : Path) (h : Nat),
    Bounded t src h → h < fuel → Apart src dest → (move fuel t src dest).isSome = true := by
  intro fuel
  induction fuel with
  | zero => intro t src dest h _ hlt _; omega
  | succ fuel ih =>
    intro t src dest h hb hlt hap
    simp only [move]
    split
    · rfl
    split
    · rfl
    split
    · rfl
    split
    · rfl
    have hmk : Shrinks t (mkdirAll t (parent dest)).2 src :=
      shrinks_of_sub (sub_mkdirAll t (parent dest) src (under_parent_false hap.1))
    split
    · rfl
    · rename_i r1 t1 hne heq
      rw [heq] at hmk
      simp only at hmk
      split
      · rfl
      · rfl
      · rfl
      · rfl
      · rfl
      · have hfold := foldNames_inv (f := fun ta n => move fuel ta (src ++ [n]) (dest ++ [n]))
            (fun ta => Shrinks t ta src) (children t1 src) (by
              intro ta n hta hn
              have hb1 : Bounded t1 src h := bounded_of_shrinks hmk hb
              obtain ⟨h1, _⟩ := bounded_child hb1 hn
              have hbta : Bounded ta src h := bounded_of_shrinks hta hb
              have hchildta : Bounded ta (src ++ [n]) (h - 1) := by
                intro e hemem hu
                have := hbta e hemem (under_trans (under_append src [n]) hu)
                simp
                omega
              have hap' : Apart (src ++ [n]) (dest ++ [n]) := apart_child [n] (apart_append [n] hap)
              have hrec := ih ta (src ++ [n]) (dest ++ [n]) (h - 1) hchildta (by omega) hap'
              cases hc : move fuel ta (src ++ [n]) (dest ++ [n]) with
              | none => rw [hc] at hrec; cases hrec
              | some x =>
                obtain ⟨r', tb⟩ := x
                exact ⟨r', tb, rfl, hta.trans (move_shrinks fuel ta _ _ r' tb hc src (apart_append [n] hap))⟩)
            .ok t1 hmk
        obtain ⟨r2, t2, hf2, _⟩ := hfold
        rw [hf2]
        cases r2 <;> rfl
      · rfl

/-- MOVE ALWAYS RETURNS: for every tree, source and destination, with fuel = total length of the tree's
    paths + 1 -/
theorem move_returns (t : Tree) (src dest : Path) : (move (totalLen t + 1) t src dest).isSome = true := by
  by_cases hu : under src dest = true
  · simp only [move]
    split
    · rfl
    split
    · rfl
    rfl
  · have hu' : under src dest = false := by simpa using hu
    by_cases hd : under dest src = true
    · obtain ⟨r, t', h, _⟩ := move_terminates_shallow (totalLen t + 1) t src dest (totalLen t) (lenLe_totalLen t)
        (under_length hd) (by omega) (by omega)
      rw [h]; rfl
    · exact move_terminates_apart _ t src dest (totalLen t) (bounded_totalLen t src) (by omega)
        ⟨hu', by simpa using hd⟩

/-- COPY RETURNS whenever source and destination differ: apart, source below the destination, or destination
    inside the source (refused for a directory, one step for a file) -/
theorem copy_returns_ne (t : Tree) (src dest : Path) (sl : Bool) (hne : src ≠ dest) :
    (copy (totalLen t + 1) t src dest sl).isSome = true := by
  by_cases hu : under src dest = true
  · -- destination inside the source
    simp only [copy]
    split
    · rfl
    split
    · rfl
    split
    · rfl
    split
    · rfl
    rename_i hnd _
    have hfile : isDir t src = false := by
      cases hd : isDir t src with
      | false => rfl
      | true => exfalso; apply hnd; simp [hd, hu, hne]
    split
    · rfl
    · rw [hfile]; simp
  · have hu' : under src dest = false := by simpa using hu
    by_cases hd : under dest src = true
    · have hl : dest.length < src.length := by
        have h1 := under_length hd
        have h2 : dest.length ≠ src.length := by
          intro heq
          have := List.IsPrefix.eq_of_length ((under_iff _ _).1 hd) heq
          exact hne this.symm
        omega
      obtain ⟨r, t', h, _⟩ := copy_terminates_shallow (totalLen t + 1) t src dest sl (totalLen t) (lenLe_totalLen t)
        hl (by omega) (by omega)
      rw [h]; rfl
    · exact copy_returns t src dest sl ⟨hu', by simpa using hd⟩

theorem bounded_tight (t : Tree) (q : Path) : Bounded t q (totalLen t - q.length) := by
  intro e he hu
  have h1 := length_le_totalLen t e he
  have h2 := under_length hu
  omega

theorem apart_siblings (p : Path) {a b : Name} (h : a ≠ b) : Apart (p ++ [a]) (p ++ [b]) := by
  have key : ∀ x y : Name, x ≠ y → under (p ++ [x]) (p ++ [y]) = false := by
    intro x y hxy
    cases hu : under (p ++ [x]) (p ++ [y]) with
    | false => rfl
    | true =>
      have hp := (under_iff _ _).1 hu
      have := List.IsPrefix.eq_of_length hp (by simp)
      have := List.append_cancel_left this
      simp at this
      exact absurd this hxy
  exact ⟨key a b h, key b a (Ne.symm h)⟩

/-- the last overlap case: a directory copied "into itself" by name (`Copy(p, p/)` creates `p/<name of p>`):
    the child with that name is the destination itself (a no-op), every other child is apart from it -/
theorem copy_returns_self_slash (t : Tree) (p : Path) (hd : isDir t p = true) :
    (copy (totalLen t + 2) t p p true).isSome = true := by
  have hex : exists_ t p = true := by
    unfold isDir at hd; unfold exists_; cases h : lookup t p <;> simp_all
  have hprepEq : copyPrep t (isDir t p) p true = (.ok, t, true) := by
    unfold copyPrep; simp [hex, hd]
  show (copy (totalLen t + 1 + 1) t p p true).isSome = true
  generalize hk : totalLen t + 1 = k
  simp only [copy]
  split
  · rfl
  split
  · rfl
  split
  · rfl
  split
  · rfl
  split
  · rfl
  · rename_i r1 t1 b hne heq
    rw [hprepEq] at heq
    simp only [Prod.mk.injEq] at heq
    obtain ⟨_, rfl, rfl⟩ := heq
    split
    · rfl
    · rename_i r2 t2 hne2 heq2
      -- the destination p ++ [l]
      generalize hdst : copyDst (isDir t p) (exists_ t p) true p p = dst at heq2
      have hdstEq : dst = p ++ [p.getLast?.getD 0] := by
        rw [← hdst]; unfold copyDst; simp [hd, hex]
      subst hdstEq
      have hsub2 : ∀ n, n ≠ p.getLast?.getD 0 → sub t2 (p ++ [n]) = sub t (p ++ [n]) := by
        intro n hn
        have := sub_mkdirAll t (p ++ [p.getLast?.getD 0]) (p ++ [n]) (apart_siblings p hn).1
        rw [heq2] at this; exact this
      apply foldNames_isSome (fun ta => ∀ n, n ≠ p.getLast?.getD 0 → sub ta (p ++ [n]) = sub t (p ++ [n])) _ _ .ok t2 hsub2
      intro ta n hta hn
      by_cases hnl : n = p.getLast?.getD 0
      · subst hnl
        exact ⟨.ok, ta, by rw [← hk]; simp [copy], hta⟩
      · have hap := apart_siblings p hnl
        -- the child is an entry of t: the tree has a path of length ≥ 1
        obtain ⟨nd, hent⟩ := child_entry hn
        have hin : (p ++ [n], nd) ∈ sub t2 (p ++ [n]) := List.mem_filter.2 ⟨hent, under_refl _⟩
        rw [hsub2 n hnl] at hin
        have hlen := length_le_totalLen t _ (List.mem_filter.1 hin).1
        simp at hlen
        have hb : Bounded ta (p ++ [n]) (totalLen t - (p ++ [n]).length) :=
          bounded_of_sub (hta n hnl) (bounded_tight t _)
        have hrec := copy_terminates k ta (p ++ [n]) (p ++ [p.getLast?.getD 0]) false _ hb
          (by simp; omega) hap
        cases hc : copy k ta (p ++ [n]) (p ++ [p.getLast?.getD 0]) false with
        | none => rw [hc] at hrec; cases hrec
        | some x =>
          obtain ⟨r', tb⟩ := x
          refine ⟨r', tb, rfl, ?_⟩
          intro m hm
          exact (copy_sub _ ta _ _ false r' tb hc (p ++ [m]) (apart_siblings p hm)).trans (hta m hm)

/-- COPY ALWAYS RETURNS: for every tree, source, destination and destination shape, with fuel = total
    length of the tree's paths + 2 -/
theorem copy_always_returns (t : Tree) (src dest : Path) (sl : Bool) :
    (copy (totalLen t + 2) t src dest sl).isSome = true := by
  by_cases hne : src = dest
  · subst hne
    by_cases hsl : sl = true
    · subst hsl
      by_cases hd : isDir t src = true
      · exact copy_returns_self_slash t src hd
      · -- not a directory: missing, or a file where a directory is needed
        show (copy (totalLen t + 1 + 1) t src src true).isSome = true
        generalize totalLen t + 1 = k
        simp only [copy]
        split
        · rfl
        split
        · rfl
        split
        · rfl
        split
        · rfl
        split
        · rfl
        · have hfile : isDir t src = false := by simpa using hd
          rw [hfile]; simp
    · have : sl = false := by simpa using hsl
      subst this
      show (copy (totalLen t + 1 + 1) t src src false).isSome = true
      generalize totalLen t + 1 = k
      simp [copy]
  · by_cases hu : under src dest = true
    · show (copy (totalLen t + 1 + 1) t src dest sl).isSome = true
      generalize totalLen t + 1 = k
      simp only [copy]
      split
      · rfl
      split
      · rfl
      split
      · rfl
      split
      · rfl
      rename_i hnd _
      have hfile : isDir t src = false := by
        cases hd : isDir t src with
        | false => rfl
        | true => exfalso; apply hnd; simp [hd, hu, hne]
      split
      · rfl
      · rw [hfile]; simp
    · have hu' : under src dest = false := by simpa using hu
      by_cases hd : under dest src = true
      · have hl : dest.length < src.length := by
          have h1 := under_length hd
          have h2 : dest.length ≠ src.length := by
            intro heq
            have := List.IsPrefix.eq_of_length ((under_iff _ _).1 hd) heq
            exact hne this.symm
          omega
        obtain ⟨r, t', h, _⟩ := copy_terminates_shallow (totalLen t + 2) t src dest sl (totalLen t) (lenLe_totalLen t)
          hl (by omega) (by omega)
        rw [h]; rfl
      · exact copy_terminates _ t src dest sl (totalLen t) (bounded_totalLen t src) (by omega) ⟨hu', by simpa using hd⟩

/-- MOVE ALWAYS RETURNS, with the same fuel as Copy -/
theorem move_always_returns (t : Tree) (src dest : Path) : (move (totalLen t + 2) t src dest).isSome = true := by
  by_cases hu : under src dest = true
  · show (move (totalLen t + 1 + 1) t src dest).isSome = true
    generalize totalLen t + 1 = k
    simp only [move]
    split
    · rfl
    split
    · rfl
    rfl
  · have hu' : under src dest = false := by simpa using hu
    by_cases hd : under dest src = true
    · obtain ⟨r, t', h, _⟩ := move_terminates_shallow (totalLen t + 2) t src dest (totalLen t) (lenLe_totalLen t)
        (under_length hd) (by omega) (by omega)
      rw [h]; rfl
    · exact move_terminates_apart _ t src dest (totalLen t) (bounded_totalLen t src) (by omega)
        ⟨hu', by simpa using hd⟩

/-- EVERY CALL of the reference model RETURNS, on every tree -/
theorem step_returns (t : Tree) (op : Op) : (step t op).isSome = true := by
  unfold step
  split
  · rfl
  · cases op <;> first | rfl | exact copy_always_returns _ _ _ _ | exact move_always_returns _ _ _

/-- … hence every program runs to its end -/
theorem run_returns : ∀ (ops : List Op) (t : Tree), (run t ops).isSome = true := by
  intro ops
  induction ops with
  | nil => intro t; rfl
  | cons op ops ih =>
    intro t
    simp only [run]
    have := step_returns t op
    cases h : step t op with
    | none => rw [h] at this; cases this
    | some x => exact ih x.2

end GoUtils.Fs
