/-
Proofs.Cache — a successful Fetch installs one complete stored version, for every interleaving of the
steps of any number of Stores / cleanings and a crash anywhere (a crash is a history that simply stops).
-/
import GoUtils.Model.Cache
set_option linter.unusedSimpArgs false
set_option linter.unusedVariables false
namespace GoUtils.Cache

theorem List.mem_of_mem_filter' {α : Type} {p : α → Bool} {l : List α} {a : α} (h : a ∈ l.filter p) : a ∈ l :=
  (List.mem_filter.1 h).1

/-- immutable: every file without the `.part` suffix is a complete archive, and every complete archive
    (with or without suffix) is the archive of a stored version -/
structure ImmGood (s : ImmState) : Prop where
  final : ∀ f ∈ s.files, f.part = false → ∃ v, f.content = .complete v
  known : ∀ f ∈ s.files, ∀ v, f.content = .complete v → v ∈ s.stored

theorem immGood_init : ImmGood ImmState.init := ⟨by intro f hf; simp [ImmState.init] at hf, by intro f hf; simp [ImmState.init] at hf⟩

theorem immGood_step {s s' : ImmState} {e : ImmEv} (h : immStep s e = some s') (g : ImmGood s) : ImmGood s' := by
  cases e with
  | beginStore id v =>
    simp only [immStep] at h
    split at h
    · cases h
    · simp at h; subst h
      exact ⟨g.final, fun f hf w hw => List.mem_cons_of_mem _ (g.known f hf w hw)⟩
  | writePart id v k =>
    simp only [immStep] at h
    split at h
    · simp at h; subst h
      constructor
      · intro f hf hp
        simp only [List.mem_cons] at hf
        rcases hf with rfl | hf
        · simp at hp
        · exact g.final f (List.mem_of_mem_filter' hf) hp
      · intro f hf w hw
        simp only [List.mem_cons] at hf
        rcases hf with rfl | hf
        · simp at hw
        · exact g.known f (List.mem_of_mem_filter' hf) w hw
    · cases h
  | finishPart id v =>
    simp only [immStep] at h
    split at h
    · rename_i hc
      simp at h; subst h
      constructor
      · intro f hf hp
        simp only [List.mem_cons] at hf
        rcases hf with rfl | hf
        · simp at hp
        · exact g.final f (List.mem_of_mem_filter' hf) hp
      · intro f hf w hw
        simp only [List.mem_cons] at hf
        rcases hf with rfl | hf
        · simp only [Content.complete.injEq] at hw; subst hw; exact hc.1
        · exact g.known f (List.mem_of_mem_filter' hf) w hw
    · cases h
  | failVerify id =>
    simp only [immStep] at h; simp at h; subst h
    exact ⟨fun f hf hp => g.final f (List.mem_of_mem_filter' hf) hp, fun f hf w hw => g.known f (List.mem_of_mem_filter' hf) w hw⟩
  | rename id =>
    simp only [immStep] at h
    split at h
    · rename_i f hfind
      have hfm : f ∈ s.files := List.mem_of_find?_eq_some hfind
      split at h
      · rename_i v hc
        simp at h; subst h
        constructor
        · intro x hx hp
          simp only [List.mem_cons] at hx
          rcases hx with rfl | hx
          · exact ⟨v, hc⟩
          · exact g.final x (List.mem_of_mem_filter' hx) hp
        · intro x hx w hw
          simp only [List.mem_cons] at hx
          rcases hx with rfl | hx
          · exact g.known f hfm w hw
          · exact g.known x (List.mem_of_mem_filter' hx) w hw
      · cases h
    · cases h
  | clean =>
    simp only [immStep] at h
    split at h
    · simp at h; subst h
      exact ⟨fun f hf hp => g.final f (List.mem_of_mem_filter' hf) hp, fun f hf w hw => g.known f (List.mem_of_mem_filter' hf) w hw⟩
    · simp at h; subst h; exact g
  | cleanList =>
    simp only [immStep] at h
    split at h
    · simp at h; subst h; exact ⟨g.final, g.known⟩
    · simp at h; subst h; exact g
  | cleanRemove id m =>
    simp only [immStep] at h
    split at h
    · simp at h; subst h
      exact ⟨fun f hf hp => g.final f (List.mem_of_mem_filter' hf) hp, fun f hf w hw => g.known f (List.mem_of_mem_filter' hf) w hw⟩
    · cases h

theorem immGood_run : ∀ (es : List ImmEv) (s s' : ImmState), ImmGood s → immRun s es = some s' → ImmGood s' := by
  intro es
  induction es with
  | nil => intro s s' g h; simp only [immRun, Option.some.injEq] at h; subst h; exact g
  | cons e es ih =>
    intro s s' g h
    simp only [immRun] at h
    split at h
    · cases h
    · rename_i s1 hs1; exact ih s1 s' (immGood_step hs1 g) h

theorem newest_mem (fs : List File) (f : File) (h : newest fs = some f) : f ∈ fs ∧ f.part = false := by
  unfold newest at h
  have key : ∀ (l : List File) (acc : Option File), (∀ a, acc = some a → a ∈ fs ∧ a.part = false) → (∀ x ∈ l, x ∈ fs ∧ x.part = false) →
      ∀ r, l.foldl newer acc = some r → r ∈ fs ∧ r.part = false := by
    intro l
    induction l with
    | nil => intro acc hacc _ r hr; simp only [List.foldl_nil] at hr; exact hacc r hr
    | cons x l ih =>
      intro acc hacc hl r hr
      simp only [List.foldl_cons] at hr
      refine ih _ ?_ (fun y hy => hl y (List.mem_cons_of_mem _ hy)) r hr
      intro a ha
      cases acc with
      | none => simp only [newer, Option.some.injEq] at ha; subst ha; exact hl _ List.mem_cons_self
      | some g0 =>
        simp only [newer] at ha
        split at ha
        · simp only [Option.some.injEq] at ha; subst ha; exact hl _ List.mem_cons_self
        · simp only [Option.some.injEq] at ha; subst ha; exact hacc _ rfl
  refine key (fs.filter (!·.part)) none (by intro a ha; cases ha) ?_ f h
  intro x hx
  have := List.mem_filter.1 hx
  exact ⟨this.1, by simpa using this.2⟩

/-- IMMUTABLE CACHE: after any history (any interleaving of the steps of any number of Stores and
    cleanings, stopped anywhere) a Fetch that succeeds installs the complete archive of a stored version -/
theorem imm_fetch_complete (es : List ImmEv) (s : ImmState) (h : immRun ImmState.init es = some s) (c : Content)
    (hf : immFetch s = some c) : ∃ v, c = .complete v ∧ v ∈ s.stored := by
  have g := immGood_run es _ _ immGood_init h
  unfold immFetch at hf
  split at hf
  · rename_i f hn
    split at hf
    · simp only [Option.some.injEq] at hf; subst hf
      obtain ⟨hm, hp⟩ := newest_mem s.files f hn
      obtain ⟨v, hv⟩ := g.final f hm hp
      exact ⟨v, hv, g.known f hm v hv⟩
    · cases hf
  · cases hf

/-! ### a completed Store is what the next Fetch returns -/

/-- every file, and every package a cleaning still has on its list, is older than the clock -/
def ClockGood (s : ImmState) : Prop := (∀ f ∈ s.files, f.mtime < s.clock) ∧ (∀ p ∈ s.pending, p.2 < s.clock)

theorem clockGood_init : ClockGood ImmState.init :=
  ⟨by intro f hf; simp [ImmState.init] at hf, by intro p hp; simp [ImmState.init] at hp⟩

theorem clockGood_step {s s' : ImmState} {e : ImmEv} (h : immStep s e = some s') (g : ClockGood s) : ClockGood s' := by
  cases e with
  | beginStore id v =>
    simp only [immStep] at h; split at h
    · cases h
    · simp at h; subst h; exact g
  | writePart id v k =>
    simp only [immStep] at h; split at h
    · simp at h; subst h
      refine ⟨?_, fun p hp => by have := g.2 p hp; simp only; omega⟩
      intro f hf
      simp only [List.mem_cons] at hf
      rcases hf with rfl | hf
      · simp
      · have := g.1 f (List.mem_of_mem_filter' hf); simp only; omega
    · cases h
  | finishPart id v =>
    simp only [immStep] at h; split at h
    · simp at h; subst h
      refine ⟨?_, fun p hp => by have := g.2 p hp; simp only; omega⟩
      intro f hf
      simp only [List.mem_cons] at hf
      rcases hf with rfl | hf
      · simp
      · have := g.1 f (List.mem_of_mem_filter' hf); simp only; omega
    · cases h
  | failVerify id =>
    simp only [immStep] at h; simp at h; subst h
    exact ⟨fun f hf => g.1 f (List.mem_of_mem_filter' hf), g.2⟩
  | rename id =>
    simp only [immStep] at h
    split at h
    · rename_i f hfind
      split at h
      · simp at h; subst h
        refine ⟨?_, g.2⟩
        intro x hx
        simp only [List.mem_cons] at hx
        rcases hx with rfl | hx
        · exact g.1 f (List.mem_of_find?_eq_some hfind)
        · exact g.1 x (List.mem_of_mem_filter' hx)
      · cases h
    · cases h
  | clean =>
    simp only [immStep] at h; split at h
    · simp at h; subst h; exact ⟨fun f hf => g.1 f (List.mem_of_mem_filter' hf), g.2⟩
    · simp at h; subst h; exact g
  | cleanList =>
    simp only [immStep] at h; split at h
    · simp at h; subst h
      refine ⟨g.1, ?_⟩
      intro p hp
      simp only at hp
      rcases List.mem_append.1 hp with h1 | h1
      · exact g.2 p h1
      · rw [List.mem_map] at h1
        obtain ⟨f, hf, rfl⟩ := h1
        exact g.1 f (List.mem_of_mem_filter' hf)
    · simp at h; subst h; exact g
  | cleanRemove id m =>
    simp only [immStep] at h; split at h
    · simp at h; subst h; exact ⟨fun f hf => g.1 f (List.mem_of_mem_filter' hf), g.2⟩
    · cases h

theorem clockGood_run : ∀ (es : List ImmEv) (s s' : ImmState), ClockGood s → immRun s es = some s' → ClockGood s' := by
  intro es
  induction es with
  | nil => intro s s' g h; simp only [immRun, Option.some.injEq] at h; subst h; exact g
  | cons e es ih =>
    intro s s' g h
    simp only [immRun] at h
    split at h
    · cases h
    · rename_i s1 hs1; exact ih s1 s' (clockGood_step hs1 g) h

/-- the fold that picks the newest file keeps a candidate that is newer than everything still to come -/
theorem newest_fold_keeps (l : List File) (f0 : File) (h : ∀ x ∈ l, x.mtime < f0.mtime) :
    l.foldl newer (some f0) = some f0 := by
  induction l with
  | nil => rfl
  | cons x l ih =>
    have hx := h x List.mem_cons_self
    simp only [List.foldl_cons, newer]
    have : ¬ f0.mtime < x.mtime := by omega
    simp only [this, if_false]
    exact ih (fun y hy => h y (List.mem_cons_of_mem _ hy))

/-- STORE THEN FETCH (immutable): after any history, a Store that completes — upload finished, hashes
    matched, `.part` dropped — makes its version the one the next Fetch returns -/
theorem imm_store_then_fetch (es : List ImmEv) (s s1 s2 : ImmState) (id v : Nat)
    (h : immRun ImmState.init es = some s) (h1 : immStep s (.finishPart id v) = some s1)
    (h2 : immStep s1 (.rename id) = some s2) : immFetch s2 = some (.complete v) := by
  have cg := clockGood_run es _ _ clockGood_init h
  -- the state after finishPart
  simp only [immStep] at h1
  split at h1
  · simp at h1; subst h1
    simp only [immStep] at h2
    simp [List.find?_cons] at h2
    subst h2
    unfold immFetch newest
    generalize hL : List.filter (fun x => !decide (x.id = id)) s.files = L
    have hLmem : ∀ x ∈ L, x ∈ s.files := by subst hL; intro x hx; exact (List.mem_filter.1 hx).1
    -- the renamed file is first in the list, and newer than every other file
    have hfil : List.filter (fun x => !x.part) (({ id := id, part := false, content := .complete v, mtime := s.clock } : File) :: L) =
        { id := id, part := false, content := .complete v, mtime := s.clock } :: List.filter (fun x => !x.part) L := by
      simp [List.filter_cons]
    rw [hfil, List.foldl_cons]
    simp only [newer]
    rw [newest_fold_keeps]
    · simp [unpacks]
    · intro x hx
      exact cg.1 x (hLmem x (List.mem_filter.1 hx).1)
  · cases h1

/-! ### … and it stays what Fetch returns while cleanings run — as one step or as a listing followed by removals, interleaved
    with anything else — until another Store completes -/

/-- the package of a completed Store: it is there, it is the only file with its id, every other complete package is
    older, and no cleaning has it on its list -/
structure Kept (s : ImmState) (f0 : File) : Prop where
  mem : f0 ∈ s.files
  final : f0.part = false
  onlyId : ∀ x ∈ s.files, x.id = f0.id → x = f0
  older : ∀ x ∈ s.files, x.part = false → x ≠ f0 → x.mtime < f0.mtime
  notPending : (f0.id, f0.mtime) ∉ s.pending

theorem fold_newer_kept (f0 : File) : ∀ (l : List File) (acc : Option File),
    (∀ x ∈ l, x = f0 ∨ x.mtime < f0.mtime) →
    (acc = some f0 ∨ ((acc = none ∨ ∃ g, acc = some g ∧ g.mtime < f0.mtime) ∧ f0 ∈ l)) →
    l.foldl newer acc = some f0 := by
  intro l
  induction l with
  | nil =>
    intro acc _ h
    rcases h with h | ⟨_, h⟩
    · simpa using h
    · cases h
  | cons x l ih =>
    intro acc hl hacc
    have hl' : ∀ y ∈ l, y = f0 ∨ y.mtime < f0.mtime := fun y hy => hl y (List.mem_cons_of_mem _ hy)
    have hx := hl x List.mem_cons_self
    simp only [List.foldl_cons]
    apply ih _ hl'
    rcases hacc with h | ⟨h, hm⟩
    · subst h
      left
      simp only [newer]
      rcases hx with rfl | hx
      · simp
      · have : ¬ f0.mtime < x.mtime := by omega
        simp [this]
    · rcases hx with rfl | hx
      · left
        rcases h with rfl | ⟨g, rfl, hg⟩
        · rfl
        · simp [newer, hg]
      · have hml : f0 ∈ l := by
          rcases List.mem_cons.1 hm with e | e
          · subst e; omega
          · exact e
        right
        refine ⟨Or.inr ?_, hml⟩
        rcases h with rfl | ⟨g, rfl, hg⟩
        · exact ⟨x, rfl, hx⟩
        · simp only [newer]
          split
          · exact ⟨x, rfl, hx⟩
          · exact ⟨g, rfl, hg⟩

theorem newest_of_kept {s : ImmState} {f0 : File} (k : Kept s f0) : newest s.files = some f0 := by
  unfold newest
  apply fold_newer_kept f0
  · intro x hx
    have := List.mem_filter.1 hx
    by_cases e : x = f0
    · exact Or.inl e
    · exact Or.inr (k.older x this.1 (by simpa using this.2) e)
  · right
    exact ⟨Or.inl rfl, List.mem_filter.2 ⟨k.mem, by simp [k.final]⟩⟩

/-- the step is not the completion (rename) of a Store -/
def NoRename (e : ImmEv) : Prop := ∀ i, e ≠ .rename i

theorem kept_step {s s' : ImmState} {e : ImmEv} {f0 : File} (h : immStep s e = some s') (hn : NoRename e)
    (k : Kept s f0) : Kept s' f0 := by
  cases e with
  | beginStore id v =>
    simp only [immStep] at h; split at h
    · cases h
    · simp at h; subst h; exact ⟨k.mem, k.final, k.onlyId, k.older, k.notPending⟩
  | writePart id v kk =>
    simp only [immStep] at h; split at h
    · rename_i hc
      simp at h; subst h
      have hid : id ≠ f0.id := by
        intro e
        have h2 := hc.2
        simp only [Bool.not_eq_true', List.any_eq_false] at h2
        have := h2 f0 k.mem
        simp [e, k.final] at this
      refine ⟨?_, k.final, ?_, ?_, k.notPending⟩
      · exact List.mem_cons_of_mem _ (List.mem_filter.2 ⟨k.mem, by simp; exact fun e => hid e.symm⟩)
      · intro x hx hxi
        rcases List.mem_cons.1 hx with rfl | hx
        · simp only at hxi; exact absurd hxi hid
        · exact k.onlyId x (List.mem_of_mem_filter' hx) hxi
      · intro x hx hp hne
        rcases List.mem_cons.1 hx with rfl | hx
        · simp at hp
        · exact k.older x (List.mem_of_mem_filter' hx) hp hne
    · cases h
  | finishPart id v =>
    simp only [immStep] at h; split at h
    · rename_i hc
      simp at h; subst h
      have hid : id ≠ f0.id := by
        intro e
        have h2 := hc.2
        rw [List.any_eq_true] at h2
        obtain ⟨g, hg, hgc⟩ := h2
        simp only [decide_eq_true_eq] at hgc
        have := k.onlyId g hg (by rw [hgc.1, e])
        rw [this, k.final] at hgc; cases hgc.2
      refine ⟨?_, k.final, ?_, ?_, k.notPending⟩
      · exact List.mem_cons_of_mem _ (List.mem_filter.2 ⟨k.mem, by simp; exact fun e => hid e.symm⟩)
      · intro x hx hxi
        rcases List.mem_cons.1 hx with rfl | hx
        · simp only at hxi; exact absurd hxi hid
        · exact k.onlyId x (List.mem_of_mem_filter' hx) hxi
      · intro x hx hp hne
        rcases List.mem_cons.1 hx with rfl | hx
        · simp at hp
        · exact k.older x (List.mem_of_mem_filter' hx) hp hne
    · cases h
  | failVerify id =>
    simp only [immStep] at h; simp at h; subst h
    refine ⟨List.mem_filter.2 ⟨k.mem, by simp [k.final]⟩, k.final, ?_, ?_, k.notPending⟩
    · exact fun x hx hxi => k.onlyId x (List.mem_of_mem_filter' hx) hxi
    · exact fun x hx hp hne => k.older x (List.mem_of_mem_filter' hx) hp hne
  | rename id => exact absurd rfl (hn id)
  | clean =>
    simp only [immStep] at h
    rw [newest_of_kept k] at h
    simp at h; subst h
    refine ⟨List.mem_filter.2 ⟨k.mem, by simp⟩, k.final, ?_, ?_, k.notPending⟩
    · exact fun x hx hxi => k.onlyId x (List.mem_of_mem_filter' hx) hxi
    · exact fun x hx hp hne => k.older x (List.mem_of_mem_filter' hx) hp hne
  | cleanList =>
    simp only [immStep] at h
    rw [newest_of_kept k] at h
    simp at h; subst h
    refine ⟨k.mem, k.final, k.onlyId, k.older, ?_⟩
    intro hp
    simp only at hp
    rcases List.mem_append.1 hp with h1 | h1
    · exact k.notPending h1
    · rw [List.mem_map] at h1
      obtain ⟨x, hx, hxe⟩ := h1
      have hxf := List.mem_filter.1 hx
      simp only [Prod.mk.injEq] at hxe
      have h2 := hxf.2
      simp only [Bool.and_eq_true, Bool.not_eq_true', bne_iff_ne, ne_eq] at h2
      exact h2.2 hxe.1
  | cleanRemove id m =>
    simp only [immStep] at h; split at h
    · rename_i hin
      simp at h; subst h
      refine ⟨List.mem_filter.2 ⟨k.mem, ?_⟩, k.final, ?_, ?_, k.notPending⟩
      · by_cases hb : f0.id = id ∧ f0.mtime = m
        · exfalso
          apply k.notPending
          rw [hb.1, hb.2]; exact hin
        · by_cases e1 : f0.id = id
          · by_cases e2 : f0.mtime = m
            · exact absurd ⟨e1, e2⟩ hb
            · simp [e2]
          · simp [e1]
      · exact fun x hx hxi => k.onlyId x (List.mem_of_mem_filter' hx) hxi
      · exact fun x hx hp hne => k.older x (List.mem_of_mem_filter' hx) hp hne
    · cases h

theorem kept_run {f0 : File} : ∀ (es : List ImmEv) (s s' : ImmState), (∀ e ∈ es, NoRename e) → Kept s f0 →
    immRun s es = some s' → Kept s' f0 := by
  intro es
  induction es with
  | nil => intro s s' _ k h; simp only [immRun, Option.some.injEq] at h; subst h; exact k
  | cons e es ih =>
    intro s s' hn k h
    simp only [immRun] at h
    split at h
    · cases h
    · rename_i s1 hs1
      exact ih s1 s' (fun e' he' => hn e' (List.mem_cons_of_mem _ he')) (kept_step hs1 (hn e List.mem_cons_self) k) h

/-- STORE THEN FETCH, with cleanings in between: after any history, once a Store has completed, whatever happens next short
    of another Store completing — cleanings in one step or as a listing followed by removals in any interleaving, other
    Stores uploading, failing, beginning — the next Fetch returns the version of that Store -/
theorem imm_store_survives (es es' : List ImmEv) (s s1 s2 s3 : ImmState) (id v : Nat)
    (h : immRun ImmState.init es = some s) (h1 : immStep s (.finishPart id v) = some s1)
    (h2 : immStep s1 (.rename id) = some s2) (hn : ∀ e ∈ es', NoRename e) (h3 : immRun s2 es' = some s3) :
    immFetch s3 = some (.complete v) := by
  have cg := clockGood_run es _ _ clockGood_init h
  simp only [immStep] at h1
  split at h1
  · simp at h1; subst h1
    simp only [immStep] at h2
    simp [List.find?_cons] at h2
    subst h2
    have k0 : Kept (ImmState.mk (({ id := id, part := false, content := .complete v, mtime := s.clock } : File) ::
            List.filter (fun x => !decide (x.id = id)) s.files) (s.clock + 1) s.stored s.pending)
        ({ id := id, part := false, content := .complete v, mtime := s.clock } : File) := by
      refine ⟨List.mem_cons_self, rfl, ?_, ?_, ?_⟩
      · intro x hx hxi
        rcases List.mem_cons.1 hx with e | hx
        · exact e
        · have := (List.mem_filter.1 hx).2
          simp only at hxi
          simp [hxi] at this
      · intro x hx _ hne
        rcases List.mem_cons.1 hx with e | hx
        · exact absurd e hne
        · exact cg.1 x (List.mem_filter.1 hx).1
      · intro hp
        have := cg.2 _ hp
        simp at this
    have k3 := kept_run es' _ s3 hn k0 h3
    unfold immFetch
    rw [newest_of_kept k3]
    simp [unpacks]
  · cases h1

/-! ### mutable -/

/-- the side file holds the hash of something that was uploaded; complete archives are of stored versions -/
structure MutGood (s : MutState) : Prop where
  zipKnown : ∀ v, s.zip = some (.complete v) → v ∈ s.stored

theorem mutGood_step {s s' : MutState} {e : MutEv} (h : mutStep s e = some s') (g : MutGood s) : MutGood s' := by
  cases e with
  | beginStore v => simp [mutStep] at h; subst h; exact ⟨fun w hw => List.mem_cons_of_mem _ (g.zipKnown w hw)⟩
  | overwrite v k =>
    simp only [mutStep] at h; split at h
    · simp at h; subst h; exact ⟨fun w hw => by simp at hw⟩
    · cases h
  | finishCopy v =>
    simp only [mutStep] at h; split at h
    · rename_i hv; simp at h; subst h
      exact ⟨fun w hw => by simp only [Option.some.injEq, Content.complete.injEq] at hw; subst hw; exact hv⟩
    · cases h
  | writeHash =>
    simp only [mutStep] at h; split at h
    · simp at h; subst h; exact ⟨g.zipKnown⟩
    · cases h
  | removeZip => simp [mutStep] at h; subst h; exact ⟨fun w hw => by simp at hw⟩

theorem mutGood_run : ∀ (es : List MutEv) (s s' : MutState), MutGood s → mutRun s es = some s' → MutGood s' := by
  intro es
  induction es with
  | nil => intro s s' g h; simp only [mutRun, Option.some.injEq] at h; subst h; exact g
  | cons e es ih =>
    intro s s' g h
    simp only [mutRun] at h
    split at h
    · cases h
    · rename_i s1 hs1; exact ih s1 s' (mutGood_step hs1 g) h

/-- MUTABLE CACHE: after any history of Store steps stopped anywhere, a Fetch that succeeds installs the
    complete archive of a stored version (a truncated archive does not unpack, whatever the side file says) -/
theorem mut_fetch_complete (hashOf : Content → Nat) (es : List MutEv) (s : MutState)
    (h : mutRun MutState.init es = some s) (c : Content) (hf : mutFetch hashOf s = some c) :
    ∃ v, c = .complete v ∧ v ∈ s.stored := by
  have g := mutGood_run es _ _ ⟨by intro v hv; simp [MutState.init] at hv⟩ h
  unfold mutFetch at hf
  cases hz : s.zip with
  | none => simp [hz] at hf
  | some c0 =>
    simp only [hz] at hf
    by_cases hc : expectedHash hashOf s c0 = hashOf c0 ∧ unpacks c0 = true
    · rw [if_pos hc] at hf
      simp only [Option.some.injEq] at hf; subst hf
      cases c0 with
      | complete v => exact ⟨v, rfl, g.zipKnown v hz⟩
      | trunc v k => simp [unpacks] at hc
    · rw [if_neg hc] at hf; cases hf


theorem mutRun_append : ∀ (a b : List MutEv) (s : MutState),
    mutRun s (a ++ b) = (mutRun s a).bind fun s' => mutRun s' b := by
  intro a
  induction a with
  | nil => intro b s; rfl
  | cons e a ih =>
    intro b s
    simp only [List.cons_append, mutRun]
    cases mutStep s e with
    | none => rfl
    | some s' => exact ih b s'

/-- a Store that ran to its end — whatever happened before on the entry (earlier stores, interrupted ones,
    a removed archive), from ANY state — is what the next Fetch installs: the archive is complete and the side
    file holds its hash -/
theorem mut_store_then_fetch (hashOf : Content → Nat) (pre : List MutEv) (s s' : MutState) (v : Nat)
    (h : mutRun s (pre ++ [.finishCopy v, .writeHash]) = some s') :
    mutFetch hashOf s' = some (.complete v) := by
  rw [mutRun_append] at h
  cases h1 : mutRun s pre with
  | none => rw [h1] at h; cases h
  | some s1 =>
    rw [h1] at h
    simp only [Option.bind, mutRun, mutStep] at h
    by_cases hv : v ∈ s1.stored
    · simp only [hv, if_true, Option.some.injEq] at h
      subst h
      simp [mutFetch, expectedHash, unpacks]
    · simp [hv] at h

/-- … and an interrupted Store (the copy stopped after any prefix, the side file not rewritten) never lets a
    Fetch succeed with anything but a complete archive — it fails instead, provided hashes tell a truncated
    archive from the complete one the side file speaks of -/
theorem mut_interrupted_store_fetch_fails (hashOf : Content → Nat) (s : MutState) (v k : Nat) (h0 : Content)
    (hside : s.hashFile = some h0) (hzip : s.zip = some (.trunc v k)) :
    mutFetch hashOf s = none := by
  simp [mutFetch, hzip, unpacks]

end GoUtils.Cache
