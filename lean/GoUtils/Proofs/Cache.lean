/-
Proofs.Cache — a successful Fetch installs one complete stored version, for every interleaving of the
steps of any number of Stores / cleanings and a crash anywhere (a crash is a history that simply stops).
-/
import GoUtils.Model.Cache
set_option linter.unusedSimpArgs false
set_option linter.unusedVariables false
namespace GoUtils.Cache

theorem List.mem_of_mem_filter' {α : Type} {p : α → Bool} {l : List α} {a : α} (h : a ∈ l.filter p) : a ∈ l :=
  (List.mem_filter.1 h).1

/-- immutable: every file without the `.part` suffix is a complete archive, and every complete archive
    (with or without suffix) is the archive of a stored version -/
structure ImmGood (s : ImmState) : Prop where
  final : ∀ f ∈ s.files, f.part = false → ∃ v, f.content = .complete v
  known : ∀ f ∈ s.files, ∀ v, f.content = .complete v → v ∈ s.stored

theorem immGood_init : ImmGood ImmState.init := ⟨by intro f hf; simp [ImmState.init] at hf, by intro f hf; simp [ImmState.init] at hf⟩

theorem immGood_step {s s' : ImmState} {e : ImmEv} (h : immStep s e = some s') (g : ImmGood s) : ImmGood s' := by
  cases e with
  | beginStore id v =>
    simp only [immStep] at h
    split at h
    · cases h
    · simp at h; subst h
      exact ⟨g.final, fun f hf w hw => List.mem_cons_of_mem _ (g.known f hf w hw)⟩
  | writePart id v k =>
    simp only [immStep] at h
    split at h
    · simp at h; subst h
      constructor
      · intro f hf hp
        simp only [List.mem_cons] at hf
        rcases hf with rfl | hf
        · simp at hp
        · exact g.final f (List.mem_of_mem_filter' hf) hp
      · intro f hf w hw
        simp only [List.mem_cons] at hf
        rcases hf with rfl | hf
        · simp at hw
        · exact g.known f (List.mem_of_mem_filter' hf) w hw
    · cases h
  | finishPart id v =>
    simp only [immStep] at h
    split at h
    · rename_i hc
      simp at h; subst h
      constructor
      · intro f hf hp
        simp only [List.mem_cons] at hf
        rcases hf with rfl | hf
        · simp at hp
        · exact g.final f (List.mem_of_mem_filter' hf) hp
      · intro f hf w hw
        simp only [List.mem_cons] at hf
        rcases hf with rfl | hf
        · simp only [Content.complete.injEq] at hw; subst hw; exact hc.1
        · exact g.known f (List.mem_of_mem_filter' hf) w hw
    · cases h
  | failVerify id =>
    simp only [immStep] at h; simp at h; subst h
    exact ⟨fun f hf hp => g.final f (List.mem_of_mem_filter' hf) hp, fun f hf w hw => g.known f (List.mem_of_mem_filter' hf) w hw⟩
  | rename id =>
    simp only [immStep] at h
    split at h
    · rename_i f hfind
      have hfm : f ∈ s.files := List.mem_of_find?_eq_some hfind
      split at h
      · rename_i v hc
        simp at h; subst h
        constructor
        · intro x hx hp
          simp only [List.mem_cons] at hx
          rcases hx with rfl | hx
          · exact ⟨v, hc⟩
          · exact g.final x (List.mem_of_mem_filter' hx) hp
        · intro x hx w hw
          simp only [List.mem_cons] at hx
          rcases hx with rfl | hx
          · exact g.known f hfm w hw
          · exact g.known x (List.mem_of_mem_filter' hx) w hw
      · cases h
    · cases h
  | clean =>
    simp only [immStep] at h
    split at h
    · simp at h; subst h
      exact ⟨fun f hf hp => g.final f (List.mem_of_mem_filter' hf) hp, fun f hf w hw => g.known f (List.mem_of_mem_filter' hf) w hw⟩
    · simp at h; subst h; exact g

theorem immGood_run : ∀ (es : List ImmEv) (s s' : ImmState), ImmGood s → immRun s es = some s' → ImmGood s' := by
  intro es
  induction es with
  | nil => intro s s' g h; simp only [immRun, Option.some.injEq] at h; subst h; exact g
  | cons e es ih =>
    intro s s' g h
    simp only [immRun] at h
    split at h
    · cases h
    · rename_i s1 hs1; exact ih s1 s' (immGood_step hs1 g) h

theorem newest_mem (fs : List File) (f : File) (h : newest fs = some f) : f ∈ fs ∧ f.part = false := by
  unfold newest at h
  have key : ∀ (l : List File) (acc : Option File), (∀ a, acc = some a → a ∈ fs ∧ a.part = false) → (∀ x ∈ l, x ∈ fs ∧ x.part = false) →
      ∀ r, l.foldl newer acc = some r → r ∈ fs ∧ r.part = false := by
    intro l
    induction l with
    | nil => intro acc hacc _ r hr; simp only [List.foldl_nil] at hr; exact hacc r hr
    | cons x l ih =>
      intro acc hacc hl r hr
      simp only [List.foldl_cons] at hr
      refine ih _ ?_ (fun y hy => hl y (List.mem_cons_of_mem _ hy)) r hr
      intro a ha
      cases acc with
      | none => simp only [newer, Option.some.injEq] at ha; subst ha; exact hl _ List.mem_cons_self
      | some g0 =>
        simp only [newer] at ha
        split at ha
        · simp only [Option.some.injEq] at ha; subst ha; exact hl _ List.mem_cons_self
        · simp only [Option.some.injEq] at ha; subst ha; exact hacc _ rfl
  refine key (fs.filter (!·.part)) none (by intro a ha; cases ha) ?_ f h
  intro x hx
  have := List.mem_filter.1 hx
  exact ⟨this.1, by simpa using this.2⟩

/-- IMMUTABLE CACHE: after any history (any interleaving of the steps of any number of Stores and
    cleanings, stopped anywhere) a Fetch that succeeds installs the complete archive of a stored version -/
theorem imm_fetch_complete (es : List ImmEv) (s : ImmState) (h : immRun ImmState.init es = some s) (c : Content)
    (hf : immFetch s = some c) : ∃ v, c = .complete v ∧ v ∈ s.stored := by
  have g := immGood_run es _ _ immGood_init h
  unfold immFetch at hf
  split at hf
  · rename_i f hn
    split at hf
    · simp only [Option.some.injEq] at hf; subst hf
      obtain ⟨hm, hp⟩ := newest_mem s.files f hn
      obtain ⟨v, hv⟩ := g.final f hm hp
      exact ⟨v, hv, g.known f hm v hv⟩
    · cases hf
  · cases hf

/-! ### a completed Store is what the next Fetch returns -/

/-- every file is older than the clock -/
def ClockGood (s : ImmState) : Prop := ∀ f ∈ s.files, f.mtime < s.clock

theorem clockGood_init : ClockGood ImmState.init := by intro f hf; simp [ImmState.init] at hf

theorem clockGood_step {s s' : ImmState} {e : ImmEv} (h : immStep s e = some s') (g : ClockGood s) : ClockGood s' := by
  cases e with
  | beginStore id v =>
    simp only [immStep] at h; split at h
    · cases h
    · simp at h; subst h; exact g
  | writePart id v k =>
    simp only [immStep] at h; split at h
    · simp at h; subst h
      intro f hf
      simp only [List.mem_cons] at hf
      rcases hf with rfl | hf
      · simp
      · have := g f (List.mem_of_mem_filter' hf); simp only; omega
    · cases h
  | finishPart id v =>
    simp only [immStep] at h; split at h
    · simp at h; subst h
      intro f hf
      simp only [List.mem_cons] at hf
      rcases hf with rfl | hf
      · simp
      · have := g f (List.mem_of_mem_filter' hf); simp only; omega
    · cases h
  | failVerify id => simp only [immStep] at h; simp at h; subst h; exact fun f hf => g f (List.mem_of_mem_filter' hf)
  | rename id =>
    simp only [immStep] at h
    split at h
    · rename_i f hfind
      split at h
      · simp at h; subst h
        intro x hx
        simp only [List.mem_cons] at hx
        rcases hx with rfl | hx
        · exact g f (List.mem_of_find?_eq_some hfind)
        · exact g x (List.mem_of_mem_filter' hx)
      · cases h
    · cases h
  | clean =>
    simp only [immStep] at h; split at h
    · simp at h; subst h; exact fun f hf => g f (List.mem_of_mem_filter' hf)
    · simp at h; subst h; exact g

theorem clockGood_run : ∀ (es : List ImmEv) (s s' : ImmState), ClockGood s → immRun s es = some s' → ClockGood s' := by
  intro es
  induction es with
  | nil => intro s s' g h; simp only [immRun, Option.some.injEq] at h; subst h; exact g
  | cons e es ih =>
    intro s s' g h
    simp only [immRun] at h
    split at h
    · cases h
    · rename_i s1 hs1; exact ih s1 s' (clockGood_step hs1 g) h

/-- the fold that picks the newest file keeps a candidate that is newer than everything still to come -/
theorem newest_fold_keeps (l : List File) (f0 : File) (h : ∀ x ∈ l, x.mtime < f0.mtime) :
    l.foldl newer (some f0) = some f0 := by
  induction l with
  | nil => rfl
  | cons x l ih =>
    have hx := h x List.mem_cons_self
    simp only [List.foldl_cons, newer]
    have : ¬ f0.mtime < x.mtime := by omega
    simp only [this, if_false]
    exact ih (fun y hy => h y (List.mem_cons_of_mem _ hy))

/-- STORE THEN FETCH (immutable): after any history, a Store that completes — upload finished, hashes
    matched, `.part` dropped — makes its version the one the next Fetch returns -/
theorem imm_store_then_fetch (es : List ImmEv) (s s1 s2 : ImmState) (id v : Nat)
    (h : immRun ImmState.init es = some s) (h1 : immStep s (.finishPart id v) = some s1)
    (h2 : immStep s1 (.rename id) = some s2) : immFetch s2 = some (.complete v) := by
  have cg := clockGood_run es _ _ clockGood_init h
  -- the state after finishPart
  simp only [immStep] at h1
  split at h1
  · simp at h1; subst h1
    simp only [immStep] at h2
    simp [List.find?_cons] at h2
    subst h2
    unfold immFetch newest
    generalize hL : List.filter (fun x => !decide (x.id = id)) s.files = L
    have hLmem : ∀ x ∈ L, x ∈ s.files := by subst hL; intro x hx; exact (List.mem_filter.1 hx).1
    -- the renamed file is first in the list, and newer than every other file
    have hfil : List.filter (fun x => !x.part) (({ id := id, part := false, content := .complete v, mtime := s.clock } : File) :: L) =
        { id := id, part := false, content := .complete v, mtime := s.clock } :: List.filter (fun x => !x.part) L := by
      simp [List.filter_cons]
    rw [hfil, List.foldl_cons]
    simp only [newer]
    rw [newest_fold_keeps]
    · simp [unpacks]
    · intro x hx
      exact cg x (hLmem x (List.mem_filter.1 hx).1)
  · cases h1

/-! ### mutable -/

/-- the side file holds the hash of something that was uploaded; complete archives are of stored versions -/
structure MutGood (s : MutState) : Prop where
  zipKnown : ∀ v, s.zip = some (.complete v) → v ∈ s.stored

theorem mutGood_step {s s' : MutState} {e : MutEv} (h : mutStep s e = some s') (g : MutGood s) : MutGood s' := by
  cases e with
  | beginStore v => simp [mutStep] at h; subst h; exact ⟨fun w hw => List.mem_cons_of_mem _ (g.zipKnown w hw)⟩
  | overwrite v k =>
    simp only [mutStep] at h; split at h
    · simp at h; subst h; exact ⟨fun w hw => by simp at hw⟩
    · cases h
  | finishCopy v =>
    simp only [mutStep] at h; split at h
    · rename_i hv; simp at h; subst h
      exact ⟨fun w hw => by simp only [Option.some.injEq, Content.complete.injEq] at hw; subst hw; exact hv⟩
    · cases h
  | writeHash =>
    simp only [mutStep] at h; split at h
    · simp at h; subst h; exact ⟨g.zipKnown⟩
    · cases h
  | removeZip => simp [mutStep] at h; subst h; exact ⟨fun w hw => by simp at hw⟩

theorem mutGood_run : ∀ (es : List MutEv) (s s' : MutState), MutGood s → mutRun s es = some s' → MutGood s' := by
  intro es
  induction es with
  | nil => intro s s' g h; simp only [mutRun, Option.some.injEq] at h; subst h; exact g
  | cons e es ih =>
    intro s s' g h
    simp only [mutRun] at h
    split at h
    · cases h
    · rename_i s1 hs1; exact ih s1 s' (mutGood_step hs1 g) h

/-- MUTABLE CACHE: after any history of Store steps stopped anywhere, a Fetch that succeeds installs the
    complete archive of a stored version (a truncated archive does not unpack, whatever the side file says) -/
theorem mut_fetch_complete (hashOf : Content → Nat) (es : List MutEv) (s : MutState)
    (h : mutRun MutState.init es = some s) (c : Content) (hf : mutFetch hashOf s = some c) :
    ∃ v, c = .complete v ∧ v ∈ s.stored := by
  have g := mutGood_run es _ _ ⟨by intro v hv; simp [MutState.init] at hv⟩ h
  unfold mutFetch at hf
  cases hz : s.zip with
  | none => simp [hz] at hf
  | some c0 =>
    simp only [hz] at hf
    by_cases hc : expectedHash hashOf s c0 = hashOf c0 ∧ unpacks c0 = true
    · rw [if_pos hc] at hf
      simp only [Option.some.injEq] at hf; subst hf
      cases c0 with
      | complete v => exact ⟨v, rfl, g.zipKnown v hz⟩
      | trunc v k => simp [unpacks] at hc
    · rw [if_neg hc] at hf; cases hf


theorem mutRun_append : ∀ (a b : List MutEv) (s : MutState),
    mutRun s (a ++ b) = (mutRun s a).bind fun s' => mutRun s' b := by
  intro a
  induction a with
  | nil => intro b s; rfl
  | cons e a ih =>
    intro b s
    simp only [List.cons_append, mutRun]
    cases mutStep s e with
    | none => rfl
    | some s' => exact ih b s'

/-- a Store that ran to its end — whatever happened before on the entry (earlier stores, interrupted ones,
    a removed archive), from ANY state — is what the next Fetch installs: the archive is complete and the side
    file holds its hash -/
theorem mut_store_then_fetch (hashOf : Content → Nat) (pre : List MutEv) (s s' : MutState) (v : Nat)
    (h : mutRun s (pre ++ [.finishCopy v, .writeHash]) = some s') :
    mutFetch hashOf s' = some (.complete v) := by
  rw [mutRun_append] at h
  cases h1 : mutRun s pre with
  | none => rw [h1] at h; cases h
  | some s1 =>
    rw [h1] at h
    simp only [Option.bind, mutRun, mutStep] at h
    by_cases hv : v ∈ s1.stored
    · simp only [hv, if_true, Option.some.injEq] at h
      subst h
      simp [mutFetch, expectedHash, unpacks]
    · simp [hv] at h

/-- … and an interrupted Store (the copy stopped after any prefix, the side file not rewritten) never lets a
    Fetch succeed with anything but a complete archive — it fails instead, provided hashes tell a truncated
    archive from the complete one the side file speaks of -/
theorem mut_interrupted_store_fetch_fails (hashOf : Content → Nat) (s : MutState) (v k : Nat) (h0 : Content)
    (hside : s.hashFile = some h0) (hzip : s.zip = some (.trunc v k)) :
    mutFetch hashOf s = none := by
  simp [mutFetch, hzip, unpacks]

end GoUtils.Cache
