/-
Proofs.FsSem — what a successful copy / move of the reference model leaves behind in the basic cases:
a file copied or moved to a place that does not exist yet is found there with its content (the source is
kept by a copy, gone after a move), a directory moved to a place that does not exist yet is found there
entry for entry.
-/
import GoUtils.Proofs.Fs
set_option linter.unusedSimpArgs false
set_option linter.unusedVariables false
namespace GoUtils.Fs

theorem exists_false_iff {t : Tree} {p : Path} : exists_ t p = false ↔ lookup t p = none := by
  unfold exists_; cases lookup t p <;> simp

theorem ne_nil_of_missing {t : Tree} {p : Path} (h : lookup t p = none) : p ≠ [] := by
  intro hp; subst hp; rw [lookup_root] at h; cases h

theorem not_under_parent_self (p : Path) (hp : p ≠ []) : under p (parent p) = false := by
  cases h : under p (parent p) with
  | false => rfl
  | true =>
    have := ((under_iff _ _).1 h).length_le
    unfold parent at this
    simp at this
    have : p.length = 0 := by omega
    exact absurd (List.eq_nil_of_length_eq_zero this) hp

/-- after `mkdir -p (parent p)`, a missing `p` is still missing -/
theorem mkdirAll_parent_keeps_missing (t : Tree) (p : Path) (h : lookup t p = none) :
    lookup (mkdirAll t (parent p)).2 p = none := by
  rcases mkdirAll_effect t (parent p) p with a | ⟨_, _, a3⟩
  · rw [a]; exact h
  · rw [not_under_parent_self p (ne_nil_of_missing h)] at a3; cases a3

/-- COPY of a file to a place that does not exist: when it succeeds, the destination holds the content of the
    source, and the source still does -/
theorem copy_file_to_missing (fuel : Nat) (t : Tree) (src dest : Path) (c : Nat) (r : Res) (t' : Tree)
    (hsrc : lookup t src = some (.file c)) (hdest : lookup t dest = none)
    (h : copy (fuel + 1) t src dest false = some (.ok, t')) :
    lookup t' dest = some (.file c) ∧ lookup t' src = some (.file c) := by
  have hne : src ≠ dest := by intro e; rw [e, hdest] at hsrc; cases hsrc
  have hex : exists_ t src = true := by unfold exists_; rw [hsrc]; rfl
  have hnd : isDir t src = false := by unfold isDir; rw [hsrc]; rfl
  have hexd : exists_ t dest = false := exists_false_iff.2 hdest
  have hd0 : dest ≠ [] := ne_nil_of_missing hdest
  simp only [copy, hne, hex, hnd, false_and, if_false, Bool.not_true, Bool.false_and, Bool.false_eq_true] at h
  unfold copyPrep at h
  simp only [hexd, Bool.false_eq_true, if_false, Bool.or_false] at h
  -- the parent directories
  cases hmk : mkdirAll t (parent dest) with
  | mk r1 t1 =>
    rw [hmk] at h
    have hkeep : lookup t1 src = some (.file c) := by
      have := mkdirAll_keeps t (parent dest) src _ hsrc; rw [hmk] at this; exact this
    have hmiss : lookup t1 dest = none := by
      have := mkdirAll_parent_keeps_missing t dest hdest; rw [hmk] at this; exact this
    have hnd1 : isDir t1 dest = false := by unfold isDir; rw [hmiss]; rfl
    cases r1 with
    | err e => simp at h
    | ok =>
      simp only [copyDst, Bool.and_false, Bool.false_eq_true, if_false, copyFile, hkeep, hnd1, Option.some.injEq,
        Prod.mk.injEq, true_and] at h
      subst h
      rw [lookup_insert _ _ _ _ hd0, lookup_insert _ _ _ _ hd0]
      simp [hne, hkeep]
    | bool b =>
      simp only [copyDst, Bool.and_false, Bool.false_eq_true, if_false, copyFile, hkeep, hnd1, Option.some.injEq,
        Prod.mk.injEq, true_and] at h
      subst h
      rw [lookup_insert _ _ _ _ hd0, lookup_insert _ _ _ _ hd0]
      simp [hne, hkeep]
    | names l =>
      simp only [copyDst, Bool.and_false, Bool.false_eq_true, if_false, copyFile, hkeep, hnd1, Option.some.injEq,
        Prod.mk.injEq, true_and] at h
      subst h
      rw [lookup_insert _ _ _ _ hd0, lookup_insert _ _ _ _ hd0]
      simp [hne, hkeep]
    | content k =>
      simp only [copyDst, Bool.and_false, Bool.false_eq_true, if_false, copyFile, hkeep, hnd1, Option.some.injEq,
        Prod.mk.injEq, true_and] at h
      subst h
      rw [lookup_insert _ _ _ _ hd0, lookup_insert _ _ _ _ hd0]
      simp [hne, hkeep]
    | size k =>
      simp only [copyDst, Bool.and_false, Bool.false_eq_true, if_false, copyFile, hkeep, hnd1, Option.some.injEq,
        Prod.mk.injEq, true_and] at h
      subst h
      rw [lookup_insert _ _ _ _ hd0, lookup_insert _ _ _ _ hd0]
      simp [hne, hkeep]

/-- MOVE of a file to a place that does not exist: when it succeeds, the destination holds the content and
    the source is gone -/
theorem move_file_to_missing (fuel : Nat) (t : Tree) (src dest : Path) (c : Nat) (t' : Tree)
    (hsrc : lookup t src = some (.file c)) (hdest : lookup t dest = none)
    (h : move (fuel + 1) t src dest = some (.ok, t')) :
    lookup t' dest = some (.file c) ∧ lookup t' src = none := by
  have hne : src ≠ dest := by intro e; rw [e, hdest] at hsrc; cases hsrc
  have hex : exists_ t src = true := by unfold exists_; rw [hsrc]; rfl
  have hd0 : dest ≠ [] := ne_nil_of_missing hdest
  have hs0 : src ≠ [] := by intro e; subst e; rw [lookup_root] at hsrc; cases hsrc
  simp only [move, hne, hex, if_false, Bool.not_true, Bool.false_eq_true, hs0] at h
  by_cases hu : under src dest = true
  · simp [hu] at h
  · have hu' : under src dest = false := by simpa using hu
    simp only [hu', Bool.false_eq_true, if_false] at h
    cases hmk : mkdirAll t (parent dest) with
    | mk r1 t1 =>
      rw [hmk] at h
      have hkeep : lookup t1 src = some (.file c) := by
        have := mkdirAll_keeps t (parent dest) src _ hsrc; rw [hmk] at this; exact this
      have hmiss : lookup t1 dest = none := by
        have := mkdirAll_parent_keeps_missing t dest hdest; rw [hmk] at this; exact this
      have fin : ∀ t'', t'' = removeUnder (insert t1 dest (.file c)) src →
          lookup t'' dest = some (.file c) ∧ lookup t'' src = none := by
        intro t'' e
        subst e
        constructor
        · rw [lookup_removeUnder_outside _ _ _ hu', lookup_insert _ _ _ _ hd0]; simp
        · exact lookup_removeUnder_inside _ _ _ hs0 (under_refl _)
      cases r1 with
      | err e => simp at h
      | ok => simp only [hkeep, hmiss, Option.some.injEq, Prod.mk.injEq, true_and] at h; exact fin _ h.symm
      | bool b => simp only [hkeep, hmiss, Option.some.injEq, Prod.mk.injEq, true_and] at h; exact fin _ h.symm
      | names l => simp only [hkeep, hmiss, Option.some.injEq, Prod.mk.injEq, true_and] at h; exact fin _ h.symm
      | content k => simp only [hkeep, hmiss, Option.some.injEq, Prod.mk.injEq, true_and] at h; exact fin _ h.symm
      | size k => simp only [hkeep, hmiss, Option.some.injEq, Prod.mk.injEq, true_and] at h; exact fin _ h.symm

/-! ### a directory moved to a place that does not exist -/

theorem mem_insert {t : Tree} {p : Path} {n : Node} {e : Path × Node} (h : e ∈ insert t p n) : e ∈ t ∨ e.1 = p := by
  unfold insert at h
  split at h
  · exact Or.inl h
  · rcases List.mem_append.1 h with h1 | h1
    · exact Or.inl (List.mem_filter.1 h1).1
    · simp at h1; right; rw [h1]

theorem mem_mkdirs (l : List Path) : ∀ (t : Tree) (e : Path × Node),
    e ∈ l.foldl (fun acc x => if exists_ acc x then acc else insert acc x .dir) t → e ∈ t ∨ e.1 ∈ l := by
  induction l with
  | nil => intro t e h; exact Or.inl h
  | cons x l ih =>
    intro t e h
    simp only [List.foldl_cons] at h
    rcases ih _ e h with h1 | h1
    · split at h1
      · exact Or.inl h1
      · rcases mem_insert h1 with h2 | h2
        · exact Or.inl h2
        · right; rw [h2]; exact List.mem_cons_self
    · exact Or.inr (List.mem_cons_of_mem _ h1)

theorem mem_mkdirAll {t : Tree} {p : Path} {e : Path × Node} (h : e ∈ (mkdirAll t p).2) : e ∈ t ∨ e.1 ∈ prefixes p := by
  unfold mkdirAll at h
  split at h
  · exact Or.inl h
  · exact mem_mkdirs _ _ _ h

theorem append_drop_of_under {s k : Path} (h : under s k = true) : s ++ k.drop s.length = k := by
  obtain ⟨r, rfl⟩ := (under_iff _ _).1 h
  simp

/-- looking up `dest ++ rel` after the rename is looking up `src ++ rel` before, when nothing was at or below
    `dest` -/
theorem lookup_rename_moved (t : Tree) (src dest rel : Path) (hd0 : dest ≠ [])
    (hfree : ∀ e ∈ t, under dest e.1 = false) (hs0 : src ≠ []) :
    lookup (rename t src dest) (dest ++ rel) = lookup t (src ++ rel) := by
  unfold lookup rename
  have h1 : ¬ (dest ++ rel = []) := by simp [hd0]
  have h2 : ¬ (src ++ rel = []) := by simp [hs0]
  simp only [h1, h2, if_false]
  induction t with
  | nil => rfl
  | cons e t ih =>
    obtain ⟨k, n⟩ := e
    have ih' := ih (fun e he => hfree e (List.mem_cons_of_mem _ he))
    simp only [List.map_cons, List.find?_cons]
    by_cases hk : under src k = true
    · simp only [hk, if_true]
      by_cases hkey : k = src ++ rel
      · subst hkey
        simp
      · have : ¬ (dest ++ k.drop src.length = dest ++ rel) := by
          intro he
          have := List.append_cancel_left he
          apply hkey
          rw [← append_drop_of_under hk, this]
        simp only [this, hkey, decide_false]
        exact ih'
    · have hk' : under src k = false := by simpa using hk
      simp only [hk', Bool.false_eq_true, if_false]
      have hk1 : ¬ (k = dest ++ rel) := by
        intro he
        have := hfree (k, n) List.mem_cons_self
        simp only at this
        rw [he, under_append] at this; cases this
      have hk2 : ¬ (k = src ++ rel) := by
        intro he; rw [he, under_append] at hk'; cases hk'
      simp only [hk1, hk2, decide_false]
      exact ih'

/-- … and nothing is left at or below the source, when source and destination are apart -/
theorem lookup_rename_source_gone (t : Tree) (src dest rel : Path) (hs0 : src ≠ [])
    (h1 : under src dest = false) (h2 : under dest src = false) :
    lookup (rename t src dest) (src ++ rel) = none := by
  unfold lookup rename
  have h0 : ¬ (src ++ rel = []) := by simp [hs0]
  simp only [h0, if_false]
  induction t with
  | nil => rfl
  | cons e t ih =>
    obtain ⟨k, n⟩ := e
    simp only [List.map_cons, List.find?_cons]
    by_cases hk : under src k = true
    · simp only [hk, if_true]
      have : ¬ (dest ++ k.drop src.length = src ++ rel) := by
        intro he
        have hu1 : under dest (src ++ rel) = true := by rw [← he]; exact under_append _ _
        rcases under_comparable hu1 (under_append src rel) with c | c
        · rw [c] at h2; cases h2
        · rw [c] at h1; cases h1
      simp only [this, decide_false]
      exact ih
    · have hk' : under src k = false := by simpa using hk
      simp only [hk', Bool.false_eq_true, if_false]
      have : ¬ (k = src ++ rel) := by intro he; rw [he, under_append] at hk'; cases hk'
      simp only [this, decide_false]
      exact ih

/-- MOVE of a directory to a place where nothing is (and that is apart from it): when it succeeds, every
    entry of the source subtree is found under the destination, entry for entry, and nothing is left at or
    below the source -/
theorem move_dir_to_missing (fuel : Nat) (t : Tree) (src dest : Path) (t' : Tree)
    (hsrc : lookup t src = some .dir) (hs0 : src ≠ []) (hfree : ∀ e ∈ t, under dest e.1 = false)
    (hap : under dest src = false) (h : move (fuel + 1) t src dest = some (.ok, t')) :
    ∀ rel, lookup t' (dest ++ rel) = lookup t (src ++ rel) ∧ lookup t' (src ++ rel) = none := by
  have hd0 : dest ≠ [] := by intro e; subst e; rw [under_nil] at hap; cases hap
  have hne : src ≠ dest := by intro e; subst e; rw [under_refl] at hap; cases hap
  have hex : exists_ t src = true := by unfold exists_; rw [hsrc]; rfl
  have hdest : lookup t dest = none := by
    unfold lookup
    simp only [hd0, if_false]
    cases hf : t.find? (·.1 = dest) with
    | none => rfl
    | some e =>
      have hm := List.mem_of_find?_eq_some hf
      have hp := List.find?_some hf
      simp at hp
      have := hfree e hm
      rw [hp, under_refl] at this; cases this
  simp only [move, hne, hex, if_false, Bool.not_true, Bool.false_eq_true, hs0] at h
  by_cases hu : under src dest = true
  · simp [hu] at h
  · have hu' : under src dest = false := by simpa using hu
    simp only [hu', Bool.false_eq_true, if_false] at h
    cases hmk : mkdirAll t (parent dest) with
    | mk r1 t1 =>
      rw [hmk] at h
      have hkeep : lookup t1 src = some .dir := by
        have := mkdirAll_keeps t (parent dest) src _ hsrc; rw [hmk] at this; exact this
      have hmiss : lookup t1 dest = none := by
        have := mkdirAll_parent_keeps_missing t dest hdest; rw [hmk] at this; exact this
      have hfree1 : ∀ e ∈ t1, under dest e.1 = false := by
        intro e he
        have : e ∈ (mkdirAll t (parent dest)).2 := by rw [hmk]; exact he
        rcases mem_mkdirAll this with h1 | h1
        · exact hfree e h1
        · -- a prefix of the parent of dest is shorter than dest
          cases hh : under dest e.1 with
          | false => rfl
          | true =>
            have h3 := under_trans hh (mem_prefixes h1).2
            rw [not_under_parent_self dest hd0] at h3; cases h3
      have hsame : ∀ rel, lookup t1 (src ++ rel) = lookup t (src ++ rel) := by
        intro rel
        have := mkdirAll_effect t (parent dest) (src ++ rel)
        rw [hmk] at this
        rcases this with a | ⟨_, _, a3⟩
        · exact a
        · have := under_trans (under_trans (under_append src rel) a3) (under_parent dest)
          rw [this] at hu'; cases hu'
      have fin : ∀ t'', t'' = rename t1 src dest →
          ∀ rel, lookup t'' (dest ++ rel) = lookup t (src ++ rel) ∧ lookup t'' (src ++ rel) = none := by
        intro t'' e rel
        subst e
        exact ⟨(lookup_rename_moved t1 src dest rel hd0 hfree1 hs0).trans (hsame rel),
          lookup_rename_source_gone t1 src dest rel hs0 hu' hap⟩
      cases r1 with
      | err e => simp at h
      | ok => simp only [hkeep, hmiss, Option.some.injEq, Prod.mk.injEq, true_and] at h; exact fin _ h.symm
      | bool b => simp only [hkeep, hmiss, Option.some.injEq, Prod.mk.injEq, true_and] at h; exact fin _ h.symm
      | names l => simp only [hkeep, hmiss, Option.some.injEq, Prod.mk.injEq, true_and] at h; exact fin _ h.symm
      | content k => simp only [hkeep, hmiss, Option.some.injEq, Prod.mk.injEq, true_and] at h; exact fin _ h.symm
      | size k => simp only [hkeep, hmiss, Option.some.injEq, Prod.mk.injEq, true_and] at h; exact fin _ h.symm

/-! ### CopyToDirectory / CopyToFile -/

theorem StepFrame.trans {t t1 t2 : Tree} {T : List Path} (h1 : StepFrame t t1 T) (h2 : StepFrame t1 t2 T) :
    StepFrame t t2 T := by
  intro q hq
  rcases h1 q hq with a | ⟨a1, a2, a3⟩
  · rcases h2 q hq with b | ⟨b1, b2, b3⟩
    · exact Or.inl (b.trans a)
    · exact Or.inr ⟨a ▸ b1, b2, b3⟩
  · rcases h2 q hq with b | ⟨b1, _, _⟩
    · exact Or.inr ⟨a1, b.trans a2, a3⟩
    · rw [a2] at b1; cases b1

/-- FRAME of CopyToDirectory: nothing outside the destination directory is altered or removed; the only additions
    outside it are the missing directories on the way to it -/
theorem copyToDirectory_frame (t : Tree) (s d : Path) (sl : Bool) (r : Res) (t' : Tree)
    (h : copyToDirectory t s d sl = some (r, t')) : StepFrame t t' [d] := by
  unfold copyToDirectory at h
  split at h
  · cases h
  · rename_i e t1 hm
    simp only [Option.some.injEq, Prod.mk.injEq] at h
    rw [← h.2]; exact step_frame t (.mkdir d) _ _ hm
  · rename_i r1 t1 _ hm
    exact (step_frame t (.mkdir d) _ _ hm).trans (step_frame t1 (.cp s d sl) _ _ h)

/-- FRAME of CopyToFile -/
theorem copyToFile_frame (t : Tree) (s d : Path) (sl : Bool) (r : Res) (t' : Tree)
    (h : copyToFile t s d sl = some (r, t')) : StepFrame t t' [d] := by
  unfold copyToFile at h
  split at h
  · simp only [Option.some.injEq, Prod.mk.injEq] at h; rw [← h.2]; exact StepFrame.refl _ _
  · split at h
    · split at h
      · simp only [Option.some.injEq, Prod.mk.injEq] at h; rw [← h.2]; exact StepFrame.refl _ _
      · exact step_frame t (.cp s d false) _ _ h
    · split at h
      · simp only [Option.some.injEq, Prod.mk.injEq] at h; rw [← h.2]; exact StepFrame.refl _ _
      · exact step_frame t (.cp s d false) _ _ h

end GoUtils.Fs
