import GoUtils.Model.Members
/- Atomic Appends keep every member; interleaved ones lose one. -/
namespace GoUtils.Members

theorem run_atomic (order : List Nat) (s : St) (h : ∀ p, s.snap p = none) :
    ∃ s', run s (atomicSchedule order) = some s' ∧ s'.members = s.members ++ order ∧ ∀ p, s'.snap p = none := by
  induction order generalizing s with
  | nil => exact ⟨s, rfl, by simp, h⟩
  | cons p ps ih =>
    have hp := h p
    let s1 : St := { members := s.members ++ [p], snap := fun q => if q = p then none else (fun q => if q = p then some s.members else s.snap q) q }
    have h1 : ∀ q, s1.snap q = none := by
      intro q; simp only [s1]; split
      · rfl
      · rename_i hq; simp [h q]
    obtain ⟨s', hr, hm, hs⟩ := ih s1 h1
    refine ⟨s', ?_, ?_, hs⟩
    · simp only [atomicSchedule, List.flatMap_cons, List.cons_append, List.nil_append, run, step, hp]
      simp only [if_true]
      exact hr
    · rw [hm]; simp [s1]

/-- every producer whose Append has returned is a member afterwards (and so receives every later message) -/
def KeepsMembers (exclusive : Bool) : Prop :=
  ∀ (ms : List Nat) (sched : List Step) (s' : St), allowed exclusive sched → run (St.init ms) sched = some s' →
    ∀ p, Step.publish p ∈ sched → p ∈ s'.members

theorem publish_mem_atomic (order : List Nat) (p : Nat) (h : Step.publish p ∈ atomicSchedule order) : p ∈ order := by
  simp only [atomicSchedule, List.mem_flatMap, List.mem_cons, List.mem_nil_iff, or_false] at h
  obtain ⟨q, hq, h | h⟩ := h
  · exact Step.noConfusion h
  · cases h; exact hq

theorem keeps_of_exclusive : KeepsMembers true := by
  intro ms sched s' ha hr p hp
  obtain ⟨order, rfl⟩ : ∃ order, sched = atomicSchedule order := by simpa [allowed] using ha
  obtain ⟨s'', hr', hm, _⟩ := run_atomic order (St.init ms) (fun _ => rfl)
  rw [hr'] at hr; cases hr
  rw [hm]; exact List.mem_append_right _ (publish_mem_atomic order p hp)

/-- two Appends that both read before either publishes: the first member is lost -/
theorem loses_of_shared : ¬ KeepsMembers false := by
  intro h
  have := h [] [.read 0, .read 1, .publish 0, .publish 1] { members := [1], snap := fun _ => none } trivial
    (by simp [run, step, St.init]; funext q; split <;> simp_all) 0 (by simp)
  simp at this

end GoUtils.Members
