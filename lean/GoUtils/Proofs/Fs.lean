/-
Proofs.Fs — lemmas about the reference model of the filesystem semantics (Model.Fs): what each
operation does to `lookup`, from which the frame theorems of Props/C06 follow.
-/
import GoUtils.Model.Fs
set_option linter.unusedSimpArgs false
namespace GoUtils.Fs

theorem find_filter_ne (t : Tree) (p q : Path) :
    (t.filter (fun e => decide (e.1 ≠ p))).find? (fun e => decide (e.1 = q)) =
      if q = p then none else t.find? (fun e => decide (e.1 = q)) := by
  by_cases hq : q = p
  · subst hq
    rw [if_pos rfl]
    apply List.find?_eq_none.2
    intro e he
    have := (List.mem_filter.1 he).2
    simpa using this
  · rw [if_neg hq, List.find?_filter]
    congr 1
    funext a
    by_cases ha : a.1 = q
    · have : a.1 ≠ p := by rw [ha]; exact hq
      simp [ha, hq]
    · simp [ha]

theorem lookup_root (t : Tree) : lookup t [] = some .dir := by simp [lookup]

theorem lookup_insert (t : Tree) (p q : Path) (n : Node) (hp : p ≠ []) :
    lookup (insert t p n) q = if q = p then some n else lookup t q := by
  unfold lookup insert
  by_cases hq0 : q = []
  · subst hq0
    have : ¬ ([] : Path) = p := fun h => hp h.symm
    simp [this]
  · simp only [hq0, hp, if_false]
    rw [List.find?_append, find_filter_ne]
    by_cases hqp : q = p
    · subst hqp; simp
    · have : ¬ p = q := fun h => hqp h.symm
      simp [hqp, this]

theorem lookup_filter_keep (t : Tree) (f : Path × Node → Bool) (q : Path)
    (h : ∀ e ∈ t, e.1 = q → f e = true) : lookup (t.filter f) q = lookup t q := by
  unfold lookup
  by_cases hq0 : q = []
  · simp [hq0]
  · simp only [hq0, if_false]
    congr 1
    induction t with
    | nil => rfl
    | cons e t ih =>
      have ih' := ih (fun e' he' => h e' (List.mem_cons_of_mem _ he'))
      by_cases heq : e.1 = q
      · have := h e (List.mem_cons_self) heq
        simp [List.filter_cons, this, List.find?_cons, heq]
      · cases hf : f e <;> simp [List.filter_cons, hf, List.find?_cons, heq, ih']

theorem lookup_filter_drop (t : Tree) (f : Path × Node → Bool) (q : Path) (hq : q ≠ [])
    (h : ∀ e ∈ t, e.1 = q → f e = false) : lookup (t.filter f) q = none := by
  unfold lookup
  simp only [hq, if_false]
  induction t with
  | nil => rfl
  | cons e t ih =>
    have ih' := ih (fun e' he' => h e' (List.mem_cons_of_mem _ he'))
    by_cases heq : e.1 = q
    · have := h e (List.mem_cons_self) heq
      simpa [List.filter_cons, this] using ih'
    · cases hf : f e <;> simp [List.filter_cons, hf, List.find?_cons, heq] <;> simpa using ih'

theorem lookup_removeUnder_outside (t : Tree) (p q : Path) (h : under p q = false) :
    lookup (removeUnder t p) q = lookup t q := by
  unfold removeUnder
  apply lookup_filter_keep
  intro e _ he
  cases e with | mk a b => simp at he; subst he; simp [h]

theorem lookup_removeUnder_inside (t : Tree) (p q : Path) (hq : q ≠ []) (h : under p q = true) :
    lookup (removeUnder t p) q = none := by
  unfold removeUnder
  apply lookup_filter_drop _ _ _ hq
  intro e _ he
  cases e with | mk a b => simp at he; subst he; simp [h]


/-! ### `under` (prefix order on paths) -/

theorem under_iff (a b : Path) : under a b = true ↔ a <+: b := by
  unfold under; exact List.isPrefixOf_iff_prefix

theorem under_refl (a : Path) : under a a = true := (under_iff a a).2 (List.prefix_refl a)

theorem under_trans {a b c : Path} (h1 : under a b = true) (h2 : under b c = true) : under a c = true :=
  (under_iff a c).2 (List.IsPrefix.trans ((under_iff a b).1 h1) ((under_iff b c).1 h2))

theorem under_append (a x : Path) : under a (a ++ x) = true := (under_iff _ _).2 (List.prefix_append a x)

theorem under_comparable {a b c : Path} (h1 : under a c = true) (h2 : under b c = true) :
    under a b = true ∨ under b a = true := by
  simp only [under_iff] at *
  by_cases h : a.length ≤ b.length
  · exact Or.inl (List.prefix_of_prefix_length_le h1 h2 h)
  · exact Or.inr (List.prefix_of_prefix_length_le h2 h1 (by omega))

theorem under_false_of_under {d d' q : Path} (hdd : under d d' = true) (h : under d q = false) :
    under d' q = false := by
  cases h' : under d' q with
  | false => rfl
  | true => rw [under_trans hdd h'] at h; exact h

theorem mem_prefixes {p q : Path} (h : q ∈ prefixes p) : q ≠ [] ∧ under q p = true := by
  unfold prefixes at h
  simp only [List.mem_map, List.mem_range] at h
  obtain ⟨i, hi, rfl⟩ := h
  constructor
  · intro h0
    have : (p.take (i + 1)).length = 0 := by rw [h0]; rfl
    rw [List.length_take] at this
    omega
  · exact (under_iff _ _).2 (List.take_prefix _ _)

/-! ### frame: what an operation may do outside its destination -/

/-- outside `dest`, `t'` is `t` except for new directories on the way to `dest` -/
def Frame (t t' : Tree) (dest : Path) : Prop :=
  ∀ q, under dest q = false →
    lookup t' q = lookup t q ∨ (lookup t q = none ∧ lookup t' q = some .dir ∧ under q dest = true)

theorem Frame.refl (t : Tree) (d : Path) : Frame t t d := fun _ _ => Or.inl rfl

theorem Frame.trans {t t1 t2 : Tree} {d : Path} (h1 : Frame t t1 d) (h2 : Frame t1 t2 d) : Frame t t2 d := by
  intro q hq
  rcases h1 q hq with a | ⟨a1, a2, a3⟩
  · rcases h2 q hq with b | ⟨b1, b2, b3⟩
    · exact Or.inl (b.trans a)
    · exact Or.inr ⟨a ▸ b1, b2, b3⟩
  · rcases h2 q hq with b | ⟨b1, _, _⟩
    · exact Or.inr ⟨a1, b.trans a2, a3⟩
    · rw [a2] at b1; cases b1

/-- a frame for a destination below `d` is a frame for `d` -/
theorem Frame.weaken {t t' : Tree} {d d' : Path} (hdd : under d d' = true) (h : Frame t t' d') : Frame t t' d := by
  intro q hq
  rcases h q (under_false_of_under hdd hq) with a | ⟨a1, a2, a3⟩
  · exact Or.inl a
  · refine Or.inr ⟨a1, a2, ?_⟩
    rcases under_comparable a3 hdd with c | c
    · exact c
    · rw [c] at hq; cases hq

theorem frame_insert (t : Tree) (p d : Path) (n : Node) (hp : p ≠ []) (hd : under d p = true) :
    Frame t (insert t p n) d := by
  intro q hq
  left
  rw [lookup_insert _ _ _ _ hp]
  have : q ≠ p := by intro h; subst h; rw [hd] at hq; cases hq
  simp [this]

/-- creating the missing directories among `l` (all of them on the way to `p`) -/
theorem frame_mkdirs (l : List Path) (p : Path) (hl : ∀ x ∈ l, x ≠ [] ∧ under x p = true) (t : Tree) :
    ∀ q, lookup (l.foldl (fun acc x => if exists_ acc x then acc else insert acc x .dir) t) q = lookup t q ∨
      (lookup t q = none ∧
       lookup (l.foldl (fun acc x => if exists_ acc x then acc else insert acc x .dir) t) q = some .dir ∧
       under q p = true) := by
  induction l generalizing t with
  | nil => intro q; exact Or.inl rfl
  | cons x l ih =>
    intro q
    have hx := hl x List.mem_cons_self
    have ih' := ih (fun y hy => hl y (List.mem_cons_of_mem _ hy))
    simp only [List.foldl_cons]
    by_cases hex : exists_ t x = true
    · simp only [hex, if_true]; exact ih' t q
    · simp only [hex]
      rcases ih' (insert t x .dir) q with a | ⟨a1, a2, a3⟩
      · rw [lookup_insert _ _ _ _ hx.1] at a
        by_cases hqx : q = x
        · subst hqx
          right
          refine ⟨?_, ?_, hx.2⟩
          · unfold exists_ at hex; cases h : lookup t q <;> simp_all
          · simpa using a
        · left; simpa [hqx] using a
      · rw [lookup_insert _ _ _ _ hx.1] at a1
        by_cases hqx : q = x
        · simp [hqx] at a1
        · right; exact ⟨by simpa [hqx] using a1, a2, a3⟩

/-- everywhere: `mkdirAll p` leaves `q` as it was or creates it as a directory on the way to `p` -/
theorem mkdirAll_effect (t : Tree) (p q : Path) :
    lookup (mkdirAll t p).2 q = lookup t q ∨
      (lookup t q = none ∧ lookup (mkdirAll t p).2 q = some .dir ∧ under q p = true) := by
  unfold mkdirAll
  split
  · exact Or.inl rfl
  · exact frame_mkdirs (prefixes p) p (fun x hx => mem_prefixes hx) t q

theorem frame_mkdirAll (t : Tree) (p : Path) : Frame t (mkdirAll t p).2 p := fun q _ => mkdirAll_effect t p q

theorem frame_mkdirAll_of_under (t : Tree) {p d : Path} (h : under p d = true) : Frame t (mkdirAll t p).2 d := by
  intro q _
  rcases mkdirAll_effect t p q with a | ⟨a1, a2, a3⟩
  · exact Or.inl a
  · exact Or.inr ⟨a1, a2, under_trans a3 h⟩

/-- `mkdirAll` never replaces anything: every entry that existed keeps its node -/
theorem mkdirAll_keeps (t : Tree) (p q : Path) (n : Node) (h : lookup t q = some n) :
    lookup (mkdirAll t p).2 q = some n := by
  unfold mkdirAll
  split
  · exact h
  · rcases frame_mkdirs (prefixes p) p (fun x hx => mem_prefixes hx) t q with a | ⟨a1, _, _⟩
    · exact a.trans h
    · rw [h] at a1; cases a1


/-! ### Copy -/

theorem foldNames_frame {f : Tree → Name → Option (Res × Tree)} {d : Path} {t : Tree}
    (hf : ∀ ta n r' tb, f ta n = some (r', tb) → Frame ta tb d) :
    ∀ (ns : List Name) (acc : Option (Res × Tree)) (r : Res) (t' : Tree),
      (∀ r0 t0, acc = some (r0, t0) → Frame t t0 d) →
      foldNames f ns acc = some (r, t') → Frame t t' d := by
  intro ns
  induction ns with
  | nil =>
    intro acc r t' hacc h
    simp only [foldNames, List.foldl_nil] at h
    exact hacc r t' h
  | cons n ns ih =>
    intro acc r t' hacc h
    simp only [foldNames, List.foldl_cons] at h
    refine ih _ r t' ?_ h
    intro r0 t0 h0
    match acc, hacc, h0 with
    | none, _, h0 => simp at h0
    | some (.err e, ta), hacc, h0 =>
      simp only [Option.some.injEq, Prod.mk.injEq] at h0
      obtain ⟨_, rfl⟩ := h0
      exact hacc _ _ rfl
    | some (.ok, ta), hacc, h0 => exact (hacc _ _ rfl).trans (hf _ _ _ _ h0)
    | some (.bool _, ta), hacc, h0 => exact (hacc _ _ rfl).trans (hf _ _ _ _ h0)
    | some (.names _, ta), hacc, h0 => exact (hacc _ _ rfl).trans (hf _ _ _ _ h0)
    | some (.content _, ta), hacc, h0 => exact (hacc _ _ rfl).trans (hf _ _ _ _ h0)
    | some (.size _, ta), hacc, h0 => exact (hacc _ _ rfl).trans (hf _ _ _ _ h0)

theorem under_parent (p : Path) : under (parent p) p = true := by
  unfold parent; exact (under_iff _ _).2 (List.dropLast_prefix p)

theorem frame_copyPrep (t : Tree) (sd : Bool) (dest : Path) (sl : Bool) :
    Frame t (copyPrep t sd dest sl).2.1 dest := by
  unfold copyPrep
  split
  · exact Frame.refl _ _
  · split
    · exact frame_mkdirAll t dest
    · exact frame_mkdirAll_of_under t (under_parent dest)

theorem under_copyDst (a b c : Bool) (src dest : Path) : under dest (copyDst a b c src dest) = true := by
  unfold copyDst; split
  · exact under_append _ _
  · exact under_refl _

theorem frame_copyFile (t : Tree) (src dst d : Path) (hd : under d dst = true) :
    Frame t (copyFile t src dst).2 d := by
  unfold copyFile
  split
  · split
    · exact Frame.refl _ _
    · by_cases hne : dst = []
      · subst hne; simp only [insert, if_true]; exact Frame.refl _ _
      · exact frame_insert _ _ _ _ hne hd
  · exact Frame.refl _ _

/-- FRAME of Copy: whatever the arguments, outside the destination nothing that existed is altered
    or removed; the only additions there are the missing directories on the way to the destination. -/
theorem copy_frame : ∀ (fuel : Nat) (t : Tree) (src dest : Path) (sl : Bool) (r : Res) (t' : Tree),
    copy fuel t src dest sl = some (r, t') → Frame t t' dest := by
  intro fuel
  induction fuel with
  | zero => intro t src dest sl r t' h; simp [copy] at h
  | succ fuel ih =>
    intro t src dest sl r t' h
    simp only [copy] at h
    split at h
    · simp only [Option.some.injEq, Prod.mk.injEq] at h; rw [← h.2]; exact Frame.refl _ _
    split at h
    · simp only [Option.some.injEq, Prod.mk.injEq] at h; rw [← h.2]; exact Frame.refl _ _
    split at h
    · simp only [Option.some.injEq, Prod.mk.injEq] at h; rw [← h.2]; exact Frame.refl _ _
    split at h
    · simp only [Option.some.injEq, Prod.mk.injEq] at h; rw [← h.2]; exact Frame.refl _ _
    have hprep := frame_copyPrep t (isDir t src) dest sl
    split at h
    · rename_i e t1 b heq
      simp only [Option.some.injEq, Prod.mk.injEq] at h
      rw [heq] at hprep
      rw [← h.2]; exact hprep
    · rename_i r1 t1 b hne heq
      rw [heq] at hprep
      simp only at hprep
      have hdst := under_copyDst (isDir t src) (exists_ t dest) b src dest
      split at h
      · split at h
        · rename_i e t2 heq2
          simp only [Option.some.injEq, Prod.mk.injEq] at h
          have := Frame.weaken hdst (frame_mkdirAll t1 (copyDst (isDir t src) (exists_ t dest) b src dest))
          rw [heq2] at this; rw [← h.2]; exact hprep.trans this
        · rename_i r2 t2 hne2 heq2
          have hmk := Frame.weaken hdst (frame_mkdirAll t1 (copyDst (isDir t src) (exists_ t dest) b src dest))
          rw [heq2] at hmk
          refine foldNames_frame (t := t) (d := dest) ?_ _ _ r t' ?_ h
          · intro ta n r' tb hc
            exact Frame.weaken hdst (ih _ _ _ _ _ _ hc)
          · intro r0 t0 h0
            simp only [Option.some.injEq, Prod.mk.injEq] at h0
            rw [← h0.2]; exact hprep.trans hmk
      · simp only [Option.some.injEq] at h
        have := frame_copyFile t1 src _ dest hdst
        rw [h] at this
        exact hprep.trans this


/-! ### Move -/

theorem lookup_rename_outside (t : Tree) (src dest q : Path)
    (hs : under src q = false) (hd : under dest q = false) :
    lookup (rename t src dest) q = lookup t q := by
  unfold lookup rename
  by_cases hq0 : q = []
  · simp [hq0]
  · simp only [hq0, if_false]
    congr 1
    induction t with
    | nil => rfl
    | cons e t ih =>
      obtain ⟨k, n⟩ := e
      simp only [List.map_cons, List.find?_cons]
      by_cases hk : under src k = true
      · have h1 : ¬ (dest ++ k.drop src.length) = q := by
          intro h; rw [← h, under_append] at hd; cases hd
        have h2 : ¬ k = q := by intro h; rw [h, hs] at hk; cases hk
        simp only [hk, if_true, h1, h2, decide_false]
        exact ih
      · have hk' : under src k = false := by simpa using hk
        simp only [hk', Bool.false_eq_true, if_false]
        by_cases hkq : k = q
        · simp [hkq]
        · simp only [hkq, decide_false]; exact ih

/-- outside `s` and `d`, `t'` is `t` except for new directories on the way to `d` -/
def Frame2 (t t' : Tree) (s d : Path) : Prop :=
  ∀ q, under s q = false → under d q = false →
    lookup t' q = lookup t q ∨ (lookup t q = none ∧ lookup t' q = some .dir ∧ under q d = true)

theorem Frame2.refl (t : Tree) (s d : Path) : Frame2 t t s d := fun _ _ _ => Or.inl rfl

theorem Frame2.trans {t t1 t2 : Tree} {s d : Path} (h1 : Frame2 t t1 s d) (h2 : Frame2 t1 t2 s d) :
    Frame2 t t2 s d := by
  intro q hs hd
  rcases h1 q hs hd with a | ⟨a1, a2, a3⟩
  · rcases h2 q hs hd with b | ⟨b1, b2, b3⟩
    · exact Or.inl (b.trans a)
    · exact Or.inr ⟨a ▸ b1, b2, b3⟩
  · rcases h2 q hs hd with b | ⟨b1, _, _⟩
    · exact Or.inr ⟨a1, b.trans a2, a3⟩
    · rw [a2] at b1; cases b1

theorem Frame2.weaken {t t' : Tree} {s d s' d' : Path} (hss : under s s' = true) (hdd : under d d' = true)
    (h : Frame2 t t' s' d') : Frame2 t t' s d := by
  intro q hs hd
  rcases h q (under_false_of_under hss hs) (under_false_of_under hdd hd) with a | ⟨a1, a2, a3⟩
  · exact Or.inl a
  · refine Or.inr ⟨a1, a2, ?_⟩
    rcases under_comparable a3 hdd with c | c
    · exact c
    · rw [c] at hd; cases hd

theorem Frame2.of_eq {t t' : Tree} {s d : Path}
    (h : ∀ q, under s q = false → under d q = false → lookup t' q = lookup t q) : Frame2 t t' s d :=
  fun q hs hd => Or.inl (h q hs hd)

theorem foldNames_frame2 {f : Tree → Name → Option (Res × Tree)} {s d : Path} {t : Tree}
    (hf : ∀ ta n r' tb, f ta n = some (r', tb) → Frame2 ta tb s d) :
    ∀ (ns : List Name) (acc : Option (Res × Tree)) (r : Res) (t' : Tree),
      (∀ r0 t0, acc = some (r0, t0) → Frame2 t t0 s d) →
      foldNames f ns acc = some (r, t') → Frame2 t t' s d := by
  intro ns
  induction ns with
  | nil =>
    intro acc r t' hacc h
    simp only [foldNames, List.foldl_nil] at h
    exact hacc r t' h
  | cons n ns ih =>
    intro acc r t' hacc h
    simp only [foldNames, List.foldl_cons] at h
    refine ih _ r t' ?_ h
    intro r0 t0 h0
    match acc, hacc, h0 with
    | none, _, h0 => simp at h0
    | some (.err e, ta), hacc, h0 =>
      simp only [Option.some.injEq, Prod.mk.injEq] at h0
      obtain ⟨_, rfl⟩ := h0
      exact hacc _ _ rfl
    | some (.ok, ta), hacc, h0 => exact (hacc _ _ rfl).trans (hf _ _ _ _ h0)
    | some (.bool _, ta), hacc, h0 => exact (hacc _ _ rfl).trans (hf _ _ _ _ h0)
    | some (.names _, ta), hacc, h0 => exact (hacc _ _ rfl).trans (hf _ _ _ _ h0)
    | some (.content _, ta), hacc, h0 => exact (hacc _ _ rfl).trans (hf _ _ _ _ h0)
    | some (.size _, ta), hacc, h0 => exact (hacc _ _ rfl).trans (hf _ _ _ _ h0)

theorem frame2_mkdirAll_parent (t : Tree) (s d : Path) : Frame2 t (mkdirAll t (parent d)).2 s d := by
  intro q _ _
  rcases mkdirAll_effect t (parent d) q with a | ⟨a1, a2, a3⟩
  · exact Or.inl a
  · exact Or.inr ⟨a1, a2, under_trans a3 (under_parent d)⟩

theorem frame2_move_file (t : Tree) (s d : Path) (c : Nat) :
    Frame2 t (removeUnder (insert t d (.file c)) s) s d := by
  apply Frame2.of_eq
  intro q hs hd
  rw [lookup_removeUnder_outside _ _ _ hs]
  by_cases hd0 : d = []
  · subst hd0; simp [insert]
  · rw [lookup_insert _ _ _ _ hd0]
    have : q ≠ d := by intro h; subst h; rw [under_refl] at hd; cases hd
    simp [this]

/-- FRAME of Move: outside the source and the destination nothing that existed is altered or
    removed; the only additions there are the missing directories on the way to the destination. -/
theorem move_frame : ∀ (fuel : Nat) (t : Tree) (src dest : Path) (r : Res) (t' : Tree),
    move fuel t src dest = some (r, t') → Frame2 t t' src dest := by
  intro fuel
  induction fuel with
  | zero => intro t src dest r t' h; simp [move] at h
  | succ fuel ih =>
    intro t src dest r t' h
    simp only [move] at h
    split at h
    · simp only [Option.some.injEq, Prod.mk.injEq] at h; rw [← h.2]; exact Frame2.refl _ _ _
    split at h
    · simp only [Option.some.injEq, Prod.mk.injEq] at h; rw [← h.2]; exact Frame2.refl _ _ _
    split at h
    · simp only [Option.some.injEq, Prod.mk.injEq] at h; rw [← h.2]; exact Frame2.refl _ _ _
    split at h
    · simp only [Option.some.injEq, Prod.mk.injEq] at h; rw [← h.2]; exact Frame2.refl _ _ _
    have hmk := frame2_mkdirAll_parent t src dest
    split at h
    · rename_i e t1 heq
      simp only [Option.some.injEq, Prod.mk.injEq] at h
      rw [heq] at hmk; rw [← h.2]; exact hmk
    · rename_i r1 t1 hne heq
      rw [heq] at hmk
      simp only at hmk
      split at h
      · simp only [Option.some.injEq, Prod.mk.injEq] at h; rw [← h.2]
        exact hmk.trans (frame2_move_file _ _ _ _)
      · simp only [Option.some.injEq, Prod.mk.injEq] at h; rw [← h.2]
        exact hmk.trans (frame2_move_file _ _ _ _)
      · simp only [Option.some.injEq, Prod.mk.injEq] at h; rw [← h.2]; exact hmk
      · simp only [Option.some.injEq, Prod.mk.injEq] at h; rw [← h.2]
        exact hmk.trans (Frame2.of_eq (fun q hs hd => lookup_rename_outside _ _ _ _ hs hd))
      · simp only [Option.some.injEq, Prod.mk.injEq] at h; rw [← h.2]; exact hmk
      · split at h
        · cases h
        · rename_i e t2 hfold
          simp only [Option.some.injEq, Prod.mk.injEq] at h; rw [← h.2]
          refine foldNames_frame2 (t := t) (s := src) (d := dest) ?_ _ _ _ _ ?_ hfold
          · intro ta n r' tb hc
            exact Frame2.weaken (under_append _ _) (under_append _ _) (ih _ _ _ _ _ hc)
          · intro r0 t0 h0
            simp only [Option.some.injEq, Prod.mk.injEq] at h0
            rw [← h0.2]; exact hmk
        · rename_i r2 t2 hne2 hfold
          simp only [Option.some.injEq, Prod.mk.injEq] at h; rw [← h.2]
          have hf : Frame2 t t2 src dest := by
            refine foldNames_frame2 (t := t) (s := src) (d := dest) ?_ _ _ _ _ ?_ hfold
            · intro ta n r' tb hc
              exact Frame2.weaken (under_append _ _) (under_append _ _) (ih _ _ _ _ _ hc)
            · intro r0 t0 h0
              simp only [Option.some.injEq, Prod.mk.injEq] at h0
              rw [← h0.2]; exact hmk
          exact hf.trans (Frame2.of_eq (fun q hs _ => lookup_removeUnder_outside _ _ _ hs))
      · simp only [Option.some.injEq, Prod.mk.injEq] at h; rw [← h.2]; exact hmk


/-! ### one call, programs -/

/-- outside the targets `T`, `t'` is `t` except for new directories on the way to a target -/
def StepFrame (t t' : Tree) (T : List Path) : Prop :=
  ∀ q, (∀ x ∈ T, under x q = false) →
    lookup t' q = lookup t q ∨ (lookup t q = none ∧ lookup t' q = some .dir ∧ ∃ x ∈ T, under q x = true)

theorem StepFrame.refl (t : Tree) (T : List Path) : StepFrame t t T := fun _ _ => Or.inl rfl

theorem stepFrame_of_frame {t t' : Tree} {d : Path} (h : Frame t t' d) : StepFrame t t' [d] := by
  intro q hq
  rcases h q (hq d (by simp)) with a | ⟨a1, a2, a3⟩
  · exact Or.inl a
  · exact Or.inr ⟨a1, a2, d, by simp, a3⟩

theorem stepFrame_of_frame2 {t t' : Tree} {s d : Path} (h : Frame2 t t' s d) : StepFrame t t' [s, d] := by
  intro q hq
  rcases h q (hq s (by simp)) (hq d (by simp)) with a | ⟨a1, a2, a3⟩
  · exact Or.inl a
  · exact Or.inr ⟨a1, a2, d, by simp, a3⟩

theorem frame_touch (t : Tree) (p : Path) : Frame t (touch t p).2 p := by
  unfold touch
  split
  · exact Frame.refl _ _
  · split
    · split <;> exact Frame.refl _ _
    · by_cases hp : p = []
      · subst hp; simp only [insert, if_true]; exact Frame.refl _ _
      · exact frame_insert _ _ _ _ hp (under_refl p)

theorem frame_writeFile (t : Tree) (p : Path) (c : Nat) : Frame t (writeFile t p c).2 p := by
  unfold writeFile
  split
  · exact Frame.refl _ _
  · split
    · split <;> exact Frame.refl _ _
    · by_cases hp : p = []
      · subst hp; simp only [insert, if_true]; exact Frame.refl _ _
      · exact frame_insert _ _ _ _ hp (under_refl p)

theorem under_nil (q : Path) : under [] q = true := by simp [under]

theorem frame_rm (t : Tree) (p : Path) : Frame t (rm t p).2 p := by
  intro q hq
  unfold rm
  split
  · rename_i hp; subst hp; rw [under_nil] at hq; cases hq
  · exact Or.inl (lookup_removeUnder_outside _ _ _ hq)

theorem frame_cleanDir (t : Tree) (p : Path) : Frame t (cleanDir t p).2 p := by
  intro q hq
  unfold cleanDir
  split
  · left
    apply lookup_filter_keep
    intro e _ he
    obtain ⟨k, n⟩ := e
    simp only at he; subst he
    simp [hq]
  · exact Or.inl rfl
  · exact Or.inl rfl

/-- FRAME of a call: whatever its arguments, a call that returns has altered or removed nothing
    outside its targets; the only additions outside them are missing directories on the way to one. -/
theorem step_frame (t : Tree) (op : Op) (r : Res) (t' : Tree) (h : step t op = some (r, t')) :
    StepFrame t t' op.targets := by
  unfold step at h
  split at h
  · simp only [Option.some.injEq, Prod.mk.injEq] at h; rw [← h.2]; exact StepFrame.refl _ _
  · cases op with
    | mkdir p =>
      simp only [Option.some.injEq] at h
      have := frame_mkdirAll t p; rw [h] at this; exact stepFrame_of_frame this
    | touch p =>
      simp only [Option.some.injEq] at h
      have := frame_touch t p; rw [h] at this; exact stepFrame_of_frame this
    | write p c =>
      simp only [Option.some.injEq] at h
      have := frame_writeFile t p c; rw [h] at this; exact stepFrame_of_frame this
    | rm p =>
      simp only [Option.some.injEq] at h
      have := frame_rm t p; rw [h] at this; exact stepFrame_of_frame this
    | clean p =>
      simp only [Option.some.injEq] at h
      have := frame_cleanDir t p; rw [h] at this; exact stepFrame_of_frame this
    | cp s d sl => exact stepFrame_of_frame (copy_frame _ _ _ _ _ _ _ h)
    | mv s d => exact stepFrame_of_frame2 (move_frame _ _ _ _ _ _ h)
    | read p | exists_ p | isfile p | isdir p | isempty p | ls p | lsr p | size p =>
      simp only [Option.some.injEq, Prod.mk.injEq] at h; rw [← h.2]; exact StepFrame.refl _ _

/-- FRAME of a program: an entry (or absent path) unrelated to every target of every call — neither
    below nor above one — is the same after the program as before it. -/
theorem run_frame : ∀ (ops : List Op) (t t' : Tree), run t ops = some t' →
    ∀ q, (∀ op ∈ ops, ∀ x ∈ op.targets, under x q = false ∧ under q x = false) →
      lookup t' q = lookup t q := by
  intro ops
  induction ops with
  | nil => intro t t' h q _; simp only [run, Option.some.injEq] at h; rw [h]
  | cons op ops ih =>
    intro t t' h q hq
    simp only [run] at h
    split at h
    · cases h
    · rename_i r1 t1 hstep
      have h1 := step_frame t op r1 t1 hstep q (fun x hx => (hq op List.mem_cons_self x hx).1)
      have h2 := ih t1 t' h q (fun o ho x hx => hq o (List.mem_cons_of_mem _ ho) x hx)
      rcases h1 with a | ⟨_, _, x, hx, hux⟩
      · exact h2.trans a
      · rw [(hq op List.mem_cons_self x hx).2] at hux; cases hux


/-! ### mkdir -p, rm -rf, write: what they achieve -/

theorem mkdirs_all_dirs (l : List Path) (p : Path) (hl : ∀ x ∈ l, x ≠ [] ∧ under x p = true) (t : Tree)
    (hnf : ∀ x ∈ l, isFile t x = false) :
    ∀ x ∈ l, isDir (l.foldl (fun acc x => if exists_ acc x then acc else insert acc x .dir) t) x = true := by
  induction l generalizing t with
  | nil => intro x hx; cases hx
  | cons y l ih =>
    intro x hx
    simp only [List.foldl_cons]
    have hy := hl y List.mem_cons_self
    have hl' : ∀ z ∈ l, z ≠ [] ∧ under z p = true := fun z hz => hl z (List.mem_cons_of_mem _ hz)
    -- the state after `y`
    have key : ∀ z, isFile t z = false → isFile (if exists_ t y then t else insert t y .dir) z = false := by
      intro z hz
      split
      · exact hz
      · unfold isFile at *
        rw [lookup_insert _ _ _ _ hy.1]
        by_cases hzy : z = y <;> simp [hzy]
        · exact hz
    have hnf' : ∀ z ∈ l, isFile (if exists_ t y then t else insert t y .dir) z = false :=
      fun z hz => key z (hnf z (List.mem_cons_of_mem _ hz))
    rcases List.mem_cons.1 hx with rfl | hx'
    · -- x = y: a directory right after its own step, and the later steps keep it
      have hdir : lookup (if exists_ t x then t else insert t x .dir) x = some .dir := by
        by_cases hex : exists_ t x = true
        · simp only [hex, if_true]
          have hf := hnf x List.mem_cons_self
          unfold exists_ at hex; unfold isFile at hf
          cases h : lookup t x with
          | none => simp [h] at hex
          | some n => cases n with
            | dir => rfl
            | file c => simp [h] at hf
        · rw [if_neg hex, lookup_insert _ _ _ _ hy.1]; simp
      rcases frame_mkdirs l p hl' (if exists_ t x then t else insert t x .dir) x with a | ⟨a1, _, _⟩
      · unfold isDir; rw [a, hdir]; rfl
      · rw [hdir] at a1; cases a1
    · exact ih hl' _ hnf' x hx'

theorem mem_prefixes_self (p : Path) (hp : p ≠ []) : p ∈ prefixes p := by
  unfold prefixes
  simp only [List.mem_map, List.mem_range]
  refine ⟨p.length - 1, ?_, ?_⟩
  · cases p with
    | nil => exact absurd rfl hp
    | cons a l => simp
  · have : p.length - 1 + 1 = p.length := by
      cases p with
      | nil => exact absurd rfl hp
      | cons a l => simp
    rw [this, List.take_length]

/-- `mkdir -p p` answers ok exactly when no file is in the way, and then `p` is a directory -/
theorem mkdirAll_ok_isDir (t : Tree) (p : Path) (h : (mkdirAll t p).1 = .ok) : isDir (mkdirAll t p).2 p = true := by
  unfold mkdirAll at *
  split at h
  · cases h
  · rename_i hany
    by_cases hp : p = []
    · subst hp; simp [isDir, lookup]
    · rw [if_neg hany]
      apply mkdirs_all_dirs (prefixes p) p (fun x hx => mem_prefixes hx) t ?_ p (mem_prefixes_self p hp)
      intro x hx
      simp only [List.any_eq_true, not_exists, not_and, Bool.not_eq_true] at hany
      exact hany x hx

/-- `rm -rf p`: afterwards nothing is left at or below `p` -/
theorem rm_removes (t : Tree) (p q : Path) (hq : q ≠ []) (h : under p q = true) : lookup (rm t p).2 q = none := by
  unfold rm
  split
  · apply lookup_filter_drop _ _ _ hq; intro _ _ _; rfl
  · exact lookup_removeUnder_inside _ _ _ hq h

/-- a successful write is read back -/
theorem write_then_lookup (t : Tree) (p : Path) (c : Nat) (h : (writeFile t p c).1 = .ok) :
    lookup (writeFile t p c).2 p = some (.file c) := by
  unfold writeFile at *
  split at h
  · cases h
  · rename_i h1
    split at h
    · split at h <;> cases h
    · rename_i h2
      have hp : p ≠ [] := fun h0 => h1 (Or.inl h0)
      rw [if_neg h1, if_neg h2, lookup_insert _ _ _ _ hp]; simp

end GoUtils.Fs
