import GoUtils.Model.Unzip
namespace GoUtils.Unzip

def LimitFacts.canonical (F : LimitFacts) : Prop :=
  F.archiveDepthStrict = true ∧ F.archiveSizeStrict = true ∧ F.entryDepthStrict = true ∧
  F.totalStrict = true ∧ F.countStrict = true ∧ F.fileSizeStrict = true ∧ F.copiesDeclaredSize = true ∧
  F.sizeCheckBeforeCopy = true ∧ F.nestedDepthPlusOne = true ∧ F.zipNamesCountedAfterExtraction = true ∧
  F.checksAfterEachFile = true

theorem sumSizes_append (a b : List DiskFile) : sumSizes (a ++ b) = sumSizes a + sumSizes b := by
  simp [sumSizes]

/-- bookkeeping invariant of an accumulator: the counter covers the files created so far and the
    total is exactly the number of bytes they hold -/
def Inv (acc : Acc) : Prop := acc.files.length ≤ acc.count ∧ sumSizes acc.files = acc.total

/-- what one call of `run` guarantees about its result, relative to the accumulator it started from -/
structure Post (lim : Limits) (base : Nat) (depthTracked : Prop) (acc r : Acc) : Prop where
  inv : Inv r
  grows : ∃ new, r.files = acc.files ++ new ∧
    (∀ f ∈ new, f.1 ≤ lim.maxFile) ∧
    (depthTracked → ∀ f ∈ new, (f.2 : Int) ≤ lim.maxDepth) ∧
    (∀ f ∈ new, base ≤ f.2)
  checked : (r.files = acc.files ∧ r.total = acc.total) ∨
    (r.total ≤ lim.maxTotal ∧ r.files.length ≤ lim.maxCount)
  writes : r.maxWrite ≤ Nat.max acc.maxWrite lim.maxFile
  countUp : acc.count ≤ r.count

theorem post_of_count_bump (lim : Limits) (base : Nat) (P : Prop) (acc r : Acc) (k : Nat)
    (h : Post lim base P { acc with count := acc.count + k } r) : Post lim base P acc r :=
  ⟨h.inv, h.grows, h.checked, h.writes, by have := h.countUp; simp at this; omega⟩

/-- one file iteration (accumulator `a` after the entry, both checks passed) followed by the rest -/
theorem post_compose (lim : Limits) (base : Nat) (P : Prop) (acc a r : Acc)
    (hInvA : Inv a)
    (hgrow : ∃ new1, a.files = acc.files ++ new1 ∧ (∀ f ∈ new1, f.1 ≤ lim.maxFile) ∧
      (P → ∀ f ∈ new1, (f.2 : Int) ≤ lim.maxDepth) ∧ (∀ f ∈ new1, base ≤ f.2))
    (hchk : a.total ≤ lim.maxTotal ∧ a.count ≤ lim.maxCount)
    (hw : a.maxWrite ≤ Nat.max acc.maxWrite lim.maxFile) (hc : acc.count ≤ a.count)
    (hp : Post lim base P a r) : Post lim base P acc r := by
  obtain ⟨new1, hf1, hb1, hd1, hbase1⟩ := hgrow
  obtain ⟨new2, hf2, hb2, hd2, hbase2⟩ := hp.grows
  refine ⟨hp.inv, ⟨new1 ++ new2, by rw [hf2, hf1, List.append_assoc], ?_, ?_, ?_⟩, ?_, ?_, Nat.le_trans hc hp.countUp⟩
  · intro f hf; rcases List.mem_append.mp hf with h | h; exact hb1 f h; exact hb2 f h
  · intro hP f hf; rcases List.mem_append.mp hf with h | h; exact hd1 hP f h; exact hd2 hP f h
  · intro f hf; rcases List.mem_append.mp hf with h | h; exact hbase1 f h; exact hbase2 f h
  · right
    rcases hp.checked with ⟨e1, e2⟩ | h
    · rw [e1, e2]; exact ⟨hchk.1, Nat.le_trans hInvA.1 hchk.2⟩
    · exact h
  · have := hp.writes
    have h1 : Nat.max a.maxWrite lim.maxFile ≤ Nat.max acc.maxWrite lim.maxFile :=
      Nat.max_le.mpr ⟨hw, Nat.le_max_right _ _⟩
    exact Nat.le_trans this h1

section
variable (F : LimitFacts) (hF : F.canonical) (lim : Limits) (hap : lim.apply = true)
include hF hap

theorem depth_ok (x : Nat) (h : depthExceeded F lim x = false) (hm : lim.maxDepth ≥ 0) :
    (x : Int) ≤ lim.maxDepth := by
  simp [depthExceeded, depthOn, hap, hm, gt, hF.2.2.1] at h; exact h

theorem size_ok (decl : Nat) (h : sizeExceeded F lim decl = false) : decl ≤ lim.maxFile := by
  simp [sizeExceeded, hap, gt, hF.2.2.2.2.2.1] at h; omega

theorem total_ok (t : Nat) (h : totalExceeded F lim t = false) : t ≤ lim.maxTotal := by
  simp [totalExceeded, hap, gt, hF.2.2.2.1, hF.2.2.2.2.2.2.2.2.2.2] at h; omega

theorem count_ok (c : Nat) (h : countExceeded F lim c = false) : c ≤ lim.maxCount := by
  simp [countExceeded, hap, gt, hF.2.2.2.2.1, hF.2.2.2.2.2.2.2.2.2.2] at h; omega

theorem fileDepth_on (d cur : Nat) (hm : lim.maxDepth ≥ 0) : fileDepthOf lim d cur = d + cur := by
  simp [fileDepthOf, depthOn, hap, hm]
end

theorem run_post (F : LimitFacts) (hF : F.canonical) (lim : Limits) (hap : lim.apply = true) :
    ∀ (a : Arch) (cur base : Nat) (acc r : Acc), (lim.maxDepth ≥ 0 → cur = base) → Inv acc →
      run F lim cur base a acc = .ok r → Post lim base (lim.maxDepth ≥ 0) acc r := by
  have f7 := hF.2.2.2.2.2.2.1
  have f9 := hF.2.2.2.2.2.2.2.2.1
  have f10 := hF.2.2.2.2.2.2.2.2.2.1
  intro a
  induction a with
  | nil =>
    intro cur base acc r _ hinv h
    simp only [run, Except.ok.injEq] at h; subst h
    exact ⟨hinv, ⟨[], by simp, by simp, by simp, by simp⟩, Or.inl ⟨rfl, rfl⟩, Nat.le_max_left _ _, Nat.le_refl _⟩
  | dirE d rest ih =>
    intro cur base acc r hcb hinv h
    simp only [run] at h
    by_cases hd : depthExceeded F lim (d + cur) = true
    · simp [hd] at h
    · simp only [hd, Bool.false_eq_true, if_false] at h
      exact post_of_count_bump lim base _ acc r 1 (ih cur base _ r hcb ⟨by simp; exact Nat.le_succ_of_le hinv.1, hinv.2⟩ h)
  | fileE d zn decl act isZip inner rest ihInner ihRest =>
    intro cur base acc r hcb hinv h
    simp only [run, f7, f9, if_true] at h
    by_cases hd : depthExceeded F lim (fileDepthOf lim d cur) = true
    · simp [hd] at h
    have hd' : depthExceeded F lim (fileDepthOf lim d cur) = false := by simpa using hd
    simp only [hd', Bool.false_eq_true, if_false] at h
    by_cases hs : sizeExceeded F lim decl = true
    · simp [hs] at h
    have hs' : sizeExceeded F lim decl = false := by simpa using hs
    simp only [hs', Bool.false_eq_true, if_false] at h
    by_cases hshort : act < decl
    · simp [hshort] at h
    simp only [hshort, if_false] at h
    have hdecl := size_ok F hF lim hap decl hs'
    have hdep : lim.maxDepth ≥ 0 → ((base + d : Nat) : Int) ≤ lim.maxDepth := by
      intro hm
      have := depth_ok F hF lim hap _ hd' hm
      rw [fileDepth_on F hF lim hap d cur hm, hcb hm] at this
      push_cast at this ⊢; omega
    have hcur' : lim.maxDepth ≥ 0 → fileDepthOf lim d cur + 1 = base + d + 1 := by
      intro hm; rw [fileDepth_on F hF lim hap d cur hm, hcb hm]; omega
    generalize hstep : fileStep F lim base d zn isZip decl (fileDepthOf lim d cur + 1)
      (run F lim (fileDepthOf lim d cur + 1) (base + d + 1) inner (zeroAcc (Nat.max acc.maxWrite decl))) acc = step at h
    cases step with
    | error e => simp at h
    | ok a =>
    simp only [] at h
    by_cases ht : totalExceeded F lim a.total = true
    · simp [ht] at h
    have ht' : totalExceeded F lim a.total = false := by simpa using ht
    simp only [ht', Bool.false_eq_true, if_false] at h
    by_cases hc : countExceeded F lim a.count = true
    · simp [hc] at h
    have hc' : countExceeded F lim a.count = false := by simpa using hc
    simp only [hc', Bool.false_eq_true, if_false] at h
    have htot' := total_ok F hF lim hap _ ht'
    have hcnt' := count_ok F hF lim hap _ hc'
    have hrest := fun hi => ihRest cur base a r hcb hi h
    have hcb1 : acc.count ≤ countBefore lim zn acc.count := by unfold countBefore; split <;> omega
    unfold fileStep at hstep
    by_cases hnest : (lim.recursive && zn && isZip) = true
    · -- nested archive
      simp only [hnest, if_true] at hstep
      split at hstep
      · simp at hstep
      split at hstep
      · simp at hstep
      split at hstep
      · simp at hstep
      rename_i r2 hinner
      simp only [Except.ok.injEq] at hstep
      have p2 := ihInner _ (base + d + 1) _ r2 hcur' ⟨by simp [zeroAcc], by simp [zeroAcc, sumSizes]⟩ hinner
      obtain ⟨new2, hf2, hb2, hd2, hbase2⟩ := p2.grows
      simp only [zeroAcc, List.nil_append] at hf2
      have ea_c : a.count = countBefore lim zn acc.count + r2.count := by rw [← hstep]
      have ea_t : a.total = acc.total + r2.total := by rw [← hstep]
      have ea_f : a.files = acc.files ++ r2.files := by rw [← hstep]
      have ea_w : a.maxWrite = r2.maxWrite := by rw [← hstep]
      have hInvA : Inv a := by
        refine ⟨?_, ?_⟩
        · rw [ea_f, ea_c, List.length_append]; have := p2.inv.1; have := hinv.1; omega
        · rw [ea_f, ea_t, sumSizes_append, hinv.2, p2.inv.2]
      refine post_compose lim base _ acc a r hInvA ⟨r2.files, ea_f, ?_, ?_, ?_⟩ ⟨htot', hcnt'⟩ ?_ ?_ (hrest hInvA)
      · rw [hf2]; exact hb2
      · intro hm; rw [hf2]; exact hd2 hm
      · intro f hf; rw [hf2] at hf; have := hbase2 f hf; omega
      · have := p2.writes
        simp only [zeroAcc] at this
        have h1 : Nat.max (Nat.max acc.maxWrite decl) lim.maxFile ≤ Nat.max acc.maxWrite lim.maxFile := by
          apply Nat.max_le.mpr
          exact ⟨Nat.max_le.mpr ⟨Nat.le_max_left _ _, Nat.le_trans hdecl (Nat.le_max_right _ _)⟩, Nat.le_max_right _ _⟩
        rw [ea_w]; exact Nat.le_trans this h1
      · rw [ea_c]; omega
    · -- plain file left on disk
      simp only [hnest, Bool.false_eq_true, if_false, Except.ok.injEq] at hstep
      have ea_c : acc.count + 1 ≤ a.count := by
        rw [← hstep]; simp only; unfold countBefore
        cases hrz : (lim.recursive && zn) <;> simp [f10]
      have ea_t : a.total = acc.total + decl := by rw [← hstep]
      have ea_f : a.files = acc.files ++ [(decl, base + d)] := by rw [← hstep]
      have ea_w : a.maxWrite = Nat.max acc.maxWrite decl := by rw [← hstep]
      have hInvA : Inv a := by
        refine ⟨?_, ?_⟩
        · rw [ea_f, List.length_append, List.length_singleton]; have := hinv.1; omega
        · rw [ea_f, ea_t, sumSizes_append, hinv.2]; simp [sumSizes]
      refine post_compose lim base _ acc a r hInvA ⟨[(decl, base + d)], ea_f, ?_, ?_, ?_⟩ ⟨htot', hcnt'⟩ ?_ ?_ (hrest hInvA)
      · intro f hf; simp at hf; subst hf; exact hdecl
      · intro hm f hf; simp at hf; subst hf; exact hdep hm
      · intro f hf; simp at hf; subst hf; simp
      · rw [ea_w]; exact Nat.max_le.mpr ⟨Nat.le_max_left _ _, Nat.le_trans hdecl (Nat.le_max_right _ _)⟩
      · omega

/-- the header of every file entry announces no more than its stream holds (no short stream) -/
def Honest : Arch → Prop
  | .nil => True
  | .dirE _ rest => Honest rest
  | .fileE _ _ decl act _ inner rest => decl ≤ act ∧ Honest inner ∧ Honest rest

theorem fileStep_error (F : LimitFacts) (lim : Limits) (base d : Nat) (zn isZip : Bool)
    (written cur' : Nat) (nested : Except Err Acc) (acc : Acc) (e : Err)
    (h : fileStep F lim base d zn isZip written cur' nested acc = .error e) :
    e = .tooLarge ∨ nested = .error e := by
  unfold fileStep at h
  by_cases hn : (lim.recursive && zn && isZip) = true
  · simp only [hn, if_true] at h
    by_cases h4 : archiveDepthExceeded F lim cur' = true
    · simp [h4] at h; exact Or.inl h.symm
    · by_cases h5 : archiveSizeExceeded F lim written = true
      · simp [h4, h5] at h; exact Or.inl h.symm
      · cases nested with
        | error e2 => simp [h4, h5] at h; exact Or.inr (by rw [h])
        | ok r => simp [h4, h5] at h
  · simp [hn] at h

/-- an honest archive is never refused with anything but the 'too large' kind -/
theorem run_error_kind (F : LimitFacts) (lim : Limits) :
    ∀ (a : Arch) (cur base : Nat) (acc : Acc) (e : Err), Honest a →
      run F lim cur base a acc = .error e → e = .tooLarge := by
  intro a
  induction a with
  | nil => intro cur base acc e _ h; simp [run] at h
  | dirE d rest ih =>
    intro cur base acc e hh h
    simp only [run] at h
    split at h
    · simp at h; exact h.symm
    · exact ih cur base _ e hh h
  | fileE d zn decl act isZip inner rest ihInner ihRest =>
    intro cur base acc e hh h
    obtain ⟨hda, hhi, hhr⟩ := hh
    have tail : ∀ a' : Acc, (if totalExceeded F lim a'.total = true then Except.error Err.tooLarge
        else if countExceeded F lim a'.count = true then Except.error Err.tooLarge
        else run F lim cur base rest a') = Except.error e → e = Err.tooLarge := by
      intro a' ht
      split at ht
      · simp at ht; exact ht.symm
      split at ht
      · simp at ht; exact ht.symm
      exact ihRest cur base a' e hhr ht
    simp only [run] at h
    generalize (if F.copiesDeclaredSize = true then decl else act) = written at h
    generalize (if F.nestedDepthPlusOne = true then fileDepthOf lim d cur + 1 else fileDepthOf lim d cur) = cur' at h
    by_cases h1 : depthExceeded F lim (fileDepthOf lim d cur) = true
    · simp [h1] at h; exact h.symm
    by_cases h2 : sizeExceeded F lim decl = true
    · simp [h1, h2] at h; exact h.symm
    have h3 : ¬ act < decl := by omega
    simp only [h1, h2, h3, if_false, Bool.false_eq_true] at h
    cases hfs : fileStep F lim base d zn isZip written cur'
        (run F lim cur' (base + d + 1) inner (zeroAcc (acc.maxWrite.max written))) acc with
    | error e' =>
      rw [hfs] at h
      simp only [Except.error.injEq] at h
      subst h
      rcases fileStep_error F lim base d zn isZip written cur' _ acc e' hfs with h' | h'
      · exact h'
      · exact ihInner _ _ _ _ hhi h'
    | ok a' =>
      rw [hfs] at h
      exact tail a' h

end GoUtils.Unzip
