import GoUtils.Model.Unzip
namespace GoUtils.Unzip

def LimitFacts.canonical (F : LimitFacts) : Prop :=
  F.archiveDepthStrict = true ∧ F.archiveSizeStrict = true ∧ F.entryDepthStrict = true ∧
  F.totalStrict = true ∧ F.countStrict = true ∧ F.fileSizeStrict = true ∧ F.copiesDeclaredSize = true ∧
  F.sizeCheckBeforeCopy = true ∧ F.nestedDepthPlusOne = true ∧ F.zipNamesCountedAfterExtraction = true ∧
  F.checksAfterEachFile = true

theorem sumSizes_append (a b : List DiskFile) : sumSizes (a ++ b) = sumSizes a + sumSizes b := by
  simp [sumSizes]

/-- bookkeeping invariant of an accumulator: the counter covers the files created so far and the
    total is exactly the number of bytes they hold -/
def Inv (acc : Acc) : Prop := acc.files.length ≤ acc.count ∧ sumSizes acc.files = acc.total

/-- what one call of `run` guarantees about its result, relative to the accumulator it started from -/
structure Post (lim : Limits) (base : Nat) (depthTracked : Prop) (acc r : Acc) : Prop where
  inv : Inv r
  grows : ∃ new, r.files = acc.files ++ new ∧
    (∀ f ∈ new, f.1 ≤ lim.maxFile) ∧
    (depthTracked → ∀ f ∈ new, (f.2 : Int) ≤ lim.maxDepth) ∧
    (∀ f ∈ new, base ≤ f.2)
  checked : (r.files = acc.files ∧ r.total = acc.total) ∨
    (r.total ≤ lim.maxTotal ∧ r.files.length ≤ lim.maxCount)
  writes : r.maxWrite ≤ Nat.max acc.maxWrite lim.maxFile
  countUp : acc.count ≤ r.count

end GoUtils.Unzip
