import GoUtils.Model.Archive
import GoUtils.Proofs.FsSem
/- Round trip: extracting a listing of a well-formed tree reproduces the tree. -/
namespace GoUtils.Archive
open GoUtils.Fs

/-- every proper ancestor of an entry of the tree is a directory of the tree -/
def WellFormed (t : Tree) : Prop :=
  ∀ p n, lookup t p = some n → ∀ x, x ≠ [] → under x p = true → x ≠ p → lookup t x = some .dir

/-- `es` lists the tree: exactly its entries, in any order -/
def Listing (t : Tree) (es : List Entry) : Prop :=
  ∀ p n, p ≠ [] → (lookup t p = some n ↔ (p, n) ∈ es)

/-- below `dest` the current tree holds nothing that the archived tree does not hold, and no file is in the way of `dest` -/
structure Inv (t : Tree) (dest : Path) (cur : Tree) : Prop where
  below : ∀ rel, rel ≠ [] → lookup cur (dest ++ rel) = none ∨ lookup cur (dest ++ rel) = lookup t rel
  above : ∀ q, under q dest = true → isFile cur q = false

theorem isFile_false_of_lookup {t : Tree} {q : Path} (h : lookup t q = none ∨ lookup t q = some .dir) : isFile t q = false := by
  unfold isFile; rcases h with h | h <;> rw [h]

theorem under_append_cancel (d a b : Path) : under (d ++ a) (d ++ b) = under a b := by
  unfold under; induction d with
  | nil => rfl
  | cons x d ih => simpa [List.isPrefixOf] using ih

/-- `mkdir -p P` when no file lies on the way: succeeds, `P` is a directory, everything else is as before or a new directory above `P` -/
theorem mkdir_step (cur : Tree) (P : Path) (h : ∀ q, under q P = true → isFile cur q = false) :
    (mkdirAll cur P).1 = .ok ∧ lookup (mkdirAll cur P).2 P = some .dir := by
  have hany : ((prefixes P).any (isFile cur)) = false := by
    rw [List.any_eq_false]; intro q hq; rw [h q (mem_prefixes hq).2]; exact Bool.false_ne_true
  have hok : (mkdirAll cur P).1 = .ok := by unfold mkdirAll; rw [hany]; rfl
  refine ⟨hok, ?_⟩
  have := mkdirAll_ok_isDir cur P hok
  unfold isDir at this
  exact eq_of_beq this

def Keeps (a b : Tree) : Prop := ∀ q n, lookup a q = some n → lookup b q = some n

theorem Keeps.refl (a : Tree) : Keeps a a := fun _ _ h => h
theorem Keeps.trans {a b c : Tree} (h1 : Keeps a b) (h2 : Keeps b c) : Keeps a c := fun q n h => h2 q n (h1 q n h)

theorem under_antisymm {a b : Path} (h1 : under a b = true) (h2 : under b a = true) : a = b := by
  rw [under_iff] at h1 h2
  exact h1.eq_of_length (Nat.le_antisymm h1.length_le h2.length_le)

/-- in the archived tree, everything at or above an entry `p` — `p` itself excepted when it is a file — is a directory -/
theorem ancestor_dir {t : Tree} (hwf : WellFormed t) {p x : Path} {n : Node} (hp : lookup t p = some n)
    (hx0 : x ≠ []) (hx : under x p = true) (hd : x ≠ p ∨ n = .dir) : lookup t x = some .dir := by
  by_cases hxp : x = p
  · subst hxp
    rcases hd with hd | hd
    · exact absurd rfl hd
    · rw [hp, hd]
  · exact hwf p n hp x hx0 hx hxp

theorem no_file_on_way {t : Tree} {dest : Path} {cur : Tree} (hwf : WellFormed t) (hinv : Inv t dest cur)
    {p x : Path} {n : Node} (hp : lookup t p = some n) (hx : under x p = true) (hd : x ≠ p ∨ n = .dir) :
    ∀ q, under q (dest ++ x) = true → isFile cur q = false := by
  intro q hq
  rcases under_comparable hq (under_append dest x) with h | h
  · exact hinv.above q h
  · have hqe := append_drop_of_under h
    generalize q.drop dest.length = r at hqe
    subst hqe
    rw [under_append_cancel] at hq
    by_cases hr : r = []
    · subst hr; rw [List.append_nil]; exact hinv.above dest (under_refl dest)
    · rcases hinv.below r hr with hb | hb
      · exact isFile_false_of_lookup (Or.inl hb)
      · apply isFile_false_of_lookup; right; rw [hb]
        apply ancestor_dir hwf hp hr (under_trans hq hx)
        rcases hd with hd | hd
        · left; intro hrp; subst hrp; exact hd (under_antisymm hx hq)
        · exact Or.inr hd

/-- creating, below `dest`, the directory of an ancestor `x` of an entry -/
theorem mkdir_inv {t : Tree} {dest : Path} {cur : Tree} (hwf : WellFormed t) (hinv : Inv t dest cur)
    {p x : Path} {n : Node} (hp : lookup t p = some n) (hx : under x p = true) (hd : x ≠ p ∨ n = .dir) :
    (mkdirAll cur (dest ++ x)).1 = .ok ∧ lookup (mkdirAll cur (dest ++ x)).2 (dest ++ x) = some .dir ∧
    Inv t dest (mkdirAll cur (dest ++ x)).2 ∧ Keeps cur (mkdirAll cur (dest ++ x)).2 ∧
    Frame cur (mkdirAll cur (dest ++ x)).2 dest := by
  obtain ⟨hok, hdir⟩ := mkdir_step cur (dest ++ x) (no_file_on_way hwf hinv hp hx hd)
  refine ⟨hok, hdir, ⟨?_, ?_⟩, fun q n h => mkdirAll_keeps cur _ q n h, ?_⟩
  · intro rel hrel
    rcases mkdirAll_effect cur (dest ++ x) (dest ++ rel) with a | ⟨_, a2, a3⟩
    · rw [a]; exact hinv.below rel hrel
    · right; rw [a2]; rw [under_append_cancel] at a3
      symm; apply ancestor_dir hwf hp hrel (under_trans a3 hx)
      rcases hd with hd | hd
      · left; intro hrp; subst hrp; exact hd (under_antisymm hx a3)
      · exact Or.inr hd
  · intro q hq
    rcases mkdirAll_effect cur (dest ++ x) q with a | ⟨_, a2, _⟩
    · unfold isFile; rw [a]; exact hinv.above q hq
    · exact isFile_false_of_lookup (Or.inr a2)
  · intro q hq
    rcases mkdirAll_effect cur (dest ++ x) q with a | ⟨a1, a2, a3⟩
    · exact Or.inl a
    · right; refine ⟨a1, a2, ?_⟩
      rcases under_comparable a3 (under_append dest x) with h | h
      · exact h
      · rw [h] at hq; cases hq

theorem parent_append (dest p : Path) (hp : p ≠ []) : parent (dest ++ p) = dest ++ parent p := by
  unfold parent; exact List.dropLast_append_of_ne_nil hp

theorem parent_ne {p : Path} (hp : p ≠ []) : parent p ≠ p := by
  intro h
  have := congrArg List.length h
  unfold parent at this
  rw [List.length_dropLast] at this
  have : 0 < p.length := List.length_pos_iff.2 hp
  omega

/-- what one entry of the archive does -/
theorem step_inv {t : Tree} {dest : Path} {cur : Tree} (hwf : WellFormed t) (hinv : Inv t dest cur)
    {p : Path} {n : Node} (hp0 : p ≠ []) (hp : lookup t p = some n) :
    (unzipStep dest cur (p, n)).1 = .ok ∧ lookup (unzipStep dest cur (p, n)).2 (dest ++ p) = some n ∧
    Inv t dest (unzipStep dest cur (p, n)).2 ∧ Keeps cur (unzipStep dest cur (p, n)).2 ∧
    Frame cur (unzipStep dest cur (p, n)).2 dest := by
  cases n with
  | dir => exact mkdir_inv hwf hinv hp (under_refl p) (Or.inr rfl)
  | file c =>
    obtain ⟨hok, hdir, hinv1, hk1, hf1⟩ := mkdir_inv (dest := dest) hwf hinv hp (under_parent p) (Or.inl (parent_ne hp0))
    simp only [unzipStep, parent_append dest p hp0]
    generalize hm : mkdirAll cur (dest ++ parent p) = m at hok hdir hinv1 hk1 hf1
    obtain ⟨r1, cur1⟩ := m
    simp only at hok hdir hinv1 hk1 hf1
    subst hok
    simp only
    -- the write
    have hne : dest ++ p ≠ [] := by simp [hp0]
    have hnd : isDir cur1 (dest ++ p) = false := by
      unfold isDir
      rcases hinv1.below p hp0 with h | h <;> rw [h]
      · rfl
      · rw [hp]; rfl
    have hpd : isDir cur1 (parent (dest ++ p)) = true := by
      unfold isDir; rw [parent_append dest p hp0, hdir]; rfl
    have hw : writeFile cur1 (dest ++ p) c = (.ok, insert cur1 (dest ++ p) (.file c)) := by
      unfold writeFile; simp [hne, hnd, hpd]
    rw [hw]
    refine ⟨rfl, by rw [lookup_insert _ _ _ _ hne]; simp, ⟨?_, ?_⟩, ?_, ?_⟩
    · intro rel hrel
      rw [lookup_insert _ _ _ _ hne]
      by_cases h : dest ++ rel = dest ++ p
      · have : rel = p := List.append_cancel_left h
        subst this; simp [hp]
      · simp only [h, if_false]; exact hinv1.below rel hrel
    · intro q hq
      unfold isFile
      rw [lookup_insert _ _ _ _ hne]
      have : q ≠ dest ++ p := by
        intro h; subst h
        have := ((under_iff _ _).1 hq).length_le
        have : 0 < p.length := List.length_pos_iff.2 hp0
        simp at *; omega
      simp only [this, if_false]
      exact hinv1.above q hq
    · intro q n' hq
      rw [lookup_insert _ _ _ _ hne]
      by_cases h : q = dest ++ p
      · subst h
        have h1 := hk1 _ _ hq
        rcases hinv1.below p hp0 with hb | hb
        · rw [hb] at h1; cases h1
        · rw [hb, hp] at h1; simp [← h1]
      · simp only [h, if_false]; exact hk1 _ _ hq
    · apply Frame.trans hf1
      intro q hq
      left
      rw [lookup_insert _ _ _ _ hne]
      have : q ≠ dest ++ p := by
        intro h; subst h; rw [under_append] at hq; cases hq
      simp [this]

/-- all the entries, from any state that satisfies the invariant -/
theorem unzip_entries {t : Tree} {dest : Path} (hwf : WellFormed t) :
    ∀ (es : List Entry) (cur : Tree), Inv t dest cur → (∀ e ∈ es, e.1 ≠ [] ∧ lookup t e.1 = some e.2) →
      (unzip dest es cur).1 = .ok ∧ (unzip dest es cur).2.2 = es.map (fun e => dest ++ e.1) ∧
      Inv t dest (unzip dest es cur).2.1 ∧ Keeps cur (unzip dest es cur).2.1 ∧ Frame cur (unzip dest es cur).2.1 dest ∧
      ∀ e ∈ es, lookup (unzip dest es cur).2.1 (dest ++ e.1) = some e.2 := by
  intro es
  induction es with
  | nil => intro cur hinv _; exact ⟨rfl, rfl, hinv, Keeps.refl _, Frame.refl _ _, fun _ h => by cases h⟩
  | cons e es ih =>
    intro cur hinv hall
    obtain ⟨p, n⟩ := e
    have he := hall (p, n) List.mem_cons_self
    obtain ⟨hok, hlk, hinv1, hk1, hf1⟩ := step_inv (dest := dest) hwf hinv he.1 he.2
    generalize hs : unzipStep dest cur (p, n) = st at hok hlk hinv1 hk1 hf1
    obtain ⟨r1, cur1⟩ := st
    simp only at hok hlk hinv1 hk1 hf1
    subst hok
    obtain ⟨a, b, c, d, f, g⟩ := ih cur1 hinv1 (fun e he => hall e (List.mem_cons_of_mem _ he))
    simp only [unzip, hs]
    refine ⟨a, by simp [b], c, hk1.trans d, hf1.trans f, ?_⟩
    intro e he
    rcases List.mem_cons.1 he with rfl | he
    · exact d _ _ hlk
    · exact g e he

/-- nothing lies below the destination yet, and no file is in its way -/
def DestClean (t0 : Tree) (dest : Path) : Prop :=
  (∀ rel, rel ≠ [] → lookup t0 (dest ++ rel) = none) ∧ (∀ q, under q dest = true → isFile t0 q = false)

theorem not_under_append_self (dest rel : Path) (hrel : rel ≠ []) : under (dest ++ rel) dest = false := by
  cases h : under (dest ++ rel) dest with
  | false => rfl
  | true =>
    have := ((under_iff _ _).1 h).length_le
    have : 0 < rel.length := List.length_pos_iff.2 hrel
    simp at *; omega

/-- ROUND TRIP: extracting a listing (in any order) of a well-formed tree into a clean destination succeeds, reproduces
    below the destination exactly the archived tree — same paths, same kinds, same contents, nothing more —, answers with
    exactly the extracted paths, and outside the destination only creates the directories leading to it -/
theorem round_trip {t : Tree} {dest : Path} {es : List Entry} {t0 : Tree} (hwf : WellFormed t) (hl : Listing t es)
    (hnr : ∀ e ∈ es, e.1 ≠ []) (hc : DestClean t0 dest) :
    (extract dest es t0).1 = .ok ∧
    (∀ rel, rel ≠ [] → lookup (extract dest es t0).2.1 (dest ++ rel) = lookup t rel) ∧
    (extract dest es t0).2.2 = es.map (fun e => dest ++ e.1) ∧
    Frame t0 (extract dest es t0).2.1 dest := by
  obtain ⟨hok, _⟩ := mkdir_step t0 dest hc.2
  have hinv0 : Inv t dest (mkdirAll t0 dest).2 := by
    refine ⟨?_, ?_⟩
    · intro rel hrel
      rcases mkdirAll_effect t0 dest (dest ++ rel) with a | ⟨_, _, a3⟩
      · left; rw [a]; exact hc.1 rel hrel
      · rw [not_under_append_self dest rel hrel] at a3; cases a3
    · intro q hq
      rcases mkdirAll_effect t0 dest q with a | ⟨_, a2, _⟩
      · unfold isFile; rw [a]; exact hc.2 q hq
      · exact isFile_false_of_lookup (Or.inr a2)
  have hf0 : Frame t0 (mkdirAll t0 dest).2 dest := frame_mkdirAll t0 dest
  unfold extract
  generalize hm : mkdirAll t0 dest = m at hok hinv0 hf0
  obtain ⟨r1, t1⟩ := m
  simp only at hok hinv0 hf0
  subst hok
  simp only
  have hall : ∀ e ∈ es, e.1 ≠ [] ∧ lookup t e.1 = some e.2 :=
    fun e he => ⟨hnr e he, (hl e.1 e.2 (hnr e he)).2 he⟩
  obtain ⟨a, b, c, _, f, g⟩ := unzip_entries (dest := dest) hwf es t1 hinv0 hall
  refine ⟨a, ?_, b, hf0.trans f⟩
  intro rel hrel
  cases hlt : lookup t rel with
  | some n => exact g (rel, n) ((hl rel n hrel).1 hlt)
  | none =>
    rcases c.below rel hrel with h | h
    · exact h
    · rw [h, hlt]

/-- after a successful extraction the destination itself is a directory -/
theorem extract_dest_is_dir {t : Tree} {dest : Path} {es : List Entry} {t0 : Tree} (hwf : WellFormed t) (hl : Listing t es)
    (hnr : ∀ e ∈ es, e.1 ≠ []) (hc : DestClean t0 dest) :
    lookup (extract dest es t0).2.1 dest = some .dir := by
  obtain ⟨hok, hdir⟩ := mkdir_step t0 dest hc.2
  have hinv0 : Inv t dest (mkdirAll t0 dest).2 := by
    refine ⟨?_, ?_⟩
    · intro rel hrel
      rcases mkdirAll_effect t0 dest (dest ++ rel) with a | ⟨_, _, a3⟩
      · left; rw [a]; exact hc.1 rel hrel
      · rw [not_under_append_self dest rel hrel] at a3; cases a3
    · intro q hq
      rcases mkdirAll_effect t0 dest q with a | ⟨_, a2, _⟩
      · unfold isFile; rw [a]; exact hc.2 q hq
      · exact isFile_false_of_lookup (Or.inr a2)
  unfold extract
  generalize hm : mkdirAll t0 dest = m at hok hdir hinv0
  obtain ⟨r1, t1⟩ := m
  simp only at hok hdir hinv0
  subst hok
  simp only
  have hall : ∀ e ∈ es, e.1 ≠ [] ∧ lookup t e.1 = some e.2 :=
    fun e he => ⟨hnr e he, (hl e.1 e.2 (hnr e he)).2 he⟩
  obtain ⟨_, _, _, d, _, _⟩ := unzip_entries (dest := dest) hwf es t1 hinv0 hall
  exact d _ _ hdir

/-! ### trees as written by a walk: one entry per path -/

/-- one entry per path, none for the root -/
def Canonical (t : Tree) : Prop := (t.map Prod.fst).Nodup ∧ ∀ e ∈ t, e.1 ≠ []

theorem lookup_mem_iff {t : Tree} (hnd : (t.map Prod.fst).Nodup) {p : Path} (hp : p ≠ []) (n : Node) :
    lookup t p = some n ↔ (p, n) ∈ t := by
  unfold lookup
  rw [if_neg hp]
  induction t with
  | nil => simp
  | cons e t ih =>
    obtain ⟨q, m⟩ := e
    rw [List.map_cons, List.nodup_cons] at hnd
    by_cases hq : q = p
    · subst hq
      simp only [List.find?_cons, decide_true, Option.map_some, List.mem_cons, Prod.mk.injEq, true_and]
      constructor
      · intro h; left; cases h; rfl
      · rintro (h | h)
        · rw [h]
        · exact absurd (List.mem_map_of_mem (f := Prod.fst) h) hnd.1
    · have hqd : decide (q = p) = false := by simp [hq]
      simp only [List.find?_cons, hqd, List.mem_cons, Prod.mk.injEq]
      rw [ih hnd.2]
      constructor
      · exact Or.inr
      · rintro (⟨h, _⟩ | h)
        · exact absurd h.symm hq
        · exact h

/-- the archive of a canonical tree is the tree's own list of entries — which lists it -/
theorem listing_self {t : Tree} (hc : Canonical t) : Listing t t := fun _ n hp => lookup_mem_iff hc.1 hp n

theorem mem_prefixes_of_under {x p : Path} (hx0 : x ≠ []) (hx : under x p = true) : x ∈ prefixes p := by
  obtain ⟨r, rfl⟩ := (under_iff _ _).1 hx
  unfold prefixes
  simp only [List.mem_map, List.mem_range]
  refine ⟨x.length - 1, ?_, ?_⟩
  · have : 0 < x.length := List.length_pos_iff.2 hx0
    simp; omega
  · have : x.length - 1 + 1 = x.length := by
      have : 0 < x.length := List.length_pos_iff.2 hx0
      omega
    rw [this, List.take_left']; rfl

theorem wellFormed_of_check {t : Tree} (hc : Canonical t) (h : ancestorsListed t = true) : WellFormed t := by
  intro p n hp x hx0 hx hxp
  have hp0 : p ≠ [] := by
    intro h0; subst h0
    have := ((under_iff _ _).1 hx).length_le
    exact hx0 (List.eq_nil_of_length_eq_zero (by simpa using this))
  have hmem := (lookup_mem_iff hc.1 hp0 n).1 hp
  unfold ancestorsListed at h
  rw [List.all_eq_true] at h
  have h1 := h _ hmem
  rw [List.all_eq_true] at h1
  have h2 := h1 x (mem_prefixes_of_under hx0 hx)
  simp only [Bool.or_eq_true, beq_iff_eq, List.contains_iff_mem] at h2
  rcases h2 with h2 | h2
  · exact absurd h2 hxp
  · exact (lookup_mem_iff hc.1 hx0 .dir).2 h2

/-! ### the extraction as found in the source -/

theorem unzipStepF_good (dest : Path) (t : Tree) (e : Entry) : unzipStepF ⟨true, true⟩ dest t e = unzipStep dest t e := by
  unfold unzipStepF unzipStep; cases e.2 <;> simp

theorem unzipF_good (dest : Path) : ∀ (es : List Entry) (t : Tree), unzipF ⟨true, true⟩ dest es t = unzip dest es t := by
  intro es
  induction es with
  | nil => intro t; rfl
  | cons e es ih => intro t; simp only [unzipF, unzip, unzipStepF_good, ih]

theorem extractF_good (dest : Path) (es : List Entry) (t0 : Tree) : extractF ⟨true, true⟩ dest es t0 = extract dest es t0 := by
  unfold extractF extract; simp only [unzipF_good]

/-- the statement of the round trip for an extraction loop with the given facts -/
def RoundTrips (f : ExtractFacts) : Prop :=
  ∀ (t : Tree) (dest : Path) (es : List Entry) (t0 : Tree), WellFormed t → Listing t es → (∀ e ∈ es, e.1 ≠ []) →
    DestClean t0 dest →
    (extractF f dest es t0).1 = .ok ∧
    (∀ rel, rel ≠ [] → lookup (extractF f dest es t0).2.1 (dest ++ rel) = lookup t rel) ∧
    (extractF f dest es t0).2.2 = es.map (fun e => dest ++ e.1)

theorem roundTrips_good : RoundTrips ⟨true, true⟩ := by
  intro t dest es t0 hwf hl hnr hc
  rw [extractF_good]
  obtain ⟨a, b, c, _⟩ := round_trip hwf hl hnr hc
  exact ⟨a, b, c⟩

/-- a tree with a file in a directory, the file listed first -/
def witnessTree : Tree := [([1, 2], .file 5), ([1], .dir)]
/-- a tree with one empty directory -/
def witnessEmptyDir : Tree := [([1], .dir)]

theorem witnessTree_ok : Canonical witnessTree ∧ ancestorsListed witnessTree = true := by
  refine ⟨⟨by decide, by decide⟩, by decide⟩
theorem witnessEmptyDir_ok : Canonical witnessEmptyDir ∧ ancestorsListed witnessEmptyDir = true := by
  refine ⟨⟨by decide, by decide⟩, by decide⟩

theorem destClean_empty (dest : Path) : DestClean [] dest := by
  refine ⟨fun rel hrel => ?_, fun q _ => ?_⟩
  · unfold lookup; simp [hrel]
  · apply isFile_false_of_lookup; unfold lookup; by_cases hq : q = [] <;> simp [hq]

/-- without the parent directories a file listed before its directory cannot be written -/
theorem roundTrips_needs_parents (d : Bool) : ¬ RoundTrips ⟨d, false⟩ := by
  intro h
  have := (h witnessTree [9] witnessTree [] (wellFormed_of_check witnessTree_ok.1 witnessTree_ok.2)
    (listing_self witnessTree_ok.1) (by decide) (destClean_empty _)).1
  revert this; cases d <;> decide

/-- without the directory entries an empty directory is lost -/
theorem roundTrips_needs_dir_entries (p : Bool) : ¬ RoundTrips ⟨false, p⟩ := by
  intro h
  have := (h witnessEmptyDir [9] witnessEmptyDir [] (wellFormed_of_check witnessEmptyDir_ok.1 witnessEmptyDir_ok.2)
    (listing_self witnessEmptyDir_ok.1) (by decide) (destClean_empty _)).2.1 [1] (by decide)
  revert this; cases p <;> decide

/-! ### zip, then unzip -/

theorem zipOfF_true (t : Tree) : zipOfF true t = t := by
  unfold zipOfF; simp

/-- the statement of the zip → unzip round trip for a walk that writes directory entries or not and an extraction
    loop with the given facts -/
def ZipUnzipRoundTrips (w : Bool) (f : ExtractFacts) : Prop :=
  ∀ (t : Tree) (dest : Path) (t0 : Tree), Canonical t → WellFormed t → DestClean t0 dest →
    (extractF f dest (zipOfF w t) t0).1 = .ok ∧
    (∀ rel, rel ≠ [] → lookup (extractF f dest (zipOfF w t) t0).2.1 (dest ++ rel) = lookup t rel) ∧
    (extractF f dest (zipOfF w t) t0).2.2 = (zipOfF w t).map (fun e => dest ++ e.1)

theorem zipUnzip_good : ZipUnzipRoundTrips true ⟨true, true⟩ := by
  intro t dest t0 hc hwf hd
  rw [zipOfF_true]
  exact roundTrips_good t dest t t0 hwf (listing_self hc) hc.2 hd

/-- directory entries left out of the archive: an empty directory is lost, whatever the extraction does -/
theorem zipUnzip_needs_dir_entries_written (f : ExtractFacts) : ¬ ZipUnzipRoundTrips false f := by
  intro h
  have := (h witnessEmptyDir [9] [] witnessEmptyDir_ok.1 (wellFormed_of_check witnessEmptyDir_ok.1 witnessEmptyDir_ok.2)
    (destClean_empty _)).2.1 [1] (by decide)
  obtain ⟨a, b⟩ := f
  revert this; cases a <;> cases b <;> decide

theorem zipUnzip_needs_extraction (w : Bool) (f : ExtractFacts) (hf : f ≠ ⟨true, true⟩) : ¬ ZipUnzipRoundTrips w f := by
  cases w with
  | false => exact zipUnzip_needs_dir_entries_written f
  | true =>
    obtain ⟨a, b⟩ := f
    intro h
    cases b with
    | false =>
      have := (h witnessTree [9] [] witnessTree_ok.1 (wellFormed_of_check witnessTree_ok.1 witnessTree_ok.2)
        (destClean_empty _)).1
      revert this; cases a <;> decide
    | true =>
      cases a with
      | true => exact hf rfl
      | false =>
        have := (h witnessEmptyDir [9] [] witnessEmptyDir_ok.1
          (wellFormed_of_check witnessEmptyDir_ok.1 witnessEmptyDir_ok.2) (destClean_empty _)).2.1 [1] (by decide)
        revert this; decide

end GoUtils.Archive
