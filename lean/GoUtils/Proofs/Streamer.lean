import GoUtils.Model.Streamer
namespace GoUtils.Streamer

theorem splitOn_ne_nil (sep : Nat) (s : Bytes) : splitOn sep s ≠ [] := by
  cases s with
  | nil => simp [splitOn]
  | cons c cs =>
    unfold splitOn
    split
    · simp
    · split <;> simp

/-- glue the last piece of `xs` to the first piece of `ys` -/
def glue : List Bytes → List Bytes → List Bytes
  | [], ys => ys
  | [x], [] => [x]
  | [x], y :: ys => (x ++ y) :: ys
  | x :: x' :: xs, ys => x :: glue (x' :: xs) ys

theorem splitOn_append (sep : Nat) (a b : Bytes) :
    splitOn sep (a ++ b) = glue (splitOn sep a) (splitOn sep b) := by
  induction a with
  | nil =>
    obtain ⟨y, ys, h⟩ := List.exists_cons_of_ne_nil (splitOn_ne_nil sep b)
    simp [splitOn, h, glue]
  | cons c a ih =>
    obtain ⟨l, ls, hl⟩ := List.exists_cons_of_ne_nil (splitOn_ne_nil sep a)
    obtain ⟨y, ys, hy⟩ := List.exists_cons_of_ne_nil (splitOn_ne_nil sep b)
    simp only [List.cons_append, splitOn]
    by_cases hc : c = sep
    · simp [hc, ih, hl, glue]
    · simp only [hc, if_false, ih, hl, hy]
      cases ls with
      | nil => simp [glue]
      | cons l2 ls2 => simp [glue]

theorem filter_glue_of_last_nil (xs ys : List Bytes) (hx : xs.getLast? = some []) :
    (glue xs ys).filter (· ≠ []) = xs.filter (· ≠ []) ++ ys.filter (· ≠ []) := by
  induction xs with
  | nil => simp at hx
  | cons x xs ih =>
    cases xs with
    | nil =>
      simp at hx; subst hx
      cases ys <;> simp [glue]
    | cons x' xs' =>
      have : (x' :: xs').getLast? = some [] := by simpa [List.getLast?_cons_cons] using hx
      simp only [glue, List.filter_cons, ih this]
      split <;> simp

theorem filter_glue_of_head_nil (xs ys : List Bytes) (hxs : xs ≠ []) (hy : ys.head? = some []) :
    (glue xs ys).filter (· ≠ []) = xs.filter (· ≠ []) ++ ys.filter (· ≠ []) := by
  induction xs with
  | nil => exact absurd rfl hxs
  | cons x xs ih =>
    cases xs with
    | nil =>
      cases ys with
      | nil => simp at hy
      | cons y ys =>
        simp at hy; subst hy
        simp only [glue, List.append_nil]
        rw [show x :: ys = [x] ++ ys from rfl, List.filter_append]
        simp
    | cons x' xs' =>
      simp only [glue, List.filter_cons, ih (by simp)]
      split <;> simp

theorem getLast_splitOn_nil (a : Bytes) (h : a = [] ∨ a.getLast? = some 10) :
    (splitOn 10 a).getLast? = some [] := by
  induction a with
  | nil => simp [splitOn]
  | cons c a ih =>
    have hne : a = [] ∨ a.getLast? = some 10 := by
      cases a with
      | nil => left; rfl
      | cons d a' => right; rcases h with h | h; simp at h; simpa [List.getLast?_cons_cons] using h
    obtain ⟨l, ls, hl⟩ := List.exists_cons_of_ne_nil (splitOn_ne_nil 10 a)
    have ih' := ih hne
    unfold splitOn
    by_cases hc : c = 10
    · simp only [hc, if_true, hl] at *
      simp [List.getLast?_cons_cons, ih']
    · -- c is not a newline, so a is non-empty (a = [] would make c the last byte)
      cases a with
      | nil => rcases h with h | h <;> simp at h; exact absurd h hc
      | cons d a' =>
        simp only [hc, if_false, hl]
        rw [hl] at ih'
        cases ls with
        | nil => simp at ih'; subst ih'
                 -- then splitOn (d :: a') = [[]] which forces no bytes: contradiction via length
                 exfalso
                 have : splitOn 10 (d :: a') = [[]] := hl
                 unfold splitOn at this
                 split at this
                 · obtain ⟨m, ms, hm⟩ := List.exists_cons_of_ne_nil (splitOn_ne_nil 10 a')
                   simp [hm] at this
                 · split at this <;> simp at this
        | cons l2 ls2 => simpa [List.getLast?_cons_cons] using ih'

theorem head_splitOn_nil (b : Bytes) (h : b = [] ∨ b.head? = some 10) :
    (splitOn 10 b).head? = some [] := by
  cases b with
  | nil => simp [splitOn]
  | cons c b => rcases h with h | h; simp at h; simp at h; simp [splitOn, h]

/-- A boundary that does not fall strictly inside a line is harmless. -/
theorem lines_append_clean (a b : Bytes)
    (h : a = [] ∨ a.getLast? = some 10 ∨ b = [] ∨ b.head? = some 10) :
    lines (a ++ b) = lines a ++ lines b := by
  unfold lines
  rw [splitOn_append]
  rcases h with h | h | h | h
  · exact filter_glue_of_last_nil _ _ (getLast_splitOn_nil a (Or.inl h))
  · exact filter_glue_of_last_nil _ _ (getLast_splitOn_nil a (Or.inr h))
  · exact filter_glue_of_head_nil _ _ (splitOn_ne_nil _ _) (head_splitOn_nil b (Or.inl h))
  · exact filter_glue_of_head_nil _ _ (splitOn_ne_nil _ _) (head_splitOn_nil b (Or.inr h))

theorem length_filter_glue (xs ys : List Bytes) (x y : Bytes)
    (hx : xs.getLast? = some x) (hxne : x ≠ []) (hy : ys.head? = some y) (hyne : y ≠ []) :
    ((glue xs ys).filter (· ≠ [])).length + 1
      = (xs.filter (· ≠ [])).length + (ys.filter (· ≠ [])).length := by
  induction xs with
  | nil => simp at hx
  | cons x0 xs ih =>
    cases xs with
    | nil =>
      simp at hx; subst hx
      cases ys with
      | nil => simp at hy
      | cons y0 ys => simp at hy; subst hy; simp [glue, hxne, hyne]; omega
    | cons x' xs' =>
      have h' : (x' :: xs').getLast? = some x := by simpa [List.getLast?_cons_cons] using hx
      have := ih h'
      simp only [glue]
      by_cases h0 : x0 = []
      · rw [List.filter_cons_of_neg (by simp [h0]), List.filter_cons_of_neg (by simp [h0])]
        exact this
      · rw [List.filter_cons_of_pos (by simp [h0]), List.filter_cons_of_pos (by simp [h0])]
        simp only [List.length_cons]; omega

theorem getLast_splitOn_ne (a : Bytes) (c : Nat) (h : a.getLast? = some c) (hc : c ≠ 10) :
    ∃ x, (splitOn 10 a).getLast? = some x ∧ x ≠ [] := by
  induction a with
  | nil => simp at h
  | cons d a ih =>
    obtain ⟨l, ls, hl⟩ := List.exists_cons_of_ne_nil (splitOn_ne_nil 10 a)
    cases a with
    | nil =>
      simp at h; subst h
      simp [splitOn, hc]
    | cons e a' =>
      have h' : (e :: a').getLast? = some c := by simpa [List.getLast?_cons_cons] using h
      obtain ⟨x, hx, hxne⟩ := ih h'
      unfold splitOn
      by_cases hd : d = 10
      · simp only [hd, if_true]; rw [hl] at hx ⊢; exact ⟨x, by simpa [List.getLast?_cons_cons] using hx, hxne⟩
      · simp only [hd, if_false, hl]
        rw [hl] at hx
        cases ls with
        | nil => simp at hx; subst hx; exact ⟨d :: l, by simp, by simp⟩
        | cons l2 ls2 => exact ⟨x, by simpa [List.getLast?_cons_cons] using hx, hxne⟩

theorem head_splitOn_ne (b : Bytes) (c : Nat) (h : b.head? = some c) (hc : c ≠ 10) :
    ∃ y, (splitOn 10 b).head? = some y ∧ y ≠ [] := by
  cases b with
  | nil => simp at h
  | cons d b =>
    simp at h; subst h
    obtain ⟨l, ls, hl⟩ := List.exists_cons_of_ne_nil (splitOn_ne_nil 10 b)
    exact ⟨d :: l, by simp [splitOn, hc, hl], by simp⟩

/-- A boundary strictly inside a line always loses a line (one message becomes two). -/
theorem lines_append_split (a b : Bytes) (h : splitsALine a b = true) :
    (lines (a ++ b)).length + 1 = (lines a).length + (lines b).length := by
  unfold splitsALine at h
  simp only [Bool.and_eq_true, bne_iff_ne, ne_eq] at h
  obtain ⟨⟨ha1, ha2⟩, hb1, hb2⟩ := h
  obtain ⟨ca, hca⟩ := Option.ne_none_iff_exists'.mp ha1
  obtain ⟨cb, hcb⟩ := Option.ne_none_iff_exists'.mp hb1
  have hca10 : ca ≠ 10 := by intro e; subst e; exact ha2 hca
  have hcb10 : cb ≠ 10 := by intro e; subst e; exact hb2 hcb
  obtain ⟨x, hx, hxne⟩ := getLast_splitOn_ne a ca hca hca10
  obtain ⟨y, hy, hyne⟩ := head_splitOn_ne b cb hcb hcb10
  unfold lines
  rw [splitOn_append]
  exact length_filter_glue _ _ x y hx hxne hy hyne

/-- every chunk boundary of the sequence is clean (not strictly inside a line) -/
def AllClean : List Bytes → Prop
  | [] => True
  | c :: rest => splitsALine c rest.flatten = false ∧ AllClean rest

theorem clean_of_not_splits (a b : Bytes) (h : splitsALine a b = false) :
    a = [] ∨ a.getLast? = some 10 ∨ b = [] ∨ b.head? = some 10 := by
  unfold splitsALine at h
  cases hl : a.getLast? with
  | none => left; exact List.getLast?_eq_none_iff.mp hl
  | some c =>
    cases b with
    | nil => right; right; left; rfl
    | cons d b' =>
      simp [hl] at h
      by_cases hc : c = 10
      · right; left; simp [hc]
      · right; right; right; simp [h hc]

theorem lines_flatten_clean (chunks : List Bytes) (h : AllClean chunks) :
    chunks.flatMap lines = lines chunks.flatten := by
  induction chunks with
  | nil => simp [lines, splitOn]
  | cons c rest ih =>
    simp only [List.flatMap_cons, List.flatten_cons]
    rw [lines_append_clean c rest.flatten (clean_of_not_splits _ _ h.1), ih h.2]

end GoUtils.Streamer
