/-
Proofs.Cfg — the environment variable name that loading honours is the name that is reported, for
every prefix and tag path free of '.'.
-/
import GoUtils.Model.Cfg
set_option linter.unusedSimpArgs false
namespace GoUtils.Cfg

theorem toUpper_toLower (c : Nat) : toUpper (toLower c) = toUpper c := by
  unfold toUpper toLower
  by_cases h1 : 65 ≤ c ∧ c ≤ 90
  · have : 97 ≤ c + 32 ∧ c + 32 ≤ 122 := by omega
    have h2 : ¬ (97 ≤ c ∧ c ≤ 122) := by omega
    simp [h1, this, h2]
  · simp [h1]

theorem upper_lower (s : List Nat) : upper (lower s) = upper s := by
  unfold upper lower
  rw [List.map_map]
  apply List.map_congr_left
  intro c _
  exact toUpper_toLower c

theorem upper_append (a b : List Nat) : upper (a ++ b) = upper a ++ upper b := by simp [upper]
theorem replaceDots_append (a b : List Nat) : replaceDots (a ++ b) = replaceDots a ++ replaceDots b := by simp [replaceDots]

theorem toUpper_ne_dot (c : Nat) (h : c ≠ 46) : toUpper c ≠ 46 := by
  unfold toUpper; split <;> omega

/-- upper-casing then replacing dots leaves a dot-free string upper-cased -/
theorem replaceDots_upper_noDot (s : List Nat) (h : 46 ∉ s) : replaceDots (upper s) = upper s := by
  unfold replaceDots upper
  rw [List.map_map]
  apply List.map_congr_left
  intro c hc
  have : c ≠ 46 := fun hh => h (hh ▸ hc)
  simp [Function.comp, toUpper_ne_dot c this]

theorem upper_sep : upper [95] = [95] := by decide
theorem replaceDots_sep : replaceDots [95] = [95] := by decide
theorem replaceDots_upper_dot : replaceDots (upper [46]) = [95] := by decide

theorem join_names (tags : List (List Nat)) (h : ∀ t ∈ tags, 46 ∉ t) :
    replaceDots (upper (joinWith 46 tags)) = upper (joinWith 95 tags) := by
  induction tags with
  | nil => rfl
  | cons t rest ih =>
    cases rest with
    | nil => simpa [joinWith] using replaceDots_upper_noDot t (h t List.mem_cons_self)
    | cons u rest' =>
      have ih' := ih (fun x hx => h x (List.mem_cons_of_mem _ hx))
      simp only [joinWith, upper_append, replaceDots_append, ih', replaceDots_upper_dot, upper_sep,
        replaceDots_upper_noDot t (h t List.mem_cons_self)]

/-- NAMES: for every prefix and tag path without '.', the variable consulted by the loader is the one
    reported by DetermineConfigurationEnvironmentVariables — whatever the case, dashes and underscores -/
theorem honoured_eq_reported (pre : List Nat) (tags : List (List Nat)) (hp : 46 ∉ pre) (ht : ∀ t ∈ tags, 46 ∉ t) :
    honouredName pre tags = reportedName pre tags := by
  unfold honouredName reportedName
  rw [upper_append, upper_append, upper_lower, replaceDots_append, replaceDots_append,
    replaceDots_upper_noDot pre hp, upper_sep, replaceDots_sep, join_names tags ht]

end GoUtils.Cfg
