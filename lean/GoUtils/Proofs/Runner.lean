import GoUtils.Model.Runner
namespace GoUtils.Runner

set_option maxRecDepth 2000

/-- membership in `succ`, spelled out -/
theorem mem_succ (f : Facts) (s t : St) (h : t ∈ succ f s) :
    (s.timer = false ∧ t = { s with timer := true }) ∨
    (s.a = .running ∧ s.stopBuf > 0 ∧ t = { s with a := .signalled, stopBuf := s.stopBuf - 1 }) ∨
    ((s.a = .running ∨ s.a = .signalled) ∧ t = { s with a := .sending }) ∨
    (s.a = .sending ∧ s.resultBuf < f.resultCap ∧ t = { s with a := .returned, resultBuf := s.resultBuf + 1 }) ∨
    (s.r = .select ∧ s.resultBuf > 0 ∧ t = { s with r := .doneOwn, resultBuf := s.resultBuf - 1 }) ∨
    (s.r = .select ∧ f.resultCap = 0 ∧ s.a = .sending ∧ t = { s with r := .doneOwn, a := .returned }) ∨
    (s.r = .select ∧ s.timer = true ∧ t = { s with r := .sendStop }) ∨
    (s.r = .sendStop ∧ s.stopBuf < f.stopCap ∧
      t = { s with r := (if f.waitsForAction then .waitResult else .doneTimeout), stopBuf := s.stopBuf + 1 }) ∨
    (s.r = .sendStop ∧ f.stopCap = 0 ∧ s.a = .running ∧
      t = { s with r := (if f.waitsForAction then .waitResult else .doneTimeout), a := .signalled }) ∨
    (s.r = .waitResult ∧ s.resultBuf > 0 ∧ t = { s with r := .doneTimeout, resultBuf := s.resultBuf - 1 }) ∨
    (s.r = .waitResult ∧ f.resultCap = 0 ∧ s.a = .sending ∧ t = { s with r := .doneTimeout, a := .returned }) := by
  unfold succ at h
  simp only [List.mem_append] at h
  rcases h with (((h | h) | h) | h) | h
  · split at h <;> simp_all
  · split at h <;> simp_all
  · split at h <;> simp_all
  · split at h <;> simp_all
  · split at h
    · simp only [List.mem_append] at h
      rcases h with (h | h) | h
      · split at h <;> simp_all
      · split at h <;> simp_all
      · split at h <;> simp_all
    · simp only [List.mem_append] at h
      rcases h with h | h
      · split at h <;> simp_all
      · split at h <;> simp_all
    · simp only [List.mem_append] at h
      rcases h with h | h
      · split at h <;> simp_all
      · split at h <;> simp_all
    · simp at h

/-- every step makes progress: runs are finite (at most 7 steps) -/
theorem measure_decreases (f : Facts) (s t : St) (h : t ∈ succ f s) : measure t < measure s := by
  rcases mem_succ f s t h with h | h | h | h | h | h | h | h | h | h | h
  all_goals
    obtain ⟨s_r, s_a, s_rb, s_sb, s_t⟩ := s
    simp only at h
  · obtain ⟨h1, rfl⟩ := h; subst h1; cases s_a <;> cases s_r <;> simp [measure]
  · obtain ⟨h1, _, rfl⟩ := h; subst h1; cases s_t <;> cases s_r <;> simp [measure]
  · obtain ⟨h1, rfl⟩ := h; rcases h1 with rfl | rfl <;> cases s_t <;> cases s_r <;> simp [measure]
  · obtain ⟨h1, _, rfl⟩ := h; subst h1; cases s_t <;> cases s_r <;> simp [measure]
  · obtain ⟨h1, _, rfl⟩ := h; subst h1; cases s_t <;> cases s_a <;> simp [measure]
  · obtain ⟨h1, _, h2, rfl⟩ := h; subst h1; subst h2; cases s_t <;> simp [measure]
  · obtain ⟨h1, _, rfl⟩ := h; subst h1; cases s_t <;> cases s_a <;> simp [measure]
  · obtain ⟨h1, _, rfl⟩ := h; subst h1; cases s_t <;> cases s_a <;> cases f.waitsForAction <;> simp [measure]
  · obtain ⟨h1, _, h2, rfl⟩ := h; subst h1; subst h2; cases s_t <;> cases f.waitsForAction <;> simp [measure]
  · obtain ⟨h1, _, rfl⟩ := h; subst h1; cases s_t <;> cases s_a <;> simp [measure]
  · obtain ⟨h1, _, h2, rfl⟩ := h; subst h1; subst h2; cases s_t <;> simp [measure]

/-- invariant used for deadlock freedom with buffered channels -/
def Inv (s : St) : Prop :=
  (s.r = .select ∨ s.r = .sendStop → s.stopBuf = 0) ∧
  (s.a ≠ .returned → s.resultBuf = 0) ∧
  (s.a = .returned → (s.r = .select ∨ s.r = .sendStop ∨ s.r = .waitResult) → s.resultBuf ≥ 1)

theorem inv_init : Inv init := by simp [Inv, init]

theorem inv_step (f : Facts) (hr : f.resultCap ≥ 1) (s t : St) (hi : Inv s) (h : t ∈ succ f s) : Inv t := by
  obtain ⟨i1, i2, i3⟩ := hi
  rcases mem_succ f s t h with h | h | h | h | h | h | h | h | h | h | h
  all_goals
    obtain ⟨s_r, s_a, s_rb, s_sb, s_t⟩ := s
    simp only at h i1 i2 i3
  · obtain ⟨_, rfl⟩ := h; exact ⟨i1, i2, i3⟩
  · obtain ⟨h1, h2, rfl⟩ := h; subst h1
    refine ⟨fun hh => by have := i1 hh; omega, fun _ => i2 (by simp), fun hh => by simp at hh⟩
  · obtain ⟨h1, rfl⟩ := h
    refine ⟨i1, fun _ => i2 (by rcases h1 with rfl | rfl <;> simp), fun hh => by simp at hh⟩
  · obtain ⟨h1, h2, rfl⟩ := h; subst h1
    refine ⟨i1, fun hh => by simp at hh, fun _ _ => by simp⟩
  · obtain ⟨h1, h2, rfl⟩ := h; subst h1
    refine ⟨fun hh => by simp at hh, fun hh => ?_, fun _ hh => by simp at hh⟩
    have := i2 hh; omega
  · obtain ⟨_, h0, _, _⟩ := h; omega
  · obtain ⟨h1, _, rfl⟩ := h; subst h1
    exact ⟨fun _ => i1 (Or.inl rfl), i2, fun ha _ => i3 ha (Or.inl rfl)⟩
  · obtain ⟨h1, h2, rfl⟩ := h; subst h1
    refine ⟨fun hh => by by_cases hw : f.waitsForAction = true <;> simp [hw] at hh, i2, fun ha hh => i3 ha (Or.inr (Or.inl rfl))⟩
  · obtain ⟨h1, _, h2, rfl⟩ := h; subst h1; subst h2
    refine ⟨fun hh => by by_cases hw : f.waitsForAction = true <;> simp [hw] at hh, fun _ => i2 (by simp), fun hh => by simp at hh⟩
  · obtain ⟨h1, h2, rfl⟩ := h; subst h1
    refine ⟨fun hh => by simp at hh, fun hh => ?_, fun _ hh => by simp at hh⟩
    have := i2 hh; omega
  · obtain ⟨_, h0, _, _⟩ := h; omega

theorem inv_reachable (f : Facts) (hr : f.resultCap ≥ 1) (s : St) (h : Reachable f s) : Inv s := by
  induction h with
  | init => exact inv_init
  | step _ hs ih => exact inv_step f hr _ _ ih hs

/-- GENERAL LEMMA: with a buffered stop channel (any capacity ≥ 1) and a buffered result channel the
    runner can never be blocked for ever, whatever the action does and however the select resolves. -/
theorem noStuck_of_buffered (f : Facts) (hs : f.stopCap ≥ 1) (hr : f.resultCap ≥ 1) (s : St)
    (h : Reachable f s) : stuck f s = false := by
  obtain ⟨i1, i2, i3⟩ := inv_reachable f hr s h
  obtain ⟨s_r, s_a, s_rb, s_sb, s_t⟩ := s
  simp only at i1 i2 i3
  unfold stuck
  cases s_r
  · -- select
    cases s_t <;> simp [terminal, succ]
  · -- sendStop
    have := i1 (Or.inr rfl)
    subst this
    have : 0 < f.stopCap := by omega
    simp [terminal, succ, this]
  · -- waitResult
    cases s_a
    · simp [terminal, succ]
    · simp [terminal, succ]
    · have := i2 (by simp); subst this
      have : 0 < f.resultCap := by omega
      simp [terminal, succ, this]
    · have := i3 rfl (Or.inr (Or.inr rfl))
      have h0 : 0 < s_rb := by omega
      simp [terminal, succ, h0]
  · simp [terminal]
  · simp [terminal]

/-- the deadlock: the action returns (without reading `stop`) while the runner takes the timer arm -/
def stuckState : St := { r := .sendStop, a := .returned, resultBuf := 1, stopBuf := 0, timer := true }

/-- GENERAL LEMMA: with an UNBUFFERED stop channel a blocked-for-ever state is reachable. -/
theorem stuck_of_unbuffered (f : Facts) (hs : f.stopCap = 0) (hr : f.resultCap ≥ 1) :
    Reachable f stuckState ∧ stuck f stuckState = true := by
  have hr0 : 0 < f.resultCap := by omega
  refine ⟨?_, by simp [stuck, stuckState, terminal, succ, hs]⟩
  have s1 : Reachable f { init with timer := true } := .step .init (by simp [succ, init])
  have s2 : Reachable f { init with timer := true, a := .sending } := .step s1 (by simp [succ, init])
  have s3 : Reachable f { init with timer := true, a := .returned, resultBuf := 1 } :=
    .step s2 (by simp [succ, init, hr0])
  exact .step s3 (by simp [succ, init, stuckState])

/-! ### cancel store -/

def regs : List SOp → List Nat
  | [] => []
  | .register f :: ops => f :: regs ops
  | .cancel :: ops => regs ops

theorem runStore_split (pre post : List SOp) (st : List Nat) :
    runStore st (pre ++ .cancel :: post)
      = runStore st pre ++ (st ++ regs pre) :: runStore (st ++ regs pre) post := by
  induction pre generalizing st with
  | nil => simp [runStore, regs]
  | cons op pre ih =>
    cases op with
    | register f => simp [runStore, regs, ih, List.append_assoc]
    | cancel => simp [runStore, regs, ih]

theorem mem_regs (ops : List SOp) (f : Nat) (h : SOp.register f ∈ ops) : f ∈ regs ops := by
  induction ops with
  | nil => simp at h
  | cons op ops ih =>
    cases op with
    | register g =>
      simp only [List.mem_cons] at h
      rcases h with h | h
      · injection h with h; subst h; simp [regs]
      · simp [regs, ih h]
    | cancel => simp only [List.mem_cons] at h; rcases h with h | h; simp at h; simp [regs, ih h]

end GoUtils.Runner
