/-
Proofs.ZipRound — names survive extraction: a relative path made of plain components, extracted into a
clean absolute destination, is accepted by the zip-slip check and lands exactly at destination/path.
-/
import GoUtils.Proofs.ZipPath
set_option linter.unusedSimpArgs false
set_option linter.unusedVariables false
namespace GoUtils.ZipPath
open GoUtils.Path

/-- a plain name: not empty, no separator, not ".", no ".." inside -/
structure Plain (c : Bytes) : Prop where
  ne : c ≠ []
  noSlash : slash ∉ c
  notDot : c ≠ [dot]
  noDotDot : containsSub c dotdot = false

theorem plain_ne_dotdot {c : Bytes} (h : Plain c) : c ≠ dotdot := by
  intro he
  have := h.noDotDot
  rw [he] at this
  simp [containsSub, hasPrefix, dotdot] at this

theorem splitSlash_noSlash (c : Bytes) (h : slash ∉ c) : splitSlash c = [c] := by
  induction c with
  | nil => rfl
  | cons x xs ih =>
    have hx : x ≠ slash := fun he => h (he ▸ List.mem_cons_self)
    have hxs : slash ∉ xs := fun hm => h (List.mem_cons_of_mem _ hm)
    simp only [splitSlash, hx, if_false, ih hxs]

theorem joinSlash_cons_cons (x y : Bytes) (r : List Bytes) : joinSlash (x :: y :: r) = x ++ slash :: joinSlash (y :: r) := rfl

theorem splitSlash_joinSlash (cs : List Bytes) (hne : cs ≠ []) (h : ∀ c ∈ cs, slash ∉ c) : splitSlash (joinSlash cs) = cs := by
  induction cs with
  | nil => exact absurd rfl hne
  | cons x r ih =>
    cases r with
    | nil => simpa [joinSlash] using splitSlash_noSlash x (h x List.mem_cons_self)
    | cons y r' =>
      rw [joinSlash_cons_cons, splitSlash_append, splitSlash_noSlash x (h x List.mem_cons_self),
        ih (by simp) (fun c hc => h c (List.mem_cons_of_mem _ hc))]
      rfl

theorem joinSlash_append (a b : List Bytes) (ha : a ≠ []) (hb : b ≠ []) :
    joinSlash (a ++ b) = joinSlash a ++ slash :: joinSlash b := by
  induction a with
  | nil => exact absurd rfl ha
  | cons x r ih =>
    cases r with
    | nil =>
      cases b with
      | nil => exact absurd rfl hb
      | cons y b' => rfl
    | cons z r' =>
      have := ih (by simp)
      simp only [List.cons_append] at this ⊢
      rw [joinSlash_cons_cons, this, joinSlash_cons_cons]
      simp [List.append_assoc]

theorem foldl_cleanStep_plain (rooted : Bool) (cs : List Bytes) (h : ∀ c ∈ cs, Plain c) (st : List Bytes) :
    cs.foldl (cleanStep rooted) st = cs.reverse ++ st := by
  induction cs generalizing st with
  | nil => rfl
  | cons c r ih =>
    have hc := h c List.mem_cons_self
    have hstep : cleanStep rooted st c = c :: st := by
      unfold cleanStep
      have h1 : ¬ (c = [] ∨ c = [dot]) := fun hh => hh.elim hc.ne hc.notDot
      simp [h1, plain_ne_dotdot hc]
    simp only [List.foldl_cons, hstep, ih (fun x hx => h x (List.mem_cons_of_mem _ hx)), List.reverse_cons,
      List.append_assoc, List.singleton_append]

/-- Clean leaves a rooted path made of plain components as it is -/
theorem clean_rooted_plain (cs : List Bytes) (hne : cs ≠ []) (h : ∀ c ∈ cs, Plain c) :
    clean (slash :: joinSlash cs) = slash :: joinSlash cs := by
  have hs : splitSlash (slash :: joinSlash cs) = [] :: cs := by
    simp only [splitSlash, if_true]
    rw [splitSlash_joinSlash cs hne (fun c hc => (h c hc).noSlash)]
  unfold clean
  simp only [List.cons_ne_nil, if_false, List.head?_cons, hs, List.foldl_cons]
  have h0 : cleanStep true [] [] = [] := by simp [cleanStep]
  simp only [beq_self_eq_true, h0, foldl_cleanStep_plain true cs h [], List.append_nil, List.reverse_reverse, if_true]

theorem hasPrefix_dd_cons (a : Nat) (x y : Bytes) :
    hasPrefix (a :: x ++ slash :: y) dotdot = hasPrefix (a :: x) dotdot := by
  cases x with
  | nil => simp [hasPrefix, dotdot, slash]
  | cons b x' => simp [hasPrefix, dotdot]

/-- ".." cannot straddle a separator -/
theorem containsSub_dd_append (x y : Bytes) :
    containsSub (x ++ slash :: y) dotdot = (containsSub x dotdot || containsSub y dotdot) := by
  induction x with
  | nil => simp [containsSub, hasPrefix, dotdot, slash]
  | cons a x' ih =>
    have hp := hasPrefix_dd_cons a x' y
    simp only [List.cons_append] at hp ⊢
    simp only [containsSub, hp, ih, Bool.or_assoc]

theorem containsSub_dd_joinSlash (cs : List Bytes) (h : ∀ c ∈ cs, containsSub c dotdot = false) :
    containsSub (joinSlash cs) dotdot = false := by
  induction cs with
  | nil => simp [joinSlash, containsSub, dotdot]
  | cons x r ih =>
    cases r with
    | nil => simpa [joinSlash] using h x List.mem_cons_self
    | cons y r' =>
      rw [joinSlash_cons_cons, containsSub_dd_append, h x List.mem_cons_self,
        ih (fun c hc => h c (List.mem_cons_of_mem _ hc))]
      rfl

/-- NAMES ROUND TRIP: for the canonical check, a clean absolute destination `/d1/…/dk` and a relative
    path `n1/…/nm` of plain components, the entry is accepted and extracted exactly at destination/path -/
theorem sanitise_plain (f : SanitiseFacts) (hf : f.canonical) (dcs ncs : List Bytes)
    (hd : dcs ≠ []) (hn : ncs ≠ []) (hdp : ∀ c ∈ dcs, Plain c) (hnp : ∀ c ∈ ncs, Plain c) :
    sanitise f (slash :: joinSlash dcs) (joinSlash ncs) = some (slash :: joinSlash dcs ++ slash :: joinSlash ncs) := by
  obtain ⟨h1, h2, h3, h4, _, _⟩ := hf
  have hall : ∀ c ∈ dcs ++ ncs, Plain c := by
    intro c hc
    rcases List.mem_append.1 hc with h | h
    · exact hdp c h
    · exact hnp c h
  have hnne : joinSlash ncs ≠ [] := by
    cases ncs with
    | nil => exact absurd rfl hn
    | cons x r =>
      have hx := (hnp x List.mem_cons_self).ne
      cases r with
      | nil => simpa [joinSlash] using hx
      | cons y r' => rw [joinSlash_cons_cons]; cases x with
        | nil => exact absurd rfl hx
        | cons a x' => simp
  have hjoin : join [slash :: joinSlash dcs, joinSlash ncs] = slash :: joinSlash dcs ++ slash :: joinSlash ncs := by
    unfold join
    have hfil : ([slash :: joinSlash dcs, joinSlash ncs].filter (· ≠ [])) = [slash :: joinSlash dcs, joinSlash ncs] := by
      simp [List.filter_cons, hnne]
    rw [hfil]
    simp only [List.cons_ne_nil, if_false]
    have : joinSlash [slash :: joinSlash dcs, joinSlash ncs] = slash :: joinSlash (dcs ++ ncs) := by
      rw [joinSlash_append dcs ncs hd hn]; rfl
    rw [this, clean_rooted_plain (dcs ++ ncs) (by simp [hd]) hall, joinSlash_append dcs ncs hd hn]
    rfl
  unfold sanitise
  simp only [h1, if_true, hjoin, h2, h3, h4]
  have hne : ¬ (slash :: joinSlash dcs ++ slash :: joinSlash ncs = slash :: joinSlash dcs) := by
    intro he
    have := congrArg List.length he
    simp at this
  have hdd : containsSub (slash :: joinSlash dcs ++ slash :: joinSlash ncs) dotdot = false := by
    have e : slash :: joinSlash dcs ++ slash :: joinSlash ncs = [] ++ slash :: joinSlash (dcs ++ ncs) := by
      rw [joinSlash_append dcs ncs hd hn]; rfl
    rw [e, containsSub_dd_append, containsSub_dd_joinSlash (dcs ++ ncs) (fun c hc => (hall c hc).noDotDot)]
    simp [containsSub, dotdot]
  have hpre : hasPrefix (slash :: joinSlash dcs ++ slash :: joinSlash ncs) (slash :: joinSlash dcs ++ [slash]) = true := by
    rw [hasPrefix_iff]
    exact ⟨joinSlash ncs, by simp⟩
  simp only [List.cons_append] at hne hdd hpre
  simp [hne, hdd, hpre]

end GoUtils.ZipPath
