import GoUtils.Model.Hash
namespace GoUtils.Hash

/-- facts under which the hasher is clean whenever a calculation starts absorbing -/
def CalcFacts.clean (f : CalcFacts) : Bool := f.resetBefore || (f.resetOnError && f.resetAfter)

theorem calcStep_clean {D : Type} (f : CalcFacts) (H : List Nat → D) (hf : f.clean = true)
    (st : List Nat) (hst : f.resetBefore = true ∨ st = []) (c : Calc) :
    (calcStep f H st c).1 = (match c.fail with | some _ => none | none => some (H c.content)) ∧
    (f.resetBefore = true ∨ (calcStep f H st c).2 = []) := by
  unfold calcStep
  cases hb : f.resetBefore
  · -- no reset before: state is [] by hypothesis and both exits reset
    have hst' : st = [] := by cases hst with | inl h => simp [hb] at h | inr h => exact h
    simp [CalcFacts.clean, hb] at hf
    cases hfail : c.fail <;> simp [hst', hf.1, hf.2]
  · cases hfail : c.fail <;> simp

theorem runHist_clean {D : Type} (f : CalcFacts) (H : List Nat → D) (hf : f.clean = true)
    (hist : List Calc) (st : List Nat) (hst : f.resetBefore = true ∨ st = []) :
    runHist f H st hist = expected H hist := by
  induction hist generalizing st with
  | nil => rfl
  | cons c cs ih =>
    obtain ⟨h1, h2⟩ := calcStep_clean f H hf st hst c
    simp only [runHist, expected, ih _ h2]
    cases hfail : c.fail <;> simp [hfail] at h1 ⊢ <;> exact h1

/-- the two shortest counter-histories, for the identity "hash" (digest = absorbed bytes) -/
def witnessFail : List Calc := [⟨[[1]], some 1⟩, ⟨[[2]], none⟩]
def witnessOk : List Calc := [⟨[[1]], none⟩, ⟨[[2]], none⟩]

theorem not_clean_witness (f : CalcFacts) (hf : f.clean = false) :
    runHist f id [] witnessFail ≠ expected id witnessFail ∨
    runHist f id [] witnessOk ≠ expected id witnessOk := by
  obtain ⟨a, b, c⟩ := f
  cases a <;> cases b <;> cases c <;> simp [CalcFacts.clean] at hf <;> decide

end GoUtils.Hash
