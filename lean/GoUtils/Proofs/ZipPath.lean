import GoUtils.Model.ZipPath
namespace GoUtils.Path

theorem hasPrefix_iff (p q : Bytes) : hasPrefix p q = true ↔ ∃ r, p = q ++ r := by
  induction q generalizing p with
  | nil => simp [hasPrefix]
  | cons b bs ih =>
    cases p with
    | nil => simp [hasPrefix]
    | cons a as =>
      simp only [hasPrefix, Bool.and_eq_true, beq_iff_eq, ih, List.cons_append, List.cons.injEq]
      constructor
      · rintro ⟨rfl, r, rfl⟩; exact ⟨r, rfl, rfl⟩
      · rintro ⟨r, rfl, rfl⟩; exact ⟨rfl, r, rfl⟩

theorem containsSub_iff (h n : Bytes) : containsSub h n = true ↔ ∃ a b, h = a ++ n ++ b := by
  induction h with
  | nil =>
    simp only [containsSub, List.isEmpty_iff]
    constructor
    · rintro rfl; exact ⟨[], [], rfl⟩
    · rintro ⟨a, b, h⟩
      have := congrArg List.length h
      simp at this
      exact List.length_eq_zero_iff.mp (by omega)
  | cons x xs ih =>
    simp only [containsSub, Bool.or_eq_true, hasPrefix_iff, ih]
    constructor
    · rintro (⟨r, h⟩ | ⟨a, b, h⟩)
      · exact ⟨[], r, by simpa using h⟩
      · exact ⟨x :: a, b, by simp [h]⟩
    · rintro ⟨a, b, h⟩
      cases a with
      | nil => left; exact ⟨b, by simpa using h⟩
      | cons y ys =>
        right
        simp only [List.cons_append, List.cons.injEq] at h
        exact ⟨ys, b, h.2⟩

theorem splitSlash_ne_nil (s : Bytes) : splitSlash s ≠ [] := by
  cases s with
  | nil => simp [splitSlash]
  | cons c cs => unfold splitSlash; split; simp; split <;> simp

/-- splitting at an explicit separator -/
theorem splitSlash_append (x y : Bytes) :
    splitSlash (x ++ slash :: y) = splitSlash x ++ splitSlash y := by
  induction x with
  | nil => simp [splitSlash]
  | cons v vs ih =>
    obtain ⟨m, ms, hm⟩ := List.exists_cons_of_ne_nil (splitSlash_ne_nil vs)
    simp only [List.cons_append, splitSlash, ih, hm]
    by_cases hv : v = slash <;> simp [hv]

/-- every component of a path is a substring of it -/
theorem component_is_substring (s c : Bytes) (h : c ∈ splitSlash s) : ∃ a b, s = a ++ c ++ b := by
  induction s generalizing c with
  | nil => simp [splitSlash] at h; subst h; exact ⟨[], [], rfl⟩
  | cons x xs ih =>
    unfold splitSlash at h
    by_cases hx : x = slash
    · simp only [hx, if_true, List.mem_cons] at h
      rcases h with rfl | h
      · exact ⟨[], x :: xs, by simp⟩
      · obtain ⟨a, b, hab⟩ := ih c h
        exact ⟨x :: a, b, by simp [hab]⟩
    · simp only [hx, if_false] at h
      obtain ⟨l, ls, hl⟩ := List.exists_cons_of_ne_nil (splitSlash_ne_nil xs)
      rw [hl] at h
      simp only [List.mem_cons] at h
      rcases h with rfl | h
      · obtain ⟨a, b, hab⟩ := ih l (by simp [hl])
        -- l is the FIRST component of xs: xs = l ++ …, so x :: l is a prefix of x :: xs
        have hfirst : ∃ b', xs = l ++ b' := by
          clear ih hab
          induction xs generalizing l ls with
          | nil => simp [splitSlash] at hl; exact ⟨[], by simp [hl.1]⟩
          | cons y ys ih2 =>
            unfold splitSlash at hl
            by_cases hy : y = slash
            · simp only [hy, if_true, List.cons.injEq] at hl; exact ⟨y :: ys, by simp [← hl.1]⟩
            · simp only [hy, if_false] at hl
              obtain ⟨m, ms, hm⟩ := List.exists_cons_of_ne_nil (splitSlash_ne_nil ys)
              rw [hm] at hl
              simp only [List.cons.injEq] at hl
              obtain ⟨b', hb'⟩ := ih2 m ms hm
              exact ⟨b', by rw [← hl.1, hb']; simp⟩
        obtain ⟨b', hb'⟩ := hfirst
        exact ⟨[], b', by simp [hb']⟩
      · obtain ⟨a, b, hab⟩ := ih c (by simp [hl, h])
        exact ⟨x :: a, b, by simp [hab]⟩

end GoUtils.Path

namespace GoUtils.ZipPath
open GoUtils.Path

def SanitiseFacts.canonical (f : SanitiseFacts) : Prop :=
  f.joinsDestFirst = true ∧ f.acceptsDestItself = true ∧ f.rejectsDotDot = true ∧
  f.prefixWithSeparator = true ∧ f.sanitiseBeforeMutation = true ∧ f.cleansDestination = true

/-- whatever `filepath.Join`/`Clean` compute, an accepted path is the destination itself or a
    descendant of it that contains no `..` component -/
theorem sanitise_under (f : SanitiseFacts) (hf : f.canonical) (dest name p : Bytes)
    (h : sanitise f dest name = some p) : Under dest p := by
  obtain ⟨h1, h2, h3, h4, _, _⟩ := hf
  unfold sanitise at h
  simp only [h1, h2, h3, h4, if_true, true_and, Bool.not_true, Bool.false_or] at h
  split at h
  · rename_i heq; simp at h; subst h; left; exact heq
  · split at h
    · rename_i hc
      simp only [Option.some.injEq] at h; subst h
      simp only [Bool.and_eq_true, Bool.not_eq_eq_eq_not, Bool.not_true] at hc
      obtain ⟨hnd, hpre⟩ := hc
      obtain ⟨r, hr⟩ := (hasPrefix_iff _ _).mp hpre
      right
      refine ⟨r, by simpa using hr, ?_⟩
      intro c hc hcd
      subst hcd
      obtain ⟨a, b, hab⟩ := component_is_substring r dotdot hc
      have : containsSub (join [dest, name]) dotdot = true := by
        rw [containsSub_iff]
        exact ⟨dest ++ [slash] ++ a, b, by rw [hr, hab]; simp⟩
      simp [this] at hnd
    · simp at h

end GoUtils.ZipPath
