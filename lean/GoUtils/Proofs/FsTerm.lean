/-
Proofs.FsTerm — termination of the reference model's Copy when source and destination do not overlap:
with fuel above the depth of the source subtree the copy returns (an answer, not "no return").
-/
import GoUtils.Proofs.Fs
set_option linter.unusedSimpArgs false
set_option linter.unusedVariables false
namespace GoUtils.Fs

/-- the entries at or below `p` -/
def sub (t : Tree) (p : Path) : Tree := t.filter fun e => under p e.1

/-- neither path is a prefix of the other -/
def Apart (a b : Path) : Prop := under a b = false ∧ under b a = false

theorem under_append_left {s d : Path} (x : Path) (h1 : under s d = false) (h2 : under d s = false) :
    under s (d ++ x) = false := by
  cases h : under s (d ++ x) with
  | false => rfl
  | true =>
    rcases under_comparable h (under_append d x) with c | c
    · rw [c] at h1; cases h1
    · rw [c] at h2; cases h2

theorem apart_append {s d : Path} (x : Path) (h : Apart s d) : Apart s (d ++ x) := by
  refine ⟨under_append_left x h.1 h.2, ?_⟩
  cases hh : under (d ++ x) s with
  | false => rfl
  | true => have := under_trans (under_append d x) hh; have h2 := h.2; rw [this] at h2; cases h2

theorem apart_child {s d : Path} (x : Path) (h : Apart s d) : Apart (s ++ x) d :=
  ⟨(apart_append x ⟨h.2, h.1⟩).2, (apart_append x ⟨h.2, h.1⟩).1⟩

theorem sub_insert (t : Tree) (p s : Path) (n : Node) (h : under s p = false) : sub (insert t p n) s = sub t s := by
  unfold insert
  split
  · rfl
  · unfold sub
    rw [List.filter_append, List.filter_filter]
    have h1 : ([(p, n)] : Tree).filter (fun e => under s e.1) = [] := by simp [h]
    rw [h1, List.append_nil]
    apply List.filter_congr
    intro e _
    by_cases hu : under s e.1 = true
    · have : e.1 ≠ p := by intro he; rw [he, h] at hu; cases hu
      simp [hu, this]
    · simp [hu]

theorem sub_mkdirs (l : List Path) (s : Path) (hl : ∀ x ∈ l, under s x = false) (t : Tree) :
    sub (l.foldl (fun acc x => if exists_ acc x then acc else insert acc x .dir) t) s = sub t s := by
  induction l generalizing t with
  | nil => rfl
  | cons x l ih =>
    simp only [List.foldl_cons]
    rw [ih (fun y hy => hl y (List.mem_cons_of_mem _ hy))]
    split
    · rfl
    · exact sub_insert t x s .dir (hl x List.mem_cons_self)

theorem sub_mkdirAll (t : Tree) (p s : Path) (h : under s p = false) : sub (mkdirAll t p).2 s = sub t s := by
  unfold mkdirAll
  split
  · rfl
  · apply sub_mkdirs
    intro x hx
    cases hh : under s x with
    | false => rfl
    | true => rw [under_trans hh (mem_prefixes hx).2] at h; cases h

theorem sub_copyPrep (t : Tree) (sd : Bool) (dest s : Path) (sl : Bool) (h : under s dest = false) :
    sub (copyPrep t sd dest sl).2.1 s = sub t s := by
  unfold copyPrep
  split
  · rfl
  · split
    · exact sub_mkdirAll t dest s h
    · apply sub_mkdirAll
      cases hh : under s (parent dest) with
      | false => rfl
      | true => rw [under_trans hh (under_parent dest)] at h; cases h

theorem sub_copyFile (t : Tree) (src dst s : Path) (h : under s dst = false) : sub (copyFile t src dst).2 s = sub t s := by
  unfold copyFile
  split
  · split
    · rfl
    · exact sub_insert t dst s _ h
  · rfl

theorem foldNames_sub {f : Tree → Name → Option (Res × Tree)} {s : Path} {t : Tree}
    (hf : ∀ ta n r' tb, f ta n = some (r', tb) → sub tb s = sub ta s) :
    ∀ (ns : List Name) (acc : Option (Res × Tree)) (r : Res) (t' : Tree),
      (∀ r0 t0, acc = some (r0, t0) → sub t0 s = sub t s) →
      foldNames f ns acc = some (r, t') → sub t' s = sub t s := by
  intro ns
  induction ns with
  | nil =>
    intro acc r t' hacc h
    simp only [foldNames, List.foldl_nil] at h
    exact hacc r t' h
  | cons n ns ih =>
    intro acc r t' hacc h
    simp only [foldNames, List.foldl_cons] at h
    refine ih _ r t' ?_ h
    intro r0 t0 h0
    match acc, hacc, h0 with
    | none, _, h0 => simp at h0
    | some (.err e, ta), hacc, h0 =>
      simp only [Option.some.injEq, Prod.mk.injEq] at h0
      obtain ⟨_, rfl⟩ := h0
      exact hacc _ _ rfl
    | some (.ok, ta), hacc, h0 => exact (hf _ _ _ _ h0).trans (hacc _ _ rfl)
    | some (.bool _, ta), hacc, h0 => exact (hf _ _ _ _ h0).trans (hacc _ _ rfl)
    | some (.names _, ta), hacc, h0 => exact (hf _ _ _ _ h0).trans (hacc _ _ rfl)
    | some (.content _, ta), hacc, h0 => exact (hf _ _ _ _ h0).trans (hacc _ _ rfl)
    | some (.size _, ta), hacc, h0 => exact (hf _ _ _ _ h0).trans (hacc _ _ rfl)

/-- a copy leaves every subtree apart from its destination exactly as it was — as a LIST of entries, not
    only through `lookup` (nothing is added there either) -/
theorem copy_sub : ∀ (fuel : Nat) (t : Tree) (src dest : Path) (sl : Bool) (r : Res) (t' : Tree),
    copy fuel t src dest sl = some (r, t') → ∀ s, Apart s dest → sub t' s = sub t s := by
  intro fuel
  induction fuel with
  | zero => intro t src dest sl r t' h; simp [copy] at h
  | succ fuel ih =>
    intro t src dest sl r t' h s hs
    simp only [copy] at h
    split at h
    · simp only [Option.some.injEq, Prod.mk.injEq] at h; rw [← h.2]
    split at h
    · simp only [Option.some.injEq, Prod.mk.injEq] at h; rw [← h.2]
    split at h
    · simp only [Option.some.injEq, Prod.mk.injEq] at h; rw [← h.2]
    split at h
    · simp only [Option.some.injEq, Prod.mk.injEq] at h; rw [← h.2]
    have hprep := sub_copyPrep t (isDir t src) dest s sl hs.1
    split at h
    · rename_i e t1 b heq
      simp only [Option.some.injEq, Prod.mk.injEq] at h
      rw [heq] at hprep
      rw [← h.2]; exact hprep
    · rename_i r1 t1 b hne heq
      rw [heq] at hprep
      simp only at hprep
      have hdstApart : Apart s (copyDst (isDir t src) (exists_ t dest) b src dest) := by
        unfold copyDst; split
        · exact apart_append _ hs
        · exact hs
      split at h
      · split at h
        · rename_i e t2 heq2
          simp only [Option.some.injEq, Prod.mk.injEq] at h
          have := sub_mkdirAll t1 (copyDst (isDir t src) (exists_ t dest) b src dest) s hdstApart.1
          rw [heq2] at this; rw [← h.2]; exact this.trans hprep
        · rename_i r2 t2 hne2 heq2
          have hmk := sub_mkdirAll t1 (copyDst (isDir t src) (exists_ t dest) b src dest) s hdstApart.1
          rw [heq2] at hmk
          refine foldNames_sub (t := t) (s := s) ?_ _ _ r t' ?_ h
          · intro ta n r' tb hc
            exact ih _ _ _ _ _ _ hc s hdstApart
          · intro r0 t0 h0
            simp only [Option.some.injEq, Prod.mk.injEq] at h0
            rw [← h0.2]; exact hmk.trans hprep
      · simp only [Option.some.injEq] at h
        have := sub_copyFile t1 src (copyDst (isDir t src) (exists_ t dest) b src dest) s hdstApart.1
        rw [h] at this
        exact this.trans hprep


/-! ### termination -/

/-- every entry at or below `p` is at most `h` levels below it -/
def Bounded (t : Tree) (p : Path) (h : Nat) : Prop := ∀ e ∈ t, under p e.1 = true → e.1.length ≤ p.length + h

theorem bounded_of_sub {t t' : Tree} {p : Path} {h : Nat} (hs : sub t' p = sub t p) (hb : Bounded t p h) : Bounded t' p h := by
  intro e he hu
  have : e ∈ sub t' p := List.mem_filter.2 ⟨he, hu⟩
  rw [hs] at this
  exact hb e (List.mem_filter.1 this).1 hu

theorem child_entry {t : Tree} {p : Path} {n : Name} (h : n ∈ children t p) : ∃ nd, (p ++ [n], nd) ∈ t := by
  unfold children at h
  rw [List.mem_filterMap] at h
  obtain ⟨⟨q, nd⟩, hq, hcond⟩ := h
  simp only at hcond
  split at hcond
  · rename_i hc
    obtain ⟨hlen, hpre⟩ := hc
    have hpre' : p <+: q := List.isPrefixOf_iff_prefix.1 hpre
    obtain ⟨r, rfl⟩ := hpre'
    have hr : r.length = 1 := by simp at hlen; omega
    match r, hr with
    | [x], _ =>
      simp at hcond
      subst hcond
      exact ⟨nd, hq⟩
  · cases hcond

theorem bounded_child {t : Tree} {p : Path} {h : Nat} {n : Name} (hb : Bounded t p h) (hn : n ∈ children t p) :
    1 ≤ h ∧ Bounded t (p ++ [n]) (h - 1) := by
  obtain ⟨nd, he⟩ := child_entry hn
  have h1 := hb _ he (under_append p [n])
  simp at h1
  refine ⟨by omega, ?_⟩
  intro e hemem hu
  have := hb e hemem (under_trans (under_append p [n]) hu)
  simp
  omega

theorem foldNames_isSome {f : Tree → Name → Option (Res × Tree)} (I : Tree → Prop) :
    ∀ (ns : List Name), (∀ ta n, I ta → n ∈ ns → ∃ r tb, f ta n = some (r, tb) ∧ I tb) →
      ∀ (r0 : Res) (t0 : Tree), I t0 → (foldNames f ns (some (r0, t0))).isSome = true := by
  intro ns
  induction ns with
  | nil => intro _ r0 t0 _; simp [foldNames]
  | cons n ns ih =>
    intro hstep r0 t0 hI
    have ih' := ih (fun ta m hta hm => hstep ta m hta (List.mem_cons_of_mem _ hm))
    simp only [foldNames, List.foldl_cons]
    cases r0 with
    | err e =>
      -- an error sticks: the remaining names are skipped
      have hstick : ∀ (l : List Name), (l.foldl (fun acc n => match acc with
          | none => none
          | some (Res.err e, ta) => some (Res.err e, ta)
          | some (_, ta) => f ta n) (some (Res.err e, t0))).isSome = true := by
        intro l
        induction l with
        | nil => rfl
        | cons m l ihl => simpa [List.foldl_cons] using ihl
      exact hstick ns
    | ok =>
      obtain ⟨r, tb, hf, hI'⟩ := hstep t0 n hI List.mem_cons_self
      simp only [hf]
      exact ih' r tb hI'
    | bool b =>
      obtain ⟨r, tb, hf, hI'⟩ := hstep t0 n hI List.mem_cons_self
      simp only [hf]
      exact ih' r tb hI'
    | names l =>
      obtain ⟨r, tb, hf, hI'⟩ := hstep t0 n hI List.mem_cons_self
      simp only [hf]
      exact ih' r tb hI'
    | content c =>
      obtain ⟨r, tb, hf, hI'⟩ := hstep t0 n hI List.mem_cons_self
      simp only [hf]
      exact ih' r tb hI'
    | size k =>
      obtain ⟨r, tb, hf, hI'⟩ := hstep t0 n hI List.mem_cons_self
      simp only [hf]
      exact ih' r tb hI'

/-- TERMINATION (source and destination apart): with more fuel than the depth of the source subtree
    the copy returns — for every tree, whatever else it contains -/
theorem copy_terminates : ∀ (fuel : Nat) (t : Tree) (src dest : Path) (sl : Bool) (h : Nat),
    Bounded t src h → h < fuel → Apart src dest → (copy fuel t src dest sl).isSome = true := by
  intro fuel
  induction fuel with
  | zero => intro t src dest sl h _ hlt _; omega
  | succ fuel ih =>
    intro t src dest sl h hb hlt hap
    simp only [copy]
    split
    · rfl
    split
    · rfl
    split
    · rfl
    split
    · rfl
    have hprep := sub_copyPrep t (isDir t src) dest src sl hap.1
    split
    · rfl
    · rename_i r1 t1 b hne heq
      rw [heq] at hprep
      simp only at hprep
      have hdst : Apart src (copyDst (isDir t src) (exists_ t dest) b src dest) := by
        unfold copyDst; split
        · exact apart_append _ hap
        · exact hap
      split
      · split
        · rfl
        · rename_i r2 t2 hne2 heq2
          have hmk := sub_mkdirAll t1 (copyDst (isDir t src) (exists_ t dest) b src dest) src hdst.1
          rw [heq2] at hmk
          have hsub2 : sub t2 src = sub t src := hmk.trans hprep
          apply foldNames_isSome (fun ta => sub ta src = sub t src) _ _ .ok t2 hsub2
          intro ta n hta hn
          -- the child exists in t2, hence in t: the bound drops by one
          have hb2 : Bounded t2 src h := bounded_of_sub hsub2 hb
          obtain ⟨h1, _⟩ := bounded_child hb2 hn
          have hbta : Bounded ta src h := bounded_of_sub hta hb
          have hchildta : Bounded ta (src ++ [n]) (h - 1) := by
            intro e hemem hu
            have := hbta e hemem (under_trans (under_append src [n]) hu)
            simp
            omega
          have hrec := ih ta (src ++ [n]) (copyDst (isDir t src) (exists_ t dest) b src dest) false (h - 1) hchildta (by omega)
            (apart_child [n] hdst)
          cases hc : copy fuel ta (src ++ [n]) (copyDst (isDir t src) (exists_ t dest) b src dest) false with
          | none => rw [hc] at hrec; cases hrec
          | some x =>
            obtain ⟨r', tb⟩ := x
            exact ⟨r', tb, rfl, (copy_sub fuel ta _ _ false r' tb hc src hdst).trans hta⟩
      · rfl


theorem length_le_totalLen (t : Tree) (e : Path × Node) (h : e ∈ t) : e.1.length ≤ totalLen t := by
  unfold totalLen
  induction t with
  | nil => cases h
  | cons x t ih =>
    simp only [List.map_cons, List.sum_cons]
    rcases List.mem_cons.1 h with rfl | h'
    · omega
    · have := ih h'; omega

theorem bounded_totalLen (t : Tree) (p : Path) : Bounded t p (totalLen t) := by
  intro e he _
  have := length_le_totalLen t e he
  omega

/-- for every tree and every source / destination apart from each other the copy returns with fuel
    `totalLen t + 1` -/
theorem copy_returns (t : Tree) (src dest : Path) (sl : Bool) (h : Apart src dest) :
    (copy (totalLen t + 1) t src dest sl).isSome = true :=
  copy_terminates (totalLen t + 1) t src dest sl (totalLen t) (bounded_totalLen t src) (by omega) h

end GoUtils.Fs
