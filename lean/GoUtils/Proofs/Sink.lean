/-
Proofs.Sink — with an exclusive lock the sink ends up holding the messages whole, each exactly once,
in lock order, for any number of producers and any schedule.
-/
import GoUtils.Model.Sink
set_option linter.unusedSimpArgs false
namespace GoUtils.Sink

/-- the state reached by an atomic schedule from a state without pending offsets -/
theorem run_atomic : ∀ (order : List Nat) (s : St), (∀ p, s.offset p = none) → (∀ p ∈ order, s.queue p ≠ []) →
    (∀ p ∈ order, (order.filter (· = p)).length ≤ (s.queue p).length) →
    ∃ s', run s (atomicSchedule order) = some s' ∧ s'.buf = s.buf ++ (deliver s.queue order).flatten ∧ (∀ p, s'.offset p = none) := by
  intro order
  induction order with
  | nil => intro s h0 _ _; exact ⟨s, rfl, by simp [deliver], h0⟩
  | cons p ps ih =>
    intro s h0 hne hcnt
    have hq : s.queue p ≠ [] := hne p List.mem_cons_self
    cases hqp : s.queue p with
    | nil => exact absurd hqp hq
    | cons m rest =>
      -- load p ; store p
      let s2 : St := { buf := s.buf ++ m, queue := fun q => if q = p then rest else s.queue q, offset := s.offset }
      have hrun2 : run s (atomicSchedule (p :: ps)) = run s2 (atomicSchedule ps) := by
        simp only [atomicSchedule, List.flatMap_cons, List.cons_append, List.nil_append, run, step, hqp, h0 p]
        simp only [if_true, ↓reduceIte]
        congr 1
        simp only [s2]
        congr 1
        · simp [List.take_length, List.drop_eq_nil_of_le]
        · funext q
          by_cases hqp' : q = p
          · simp [hqp', h0 p]
          · simp [hqp', h0 q]
      have h02 : ∀ q, s2.offset q = none := h0
      have hne2 : ∀ q ∈ ps, s2.queue q ≠ [] := by
        intro q hq2
        simp only [s2]
        by_cases hqp' : q = p
        · subst hqp'
          simp only [if_true]
          have h1 : (ps.filter (· = q)).length + 1 ≤ (s.queue q).length := by
            simpa [List.filter_cons] using hcnt q List.mem_cons_self
          rw [hqp] at h1
          have hpos : 0 < (ps.filter (· = q)).length := List.length_pos_of_mem (List.mem_filter.2 ⟨hq2, by simp⟩)
          intro hr
          rw [hr] at h1
          simp only [List.length_cons, List.length_nil] at h1
          omega
        · simp only [hqp', if_false]; exact hne q (List.mem_cons_of_mem _ hq2)
      have hcnt2 : ∀ q ∈ ps, (ps.filter (· = q)).length ≤ (s2.queue q).length := by
        intro q hq2
        have := hcnt q (List.mem_cons_of_mem _ hq2)
        simp only [s2]
        by_cases hqp' : q = p
        · subst hqp'
          simp only [if_true]
          have h1 : (ps.filter (· = q)).length + 1 ≤ (s.queue q).length := by
            simpa [List.filter_cons] using this
          rw [hqp] at h1
          simp only [List.length_cons] at h1
          omega
        · have hpq : ¬ p = q := fun h => hqp' h.symm
          simp only [hqp', if_false]
          simp only [List.filter_cons, hpq, decide_false, if_false] at this
          exact this
      obtain ⟨s', hr, hb, ho⟩ := ih s2 h02 hne2 hcnt2
      refine ⟨s', by rw [hrun2]; exact hr, ?_, ho⟩
      rw [hb]
      simp only [deliver, hqp, List.flatten_cons, s2, List.append_assoc]

end GoUtils.Sink
