/-
Proofs.Cast — lemmas for C10. Stated over the GENERATED facts (`Generated.Cast`), so they are
re-checked against what cast.go / boundary.go say now.
-/
import GoUtils.Model.Cast
import GoUtils.Generated.Cast

namespace GoUtils.Cast
open GoUtils GoUtils.Generated.Cast

theorem roundF64_consts :
    roundF64 127 = 127 ∧ roundF64 (-128) = -128 ∧ roundF64 255 = 255 ∧ roundF64 0 = 0 ∧
    roundF64 32767 = 32767 ∧ roundF64 (-32768) = -32768 ∧ roundF64 65535 = 65535 ∧
    roundF64 2147483647 = 2147483647 ∧ roundF64 (-2147483648) = -2147483648 ∧
    roundF64 4294967295 = 4294967295 ∧
    roundF64 9223372036854775807 = 9223372036854775808 ∧
    roundF64 (-9223372036854775808) = -9223372036854775808 ∧
    roundF64 18446744073709551615 = 18446744073709551616 := by
  decide

theorem mono (d : Nat) (q B : Int) : (q ≤ B → (d:Int) * q ≤ d * B) ∧ (B ≤ q → (d:Int) * B ≤ d * q) :=
  ⟨fun h => Int.mul_le_mul_of_nonneg_left h (Int.natCast_nonneg d),
   fun h => Int.mul_le_mul_of_nonneg_left h (Int.natCast_nonneg d)⟩

theorem tdiv_facts (n : Int) (d : Nat) (hd : 0 < d) :
    (d:Int) * n.tdiv d + n.tmod d = n ∧ (0 ≤ n → 0 ≤ n.tmod d ∧ n.tmod d < d) ∧
    (n ≤ 0 → -(d:Int) < n.tmod d ∧ n.tmod d ≤ 0) := by
  have hd' : (0:Int) < d := by omega
  refine ⟨Int.mul_tdiv_add_tmod n d, fun h => ⟨Int.tmod_nonneg _ h, Int.tmod_lt_of_pos _ hd'⟩, fun h => ?_⟩
  have h1 := Int.lt_tmod_of_pos n hd'
  have h2 : n.tmod d ≤ 0 := by
    have := Int.tmod_nonneg (d:Int) (a := -n) (by omega)
    rw [Int.neg_tmod] at this
    omega
  exact ⟨h1, h2⟩

theorem opt_ite (p : Prop) [Decidable p] (a b : Int) :
    ((if p then some a else none) = some b) ↔ (p ∧ a = b) := by
  by_cases h : p <;> simp [h]

/-- all the facts about `q = trunc(n/d)` the arithmetic needs, for a list of literal boundaries -/
def MonoAt (d : Nat) (q : Int) (Bs : List Int) : Prop :=
  ∀ B ∈ Bs, (q ≤ B → (d:Int) * q ≤ d * B) ∧ (B ≤ q → (d:Int) * B ≤ d * q)

theorem monoAt (d : Nat) (q : Int) (Bs : List Int) : MonoAt d q Bs := fun B _ => mono d q B


theorem src_bounds (s : IntTy) (v : Int) (h : s.min ≤ v ∧ v ≤ s.max) :
    (-9223372036854775808 ≤ v ∧ v ≤ 9223372036854775807) ∨ (0 ≤ v ∧ v ≤ 18446744073709551615) := by
  cases s <;> simp [IntTy.min, IntTy.max] at h <;> omega

/- Integer sources: every one of the generated `ToX` functions saturates, for every integer type
    as source and every value of that type. -/
set_option maxRecDepth 4000 in
set_option linter.unusedSimpArgs false in
theorem int_case (c : CastFn) (hc : c ∈ fns) (s : IntTy) (v : Int) (h : s.min ≤ v ∧ v ≤ s.max) :
    c.eval less greater (.int s) (.int v) = some (clamp c.tgt.min c.tgt.max v) := by
  have hb := src_bounds s v h
  clear h
  obtain ⟨cname, tgt, lo, loTy, loRet, hi, hiTy, hiRet⟩ := c
  simp only [fns, List.mem_cons, List.mem_nil_iff, or_false, CastFn.mk.injEq] at hc
  rcases hc with h | h | h | h | h | h | h | h | h | h <;>
    obtain ⟨rfl, rfl, rfl, rfl, rfl, rfl, rfl, rfl⟩ := h
  all_goals
    dsimp only [CastFn.eval, convInt, clamp, IntTy.min, IntTy.max]
    simp [CastFn.eval, BoundaryFn.undef, BoundaryFn.val, BoundaryFn.floatCase, less, greater,
      cmpZero, Cmp.int, convInt, IntTy.wrap, IntTy.signed, IntTy.min, IntTy.max, IntTy.modulus,
      clamp]
    repeat' split
    all_goals (try simp only [opt_ite, Option.some.injEq, reduceCtorEq])
    all_goals (repeat' split)
    all_goals omega

/- Finite float sources (every rational `n/d`, hence every float32 / float64 value): the generated
   functions return `clamp (trunc (n/d))`. One theorem per `case` of the type switch. -/
set_option hygiene false in
macro "float_case_tac" : tactic => `(tactic| (
  obtain ⟨e1, e2, e3⟩ := tdiv_facts n d hd
  obtain ⟨r1, r2, r3, r4, r5, r6, r7, r8, r9, r10, r11, r12, r13⟩ := roundF64_consts
  obtain ⟨cname, tgt, lo, loTy, loRet, hi, hiTy, hiRet⟩ := c
  have km := monoAt d (n.tdiv d) [-1, 0, 1, roundF64 lo - 1, roundF64 lo, roundF64 lo + 1,
    roundF64 hi - 1, roundF64 hi, roundF64 hi + 1, tgt.min - 1, tgt.min, tgt.max, tgt.max + 1]
  simp only [fns, List.mem_cons, List.mem_nil_iff, or_false, CastFn.mk.injEq] at hc
  rcases hc with h | h | h | h | h | h | h | h | h | h <;>
    obtain ⟨rfl, rfl, rfl, rfl, rfl, rfl, rfl, rfl⟩ := h
  all_goals
    simp only [MonoAt, List.forall_mem_cons, List.mem_cons, List.mem_nil_iff, forall_eq_or_imp,
      r1, r2, r3, r4, r5, r6, r7, r8, r9, r10, r11, r12, r13, IntTy.min, IntTy.max,
      Int.reduceSub, Int.reduceAdd, Int.reduceNeg] at km
    dsimp only [CastFn.eval, convInt, clamp, IntTy.min, IntTy.max]
    simp [CastFn.eval, BoundaryFn.undef, BoundaryFn.val, BoundaryFn.floatCase, less, greater,
      cmpZero, Cmp.int, Cmp.flt, convInt, IntTy.wrap, IntTy.signed, IntTy.min, IntTy.max,
      IntTy.modulus, clamp, r1, r2, r3, r4, r5, r6, r7, r8, r9, r10, r11, r12, r13]
    generalize n.tdiv d = q at *
    generalize n.tmod d = r at *
    repeat' split
    all_goals (try simp only [opt_ite, Option.some.injEq, reduceCtorEq])
    all_goals (repeat' split)
    all_goals omega))

set_option maxRecDepth 4000 in
set_option maxHeartbeats 1000000 in
set_option linter.unusedSimpArgs false in
theorem f64_case (c : CastFn) (hc : c ∈ fns) (n : Int) (d : Nat) (hd : 0 < d) :
    c.eval less greater (.f64 false) (.flt (.fin n d))
      = some (clamp c.tgt.min c.tgt.max (n.tdiv d)) := by
  float_case_tac

set_option maxRecDepth 4000 in
set_option maxHeartbeats 1000000 in
set_option linter.unusedSimpArgs false in
theorem f32_case (c : CastFn) (hc : c ∈ fns) (n : Int) (d : Nat) (hd : 0 < d) :
    c.eval less greater (.f32 false) (.flt (.fin n d))
      = some (clamp c.tgt.min c.tgt.max (n.tdiv d)) := by
  float_case_tac

/- Infinite float sources saturate to the extremes. -/
set_option linter.unusedSimpArgs false in
theorem inf_case (c : CastFn) (hc : c ∈ fns) (k : SrcKind) (hk : k = .f64 false ∨ k = .f32 false)
    (pos : Bool) :
    c.eval less greater k (.flt (if pos then .pinf else .ninf))
      = some (if pos then c.tgt.max else c.tgt.min) := by
  obtain ⟨r1, r2, r3, r4, r5, r6, r7, r8, r9, r10, r11, r12, r13⟩ := roundF64_consts
  obtain ⟨cname, tgt, lo, loTy, loRet, hi, hiTy, hiRet⟩ := c
  simp only [fns, List.mem_cons, List.mem_nil_iff, or_false, CastFn.mk.injEq] at hc
  rcases hc with h | h | h | h | h | h | h | h | h | h <;>
    obtain ⟨rfl, rfl, rfl, rfl, rfl, rfl, rfl, rfl⟩ := h <;>
    rcases hk with rfl | rfl <;> cases pos <;>
    simp [CastFn.eval, BoundaryFn.undef, BoundaryFn.val, BoundaryFn.floatCase, less, greater,
      cmpZero, Cmp.int, Cmp.flt, convInt, IntTy.min, IntTy.max]

end GoUtils.Cast
