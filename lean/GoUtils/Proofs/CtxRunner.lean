import GoUtils.Model.CtxRunner
/- Invariant, absence of blocked states, termination and the refuting schedule for the context-based runner. -/
namespace GoUtils.CtxRunner

theorem inv_init : Inv init = true := by decide

theorem inv_step_good : ∀ s ∈ allStates, Inv s = true → ∀ t ∈ succ ⟨false⟩ s, Inv t = true := by decide

theorem not_stuck_of_inv : ∀ s ∈ allStates, Inv s = true → stuck s = false := by decide

theorem mem_allStates (s : St) : s ∈ allStates := by
  obtain ⟨pc, a, b, c⟩ := s
  cases pc <;> cases a <;> cases b <;> cases c <;> decide

inductive Reachable (f : Facts) : St → Prop
  | init : Reachable f init
  | step {s t : St} : Reachable f s → t ∈ succ f s → Reachable f t

theorem inv_reachable {s : St} (h : Reachable ⟨false⟩ s) : Inv s = true := by
  induction h with
  | init => exact inv_init
  | step _ ht ih => exact inv_step_good _ (mem_allStates _) ih _ ht

/-- NEVER BLOCKED FOR EVER: with the result read once, no reachable state has the runner waiting for a result that
    was already delivered (the action being assumed to return eventually, every wait of the runner ends) -/
theorem never_stuck {s : St} (h : Reachable ⟨false⟩ s) : stuck s = false :=
  not_stuck_of_inv s (mem_allStates s) (inv_reachable h)

theorem returned_of_inv : ∀ s ∈ allStates, Inv s = true → s.pc = .returned → s.actionDone = true := by decide

/-- WAITS FOR THE ACTION: the runner returns only after the action has ended, on every schedule -/
theorem returns_after_the_action {s : St} (h : Reachable ⟨false⟩ s) (hr : s.pc = .returned) : s.actionDone = true :=
  returned_of_inv s (mem_allStates s) (inv_reachable h) hr

/-- every wait of the runner ends: a state that is not final always has a move, and once the action has ended and the
    context too, the runner itself has one -/
theorem runner_can_move : ∀ s ∈ allStates, Inv s = true → s.pc ≠ .returned → s.actionDone = true →
    ∃ t ∈ succ ⟨false⟩ s, t.pc ≠ s.pc := by decide

/-- every move uses up a bounded budget: no schedule goes on for ever (at most four moves) -/
theorem runs_finite : ∀ s ∈ allStates, ∀ t ∈ succ ⟨false⟩ s, measure t < measure s := by decide

/-- with a second read after the result, the schedule "action ends, runner takes the result, the deadline passes" is stuck -/
theorem second_read_gets_stuck : ∃ s, Reachable ⟨true⟩ s ∧ stuck s = true := by
  refine ⟨{ pc := .secondReceive, actionDone := true, buf := false, ctxDone := true }, ?_, by decide⟩
  have h1 : Reachable ⟨true⟩ { pc := .select, actionDone := true, buf := true, ctxDone := false } :=
    .step .init (by decide)
  have h2 : Reachable ⟨true⟩ { pc := .resultBranch, actionDone := true, buf := false, ctxDone := false } :=
    .step h1 (by decide)
  have h3 : Reachable ⟨true⟩ { pc := .resultBranch, actionDone := true, buf := false, ctxDone := true } :=
    .step h2 (by decide)
  exact .step h3 (by decide)

end GoUtils.CtxRunner
