/-
Proofs.IO — the I/O helpers of Model.IO deliver exact prefixes, never start a read on the source
once the context is done, and report as count what they delivered.
-/
import GoUtils.Model.IO
set_option linter.unusedSimpArgs false
set_option linter.unusedVariables false
namespace GoUtils.IO

/-- loop-head invariant: the sink holds exactly what the source handed out; no late read so far -/
structure Inv (c : Cfg) (st : St) : Prop where
  out : st.out = c.data.take st.pos
  le : st.pos ≤ c.data.length
  late : st.lateReads = 0

/-- what every exit of the loop guarantees -/
structure Post (c : Cfg) (st0 : St) (w0 : Nat) (r : (Nat × Option Err) × St) : Prop where
  late : r.2.lateReads = 0
  pre : ∃ k, r.2.out = c.data.take k
  cnt : r.1.1 + st0.out.length = w0 + r.2.out.length
  ext : st0.out.length ≤ r.2.out.length
  ok : r.1.2 = none → r.2.out = c.data.take r.2.pos ∧ r.2.pos ≤ c.data.length

theorem srcRead_out (c : Cfg) (cap : Nat) (st : St) : (srcRead c cap st).2.out = st.out := by
  unfold srcRead
  by_cases h1 : srcFails c st = true
  · simp [h1]
  · by_cases h2 : c.data.length ≤ st.pos <;> simp [h1, h2]

theorem grant_le (c : Cfg) (st : St) (cap : Nat) : grant c st cap ≤ c.data.length - st.pos := by
  unfold grant; exact Nat.min_le_right _ _

theorem grant_le_cap (c : Cfg) (st : St) (cap : Nat) : grant c st cap ≤ cap := by
  unfold grant
  cases st.script with
  | nil => exact Nat.min_le_left _ _
  | cons s t => exact Nat.le_trans (Nat.min_le_left _ _) (Nat.min_le_right _ _)

theorem srcRead_pos (c : Cfg) (cap : Nat) (st : St) :
    (srcRead c cap st).2.pos = st.pos + (srcRead c cap st).1.1 ∧
    (srcRead c cap st).1.1 ≤ c.data.length - st.pos ∧ (srcRead c cap st).1.1 ≤ cap := by
  unfold srcRead
  by_cases h1 : srcFails c st = true
  · simp [h1]
  · by_cases h2 : c.data.length ≤ st.pos
    · simp [h1, h2]
    · simp only [h1, h2, if_false, Bool.false_eq_true]
      refine ⟨?_, ?_, ?_⟩
      · first | rfl | trivial
      · exact grant_le c st cap
      · exact grant_le_cap c st cap

theorem srcRead_late (c : Cfg) (cap : Nat) (st : St) (h : done c st = false) :
    (srcRead c cap st).2.lateReads = st.lateReads := by
  unfold srcRead
  by_cases h1 : srcFails c st = true
  · simp [h1, h]
  · by_cases h2 : c.data.length ≤ st.pos <;> simp [h1, h2, h]

/-- one read through the context reader / limited reader -/
theorem readStep_spec (c : Cfg) (lim : Option Nat) (cap : Nat) (st : St) :
    (readStep c lim cap st).2.1.out = st.out ∧
    (readStep c lim cap st).2.1.pos = st.pos + (readStep c lim cap st).1.1 ∧
    (readStep c lim cap st).1.1 ≤ c.data.length - st.pos ∧
    (readStep c lim cap st).2.1.lateReads = st.lateReads := by
  unfold readStep
  by_cases hd : done c st = true
  · simp [hd]
  · have hd' : done c st = false := by simpa using hd
    simp only [hd', Bool.false_eq_true, if_false]
    cases lim with
    | none => exact ⟨srcRead_out _ _ _, (srcRead_pos _ _ _).1, (srcRead_pos _ _ _).2.1, srcRead_late _ _ _ hd'⟩
    | some n =>
      cases n with
      | zero => simp
      | succ n => exact ⟨srcRead_out _ _ _, (srcRead_pos _ _ _).1, (srcRead_pos _ _ _).2.1, srcRead_late _ _ _ hd'⟩

theorem take_append_drop_take (l : List Nat) (a b : Nat) : l.take a ++ (l.drop a).take b = l.take (a + b) := by
  rw [List.take_add]

/-- one write of the `k` bytes read at `frm`, on a sink that holds exactly the first `frm` bytes -/
theorem writeStep_spec (c : Cfg) (checked : Bool) (frm k : Nat) (st : St) (hout : st.out = c.data.take frm)
    (hk : k ≤ c.data.length - frm) (hfrm : frm ≤ c.data.length) :
    (writeStep c checked frm k st).2.lateReads = st.lateReads ∧
    (writeStep c checked frm k st).2.pos = st.pos ∧
    (writeStep c checked frm k st).1.1 ≤ k ∧
    (writeStep c checked frm k st).2.out = c.data.take (frm + (writeStep c checked frm k st).1.1) ∧
    ((writeStep c checked frm k st).1.2 = none → (writeStep c checked frm k st).1.1 = k) := by
  unfold writeStep
  split
  · simp [hout]
  · unfold sinkWrite
    refine ⟨rfl, rfl, Nat.min_le_left _ _, ?_, ?_⟩
    · simp only [hout]; exact take_append_drop_take _ _ _
    · simp only
      intro h
      by_cases hr : room c st k < k
      · simp [hr] at h
      · exact Nat.min_eq_left (by omega)

theorem length_take_of_le {l : List Nat} {n : Nat} (h : n ≤ l.length) : (l.take n).length = n := by
  rw [List.length_take]; exact Nat.min_eq_left h

/-- the loop: from a state satisfying the invariant every exit satisfies `Post` -/
theorem pump_post (c : Cfg) (checked : Bool) (cap : Nat) :
    ∀ (fuel : Nat) (lim : Option Nat) (st : St) (w : Nat), Inv c st →
      Post c st w (pump c checked cap fuel lim st w) := by
  intro fuel
  induction fuel with
  | zero =>
    intro lim st w hi
    simp only [pump]
    exact ⟨hi.late, ⟨st.pos, hi.out⟩, by simp, Nat.le_refl _, fun _ => ⟨hi.out, hi.le⟩⟩
  | succ fuel ih =>
    intro lim st w hi
    have hr := readStep_spec c lim cap st
    simp only [pump]
    generalize hrs : readStep c lim cap st = rs at hr
    obtain ⟨⟨nr, er⟩, st1, lim1⟩ := rs
    simp only at hr
    obtain ⟨hr1, hr2, hr3, hr4⟩ := hr
    have hst1 : st1.out = c.data.take st.pos := by rw [hr1]; exact hi.out
    by_cases hnr : nr > 0
    · simp only [hnr, if_true]
      have hw := writeStep_spec c checked st.pos nr st1 hst1 hr3 hi.le
      generalize hws : writeStep c checked st.pos nr st1 = ws at hw
      obtain ⟨⟨nw, ew⟩, st2⟩ := ws
      simp only at hw
      obtain ⟨hw1, hw2, hw3, hw4, hw5⟩ := hw
      have hlen0 : st.out.length = st.pos := by rw [hi.out]; exact length_take_of_le hi.le
      have hlen2 : st2.out.length = st.pos + nw := by
        rw [hw4]; exact length_take_of_le (by omega)
      have hpost : Post c st w ((w + nw, ew), st2) :=
        ⟨by rw [hw1, hr4]; exact hi.late, ⟨_, hw4⟩, by show w + nw + st.out.length = w + st2.out.length; omega,
         by show st.out.length ≤ st2.out.length; omega,
         by
           intro h
           have hnw : nw = nr := hw5 h
           show st2.out = c.data.take st2.pos ∧ st2.pos ≤ c.data.length
           rw [hw4, hw2, hr2, hnw]; exact ⟨rfl, by omega⟩⟩
      cases ew with
      | some e => exact hpost
      | none =>
        have hnw : nw = nr := hw5 rfl
        have hi2 : Inv c st2 := ⟨by rw [hw4, hw2, hr2, hnw], by rw [hw2, hr2]; omega, by rw [hw1, hr4]; exact hi.late⟩
        cases er with
        | none =>
          have := ih lim1 st2 (w + nw) hi2
          show Post c st w (pump c checked cap fuel lim1 st2 (w + nw))
          exact ⟨this.late, this.pre, by have := this.cnt; omega, by have := this.ext; omega, this.ok⟩
        | some e =>
          cases e <;> first | exact ⟨hpost.late, hpost.pre, hpost.cnt, hpost.ext, hpost.ok⟩ | exact ⟨hpost.late, hpost.pre, hpost.cnt, hpost.ext, fun h => by cases h⟩
    · simp only [hnr, if_false]
      have hnr0 : nr = 0 := by omega
      have hi1 : Inv c st1 := ⟨by rw [hst1, hr2, hnr0]; rfl, by rw [hr2, hnr0]; exact hi.le, by rw [hr4]; exact hi.late⟩
      have hpost : ∀ e, Post c st w ((w, e), st1) := fun e =>
        ⟨hi1.late, ⟨_, hst1⟩, by simp only; rw [hr1], by rw [hr1]; exact Nat.le_refl _, fun _ => ⟨hi1.out, hi1.le⟩⟩
      cases er with
      | none =>
        have := ih lim1 st1 w hi1
        show Post c st w (pump c checked cap fuel lim1 st1 w)
        exact ⟨this.late, this.pre, by have := this.cnt; rw [hr1] at this; exact this, by have := this.ext; rw [hr1] at this; exact this, this.ok⟩
      | some e => cases e <;> exact hpost _

theorem inv_init (c : Cfg) (script : List Nat) : Inv c (St.init script) :=
  ⟨by simp [St.init], by simp [St.init], rfl⟩


theorem writeStep_le (c : Cfg) (checked : Bool) (frm k : Nat) (st : St) : (writeStep c checked frm k st).1.1 ≤ k := by
  unfold writeStep; split
  · simp
  · exact Nat.min_le_left _ _

/-- a limited reader never hands out more than it still allows, and allows that much less afterwards -/
theorem readStep_lim (c : Cfg) (N cap : Nat) (st : St) :
    (readStep c (some N) cap st).1.1 ≤ N ∧
    (readStep c (some N) cap st).2.2 = some (N - (readStep c (some N) cap st).1.1) := by
  unfold readStep
  by_cases hd : done c st = true
  · simp [hd]
  · simp only [hd, if_false]
    cases N with
    | zero => simp
    | succ n =>
      refine ⟨?_, rfl⟩
      exact Nat.le_trans (srcRead_pos c _ st).2.2 (Nat.min_le_right _ _)

/-- with a limit of `N` bytes the loop transfers at most `N` -/
theorem pump_limit (c : Cfg) (checked : Bool) (cap : Nat) :
    ∀ (fuel N : Nat) (st : St) (w : Nat), (pump c checked cap fuel (some N) st w).1.1 ≤ w + N := by
  intro fuel
  induction fuel with
  | zero => intro N st w; simp [pump]
  | succ fuel ih =>
    intro N st w
    have hl := readStep_lim c N cap st
    simp only [pump]
    generalize hrs : readStep c (some N) cap st = rs at hl
    obtain ⟨⟨nr, er⟩, st1, lim1⟩ := rs
    simp only at hl
    obtain ⟨hl1, hl2⟩ := hl
    subst hl2
    by_cases hnr : nr > 0
    · simp only [hnr, if_true]
      have hw := writeStep_le c checked st.pos nr st1
      generalize hws : writeStep c checked st.pos nr st1 = ws at hw
      obtain ⟨⟨nw, ew⟩, st2⟩ := ws
      simp only at hw
      cases ew with
      | some e => show w + nw ≤ w + N; omega
      | none =>
        cases er with
        | none =>
          show (pump c checked cap fuel (some (N - nr)) st2 (w + nw)).1.1 ≤ w + N
          have := ih (N - nr) st2 (w + nw); omega
        | some e => cases e <;> (show w + nw ≤ w + N; omega)
    · simp only [hnr, if_false]
      cases er with
      | none =>
        show (pump c checked cap fuel (some (N - nr)) st1 w).1.1 ≤ w + N
        have := ih (N - nr) st1 w; omega
      | some e => cases e <;> (show w ≤ w + N; omega)

/-! ### undisturbed runs: no source failure, no cancellation, a sink that takes everything -/

structure Clean (c : Cfg) : Prop where
  fail : c.failAt = none
  cancel : c.cancelAfter = none
  sink : c.sinkLimit = none

theorem clean_done {c : Cfg} (h : Clean c) (st : St) : done c st = false := by simp [done, h.cancel]
theorem clean_fails {c : Cfg} (h : Clean c) (st : St) : srcFails c st = false := by simp [srcFails, h.fail]

/-- where an undisturbed loop stops: at the end of the source or of the limit, whichever comes first -/
def stopAt (c : Cfg) (lim : Option Nat) (st : St) : Nat :=
  match lim with
  | none => c.data.length
  | some N => min (st.pos + N) c.data.length

theorem writeStep_clean {c : Cfg} (hc : Clean c) (checked : Bool) (frm k : Nat) (st : St) :
    (writeStep c checked frm k st).1 = (k, none) ∧ (writeStep c checked frm k st).2.pos = st.pos ∧
    (writeStep c checked frm k st).2.script = st.script := by
  simp [writeStep, clean_done hc, sinkWrite, room, hc.sink]

theorem srcRead_clean {c : Cfg} (hc : Clean c) (cap : Nat) (hcap : 0 < cap) (st : St) :
    (c.data.length ≤ st.pos → (srcRead c cap st).1 = (0, some .eof) ∧ (srcRead c cap st).2.pos = st.pos) ∧
    (st.pos < c.data.length →
      (srcRead c cap st).1.2 = none ∧ (srcRead c cap st).2.pos = st.pos + (srcRead c cap st).1.1 ∧
      (srcRead c cap st).1.1 ≤ c.data.length - st.pos ∧ (srcRead c cap st).1.1 ≤ cap ∧
      (srcRead c cap st).2.script.length ≤ st.script.length ∧
      ((srcRead c cap st).1.1 = 0 → (srcRead c cap st).2.script.length < st.script.length)) := by
  have hf := clean_fails hc st
  constructor
  · intro h; simp [srcRead, hf, h]
  · intro h
    have h' : ¬ c.data.length ≤ st.pos := by omega
    simp only [srcRead, hf, h', if_false, Bool.false_eq_true]
    refine ⟨trivial, trivial, grant_le c st cap, grant_le_cap c st cap, by simp, ?_⟩
    intro hg
    simp only [List.length_tail]
    unfold grant at hg
    cases hs : st.script with
    | nil => rw [hs] at hg; simp only at hg; omega
    | cons a l => simp

/-- one undisturbed read: either the normal end (limit used up or end of the source), with the position
    where the loop was bound to stop; or progress towards the same stopping point -/
theorem readStep_clean {c : Cfg} (hc : Clean c) (lim : Option Nat) (cap : Nat) (hcap : 0 < cap) (st : St)
    (hle : st.pos ≤ c.data.length) :
    ((readStep c lim cap st).1 = (0, some .eof) ∧ (readStep c lim cap st).2.1.pos = st.pos ∧ stopAt c lim st = st.pos) ∨
    ((readStep c lim cap st).1.2 = none ∧
     (readStep c lim cap st).2.1.pos = st.pos + (readStep c lim cap st).1.1 ∧
     (readStep c lim cap st).2.1.pos ≤ c.data.length ∧
     stopAt c (readStep c lim cap st).2.2 (readStep c lim cap st).2.1 = stopAt c lim st ∧
     (readStep c lim cap st).2.1.script.length ≤ st.script.length ∧
     ((readStep c lim cap st).1.1 = 0 → (readStep c lim cap st).2.1.script.length < st.script.length)) := by
  have hd := clean_done hc st
  unfold readStep
  simp only [hd, Bool.false_eq_true, if_false]
  cases lim with
  | none =>
    simp only
    by_cases hend : c.data.length ≤ st.pos
    · left
      have := ((srcRead_clean hc cap hcap st).1 hend)
      exact ⟨this.1, this.2, by simp [stopAt]; omega⟩
    · right
      have := (srcRead_clean hc cap hcap st).2 (by omega)
      exact ⟨this.1, this.2.1, by rw [this.2.1]; omega, by simp [stopAt], this.2.2.2.2.1, this.2.2.2.2.2⟩
  | some N =>
    cases N with
    | zero => left; simp [stopAt]; omega
    | succ n =>
      simp only
      have hcap' : 0 < min cap (n + 1) := by omega
      by_cases hend : c.data.length ≤ st.pos
      · left
        have := ((srcRead_clean hc _ hcap' st).1 hend)
        exact ⟨this.1, this.2, by simp [stopAt]; omega⟩
      · right
        have := (srcRead_clean hc _ hcap' st).2 (by omega)
        refine ⟨this.1, this.2.1, by rw [this.2.1]; omega, ?_, this.2.2.2.2.1, this.2.2.2.2.2⟩
        simp only [stopAt, this.2.1]
        have h4 := this.2.2.2.1
        have : min cap (n + 1) ≤ n + 1 := Nat.min_le_right _ _
        omega

/-- an undisturbed loop with enough fuel ends without error exactly at `stopAt` -/
theorem pump_clean (c : Cfg) (hc : Clean c) (checked : Bool) (cap : Nat) (hcap : 0 < cap) :
    ∀ (fuel : Nat) (lim : Option Nat) (st : St) (w : Nat), st.pos ≤ c.data.length →
      (c.data.length - st.pos) + st.script.length < fuel →
      (pump c checked cap fuel lim st w).1.2 = none ∧ (pump c checked cap fuel lim st w).2.pos = stopAt c lim st := by
  intro fuel
  induction fuel with
  | zero => intro lim st w _ h; omega
  | succ fuel ih =>
    intro lim st w hle hfuel
    have hr := readStep_clean hc lim cap hcap st hle
    simp only [pump]
    generalize hrs : readStep c lim cap st = rs at hr
    obtain ⟨⟨nr, er⟩, st1, lim1⟩ := rs
    simp only at hr
    rcases hr with ⟨h1, h2, h3⟩ | ⟨h1, h2, h3, h4, h5, h6⟩
    · simp only [Prod.mk.injEq] at h1
      obtain ⟨rfl, rfl⟩ := h1
      simp only [Nat.lt_irrefl, gt_iff_lt, if_false]
      exact ⟨by first | rfl | trivial, by rw [h2, h3]⟩
    · subst h1
      by_cases hnr : nr > 0
      · simp only [hnr, if_true]
        have hw := writeStep_clean hc checked st.pos nr st1
        generalize hws : writeStep c checked st.pos nr st1 = ws at hw
        obtain ⟨⟨nw, ew⟩, st2⟩ := ws
        simp only [Prod.mk.injEq] at hw
        obtain ⟨⟨rfl, rfl⟩, hw2, hw3⟩ := hw
        show (pump c checked cap fuel lim1 st2 (w + nw)).1.2 = none ∧ (pump c checked cap fuel lim1 st2 (w + nw)).2.pos = stopAt c lim st
        have := ih lim1 st2 (w + nw) (by rw [hw2]; exact h3) (by rw [hw2, hw3]; omega)
        refine ⟨this.1, ?_⟩
        rw [this.2, ← h4]
        simp only [stopAt, hw2]
      · simp only [hnr, if_false]
        have hnr0 : nr = 0 := by omega
        show (pump c checked cap fuel lim1 st1 w).1.2 = none ∧ (pump c checked cap fuel lim1 st1 w).2.pos = stopAt c lim st
        have := ih lim1 st1 w h3 (by have := h6 hnr0; omega)
        exact ⟨this.1, by rw [this.2, h4]⟩


/-! ### unfolding the three helpers -/

theorem copyData_done {c : Cfg} {script : List Nat} (rf : Bool) (h : done c (St.init script) = true) :
    copyData c script rf = { count := 0, err := some .cancelled, st := St.init script } := by
  simp [copyData, h]

theorem copyData_run {c : Cfg} {script : List Nat} (rf : Bool) (h : done c (St.init script) = false) :
    copyData c script rf =
      { count := (pump c (!rf) (copyCap rf none) (fuelFor c script) none (St.init script) 0).1.1,
        err := (pump c (!rf) (copyCap rf none) (fuelFor c script) none (St.init script) 0).1.2,
        st := (pump c (!rf) (copyCap rf none) (fuelFor c script) none (St.init script) 0).2 } := by
  simp [copyData, h]

theorem copyN_done {c : Cfg} {script : List Nat} (rf : Bool) (n : Int) (h : done c (St.init script) = true) :
    copyN c script rf n = { count := 0, err := some .cancelled, st := St.init script } := by
  simp [copyN, h]

theorem copyN_run {c : Cfg} {script : List Nat} (rf : Bool) (n : Int) (h : done c (St.init script) = false) :
    copyN c script rf n =
      { count := (pump c (!rf) (copyCap rf (some n.toNat)) (fuelFor c script) (some n.toNat) (St.init script) 0).1.1,
        err := copyNErr (pump c (!rf) (copyCap rf (some n.toNat)) (fuelFor c script) (some n.toNat) (St.init script) 0).1.1
                 (pump c (!rf) (copyCap rf (some n.toNat)) (fuelFor c script) (some n.toNat) (St.init script) 0).1.2 n,
        st := (pump c (!rf) (copyCap rf (some n.toNat)) (fuelFor c script) (some n.toNat) (St.init script) 0).2 } := by
  simp [copyN, h]

theorem readAtMost_done {c : Cfg} {script : List Nat} (max : Int) (h : done c (St.init script) = true) :
    readAtMost c script max = { count := 0, err := some .cancelled, st := St.init script } := by
  simp [readAtMost, h]

theorem readAtMost_run {c : Cfg} {script : List Nat} (max : Int) (h : done c (St.init script) = false) :
    readAtMost c script max = readResult (pump (bufCfg c) false 512 (fuelFor c script) (readLim max) (St.init script) 0) := by
  simp [readAtMost, h]

theorem readResult_st (r : (Nat × Option Err) × St) : (readResult r).st = r.2 := by
  unfold readResult; split
  · rfl
  · split <;> rfl

end GoUtils.IO
