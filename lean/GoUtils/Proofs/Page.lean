import GoUtils.Model.Page
namespace GoUtils.Page

theorem hasNextAux_spec (cur : Pg) (pos : Nat) (rest : List Pg) (b : Option Nat) :
    let r := hasNextAux cur pos rest b
    (r.2.1.items.drop r.2.2.1 ++ tailAvail r.2.1 r.2.2.2.1 r.2.2.2.2
        = cur.items.drop pos ++ tailAvail cur rest b) ∧
    (r.1 = true ↔ cur.items.drop pos ++ tailAvail cur rest b ≠ []) ∧
    (r.1 = true → r.2.2.1 < r.2.1.items.length) := by
  induction rest generalizing cur pos b with
  | nil =>
    unfold hasNextAux
    by_cases h1 : pos < cur.items.length
    · have hne : cur.items.drop pos ≠ [] := by
        intro h; have := List.drop_eq_nil_iff.mp h; omega
      simp [h1, hne]
    · have : cur.items.drop pos = [] := List.drop_eq_nil_of_le (by omega)
      by_cases h2 : cur.hasNext <;> simp [h1, h2, this, tailAvail]
  | cons p rest' ih =>
    unfold hasNextAux
    by_cases h1 : pos < cur.items.length
    · have hne : cur.items.drop pos ≠ [] := by
        intro h; have := List.drop_eq_nil_iff.mp h; omega
      simp [h1, hne]
    · have hd : cur.items.drop pos = [] := List.drop_eq_nil_of_le (by omega)
      by_cases h2 : cur.hasNext
      · by_cases h3 : b = some 0
        · simp [h1, h2, h3, hd, tailAvail]
        · have := ih p 0 (decBudget b)
          simp only [List.drop_zero] at this
          simp [h1, h2, h3, hd]
          rw [show tailAvail cur (p :: rest') b = p.items ++ tailAvail p rest' (decBudget b) by
            simp [tailAvail, h2, h3]]
          exact this
      · simp [h1, h2, hd, tailAvail]

theorem hasNext_remaining (s : St) : remaining (hasNext s).2 = remaining s := by
  unfold hasNext remaining
  by_cases hc : s.cancelled
  · simp [hc]
  · simp [hc]; exact (hasNextAux_spec s.cur s.pos s.rest s.budget).1

theorem hasNext_cancelled (s : St) : (hasNext s).2.cancelled = s.cancelled := by
  unfold hasNext; by_cases hc : s.cancelled <;> simp [hc]

theorem hasNext_iff (s : St) : (hasNext s).1 = true ↔ remaining s ≠ [] := by
  unfold hasNext remaining
  by_cases hc : s.cancelled
  · simp [hc]
  · simp [hc]; simpa using (hasNextAux_spec s.cur s.pos s.rest s.budget).2.1

theorem hasNext_true_pos (s : St) (h : (hasNext s).1 = true) :
    (hasNext s).2.pos < (hasNext s).2.cur.items.length := by
  unfold hasNext at *
  by_cases hc : s.cancelled
  · simp [hc] at h
  · simp [hc] at *; exact (hasNextAux_spec s.cur s.pos s.rest s.budget).2.2 h

theorem hasNextAux_fix (cur : Pg) (pos : Nat) (rest : List Pg) (b : Option Nat) :
    let r := hasNextAux cur pos rest b
    hasNextAux r.2.1 r.2.2.1 r.2.2.2.1 r.2.2.2.2 = r := by
  induction rest generalizing cur pos b with
  | nil =>
    unfold hasNextAux
    by_cases h1 : pos < cur.items.length
    · simp [h1]
    · by_cases h2 : cur.hasNext
      · simp [h1, h2]
      · simp [h1, h2]
  | cons p rest' ih =>
    rw [hasNextAux]
    by_cases h1 : pos < cur.items.length
    · simp [h1]; unfold hasNextAux; simp [h1]
    · by_cases h2 : cur.hasNext
      · by_cases h3 : b = some 0
        · simp [h1, h2, h3]; unfold hasNextAux; simp [h1, h2]
        · simp [h1, h2, h3]; exact ih p 0 (decBudget b)
      · simp [h1, h2]; unfold hasNextAux; simp [h1, h2]

/-- HasNext is idempotent: asking again gives the same answer and changes nothing. -/
theorem hasNext_idem (s : St) : hasNext (hasNext s).2 = hasNext s := by
  unfold hasNext
  by_cases hc : s.cancelled
  · simp [hc]
  · simp [hc]
    have := hasNextAux_fix s.cur s.pos s.rest s.budget
    simp only at this
    rw [this]
    simp

theorem remaining_of_pos (s : St) (hc : s.cancelled = false) (hp : s.pos < s.cur.items.length) :
    remaining s = s.cur.items[s.pos] :: remaining { s with pos := s.pos + 1 } := by
  unfold remaining
  simp only [hc, Bool.false_eq_true, if_false]
  have hd := List.drop_eq_getElem_cons hp
  rw [hd, List.cons_append]

/-- GetNext either yields the head of what remains, or (nothing remains / cancelled) reports an
    error and yields nothing, leaving what remains unchanged. -/
theorem getNext_spec (s : St) :
    (∃ x, (getNext s).1 = some x ∧ remaining s = x :: remaining (getNext s).2) ∨
    ((getNext s).1 = none ∧ remaining s = [] ∧ remaining (getNext s).2 = []) := by
  unfold getNext
  by_cases hc : s.cancelled
  · right; simp [hc, remaining]
  · simp only [hc]
    by_cases hb : (hasNext s).1 = true
    · left
      have hp := hasNext_true_pos s hb
      have hc' : (hasNext s).2.cancelled = false := by rw [hasNext_cancelled]; simpa using hc
      have hr := hasNext_remaining s
      generalize hasNext s = r at *
      obtain ⟨b, s'⟩ := r
      simp at hb hp hc' hr; subst hb
      simp [List.getElem?_eq_getElem hp]
      rw [← hr]; exact remaining_of_pos s' hc' hp
    · right
      have hb' : (hasNext s).1 = false := by simpa using hb
      have hrem : remaining s = [] := by
        by_cases h : remaining s = []
        · exact h
        · exact absurd ((hasNext_iff s).2 h) hb
      have hr := hasNext_remaining s
      generalize hasNext s = r at *
      obtain ⟨b, s'⟩ := r
      simp at hb' hr; subst hb'
      simp [hrem, hr]

theorem remaining_stop (s : St) : remaining (stop s) = [] := by simp [remaining, stop]

/-- Whatever calls are made, the items yielded are a prefix of what remained at the start. -/
theorem runItems_prefix (ops : List Op) (s : St) : runItems s ops <+: remaining s := by
  induction ops generalizing s with
  | nil => simp [runItems]
  | cons op ops ih =>
    cases op with
    | hasNext =>
      simp only [runItems]; rw [← hasNext_remaining s]; exact ih _
    | stop =>
      simp only [runItems]
      have := ih (stop s); rw [remaining_stop] at this
      exact List.IsPrefix.trans this (List.nil_prefix)
    | getNext =>
      rcases getNext_spec s with ⟨x, h1, h2⟩ | ⟨h1, h2, h3⟩
      · simp only [runItems]
        generalize getNext s = r at *
        obtain ⟨o, s'⟩ := r
        simp at h1; subst h1
        simp only []
        rw [h2]; exact List.cons_prefix_cons.mpr ⟨rfl, ih s'⟩
      · simp only [runItems]
        generalize getNext s = r at *
        obtain ⟨o, s'⟩ := r
        simp at h1; subst h1
        simp only []
        have := ih s'; rw [h3] at this; rw [h2]; exact this

/-- The canonical loop yields everything, exactly once, in order. -/
theorem drain_all (fuel : Nat) (s : St) (h : (remaining s).length < fuel) :
    drain fuel s = remaining s := by
  induction fuel generalizing s with
  | zero => omega
  | succ n ih =>
    unfold drain
    by_cases hb : (hasNext s).1 = true
    · have hne : remaining (hasNext s).2 ≠ [] := by
        rw [hasNext_remaining]; exact (hasNext_iff s).1 hb
      have hr := hasNext_remaining s
      rcases getNext_spec (hasNext s).2 with ⟨x, h1, h2⟩ | ⟨_, h2, _⟩
      · generalize hasNext s = r at *
        obtain ⟨b, s'⟩ := r
        simp at hb hr h1 h2 hne; subst hb
        simp only [Bool.not_true, Bool.false_eq_true, ↓reduceIte]
        generalize getNext s' = r2 at *
        obtain ⟨o, s''⟩ := r2
        simp at h1 h2; subst h1
        simp only []
        rw [← hr, h2]
        congr 1
        apply ih
        rw [← hr, h2] at h; simp at h; omega
      · exact absurd h2 hne
    · have hb' : (hasNext s).1 = false := by simpa using hb
      have hrem : remaining s = [] := by
        by_cases h' : remaining s = []
        · exact h'
        · exact absurd ((hasNext_iff s).2 h') hb
      generalize hasNext s = r at *
      obtain ⟨b, s'⟩ := r
      simp at hb'; subst hb'
      simp [hrem]

end GoUtils.Page
