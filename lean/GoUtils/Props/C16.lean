/-
C16 — shared cache: a successful Fetch installs one complete stored version.

`Model.Cache` has the two protocols at the granularity of the steps that change the remote entry
directory; a crash is a history that stops anywhere, concurrency is any interleaving of the steps of
any number of Stores and cleanings. The order of the steps the model relies on is read from the current
source on every run (gofacts area Cache); the harness `h cachecrash` injects a crash / an error at
every backend operation of a real Store on both backends and both cache kinds, checks the model's
invariant on the real remote directory and what a later Fetch installs.
-/
import GoUtils.Proofs.Cache
import GoUtils.Generated.Cache
import GoUtils.Verdict
namespace GoUtils.Props.C16
open GoUtils GoUtils.Cache

/-- the steps of Store / Fetch are ordered as the model assumes (regenerated from the source) -/
theorem C16_protocol_in_source :
    Generated.Cache.ok = true ∧ Generated.Cache.immUploadsUnderPartName = true ∧
    Generated.Cache.immRenamesAfterVerifiedTransfer = true ∧ Generated.Cache.immListingIgnoresPartAndHash = true ∧
    Generated.Cache.immStoreReturnsRenameError = true ∧ Generated.Cache.immCleanUsesOneListing = true ∧
    Generated.Cache.transferVerifiesHash = true ∧ Generated.Cache.mutStoreTransfersUnderLock = true ∧
    Generated.Cache.mutFetchUnpacksUnderLock = true := by decide

/-- the `.part` marker is dropped as a SUFFIX (otherwise a remote path containing ".part" sends the
    package elsewhere: the defect repaired in the repo) -/
def C16_verdict_part_suffix_only : Verdict (Generated.Cache.immPartSuffixOnly = true) := by
  first
  | exact .holds (by decide)
  | exact .fails (by decide)

/-- IMMUTABLE CACHE — for every history (any interleaving of the steps of any number of Stores and
    cleanings, stopped anywhere): a Fetch that succeeds installs the complete archive of a version that
    was passed to Store -/
theorem C16_immutable_fetch_complete (es : List ImmEv) (s : ImmState) (h : immRun ImmState.init es = some s)
    (c : Content) (hf : immFetch s = some c) : ∃ v, c = .complete v ∧ v ∈ s.stored :=
  imm_fetch_complete es s h c hf

/-- "A Store that reports success makes its version the one that subsequent Fetches return": after any
    history, once an upload has finished and its `.part` suffix has been dropped, the next Fetch installs
    that very version (it is the newest file without suffix: every other file is older than the clock) -/
theorem C16_immutable_store_then_fetch (es : List ImmEv) (s s1 s2 : ImmState) (id v : Nat)
    (h : immRun ImmState.init es = some s) (h1 : immStep s (.finishPart id v) = some s1)
    (h2 : immStep s1 (.rename id) = some s2) : immFetch s2 = some (.complete v) :=
  imm_store_then_fetch es s s1 s2 id v h h1 h2

/-- MUTABLE CACHE — the same, for every history of Store steps stopped anywhere and whatever the hash
    side file holds (stale, missing, colliding): an archive cut short does not unpack -/
theorem C16_mutable_fetch_complete (hashOf : Content → Nat) (es : List MutEv) (s : MutState)
    (h : mutRun MutState.init es = some s) (c : Content) (hf : mutFetch hashOf s = some c) :
    ∃ v, c = .complete v ∧ v ∈ s.stored :=
  mut_fetch_complete hashOf es s h c hf

/-- non-vacuity: a Store interrupted inside the copy next to a complete earlier version (Fetch returns
    the earlier one); two interleaved Stores; a cleaning -/
example : (immRun ImmState.init [.beginStore 1 10, .writePart 1 10 3, .finishPart 1 10, .rename 1,
                                 .beginStore 2 20, .writePart 2 20 5]).bind immFetch = some (.complete 10) := by decide
example : (immRun ImmState.init [.beginStore 1 10, .beginStore 2 20, .writePart 2 20 1, .writePart 1 10 3, .finishPart 2 20,
                                 .finishPart 1 10, .rename 2, .rename 1, .clean]).bind immFetch = some (.complete 10) := by decide
example : (mutRun MutState.init [.beginStore 10, .finishCopy 10, .writeHash, .beginStore 20, .overwrite 20 4]).bind
            (mutFetch (fun c => match c with | .complete v => v | .trunc v k => 1000 + v + k)) = none := by decide


/-- "a completed Store is what the next Fetch returns", with cleanings running at the same time: CleanEntry is modelled
    as ONE listing (everything complete but the newest is put on its list) followed by removals of the listed packages,
    in any interleaving with the steps of other Stores and of other cleanings. Once a Store has completed, the next
    Fetch returns its version whatever comes in between, short of another Store completing. -/
theorem C16_immutable_store_survives_cleanings (es es' : List ImmEv) (s s1 s2 s3 : ImmState) (id v : Nat)
    (h : immRun ImmState.init es = some s) (h1 : immStep s (.finishPart id v) = some s1)
    (h2 : immStep s1 (.rename id) = some s2) (hn : ∀ e ∈ es', NoRename e) (h3 : immRun s2 es' = some s3) :
    immFetch s3 = some (.complete v) :=
  imm_store_survives es es' s s1 s2 s3 id v h h1 h2 hn h3

/-- non-vacuity: a cleaning lists while version 20 is still uploading, the Store of 20 completes, and only then the
    cleaning removes what it listed (version 10 is NOT on its list: it was the newest) — Fetch returns 20; with a third,
    older package on the list the removals happen and 20 stays -/
example : (immRun ImmState.init [.beginStore 1 10, .writePart 1 10 4, .finishPart 1 10, .rename 1,
    .beginStore 3 30, .writePart 3 30 1, .finishPart 3 30, .rename 3,
    .beginStore 2 20, .writePart 2 20 3, .cleanList, .finishPart 2 20, .rename 2, .cleanRemove 1 1]).bind immFetch = some (.complete 20) := by decide

/-- "a completed Store is what the next Fetch returns", mutable cache: from any state of the entry and after
    any earlier events, once the copy of version `v` has finished and the side file has been rewritten, Fetch
    installs exactly the complete archive of `v` -/
theorem C16_mutable_store_then_fetch (hashOf : Content → Nat) (pre : List MutEv) (s s' : MutState) (v : Nat)
    (h : mutRun s (pre ++ [.finishCopy v, .writeHash]) = some s') :
    mutFetch hashOf s' = some (.complete v) :=
  mut_store_then_fetch hashOf pre s s' v h

/-- non-vacuity: a store interrupted mid-copy followed by a complete one -/
example : (mutRun MutState.init ([.beginStore 1, .overwrite 1 3, .beginStore 2, .overwrite 2 1] ++ [.finishCopy 2, .writeHash])).isSome = true := by
  decide

end GoUtils.Props.C16
