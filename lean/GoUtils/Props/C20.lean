/-
C20 — a digest depends only on the algorithm and the bytes.
Facts (`Generated.Hash.skeleton`): where CalculateWithContext resets the hasher. Lemmas: Proofs/Hash.
-/
import GoUtils.Proofs.Hash
import GoUtils.Generated.Hash
import GoUtils.Verdict

namespace GoUtils.Props.C20
open GoUtils GoUtils.Hash

theorem C20_facts_extracted : Generated.Hash.ok = true := by decide

/-- every hasher object owns its state: each `NewHashingAlgorithm` call constructs the underlying hash, and no
    package-level variable holds a hash state (so the model's one-object histories are the whole story) -/
theorem C20_fresh_state_per_hasher : Generated.Hash.freshStatePerHasher = true := by decide

/-- FULL statement: for every hash function `H`, every history of calculations on one (initially
    fresh) hasher — successful, failed or cancelled after any number of bytes — and every chunking
    of every reader, each successful calculation returns `H` of its own content, and failed ones
    return no digest. -/
def C20_Statement (f : CalcFacts) : Prop :=
  ∀ (D : Type) (H : List Nat → D) (hist : List Calc), runHist f H [] hist = expected H hist

/-- General lemma, independent of the current tree: the statement holds for every skeleton that
    resets before the copy, or on both exits. -/
theorem C20_holds_when_clean (f : CalcFacts) (hf : f.clean = true) : C20_Statement f :=
  fun _ H hist => runHist_clean f H hf hist [] (Or.inr rfl)

/-- … and fails for every other skeleton (witness: a failed-then-successful or
    successful-then-successful history with the identity hash). -/
theorem C20_fails_when_not_clean (f : CalcFacts) (hf : f.clean = false) : ¬ C20_Statement f := by
  intro h
  rcases not_clean_witness f hf with hw | hw
  · exact hw (h _ id witnessFail)
  · exact hw (h _ id witnessOk)

/-- Chunk independence holds for every skeleton: only the concatenation of the chunks matters. -/
theorem C20_chunk_independent {D : Type} (f : CalcFacts) (H : List Nat → D) (st : List Nat)
    (c c' : Calc) (hc : c.content = c'.content) (hf : c.fail = c'.fail) :
    calcStep f H st c = calcStep f H st c' := by
  unfold calcStep; rw [hc, hf]

/-- Verdict for the skeleton extracted from the current tree. -/
def C20_verdict_history : Verdict (C20_Statement Generated.Hash.skeleton) := by
  first
  | exact .holds (C20_holds_when_clean _ (by decide))
  | exact .fails (C20_fails_when_not_clean _ (by decide))

/-- Non-vacuity: a history with a failure in the middle. -/
example : expected id [⟨[[1], [2, 3]], none⟩, ⟨[[9, 9]], some 1⟩, ⟨[[], [4]], none⟩]
    = [some [1, 2, 3], none, some [4]] := by decide

end GoUtils.Props.C20
