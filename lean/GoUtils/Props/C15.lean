/-
C15 — configuration loading: precedence of sources, then validation.

`Model.Cfg` holds the two pieces of the statement that are pure functions: the name of the environment
variable consulted for a field, and which source wins. The harness `h cfgload` takes BOTH from the
model (through the driver): it sets the variables under the model's names and expects the model's
winner, on a three-level structure with every field kind and tag spelling; names are also compared
with DetermineConfigurationEnvironmentVariables.
-/
import GoUtils.Proofs.Cfg
import GoUtils.Generated.Config
import GoUtils.Verdict
namespace GoUtils.Props.C15
open GoUtils GoUtils.Cfg

/-- the names reported are exactly the names honoured (prefix and tags free of '.') -/
theorem C15_names (pre : List Nat) (tags : List (List Nat)) (hp : 46 ∉ pre) (ht : ∀ t ∈ tags, 46 ∉ t) :
    honouredName pre tags = reportedName pre tags :=
  honoured_eq_reported pre tags hp ht

/-- the hypothesis is needed: a '.' inside the prefix is replaced in the honoured name only -/
theorem C15_names_dot_in_prefix_differs :
    honouredName [109, 46, 97] [[120]] ≠ reportedName [109, 46, 97] [[120]] := by decide

/-- spellings: `MyApp` + `mid` / `the-label` → MYAPP_MID_THE-LABEL ; `my_app` + `other_leaf` / `time_out` -/
example : honouredName [77, 121, 65, 112, 112] [[109, 105, 100], [116, 104, 101, 45, 108, 97, 98, 101, 108]] =
    [77, 89, 65, 80, 80, 95, 77, 73, 68, 95, 84, 72, 69, 45, 76, 65, 66, 69, 76] := by decide

/-- PRECEDENCE: the winner is the first present source in the order flag (explicitly set), environment,
    file, defaults — stated as the four laws a user relies on -/
theorem C15_precedence (f e c d : Bool) :
    (f = true → winner f e c d = .flag) ∧
    (f = false → e = true → winner f e c d = .env) ∧
    (f = false → e = false → c = true → winner f e c d = .file) ∧
    (f = false → e = false → c = false → d = true → winner f e c d = .default) := by
  cases f <;> cases e <;> cases c <;> cases d <;> simp [winner]

/-- the pieces of the name derivation and of the validation step are those of the current source -/
theorem C15_pieces_in_source :
    Generated.Config.ok = true ∧ Generated.Config.envKeyReplacerDotToUnderscore = true ∧
    Generated.Config.automaticEnvWithPrefix = true ∧ Generated.Config.reportedNameShape = true ∧
    Generated.Config.validationWrappedWithPrefix = true := by decide

/-- the flags are linked to the structure keys AFTER the file has been merged (otherwise the default of
    an unset flag is installed as an override before the file is read: the defect repaired in the repo),
    and validation comes last -/
def C15_verdict_flags_linked_after_file :
    Verdict (Generated.Config.loadOrder = ["defaults", "env", "file", "flags", "unmarshal", "validate"]) := by
  first
  | exact .holds (by decide)
  | exact .fails (by decide)

end GoUtils.Props.C15
