/-
C04 — recursive removal never touches anything outside the tree.

`Model.Rm` models RemoveWithContextAndExclusionPatterns / CleanDir… on a tree with symbolic links in
the two variants the source can be in (fact `removeLinkFirst`, regenerated on every run): kind tests
that follow links (the original code) or a symbolic link recognised with Lstat and unlinked before
anything else (after the repair). Lean proves the frame property for the second variant for every
tree, fuel and exclusion set, and refutes it for the first with a concrete tree; the verdict picks the
branch matching the current source. The model is tied to the real code by `h rmlinks` (OS backend,
trees decorated with links inside / outside / to ancestors / dangling, every entry point), which also
checks directly what no theorem carries here: the tree is really gone on success, excluded entries
survive, garbage collection stays inside the tree.
-/
import GoUtils.Proofs.Rm
import GoUtils.Proofs.RmGone
import GoUtils.Proofs.RmExcl
import GoUtils.Generated.Rm
import GoUtils.Generated.Excl
import GoUtils.Verdict
namespace GoUtils.Props.C04
open GoUtils GoUtils.Rm

theorem C04_facts_extracted : Generated.Rm.ok = true := by decide

/-- the exclusion list handed to the removal is built from every non-blank pattern (shape of
    NewExclusionRegexList in the current source; its semantics belong to C08) -/
theorem C04_exclusion_list_in_source :
    Generated.Excl.ok = true ∧ Generated.Excl.blankPatternsSkipped = true ∧ Generated.Excl.matchIsUnanchoredAny = true := by decide

/-- a removal that returns has changed nothing outside the path it was given — for every
    configuration with the given link treatment (any exclusion set, deep or shallow) -/
def C04_OutsideUntouched (linkFirst : Bool) : Prop :=
  ∀ (c : Cfg), c.linkFirst = linkFirst → ∀ (fuel : Nat) (t : Tree) (p : Path) (r : Res) (t' : Tree),
    remove c fuel t p = some (r, t') → ∀ q, under p q = false → lookup t' q = lookup t q

/-- links unlinked first: holds, for every tree -/
theorem C04_outside_untouched_linkFirst : C04_OutsideUntouched true :=
  fun c hc fuel t p r t' h => remove_frame fuel c hc t p r t' h

/-- the tree of the witness: r/l → out, out/f outside the tree -/
def witnessTree : Tree := [([1], .dir), ([1, 7], .link [2]), ([2], .dir), ([2, 5], .file 3)]
def followCfg : Cfg := { linkFirst := false, excluded := [] }
def lstatCfg : Cfg := { linkFirst := true, excluded := [] }

/-- link-following kind tests: removing r deletes out/f -/
theorem C04_following_links_deletes_outside :
    (remove followCfg 20 witnessTree [1]).map (fun x => lookup x.2 [2, 5]) = some none ∧
    lookup witnessTree [2, 5] = some (.file 3) ∧ under [1] [2, 5] = false := by decide

theorem C04_outside_untouched_following_refuted : ¬ C04_OutsideUntouched false := by
  intro h
  have h1 := C04_following_links_deletes_outside
  cases hr : remove followCfg 20 witnessTree [1] with
  | none => rw [hr] at h1; simp at h1
  | some x =>
    obtain ⟨r, t'⟩ := x
    have := h followCfg rfl 20 witnessTree [1] r t' hr [2, 5] h1.2.2
    rw [hr] at h1
    simp only [Option.map_some, Option.some.injEq] at h1
    rw [h1.1, h1.2.1] at this
    cases this

/-- verdict for the link treatment found in the current source -/
def C04_verdict_outside_untouched : Verdict (C04_OutsideUntouched Generated.Rm.removeLinkFirst) := by
  first
  | exact .holds C04_outside_untouched_linkFirst
  | exact .fails C04_outside_untouched_following_refuted

/-- the same for CleanDir on a real directory -/
theorem C04_cleanDir_outside_untouched (c : Cfg) (hc : c.linkFirst = true) (fuel : Nat) (t : Tree) (p : Path)
    (r : Res) (t' : Tree) (hnl : ∀ tg, lookup t p ≠ some (.link tg)) (h : cleanDir c fuel t p = some (r, t')) :
    ∀ q, under p q = false → lookup t' q = lookup t q :=
  cleanDir_frame c hc fuel t p r t' hnl h

/-- "when the call reports success without exclusion patterns the tree is really gone, dangling links
    included": for every well-formed tree (unique keys, every proper prefix of a key is a directory entry),
    every fuel and every path, a link-first removal without excluded names that answers `ok` leaves no entry
    at or below the path, keeps every other entry, and leaves a well-formed tree -/
theorem C04_really_gone (c : Cfg) (hl : c.linkFirst = true) (hx : c.excluded = []) (hf : 0 < c.linkFuel)
    (fuel : Nat) (t : Tree) (p : Path) (t' : Tree) (w : WFm t) (hp : p ≠ [])
    (h : remove c fuel t p = some (.ok, t')) :
    (∀ e ∈ t', under p e.1 = false) ∧ (∀ e ∈ t, under p e.1 = false → e ∈ t') ∧ (∀ e ∈ t', e ∈ t) ∧ WFm t' := by
  obtain ⟨r, _⟩ := remove_gone fuel c hl hx hf t p t' w hp h
  exact ⟨r.gone, r.keep, r.sub, r.wf⟩

/-- non-vacuity: a well-formed tree with a dangling link and a link out of the tree -/
def wfTree : Tree := [([1], .dir), ([1, 7], .link [9]), ([1, 8], .link [2]), ([2], .dir), ([2, 5], .file 3)]

theorem wfTree_wf : WFm wfTree := by
  refine ⟨by decide, by decide, ?_⟩
  intro e he a ha hu hne
  have hpre := (under_iff a e.1).1 hu
  simp only [wfTree, List.mem_cons, List.mem_nil_iff, or_false] at he
  rcases he with rfl | rfl | rfl | rfl | rfl <;> simp only at hpre hne ⊢
  all_goals
    obtain ⟨r, hr⟩ := hpre
    match a, r, hr with
    | [], _, _ => exact absurd rfl ha
    | [x], [], h => (simp at h) <;> (subst h; exact absurd rfl hne)
    | [x], [y], h => (simp at h) <;> (obtain ⟨rfl, rfl⟩ := h; decide)
    | [x, y], [], h => (simp at h) <;> (obtain ⟨rfl, rfl⟩ := h; exact absurd rfl hne)

example : remove lstatCfg 20 wfTree [1] = some (.ok, [([2], .dir), ([2, 5], .file 3)]) := by decide

/-- second defect of the link-following variant: a dangling link is taken for a missing entry, the
    removal reports success and the tree is still there -/
theorem C04_following_links_leaves_dangling :
    remove followCfg 20 [([1], .dir), ([1, 7], .link [9])] [1] = some (.ok, [([1], .dir), ([1, 7], .link [9])]) := by decide

/-- with links unlinked first both witnesses behave: out/f survives and the tree is gone -/
theorem C04_linkFirst_on_the_witnesses :
    remove lstatCfg 20 witnessTree [1] = some (.ok, [([2], .dir), ([2, 5], .file 3)]) ∧
    remove lstatCfg 20 [([1], .dir), ([1, 7], .link [9])] [1] = some (.ok, []) := by decide

/-- garbage collection treats a link as a leaf (source fact; its traversal is not modelled — the
    harness checks it on the real code) -/
def C04_verdict_gc_links_are_leaves : Verdict (Generated.Rm.gcLinkFirst = true) := by
  first
  | exact .holds (by decide)
  | exact .fails (by decide)

/-! exclusion: "entries matching an exclusion pattern survive together with their ancestors" -/

/-- shallow exclusion (patterns not handed down): an excluded entry below the first level is deleted -/
theorem C04_shallow_exclusion_deletes_nested :
    (remove { linkFirst := true, excluded := [8], deepExclusion := false } 20
        [([1], .dir), ([1, 3], .dir), ([1, 3, 8], .file 1)] [1]).map (fun x => lookup x.2 [1, 3, 8]) = some none := by decide

/-- deep exclusion keeps it, with its ancestors -/
theorem C04_deep_exclusion_keeps_nested :
    remove { linkFirst := true, excluded := [8], deepExclusion := true } 20
        [([1], .dir), ([1, 3], .dir), ([1, 3, 8], .file 1)] [1] =
      some (.ok, [([1], .dir), ([1, 3], .dir), ([1, 3, 8], .file 1)]) := by decide

/-- which of the two the current source implements -/
def C04_verdict_exclusion_handed_down : Verdict (Generated.Rm.deepExclusion = true) := by
  first
  | exact .holds (by decide)
  | exact .fails (by decide)


/-- "entries matched by an exclusion pattern survive", the part that DOES hold in the code as it is (patterns
    applied to the entries of the directory handed to the call): for every tree, fuel and exclusion set, CleanDir
    on a real directory leaves an excluded entry of that directory untouched with everything below it … -/
theorem C04_excluded_first_level_survives_cleanDir (c : Cfg) (hc : c.linkFirst = true) (fuel : Nat) (t : Tree)
    (p : Path) (r : Res) (t' : Tree) (hnl : ∀ tg, lookup t p ≠ some (.link tg))
    (h : cleanDir c fuel t p = some (r, t')) (n : Name) (hn : c.excluded.contains n = true) :
    ∀ x, under (p ++ [n]) x = true → lookup t' x = lookup t x :=
  cleanDir_keeps_excluded_child c hc fuel t p r t' hnl h n hn

/-- … and a removal of a real directory that has an excluded entry leaves that entry untouched with everything
    below it AND keeps the directory itself (the ancestor survives), whatever it answers -/
theorem C04_excluded_first_level_survives_remove (c : Cfg) (hc : c.linkFirst = true) (fuel : Nat) (t : Tree)
    (p : Path) (r : Res) (t' : Tree) (hdir : lookup t p = some .dir) (hp : p ≠ [])
    (h : remove c (fuel + 1) t p = some (r, t')) (n : Name) (hn : c.excluded.contains n = true) (nd : Node)
    (hchild : lookup t (p ++ [n]) = some nd) :
    (∀ x, under (p ++ [n]) x = true → lookup t' x = lookup t x) ∧ lookup t' p = some .dir :=
  remove_keeps_excluded_child c hc fuel t p r t' hdir hp h n hn nd hchild

/-- non-vacuity: a directory with an excluded entry holding a file, next to an entry that goes -/
def exclTree : Tree := [([1], .dir), ([1, 5], .dir), ([1, 5, 6], .file 2), ([1, 7], .file 3)]
example : (remove { linkFirst := true, excluded := [5] } 9 exclTree [1]).map (fun x => (lookup x.2 [1, 5, 6], lookup x.2 [1, 7], lookup x.2 [1]))
    = some (some (.file 2), none, some .dir) := by decide

end GoUtils.Props.C04
