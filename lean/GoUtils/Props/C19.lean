/-
C19 — paginators yield every item exactly once, in order.

`Model.Page` is the hand-written executable model of AbstractPaginator.HasNext/GetNext/Stop (tied to
the code by the differential harness `h page`); the constructor facts come from gofacts
(`Generated.Page`). Lemmas: `Proofs/Page.lean`.
-/
import GoUtils.Proofs.Page
import GoUtils.Proofs.PageStream
import GoUtils.Generated.Page
import GoUtils.Verdict

namespace GoUtils.Props.C19
open GoUtils GoUtils.Page

theorem C19_facts_extracted : Generated.Page.ok = true := by decide

/-- For ANY page list (empty pages anywhere, lying `HasNext` flags, a fetch failure at any
    position) and ANY sequence of HasNext / GetNext / Stop calls, the items returned by the
    successful GetNext calls are, in order, a prefix of what remained at the start — nothing is
    skipped, duplicated or reordered. -/
theorem C19_yield_prefix (s : St) (ops : List Op) : runItems s ops <+: remaining s :=
  runItems_prefix ops s

/-- Iterating to exhaustion (`for HasNext { GetNext }`) yields everything that remained. -/
theorem C19_exhaustive (s : St) (fuel : Nat) (h : (remaining s).length < fuel) :
    drain fuel s = remaining s := drain_all fuel s h

/-- HasNext is idempotent (same answer, same state), whatever the state. -/
theorem C19_hasNext_idempotent (s : St) : hasNext (hasNext s).2 = hasNext s := hasNext_idem s

/-- HasNext answers exactly "something remains", and never changes what remains. -/
theorem C19_hasNext_correct (s : St) :
    ((hasNext s).1 = true ↔ remaining s ≠ []) ∧ remaining (hasNext s).2 = remaining s :=
  ⟨hasNext_iff s, hasNext_remaining s⟩

/-- GetNext works without a preceding HasNext: it yields the next remaining item, or reports an
    error exactly when nothing remains (and then changes nothing observable). -/
theorem C19_getNext_without_hasNext (s : St) :
    (∃ x, (getNext s).1 = some x ∧ remaining s = x :: remaining (getNext s).2) ∨
    ((getNext s).1 = none ∧ remaining s = [] ∧ remaining (getNext s).2 = []) := getNext_spec s

/-- After Stop / Close / cancellation nothing more is yielded, whatever is called. -/
theorem C19_nothing_after_stop (s : St) (ops : List Op) : runItems (stop s) ops = [] := by
  have h := runItems_prefix ops (stop s)
  rw [remaining_stop] at h
  exact List.prefix_nil.mp h

/-- What "remains" at the start is the whole collection when the pages are honest (`hasNext` true
    exactly on non-last pages) and no fetch fails: every item of every page, in page order then
    in-page order. -/
def honest : List Pg → Prop
  | [] => True
  | [p] => p.hasNext = false
  | p :: q :: r => p.hasNext = true ∧ honest (q :: r)

theorem tailAvail_honest (cur : Pg) (rest : List Pg) (h : honest (cur :: rest)) :
    tailAvail cur rest none = (rest.map (·.items)).flatten := by
  induction rest generalizing cur with
  | nil => simp [honest] at h; simp [tailAvail, h]
  | cons p r ih =>
    simp [honest] at h
    unfold tailAvail
    simp [h.1, decBudget, ih p h.2]

theorem C19_all_items (first : Pg) (rest : List Pg) (h : honest (first :: rest)) :
    remaining { cur := first, pos := 0, rest := rest, budget := none, cancelled := false }
      = ((first :: rest).map (·.items)).flatten := by
  simp [remaining, tailAvail_honest first rest h]

/-- A fetch failure after k successful fetches: exactly the items of the first k+1 pages remain. -/
theorem tailAvail_budget (cur : Pg) (rest : List Pg) (k : Nat) (h : honest (cur :: rest)) :
    tailAvail cur rest (some k) = ((rest.take k).map (·.items)).flatten := by
  induction rest generalizing cur k with
  | nil => simp [honest] at h; simp [tailAvail, h]
  | cons p r ih =>
    simp [honest] at h
    unfold tailAvail
    cases k with
    | zero => simp [h.1]
    | succ k => simp [h.1, decBudget, ih p k h.2]

theorem C19_fetch_failure_prefix (first : Pg) (rest : List Pg) (k : Nat) (h : honest (first :: rest)) :
    remaining { cur := first, pos := 0, rest := rest, budget := some k, cancelled := false }
      = (((first :: rest).take (k + 1)).map (·.items)).flatten := by
  simp [remaining, tailAvail_budget first rest k h]

/-- Non-vacuity: a 3-page collection with an empty page in the middle. -/
example : honest [⟨[1, 2], true⟩, ⟨[], true⟩, ⟨[3], false⟩] := by simp [honest]
def exampleState : St :=
  { cur := ⟨[1, 2], true⟩, pos := 0, rest := [⟨[], true⟩, ⟨[3], false⟩], budget := none,
    cancelled := false }
example : remaining exampleState = [1, 2, 3] := by
  simp [exampleState, remaining, tailAvail, decBudget]
example : drain 10 exampleState = [1, 2, 3] := by
  rw [C19_exhaustive] <;> simp [exampleState, remaining, tailAvail, decBudget]

/-- Constructor clause: "constructor failures are reported as errors" — every constructor hands
    the error of its inner constructor (first page's iterator could not be created) to its caller. -/
def C19_CtorStatement : Prop := ∀ c ∈ Generated.Page.ctors, ctorReportsError c = true

def C19_verdict_ctor : Verdict C19_CtorStatement := by
  first
  | exact .holds (by unfold C19_CtorStatement; decide)
  | exact .fails (by unfold C19_CtorStatement; decide)

/-! ### stream clause: "keeps yielding items of future pages until it has been told the stream is drying
    up and the grace period has elapsed" — `Model.PageStream` is the loop of the stream paginators' HasNext
    in logical time, its shape (`Generated.Page.stream`) is regenerated from the source on every run -/

open GoUtils.PageStream in
/-- FULL statement for a loop shape `f`: for every grace period `T`, polling gap `g`, start instant and every
    well-timed history of polls (with or without an item), DryUp calls and cancellations: when HasNext gives
    up because the grace period has elapsed, at instant `τ`, then DryUp had been called at some `td` with
    `td + T ≤ τ + g` (the iteration went on for the grace period, minus one polling gap, after it was told). -/
def C19_StreamGraceStatement (f : GoUtils.PageStream.SFacts) : Prop :=
  ∀ (T g t0 : Nat) (evs : List Ev), WellTimed g t0 t0 false evs →
    ∀ τ, (run f T (init t0) evs).stopped = some (.graceElapsed τ) →
      ∃ td, Ev.dryUp td ∈ evs ∧ td + T ≤ τ + g

open GoUtils.PageStream in
theorem C19_stream_grace_when_refreshed (f : GoUtils.PageStream.SFacts) (h1 : f.refreshOnItem = true)
    (h2 : f.refreshWhileNotDry = true) : C19_StreamGraceStatement f := by
  intro T g t0 evs hwt τ hstop
  obtain ⟨td, hmem, hle⟩ := grace_general f h1 h2 T g evs (init t0) t0 t0 false [] (inv_init g t0) hwt τ hstop
  rcases hmem with hm | hm
  · cases hm
  · exact ⟨td, hm, hle⟩

open GoUtils.PageStream in
/-- without the refresh while the stream is not dry the clock runs from the last item (or the construction):
    a stream that has been quiet for longer than the grace period is given up at the first poll after DryUp -/
theorem C19_stream_grace_witness (f : GoUtils.PageStream.SFacts) (h2 : f.refreshWhileNotDry = false) :
    ¬ C19_StreamGraceStatement f := by
  intro h
  have := h 5 1 0 [.empty 1, .empty 2, .empty 3, .empty 4, .empty 5, .empty 6, .dryUp 6, .empty 7]
    (by simp [WellTimed]) 7 (by simp [PageStream.run, PageStream.step, PageStream.poll, PageStream.init, h2])
  obtain ⟨td, hmem, hle⟩ := this
  simp at hmem
  subst hmem
  omega

def C19_verdict_stream_grace : Verdict (C19_StreamGraceStatement Generated.Page.stream) := by
  first
  | exact .holds (C19_stream_grace_when_refreshed _ (by decide) (by decide))
  | exact .fails (C19_stream_grace_witness _ (by decide))

open GoUtils.PageStream in
/-- the stream paginator never gives up unasked: without DryUp and without cancellation HasNext never answers
    false for good, however long the stream stays quiet (any loop shape) -/
theorem C19_stream_never_stops_unasked (T t0 : Nat) (evs : List Ev)
    (h : ∀ e ∈ evs, (∃ τ, e = .item τ) ∨ (∃ τ, e = .empty τ)) :
    (run Generated.Page.stream T (init t0) evs).stopped = none :=
  never_stops_unasked _ T evs (init t0) rfl rfl rfl h

open GoUtils.PageStream in
/-- "after Stop/Close or cancellation nothing more is yielded" needs HasNext to RETURN: with the context test
    in the loop the first turn after the cancellation answers false; without it a stream that is not dry is
    polled for ever (the defect repaired in the repository: see the known findings) -/
def C19_StreamStopsStatement (f : GoUtils.PageStream.SFacts) : Prop :=
  ∀ (T : Nat) (s : PageStream.St) (τ : Nat) (b : Bool), s.cancelled = true → (PageStream.poll f T s τ b).stopped.isSome = true

def C19_verdict_stream_returns_after_stop : Verdict (C19_StreamStopsStatement Generated.Page.stream) := by
  first
  | exact .holds (fun T s τ b hc => GoUtils.PageStream.cancelled_poll_stops _ (by decide) T s τ b hc)
  | exact .fails (fun h => by
      have := h 0 { GoUtils.PageStream.init 0 with cancelled := true } 1 false rfl
      revert this
      simp [GoUtils.PageStream.poll, GoUtils.PageStream.init, show Generated.Page.stream.contextTested = false by decide])

/-- non-vacuity: a well-timed history in which the grace period does elapse -/
example : (GoUtils.PageStream.run Generated.Page.stream 5 (GoUtils.PageStream.init 0)
    [.item 1, .empty 2, .dryUp 3, .empty 4, .item 5, .empty 9, .empty 10]).stopped = some (.graceElapsed 10) := by decide
example : GoUtils.PageStream.WellTimed 1 0 0 false [.item 1, .empty 2, .dryUp 3, .empty 4, .item 5, .empty 9, .empty 10] := by
  simp [GoUtils.PageStream.WellTimed]


open GoUtils.PageStream in
/-- "keeps yielding items of future pages": for the two-level loop as it is in the source (item test of the embedded
    paginator first — it may move along `next` links —, then the future link of the page the paginator is on NOW; the order
    of the statements is a regenerated fact), a chain of pages linked by `next` and `future` links in ANY mix is iterated
    exactly as the same chain linked by `next` links only: same answer, same page, same position, same pages to come.
    Together with `C19_yield_prefix` / `C19_exhaustive` on the flat chain this carries the exactly-once-in-order
    statement over to streams whose future pages are available. -/
theorem C19_stream_future_links_as_good_as_next (rest : List SPg) (cur : SPg) (pos fuel : Nat) (h : rest.length < fuel) :
    streamHasNext fuel cur pos rest = flatHasNext cur pos rest :=
  stream_eq_flat rest cur pos fuel h

open GoUtils.PageStream in
/-- non-vacuity, and why the order matters: A[1,2] -next-> B[] -future-> C[3]: with A exhausted the loop ends up on C;
    a loop that looked at the future link of the page it was on BEFORE the item test (A: none) would give up -/
example : (streamHasNext 5 ⟨[1, 2], .next⟩ 2 [⟨[], .future⟩, ⟨[3], .none⟩]).1 = true ∧
    (absHasNext ⟨[1, 2], .next⟩ 2 [⟨[], .future⟩, ⟨[3], .none⟩]).1 = false ∧ (⟨[1, 2], .next⟩ : SPg).link ≠ .future := by decide

end GoUtils.Props.C19
