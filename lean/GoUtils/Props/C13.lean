/-
C13 — loggers are goroutine-safe and lose nothing.

`Model.Sink`: a shared in-memory sink whose append is two steps (read the length, publish at that
offset). Under an exclusive lock the two steps of a write are adjacent and the sink ends up with the
messages whole, each exactly once, in lock order — for any number of producers and any schedule
(theorem). Under a shared lock they interleave and a message is lost (witness). Which of the two the
library's own sink does is read from the current source on every run (verdict), together with the
locking of the wrappers around third-party loggers. The harness `h logsafe` runs every constructor with
2..32 producers under the race detector and parses the sinks back into messages.
-/
import GoUtils.Proofs.Sink
import GoUtils.Generated.Logs
import GoUtils.Verdict
import GoUtils.Proofs.Members
namespace GoUtils.Props.C13
open GoUtils GoUtils.Sink

/-- EXCLUSIVE LOCK ⇒ nothing lost, duplicated or mangled: for every set of producers and queues and
    every order in which the writes take the lock (each producer appearing at most as often as it has
    messages), the sink ends up holding exactly the scheduled messages, whole and in lock order -/
theorem C13_atomic_writes_deliver_whole_messages (queue : Nat → List Msg) (order : List Nat)
    (hne : ∀ p ∈ order, queue p ≠ [])
    (hcnt : ∀ p ∈ order, (order.filter (· = p)).length ≤ (queue p).length) :
    ∃ s, run (St.init queue) (atomicSchedule order) = some s ∧ s.buf = (deliver queue order).flatten := by
  obtain ⟨s, h1, h2, _⟩ := run_atomic order (St.init queue) (fun _ => rfl) hne hcnt
  exact ⟨s, h1, by simpa [St.init] using h2⟩

/-- what `deliver` hands over really is every message of a producer, in its order, when the producer is
    scheduled as often as it has messages (two producers, any messages: the general shape) -/
example : deliver (fun p => if p = 0 then [[1, 1], [2]] else if p = 1 then [[7], [8, 8]] else []) [1, 0, 0, 1] =
    [[7], [1, 1], [2], [8, 8]] := by decide

/-- SHARED LOCK ⇒ a message can be lost: two producers both read length 0, both publish at offset 0 -/
def twoQueues : Nat → List Msg := fun p => if p = 0 then [[1, 1, 1]] else if p = 1 then [[2, 2, 2]] else []

theorem C13_shared_lock_loses_a_message :
    (run (St.init twoQueues) [.load 0, .load 1, .store 0, .store 1]).map (·.buf) = some [2, 2, 2] := by decide

/-- the statement for the library's own sink: its append runs under the exclusive lock -/
def C13_verdict_string_sink_exclusive : Verdict (Generated.Logs.stringWriterWriteExclusive = true) := by
  first
  | exact .holds (by decide)
  | exact .fails (by decide)

/-- the wrapper around logr implementations (file, zap, logrus, hclog, slog, noop loggers) never reads
    its logger field while SetLogSource / SetLoggerSource replace it -/
def C13_verdict_logr_field_guarded : Verdict (Generated.Logs.logrFieldGuarded = true) := by
  first
  | exact .holds (by decide)
  | exact .fails (by decide)

/-- the other lock facts the model's reading of the composite and JSON loggers relies on -/
theorem C13_lock_modes_in_source :
    Generated.Logs.ok = true ∧ Generated.Logs.stringWriterReadsExclusive = true ∧
    Generated.Logs.multipleWritersSnapshotUnderLock = true ∧ Generated.Logs.jsonSettersExclusive = true ∧
    Generated.Logs.compositeMembersUnderWriteLock = true := by decide

/-- "composite loggers deliver every message to every member": a member whose Append has returned is a member for
    every later message, for every number of producers appending at once — under the lock mode found in the source -/
theorem C13_composite_keeps_members_holds (b : Bool) (h : b = true) : Members.KeepsMembers b := by
  subst h; exact Members.keeps_of_exclusive

theorem C13_composite_keeps_members_fails (b : Bool) (h : b = false) : ¬ Members.KeepsMembers b := by
  subst h; exact Members.loses_of_shared

def C13_verdict_composite_keeps_members : Verdict (Members.KeepsMembers Generated.Logs.compositeMembersUnderWriteLock) := by
  first
  | exact .holds (C13_composite_keeps_members_holds _ (by decide))
  | exact .fails (C13_composite_keeps_members_fails _ (by decide))

/-- non-vacuity: three producers appending one after the other to a composite of two members -/
example : (Members.run (Members.St.init [10, 11]) (Members.atomicSchedule [0, 1, 2])).map (·.members) = some [10, 11, 0, 1, 2] := by
  decide

end GoUtils.Props.C13
