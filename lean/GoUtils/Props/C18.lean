/-
C18 — subprocess results are faithful: every output line reaches the logger, complete and in order.

`Generated.Streamer` (gofacts): shape of logStreamer.Write and of the Execute / LogStart / LogEnd
skeleton. `Model.Streamer` gives those facts a semantics over byte strings; the hook
`NewLogStreamerForVerification` lets the harness feed the REAL streamer arbitrary chunk sequences.
-/
import GoUtils.Proofs.Streamer
import GoUtils.Generated.Streamer
import GoUtils.Verdict

namespace GoUtils.Props.C18
open GoUtils GoUtils.Streamer

theorem C18_facts_extracted : Generated.Streamer.ok = true := by decide

/-- nothing in package subprocess sets a `WaitDelay`: Wait (hence Execute) returns only when both streams have been copied to
    their end, so output still on its way when the child exits is not cut off -/
theorem C18_waits_for_the_whole_output : Generated.Streamer.exec.waitsForTheWholeOutput = true := by decide

/-- FULL statement (lines clause): for every stream and EVERY way the pipe reads cut it into
    chunks, the messages logged are exactly the non-empty lines of the whole stream, in order. -/
def C18_LinesStatement (f : WriteFacts) : Prop :=
  ∀ chunks : List Bytes, logged f chunks = spec chunks

/-- Partial theorem (what does hold, for the extracted facts): if no chunk boundary falls strictly
    inside a line, the logged messages are exactly the non-empty lines of the stream. -/
theorem C18_lines_partial (chunks : List Bytes) (h : AllClean chunks) :
    logged Generated.Streamer.write chunks = spec chunks := by
  simp [logged, Generated.Streamer.write, spec, lines_flatten_clean chunks h]

/-- Exact failure set for one boundary: a boundary strictly inside a line ALWAYS costs a line
    (the line is logged as two messages), so the statement fails exactly there. -/
theorem C18_one_boundary_iff (a b : Bytes) :
    logged Generated.Streamer.write [a, b] = spec [a, b] ↔ splitsALine a b = false := by
  simp only [logged, Generated.Streamer.write, spec, List.flatMap_cons, List.flatMap_nil,
    List.append_nil, List.flatten_cons, List.flatten_nil, if_true]
  constructor
  · intro h
    cases hs : splitsALine a b
    · rfl
    · have := lines_append_split a b hs
      rw [← h] at this
      simp at this
  · intro h
    exact (lines_append_clean a b (clean_of_not_splits a b h)).symm

/-- Witness against the full statement: the child writes "ab" then "c\n". -/
theorem split_line_witness :
    logged Generated.Streamer.write [[97, 98], [99, 10]] ≠ spec [[97, 98], [99, 10]] := by decide

def C18_verdict_lines : Verdict (C18_LinesStatement Generated.Streamer.write) := by
  first
  | exact .fails (fun h => split_line_witness (h _))

/-- Non-vacuity of the partial theorem: three chunks, each ending in a newline or empty. -/
example : AllClean [[97, 10, 98, 10], [], [99, 10]] := by simp [AllClean, splitsALine]

/-- Order / status clause: the start message comes first, exactly one of success / failure comes
    last, success exactly when `cmd.Run()` returned nil; the child's messages are in between. -/
theorem C18_order (child : List Msg) (runOk : Bool) :
    execMessages Generated.Streamer.exec child runOk
      = [Msg.start] ++ child ++ [if runOk then Msg.success else Msg.failure] := by
  simp [execMessages, Generated.Streamer.exec]

/-- "Output() returns all of it", whatever the exit status: the captured text is read unconditionally
    after Execute() (regenerated fact), so an unsuccessful child's output is returned too -/
theorem C18_output_whatever_the_status (captured : List Msg) (runOk : Bool) :
    outputText Generated.Streamer.exec captured runOk = captured := by
  simp [outputText, Generated.Streamer.exec]

end GoUtils.Props.C18
