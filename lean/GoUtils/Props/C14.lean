/-
C14 — retries are bounded and back-off waits stay in range.
Facts: `Generated.Retry` (RetryIf's option list, the exponential formula's operators, findRetryAfter's
status list / clamps). Model: `Model.Retry`. Lemmas: `Proofs/Retry.lean`.
-/
import GoUtils.Proofs.Retry
import GoUtils.Generated.Retry
import GoUtils.Verdict

namespace GoUtils.Props.C14
open GoUtils GoUtils.Retry

theorem C14_facts_extracted : Generated.Retry.ok = true := by decide

/-- the HTTP client is wired to the policy it is configured with: attempt limit, waits, the library's retry decision and
    `BackOffPolicyFactory(policy).Apply` as its back-off (regenerated from retryable_client.go) -/
theorem C14_client_wired_to_policy : Generated.Retry.clientWiredToPolicy = true := by decide

theorem C14_loop_facts_canonical : Generated.Retry.loop.canonical := by
  simp [LoopFacts.canonical, Generated.Retry.loop]

/-- Attempt accounting, for EVERY script of outcomes, every instant at which the context ends and
    every attempt budget ≥ 1 (enabled policy, context alive at the call): between 1 and `attempts`
    invocations; every invocation but the last failed with a retriable error while the context was
    alive (so nothing is attempted after a success, a non-retriable error or the end of the context);
    the caller gets nil exactly when the last attempt succeeded, otherwise the last error, or the
    cancelled/timeout kind when the context ended. -/
theorem C14_attempts (script : Nat → Outcome) (ctxDone : Nat → Bool) (attempts : Nat)
    (ha : 1 ≤ attempts) (hctx : ctxDone 0 = false) :
    LoopSpec script ctxDone attempts 0
      (retryIf Generated.Retry.loop true attempts script ctxDone).1
      (retryIf Generated.Retry.loop true attempts script ctxDone).2 := by
  have hc := C14_loop_facts_canonical
  unfold retryIf
  simp only [Bool.not_true, Bool.false_and, Bool.false_eq_true, if_false, hc.2.2.2.1, hctx, Bool.and_false]
  exact loopAux_spec _ hc script ctxDone attempts attempts 0 [] (by omega) (by omega)

/-- corollary: nil ⇔ the last attempt succeeded -/
theorem C14_nil_iff_success (script : Nat → Outcome) (ctxDone : Nat → Bool) (attempts : Nat)
    (ha : 1 ≤ attempts) (hctx : ctxDone 0 = false) :
    let r := retryIf Generated.Retry.loop true attempts script ctxDone
    r.1 = .nil ↔ script (r.2 - 1) = .ok := by
  have h := (C14_attempts script ctxDone attempts ha hctx).last
  constructor
  · intro hn
    rcases h with ⟨h, _⟩ | ⟨e, _, h⟩ | ⟨e, _, ⟨_, h⟩ | ⟨_, _, h⟩⟩ <;> simp_all
  · intro ho
    rcases h with ⟨_, h⟩ | ⟨e, h, _⟩ | ⟨e, h, _⟩ <;> simp_all

/-- context already done at the call: nothing is invoked, the context kind is returned -/
theorem C14_precancelled (script : Nat → Outcome) (ctxDone : Nat → Bool) (attempts : Nat)
    (hctx : ctxDone 0 = true) :
    retryIf Generated.Retry.loop true attempts script ctxDone = (.ctxKind, 0) := by
  simp [retryIf, Generated.Retry.loop, hctx]

/-- disabled policy: exactly one invocation, its own outcome is returned -/
theorem C14_disabled_once (script : Nat → Outcome) (ctxDone : Nat → Bool) (attempts : Nat) :
    (retryIf Generated.Retry.loop false attempts script ctxDone).2 = 1 := by
  simp [retryIf, Generated.Retry.loop]

/-- non-vacuity: two retriable failures then success within a budget of 4 -/
example : retryIf Generated.Retry.loop true 4
    (fun n => if n < 2 then .retriable n else .ok) (fun _ => false) = (.nil, 3) := by decide

theorem C14_expo_facts_canonical : Generated.Retry.expo.canonical := by
  simp [ExpoFacts.canonical, Generated.Retry.expo]

/-- constant policy (and every policy's "no hint" base case for the basic kind): exactly `min` -/
theorem C14_constant (considerRA : Bool) (min max : Int) (n : Nat) (x j : Int) :
    apply Generated.Retry.expo Generated.Retry.retryAfter .basic considerRA min max n none .absent x j = min := by
  cases considerRA <;> simp [apply, findRetryAfter]

/-- exponential policy: within [min, max] for every attempt number and every value the platform may
    produce for an out-of-range float→int conversion (min exactly representable: < 2^53 ns ≈ 104 days) -/
theorem C14_expo_range (min max : Int) (n : Nat) (x : Int)
    (h0 : 0 ≤ min) (h1 : min ≤ max) (h53 : min < 2 ^ 53) :
    min ≤ exponential Generated.Retry.expo min max n x ∧ exponential Generated.Retry.expo min max n x ≤ max :=
  exponential_range _ C14_expo_facts_canonical.2 min max n x h0 h1 h53

/-- … non-decreasing in the attempt number while the product is representable … -/
theorem C14_expo_monotone_in_range (a : Nat) (max : Int) (n : Nat) (x y : Int)
    (ha : a < 2 ^ 53) (hpos : 0 < a) (hn : n + 1 < 63)
    (hin : ((a * 2 ^ (n + 1) : Nat) : Int) < 9223372036854775808) :
    exponential Generated.Retry.expo a max n x ≤ exponential Generated.Retry.expo a max (n + 1) y :=
  exponential_mono_in_range _ C14_expo_facts_canonical a max n x y ha hpos hn hin

/-- … and when entering the capped region. PARTIAL: for a product that is out of int64 range below
    attempt 63 this assumes the platform's conversion result does not happen to round to the product
    (true of amd64/arm64, whose result is MinInt64); the unconditional statement is not proved. -/
theorem C14_expo_monotone_into_cap_partial (min max : Int) (n : Nat) (x y : Int)
    (h0 : 0 < min) (h1 : min ≤ max) (h53 : min < 2 ^ 53)
    (hout : n + 1 ≥ 63 ∨ (¬ min * 2 ^ (n + 1) < 9223372036854775808 ∧ roundF64 y ≠ min * 2 ^ (n + 1))) :
    exponential Generated.Retry.expo min max n x ≤ exponential Generated.Retry.expo min max (n + 1) y :=
  exponential_mono_into_cap _ C14_expo_facts_canonical min max n x y h0 h1 h53 hout

/-- linear policy (third-party LinearJitterBackoff, hand-modelled): within [(n+1)·min, (n+1)·max]
    as long as the upper bound is representable, for every jitter -/
theorem C14_linear_range (min max : Int) (n : Nat) (j : Int) (h0 : 0 ≤ min) (h1 : min ≤ max)
    (hj : 0 ≤ j ∧ j ≤ max - min) (hrep : max * (n + 1) ≤ maxI64) :
    min * (n + 1) ≤ linear min max n j ∧ linear min max n j ≤ max * (n + 1) :=
  linear_range min max n j h0 h1 hj hrep

/-- Retry-After in seconds, FULL statement: never negative, exact for every representable number
    of seconds, zero for negative values. -/
def C14_RetryAfterStatement (f : RetryAfterFacts) : Prop :=
  ∀ s : Int, 0 ≤ retryAfterSeconds f s ∧
    (0 ≤ s → s ≤ 9223372036 → retryAfterSeconds f s = second * s) ∧ (s < 0 → retryAfterSeconds f s = 0)

def C14_verdict_retry_after : Verdict (C14_RetryAfterStatement Generated.Retry.retryAfter) := by
  first
  | exact .holds (fun s => retryAfterSeconds_spec _ (by decide) (by decide) s)
  | exact .fails (fun h => by
      have := (h 9223372037).1
      revert this
      decide)

/-- the date form is never negative either -/
theorem C14_retry_after_date (u : Int) : 0 ≤ retryAfterDate u := by
  unfold retryAfterDate; split <;> omega

/-- a Retry-After value replaces the computed wait exactly when it is enabled and the status is
    429 / 503 -/
theorem C14_retry_after_replaces (k : Kind) (min max : Int) (n : Nat) (st : Nat) (s x j : Int)
    (hst : st = 429 ∨ st = 503) :
    apply Generated.Retry.expo Generated.Retry.retryAfter k true min max n (some st) (.seconds s) x j
      = retryAfterSeconds Generated.Retry.retryAfter s := by
  rcases hst with rfl | rfl <;> simp [apply, findRetryAfter, Generated.Retry.retryAfter]

theorem C14_retry_after_ignored_when_disabled (min max : Int) (n : Nat) (st : Option Nat) (h : Header)
    (x j : Int) :
    apply Generated.Retry.expo Generated.Retry.retryAfter .basic false min max n st h x j = min := by
  simp [apply]

end GoUtils.Props.C14
