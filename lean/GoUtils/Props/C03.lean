/-
C03 — unzip resource limits hold (zip bombs, nested bombs, lying headers).
`Generated.Zip.limits`: comparison operators and the copy/check order of unzip, unzipZippedFile,
newZipReader, unzipNestedZipFiles. `Model.Unzip`: accounting model. Lemmas: Proofs/Unzip.lean.
-/
import GoUtils.Proofs.Unzip
import GoUtils.Generated.Zip
import GoUtils.Verdict

namespace GoUtils.Props.C03
open GoUtils GoUtils.Unzip

def F : LimitFacts := Generated.Zip.limits

theorem C03_facts_extracted : Generated.Zip.ok = true := by decide

theorem C03_facts_canonical : F.canonical := by
  simp [LimitFacts.canonical, F, Generated.Zip.limits]

/-- SUCCESS ⇒ WITHIN LIMITS, for every archive (any number of entries, any sizes, any directory depth,
    headers that lie about their stream, archives nested to ANY depth with any fan-out, zip-named
    non-zips) and every limits configuration with limits applied: the regular files left on disk hold
    no more than MaxTotalSize bytes, are no more than MaxFileCount, none is larger than MaxFileSize,
    none is deeper than MaxDepth when that is non-negative, and no single write ever exceeded
    MaxFileSize. -/
theorem C03_success_within_limits (lim : Limits) (hap : lim.apply = true) (size : Nat) (a : Arch)
    (r : Acc) (h : unzip F lim size a = .ok r) :
    sumSizes r.files ≤ lim.maxTotal ∧ r.files.length ≤ lim.maxCount ∧
    (∀ f ∈ r.files, f.1 ≤ lim.maxFile) ∧
    (lim.maxDepth ≥ 0 → ∀ f ∈ r.files, (f.2 : Int) ≤ lim.maxDepth) ∧
    r.maxWrite ≤ lim.maxFile := by
  unfold unzip at h
  split at h
  · simp at h
  split at h
  · simp at h
  have p := run_post F C03_facts_canonical lim hap a 0 0 (zeroAcc 0) r (fun _ => rfl)
    ⟨by simp [zeroAcc], by simp [zeroAcc, sumSizes]⟩ h
  obtain ⟨new, hf, hb, hd, _⟩ := p.grows
  simp only [zeroAcc, List.nil_append] at hf
  refine ⟨?_, ?_, by rw [hf]; exact hb, fun hm => by rw [hf]; exact hd hm, ?_⟩
  · rcases p.checked with ⟨e1, _⟩ | ⟨h1, _⟩
    · simp only [zeroAcc] at e1; rw [e1]; simp [sumSizes]
    · rw [p.inv.2]; exact h1
  · rcases p.checked with ⟨e1, _⟩ | ⟨_, h2⟩
    · simp only [zeroAcc] at e1; rw [e1]; simp
    · exact h2
  · have := p.writes; simpa [zeroAcc] using this

/-- the archive itself is checked before anything is extracted -/
theorem C03_archive_checked_first (lim : Limits) (hap : lim.apply = true) (size : Nat) (a : Arch)
    (hbig : size > lim.maxFile) : unzip F lim size a = .error .tooLarge := by
  have h2 : archiveSizeExceeded F lim size = true := by
    simp [archiveSizeExceeded, hap, gt, F, Generated.Zip.limits]; omega
  unfold unzip
  split
  · rfl
  · simp [h2]

/-- REFUSAL KIND: an archive whose headers do not overstate their streams is never refused with
    anything but the 'too large' kind (the only other error of the model is the short stream of a
    lying header), whatever the limits. -/
theorem C03_refused_kind (lim : Limits) (size : Nat) (a : Arch) (e : Err) (hh : Honest a)
    (h : unzip F lim size a = .error e) : e = .tooLarge := by
  unfold unzip at h
  split at h
  · simp at h; exact h.symm
  split at h
  · simp at h; exact h.symm
  exact run_error_kind F lim a 0 0 _ e hh h

/-- non-vacuity: a nested bomb (an archive holding an archive holding a 5-byte file) under limits
    that allow it, and the same under a total of 4 bytes -/
def bomb : Arch := .fileE 0 true 30 30 true (.fileE 1 true 20 20 true (.fileE 0 false 5 5 false .nil .nil) .nil) .nil
example : (unzip F { apply := true, recursive := true, maxFile := 100, maxTotal := 5, maxCount := 1, maxDepth := 3 } 40 bomb).toOption.map (·.files) = some [(5, 3)] := by
  decide
example : (unzip F { apply := true, recursive := true, maxFile := 100, maxTotal := 4, maxCount := 1, maxDepth := 3 } 40 bomb).toOption.map (·.files) = none := by
  decide

end GoUtils.Props.C03
