import GoUtils.Model.Unzip
import GoUtils.Generated.Zip
import GoUtils.Verdict
namespace GoUtils.Props.C03
open GoUtils GoUtils.Unzip
theorem C03_facts_extracted : Generated.Zip.ok = true := by decide
end GoUtils.Props.C03
