/-
C08 — exclusion patterns protect exactly what they name, in every operation.

`Model.Regex`: anchor-free regular expressions (AST) with a derivative matcher, the three expansions of
NewExclusionRegexList and the unanchored test of IsPathExcluded. The harness `h exclusion` sends the
ASTs to the model and renders the Go pattern strings from the same ASTs (no regex parser is trusted),
and compares, per operation and entry, what was processed with the model's name-visible /
path-visible sets and with the two clauses of the property.
-/
import GoUtils.Proofs.Regex
import GoUtils.Generated.Excl
import GoUtils.Verdict
namespace GoUtils.Props.C08
open GoUtils GoUtils.Regex

/-- the model's `expand` / `excluded` are the code's NewExclusionRegexList / IsPathExcluded: the three
    format strings, blank patterns skipped (and only them), compile errors turned into 'invalid', an
    unanchored match of any expression — read from the current source on every run -/
theorem C08_expansion_in_source :
    Generated.Excl.ok = true ∧ Generated.Excl.expansions = ["%v", ".*/%v/.*", ".*%v%v%v.*"] ∧
    Generated.Excl.blankPatternsSkipped = true ∧ Generated.Excl.compileErrorIsInvalid = true ∧
    Generated.Excl.matchIsUnanchoredAny = true := by decide

/-- NEVER TOUCH, name-based: an entry one of whose components — its own name or an ancestor's — is
    matched in full by a pattern is not processed (for every tree, pattern set and depth) -/
theorem C08_never_touch_name (pats : List Re) (p : Re) (hp : p ∈ pats) (comps : List (List Nat)) (n : List Nat)
    (hn : n ∈ comps) (hm : fullMatch p n = true) : nameVisible pats comps = false := by
  unfold nameVisible
  have : excluded pats n = true :=
    excluded_of_search pats p hp n (by simpa using search_of_fullMatch p [] n [] hm)
  cases h : comps.all fun c => !excluded pats c with
  | false => rfl
  | true =>
    rw [List.all_eq_true] at h
    have := h n hn
    simp_all

/-- NEVER TOUCH, path-based: the same entry is not copied either — the match sits somewhere in the path -/
theorem C08_never_touch_path (pats : List Re) (p : Re) (hp : p ∈ pats) (root : List Nat) (comps : List (List Nat))
    (n : List Nat) (hn : n ∈ comps) (hm : fullMatch p n = true) : pathVisible pats root comps = false := by
  -- the whole path (last prefix) contains `n`
  have hlen : 0 < comps.length := List.length_pos_of_mem hn
  obtain ⟨a, c, hac⟩ := mem_joinPath comps n hn
  have hex : excluded pats (root ++ [47] ++ joinPath comps) = true := by
    apply excluded_of_search pats p hp
    rw [hac]
    have := search_of_fullMatch p (root ++ [47] ++ a) n c hm
    simpa [List.append_assoc] using this
  unfold pathVisible
  cases h : (List.range comps.length).all fun i => !excluded pats (root ++ [47] ++ joinPath (comps.take (i + 1))) with
  | false => rfl
  | true =>
    rw [List.all_eq_true] at h
    have := h (comps.length - 1) (List.mem_range.2 (by omega))
    have ht : comps.take (comps.length - 1 + 1) = comps := by
      rw [show comps.length - 1 + 1 = comps.length by omega, List.take_length]
    rw [ht, hex] at this
    simp at this

/-- ALWAYS PROCESS, name-based: an entry none of whose components contains a match of an expansion is
    processed -/
theorem C08_always_process_name (pats : List Re) (comps : List (List Nat))
    (h : ∀ c ∈ comps, excluded pats c = false) : nameVisible pats comps = true := by
  unfold nameVisible
  rw [List.all_eq_true]
  intro c hc
  simp [h c hc]

/-- ALWAYS PROCESS, path-based: full statement -/
def C08_AlwaysProcessPath : Prop :=
  ∀ (pats : List Re) (root : List Nat) (comps : List (List Nat)),
    excluded pats root = false → (∀ c ∈ comps, excluded pats c = false) → pathVisible pats root comps = true

/-- `a.b` -/
def straddle : Re := .cat (.chr 97) (.cat .any (.chr 98))

/-- witness: pattern `a.b`, entry xa/by below /r — no component contains a match, the path does
    (the match straddles the separator) -/
theorem C08_straddling_witness :
    excluded [straddle] [47, 114] = false ∧
    (∀ c ∈ [[120, 97], [98, 121]], excluded [straddle] c = false) ∧
    pathVisible [straddle] [47, 114] [[120, 97], [98, 121]] = false := by decide

def C08_verdict_always_process_path : Verdict C08_AlwaysProcessPath := by
  first
  | exact .fails (fun h => by
      have := h [straddle] [47, 114] [[120, 97], [98, 121]] C08_straddling_witness.1 C08_straddling_witness.2.1
      rw [C08_straddling_witness.2.2] at this
      cases this)

/-- non-vacuity: a pattern set with a full match, a containing match and a bystander -/
example : nameVisible [straddle, .chr 121] [[97, 120, 98]] = false ∧     -- "axb" is matched in full by a.b
          nameVisible [straddle, .chr 121] [[98], [98, 121]] = false ∧   -- "by" contains y
          nameVisible [straddle, .chr 121] [[98], [97, 97]] = true := by decide

end GoUtils.Props.C08
