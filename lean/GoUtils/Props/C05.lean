/-
C05 — cancelling a subprocess terminates its whole process tree, promptly.

`Model.Proc` states the kernel rules the wrapper relies on. Lean proves that a group kill leaves no
member of the group alive — whatever the depth, fan-out, SIGTERM handling and whether the leader is still
there — touches nothing outside the group, and lets `Wait` return when every pipe holder is in the
group; and that killing the process only (what happened when the context ended) leaves a descendant
alive holding the pipes. Which of the two the code does is read from the source on every run. Real
process trees are run by `h proctree` (7 shapes x 2 start modes x 4 stop modes x stop instants).
-/
import GoUtils.Model.Proc
import GoUtils.Generated.Subproc
import GoUtils.Verdict
namespace GoUtils.Props.C05
open GoUtils GoUtils.Proc

/-- after a group kill no member of the group is alive (any table: any tree shape, TERM-ignoring
    members, a leader that has already exited) -/
theorem C05_group_kill_kills_every_member (g : Nat) (t : Table) :
    ∀ p ∈ killGroup g t, p.pgid = g → p.alive = false := by
  intro p hp hg
  unfold killGroup at hp
  rw [List.mem_map] at hp
  obtain ⟨q, _, rfl⟩ := hp
  by_cases h : q.pgid = g
  · simp [h]
  · simp only [h, if_false] at hg

/-- … and nothing outside the group is touched -/
theorem C05_group_kill_frame (g : Nat) (t : Table) (p : P) (hp : p ∈ t) (hg : p.pgid ≠ g) : p ∈ killGroup g t := by
  unfold killGroup
  rw [List.mem_map]
  exact ⟨p, hp, by simp [hg]⟩

/-- when the context ends and the group is killed: the root is dead and, if every pipe holder belongs to
    the root's group, `Wait` returns — for every table -/
theorem C05_context_end_lets_wait_return (root : Nat) (t : Table)
    (hroot : ∀ p ∈ t, p.pid = root → p.pgid = root)
    (hpipes : ∀ p ∈ t, p.holdsPipe = true → p.pgid = root) :
    waitReturns root (onContextEnd true root t) = true := by
  unfold waitReturns onContextEnd killPid killGroup
  simp only [if_true, List.map_map, List.all_map, List.all_eq_true]
  intro p hp
  by_cases hg : p.pgid = root
  · by_cases hr : p.pid = root <;> simp [Function.comp, hg, hr]
  · have h1 : p.pid ≠ root := fun h => hg (hroot p hp h)
    have h2 : p.holdsPipe = false := by
      cases hh : p.holdsPipe with
      | false => rfl
      | true => exact absurd (hpipes p hp hh) hg
    simp [Function.comp, hg, h1, h2]

/-- the old behaviour — only the process is killed — leaves a descendant alive that holds the pipes:
    `Wait` does not return and the descendant is orphaned -/
def witness : Table :=
  [{ pid := 10, pgid := 10, alive := true, ignoresTerm := false, holdsPipe := true },
   { pid := 11, pgid := 10, alive := true, ignoresTerm := false, holdsPipe := true }]

theorem C05_process_only_kill_leaves_descendant :
    waitReturns 10 (onContextEnd false 10 witness) = false ∧
    (onContextEnd false 10 witness).any (fun p => p.pid = 11 && p.alive) = true ∧
    waitReturns 10 (onContextEnd true 10 witness) = true := by decide

/-- the wrapper kills the GROUP when the context ends, and the kill scheduled by Stop signals the group
    before looking the process up (facts regenerated from the source) -/
def C05_verdict_context_end_kills_group :
    Verdict (Generated.Subproc.contextEndKillsGroup = true ∧ Generated.Subproc.stopKillsGroupFirst = true) := by
  first
  | exact .holds (by decide)
  | exact .fails (by decide)

/-! ### why Stop() cannot interrupt Execute(): the lock structure -/

/-- the three things that matter: who holds the object's mutex, whether the tree still runs, whether the
    stopping call has returned -/
structure LockSt where
  executeHoldsMutex : Bool
  treeAlive : Bool
  stopReturned : Bool
  deriving Repr, DecidableEq

inductive LockEv
  | runReturns        -- cmd.Run() returns: possible only once the tree is gone; Execute then releases the mutex
  | stopProceeds      -- stop() obtains the mutex: kills the tree, returns
  deriving Repr, DecidableEq

def lockStep (holdAcrossRun : Bool) (s : LockSt) : LockEv → Option LockSt
  | .runReturns => if s.executeHoldsMutex && !s.treeAlive then some { s with executeHoldsMutex := false } else none
  | .stopProceeds =>
    if holdAcrossRun && s.executeHoldsMutex then none     -- blocked on the mutex
    else some { s with treeAlive := false, stopReturned := true }

def lockRun (h : Bool) : LockSt → List LockEv → LockSt
  | s, [] => s
  | s, e :: es => match lockStep h s e with
    | some s' => lockRun h s' es
    | none => lockRun h s es     -- a disabled step changes nothing

def duringExecute : LockSt := { executeHoldsMutex := true, treeAlive := true, stopReturned := false }

/-- with the mutex held across the run, no schedule lets Stop() return or the tree die: the state is stuck -/
theorem C05_stop_during_execute_is_stuck (es : List LockEv) : lockRun true duringExecute es = duringExecute := by
  induction es with
  | nil => rfl
  | cons e es ih => cases e <;> simpa [lockRun, lockStep, duringExecute] using ih

/-- without it Stop() proceeds at once -/
example : (lockRun false duringExecute [.stopProceeds]).stopReturned = true := by decide

/-- which of the two the source does (regenerated): `fails` = Execute holds the mutex across cmd.Run() and
    stop() needs it — the recorded finding "Stop() during Execute() blocks" -/
def C05_verdict_stop_can_interrupt_execute :
    Verdict (¬ (Generated.Subproc.executeHoldsMutexAcrossRun = true ∧ Generated.Subproc.stopTakesTheSameMutex = true)) := by
  first
  | exact .holds (by decide)
  | exact .fails (by decide)

theorem C05_group_facts_in_source :
    Generated.Subproc.ok = true ∧ Generated.Subproc.ownProcessGroup = true ∧
    Generated.Subproc.killGroupIsSigkillToMinusPid = true ∧ Generated.Subproc.stopDelayMs = 10 ∧
    Generated.Subproc.stopKillsGroupBeforeWaiting = true := by decide

end GoUtils.Props.C05
