/-
C17 — stale-lock detection is sound: live locks are safe, dead ones recover.
Timed arithmetic over `Generated.Lock.stale` (period, factor, operator, writer sleep extracted from
lockfile.go). Times are nanoseconds; `L` = extra latency of the heart-beat writer beyond its sleep,
`D` = delay between an observer reading an mtime and evaluating the predicate.
-/
import GoUtils.Proofs.LockTime
import GoUtils.Generated.Lock
import GoUtils.Verdict

namespace GoUtils.Props.C17
open GoUtils GoUtils.LockTime

def F : StaleFacts := Generated.Lock.stale

theorem C17_facts_extracted : Generated.Lock.ok = true := by decide

/-- the extracted threshold: stale ⇔ at least (2·period + 1) ms since the stamp the observer read -/
theorem C17_threshold : F.strict = true ∧ staleFromNs F = ((2 * F.periodMs : Nat) + 1) * msNs ∧
    F.statErrorMeansFresh = true ∧ F.emptyDirJudgedByDir = true ∧ F.sleepLessMs ≤ F.periodMs := by decide

/-- SOUNDNESS: a lock is reported stale only if EVERY heart-beat file the observer looked at (or the
    directory itself when there is none) was stamped more than two periods before the decision. -/
theorem C17_sound (listing : Option (List (Option Int))) (dirMtime : Option Int) (now : Int)
    (h : lockIsStale F listing dirMtime now = true) :
    (∃ files, listing = some files ∧ files ≠ [] ∧
        ∀ x ∈ files, ∃ m, x = some m ∧ now - m > (2 * F.periodMs : Nat) * msNs) ∨
    (listing = some [] ∧ ∃ m, dirMtime = some m ∧ now - m > (2 * F.periodMs : Nat) * msNs) := by
  have hs := C17_threshold
  unfold lockIsStale at h
  match listing, h with
  | some [], h =>
    right
    simp only [hs.2.2.2.1, if_true] at h
    match dirMtime, h with
    | some m, h =>
      refine ⟨rfl, m, rfl, ?_⟩
      have := (isStale_iff F m now (Or.inl hs.1)).mp h
      rw [hs.2.1] at this
      simp only [msNs] at *; omega
  | some (f0 :: fs), h =>
    left
    refine ⟨f0 :: fs, rfl, by simp, ?_⟩
    intro x hx
    have hx' := List.all_eq_true.mp h x hx
    match x, hx' with
    | some m, hx' =>
      refine ⟨m, rfl, ?_⟩
      have := (isStale_iff F m now (Or.inl hs.1)).mp hx'
      rw [hs.2.1] at this
      simp only [msNs] at *; omega
    | none, hx' => simp [hs.2.2.1] at hx'

/-- LIVENESS OF THE HOLDER ⇒ SAFETY. The writer stamps at times `stamp i`; consecutive stamps are at
    most `(period − sleepLess) ms + L` apart; an observer reads at time `u` between two stamps a value
    `m` at least as fresh as the last stamp (the file's mtime is that stamp, or the even fresher
    time of the write in progress) and decides at `u' ≤ u + D`. If `L + D` stays below the margin
    `(period + sleepLess + 1) ms` (= 52 ms for the shipped constants) the file is never judged stale. -/
theorem C17_live_lock_safe (stamp : Nat → Int) (L D : Int) (i : Nat) (u u' m : Int)
    (hgap : stamp (i + 1) - stamp i ≤ ((F.periodMs - F.sleepLessMs : Nat) : Int) * msNs + L)
    (hu : stamp i ≤ u ∧ u < stamp (i + 1)) (hm : stamp i ≤ m) (hD : u' - u ≤ D)
    (hmargin : L + D < ((F.periodMs + F.sleepLessMs + 1 : Nat) : Int) * msNs) :
    isStale F m u' = false := by
  have hs := C17_threshold
  have hnot : ¬ (isStale F m u' = true) := by
    rw [isStale_iff F m u' (Or.inl hs.1), hs.2.1]
    have h5 := hs.2.2.2.2
    simp only [msNs] at *
    have e1 : ((F.periodMs - F.sleepLessMs : Nat) : Int) = F.periodMs - F.sleepLessMs := by omega
    have e2 : ((F.periodMs + F.sleepLessMs + 1 : Nat) : Int) = F.periodMs + F.sleepLessMs + 1 := by omega
    have e3 : ((2 * F.periodMs : Nat) : Int) = 2 * F.periodMs := by omega
    rw [e1] at hgap; rw [e2] at hmargin; rw [e3]
    omega
  simpa using hnot

/-- hence no heart-beat-file listing containing such a fresh file makes the lock stale, so
    ReleaseIfStale is a no-op and TryLock answers "locked" (never "stale") -/
theorem C17_live_lock_not_stale (files : List (Option Int)) (dirMtime : Option Int) (now m : Int)
    (hm : some m ∈ files) (hfresh : isStale F m now = false) :
    lockIsStale F (some files) dirMtime now = false := by
  unfold lockIsStale
  match files, hm with
  | f0 :: fs, hm =>
    simp only []
    apply Bool.eq_false_iff.mpr
    intro hall
    have := List.all_eq_true.mp hall (some m) hm
    simp [hfresh] at this

/-- DEAD HOLDER ⇒ RECOVERY. If the holder made no stamp after `death` (whatever the point at which it
    died: after Mkdir, after creating the file, mid-write, in steady state) then from
    `death + (2·period + 1) ms` on every observer that can stat what it lists reports stale. -/
theorem C17_dead_recovers (files : List Int) (dirMtime : Int) (death now : Int)
    (hfiles : ∀ m ∈ files, m ≤ death) (hdir : dirMtime ≤ death)
    (hnow : now ≥ death + ((2 * F.periodMs : Nat) + 1) * msNs) :
    lockIsStale F (some (files.map some)) (some dirMtime) now = true := by
  have hs := C17_threshold
  have key : ∀ m, m ≤ death → isStale F m now = true := by
    intro m hm
    rw [isStale_iff F m now (Or.inl hs.1), hs.2.1]
    simp only [msNs] at *; omega
  unfold lockIsStale
  match files, hfiles with
  | [], _ => simp [hs.2.2.2.1, key dirMtime hdir]
  | f0 :: fs, hfiles =>
    simp only [List.map_cons]
    apply List.all_eq_true.mpr
    intro x hx
    simp only [List.mem_cons, List.mem_map] at hx
    rcases hx with rfl | ⟨m, hm, rfl⟩
    · exact key f0 (hfiles f0 (by simp))
    · exact key m (hfiles m (by simp [hm]))

/-- non-vacuity: the shipped constants (50 ms period, 49 ms sleep) with 1 ms of writer latency and
    2 ms of observer delay satisfy the margin; a file stamped 101 ms ago is stale, 100.999999 ms is not -/
example : (1 * msNs + 2 * msNs : Int) < ((F.periodMs + F.sleepLessMs + 1 : Nat) : Int) * msNs := by decide
example : isStale F 0 101000000 = true ∧ isStale F 0 100999999 = false := by decide

end GoUtils.Props.C17
