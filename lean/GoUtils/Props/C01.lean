/-
C01 — file lock: at most one holder at any instant.

`Model.Lock` is the transition system of the lock directory (atomic Mkdir, successful Remove inside
Unlock, call boundaries, death of a holder) for any number of contenders. The harness `h lockmutex`
runs real contenders (one lock object each, shared backend, MemMapFs and OsFs), linearises the
Mkdir / Remove operations on the lock directory under one mutex, and feeds the event sequence to the
model: an event the model cannot take (e.g. two successful Mkdir without a Remove between) is a
divergence; two simultaneous holders are a violation of the property.
-/
import GoUtils.Proofs.Lock
import GoUtils.Generated.Lock
import GoUtils.Verdict
namespace GoUtils.Props.C01
open GoUtils GoUtils.Lock

/-- the full statement: in every reachable state at most one live contender holds the lock -/
def C01_Statement : Prop := ∀ (es : List Ev) (s : St), run St.init es = some s → s.holds.length ≤ 1

/-- W1 — the retry loop of Unlock removes the successor's lock: A releases, B acquires, A's re-check
    "does the directory still exist?" sees B's directory and removes it, C acquires: B and C hold -/
def w1 : List Ev := [.mkOk 0, .unlockBegin 0, .rmOk 0, .mkOk 1, .rmOk 0, .unlockEnd 0, .mkOk 2]

/-- W2 — two contenders judge the same dead holder's lock stale; each releases "the stale lock" and
    acquires; the second release removes the first one's fresh lock -/
def w2 : List Ev := [.mkOk 9, .die 9, .mkFail 1, .mkFail 2, .unlockBegin 1, .rmOk 1, .unlockEnd 1, .mkOk 1,
                     .unlockBegin 2, .rmOk 2, .unlockEnd 2, .mkOk 2]

theorem C01_w1_two_holders : (run St.init w1).map (fun s => (s.holds, s.foreign)) = some ([2, 1], 1) := by decide
theorem C01_w2_two_holders : (run St.init w2).map (fun s => (s.holds, s.foreign)) = some ([2, 1], 1) := by decide

def C01_verdict_mutual_exclusion : Verdict C01_Statement := by
  first
  | exact .fails (fun h => by
      have h1 := C01_w1_two_holders
      cases hr : run St.init w1 with
      | none => rw [hr] at h1; simp at h1
      | some s =>
        have := h w1 s hr
        rw [hr] at h1
        simp only [Option.map_some, Option.some.injEq, Prod.mk.injEq] at h1
        rw [h1.1] at this
        simp at this)

/-- what DOES hold, for any number of contenders and any history: without a removal of a live
    contender's directory by somebody else, at most one holder — so the two windows above (Unlock's
    re-check and retry after a successor acquired; releases of a lock judged stale by several
    contenders) and Unlock by a non-holder are the only ways mutual exclusion is lost -/
theorem C01_mutex_partial (es : List Ev) (s : St) (h : run St.init es = some s) (hf : s.foreign = 0) :
    s.holds.length ≤ 1 :=
  holds_le_one (mutex_of_no_foreign_removal es St.init s good_init h (by simpa [St.init] using hf))

/-- a successful Mkdir means the directory was absent; a release by its creator leaves nobody holding -/
theorem C01_mkdir_exclusive (s s' : St) (i : Nat) (h : step s (.mkOk i) = some s') : s.dir = none ∧ s'.dir = some i := by
  simp only [step] at h
  split at h
  · rename_i hc; simp at h; subst h; exact ⟨hc.1, rfl⟩
  · cases h

/-- non-vacuity: three contenders, acquire / release cycles, a dead holder taken over by one contender,
    no foreign removal -/
def cycles : List Ev := [.mkOk 0, .mkFail 1, .unlockBegin 0, .rmOk 0, .unlockEnd 0, .mkOk 1, .mkFail 2, .die 1,
                         .mkFail 2, .unlockBegin 2, .rmOk 2, .unlockEnd 2, .mkOk 2, .mkFail 0]
example : (run St.init cycles).map (fun s => (s.holds, s.foreign)) = some ([2], 0) := by decide

/-- the constants the timing side relies on are those of C17 (regenerated there) -/
theorem C01_facts_extracted : Generated.Lock.ok = true := by decide

end GoUtils.Props.C01
