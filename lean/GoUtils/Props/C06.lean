/-
C06 — the filesystem API follows its documented semantics on every backend.

`Model.Fs` is the REFERENCE MODEL the property speaks of (mkdir -p, touch, write, read, ls, rm -rf,
cp -r with the library's destination-shape rules, mv) — the specification side. The implementation
(*VFS over MemMapFs and OsFs) is tied to it call by call by the harness `h fsprog`, which feeds the
same programs to `Fs.step` through the driver. What Lean proves here is that the reference model
itself has the properties of the second sentence for EVERY tree, path and program — so that "the
implementation behaves as the model" carries them over — plus the facts, regenerated from the
source on every run, that the refusal / no-op branches of the model are present in the code.
-/
import GoUtils.Proofs.Fs
import GoUtils.Proofs.FsTerm
import GoUtils.Proofs.FsTerm2
import GoUtils.Proofs.FsSem
import GoUtils.Generated.Fs
import GoUtils.Verdict
namespace GoUtils.Props.C06
open GoUtils GoUtils.Fs

/-- the guards of Copy / Move the model's refusal and no-op branches stand for are in the source,
    each before the first statement that touches the destination (regenerated on every run) -/
theorem C06_guards_in_source :
    Generated.Fs.ok = true ∧ Generated.Fs.copySelfNoop = true ∧ Generated.Fs.copyIntoItselfRefused = true ∧
    Generated.Fs.copyFileOntoItselfNoop = true ∧ Generated.Fs.copyDstRule = true ∧
    Generated.Fs.moveSelfNoop = true ∧ Generated.Fs.moveBelowItselfRefused = true ∧
    Generated.Fs.isSubPathLexical = true := by decide

/-- "never alters or removes anything other than its destination", one call: whatever the arguments
    (kind conflicts included), outside the targets of the call (`Op.targets`: the path written,
    created, removed or cleaned; the destination of a copy; source and destination of a move) every
    path keeps the node it had — or had none and is now a directory on the way to a target. -/
theorem C06_call_frame (t : Tree) (op : Op) (r : Res) (t' : Tree) (h : step t op = some (r, t')) :
    ∀ q, (∀ x ∈ op.targets, under x q = false) →
      lookup t' q = lookup t q ∨
      (lookup t q = none ∧ lookup t' q = some .dir ∧ ∃ x ∈ op.targets, under q x = true) :=
  step_frame t op r t' h

/-- the same for every program: a path unrelated to all targets is untouched by the whole program -/
theorem C06_program_frame (ops : List Op) (t t' : Tree) (h : run t ops = some t') (q : Path)
    (hq : ∀ op ∈ ops, ∀ x ∈ op.targets, under x q = false ∧ under q x = false) :
    lookup t' q = lookup t q :=
  run_frame ops t t' h q hq

/-- "a copy never changes its source": when neither lies inside the other, every path at or below the
    source is after the copy what it was before (nothing altered, removed or ADDED), for every fuel,
    tree and result — success or failure. -/
theorem C06_copy_source_unchanged (fuel : Nat) (t : Tree) (src dest : Path) (sl : Bool) (r : Res) (t' : Tree)
    (h : copy fuel t src dest sl = some (r, t'))
    (h1 : under src dest = false) (h2 : under dest src = false) :
    ∀ q, under src q = true → lookup t' q = lookup t q := by
  intro q hq
  have hdq : under dest q = false := by
    cases hd : under dest q with
    | false => rfl
    | true =>
      rcases under_comparable hq hd with c | c
      · rw [c] at h1; cases h1
      · rw [c] at h2; cases h2
  rcases copy_frame fuel t src dest sl r t' h q hdq with a | ⟨_, _, a3⟩
  · exact a
  · rw [under_trans hq a3] at h1; cases h1

/-- "a call terminates", for Copy with source and destination apart from each other (neither a prefix of
    the other): for EVERY tree, with fuel above the depth of the source subtree — here the total length of
    the tree's paths + 1 — the model's copy returns an answer. -/
theorem C06_copy_terminates_apart (t : Tree) (src dest : Path) (sl : Bool)
    (h1 : under src dest = false) (h2 : under dest src = false) :
    (copy (totalLen t + 1) t src dest sl).isSome = true :=
  copy_returns t src dest sl ⟨h1, h2⟩

/-- "a call terminates", Copy in EVERY case — source and destination apart, the source below the
    destination directory (the copy then reads the very subtree it writes into: it returns because no
    entry it creates is longer than the entry it comes from), the destination inside the source (refused,
    or one step for a file), source = destination (no-op; with a trailing separator: the directory is
    copied under its own name, the child of that name being the destination itself). -/
theorem C06_copy_always_returns (t : Tree) (src dest : Path) (sl : Bool) :
    (copy (fuelFor t) t src dest sl).isSome = true :=
  copy_always_returns t src dest sl

/-- "a call terminates", Move in every case (below itself: refused; towards a place that is not deeper:
    path lengths do not grow; between unrelated places: below the source the move only removes) -/
theorem C06_move_always_returns (t : Tree) (src dest : Path) : (move (fuelFor t) t src dest).isSome = true :=
  move_always_returns t src dest

/-- "a call terminates": every one of the 15 calls of the reference model returns on every tree, and every
    program runs to its end — the reference model never answers "does not return", so a call of the
    implementation that does not return (the harness watches for it) can never agree with it. -/
theorem C06_every_call_returns (t : Tree) (op : Op) : (step t op).isSome = true := step_returns t op

theorem C06_every_program_returns (ops : List Op) (t : Tree) : (run t ops).isSome = true := run_returns ops t

/-- a copy or move towards a place that is not deeper than its source (in particular: the source lies
    below the destination) never makes a path longer than the longest one before: with any bound `L` on
    the tree's path lengths and fuel above `L − |src|` it returns a tree with the same bound -/
theorem C06_copy_below_destination_bounded (fuel : Nat) (t : Tree) (src dest : Path) (sl : Bool) (L : Nat)
    (hL : ∀ e ∈ t, e.1.length ≤ L) (hlen : dest.length < src.length) (h0 : 0 < fuel) (hf : L < fuel + src.length) :
    ∃ r t', copy fuel t src dest sl = some (r, t') ∧ ∀ e ∈ t', e.1.length ≤ L :=
  copy_terminates_shallow fuel t src dest sl L hL hlen h0 hf

theorem C06_move_not_deeper_bounded (fuel : Nat) (t : Tree) (src dest : Path) (L : Nat)
    (hL : ∀ e ∈ t, e.1.length ≤ L) (hlen : dest.length ≤ src.length) (h0 : 0 < fuel) (hf : L < fuel + src.length) :
    ∃ r t', move fuel t src dest = some (r, t') ∧ ∀ e ∈ t', e.1.length ≤ L :=
  move_terminates_shallow fuel t src dest L hL hlen h0 hf

/-- … and while it runs nothing at or below the source is added, altered or removed, even as a list of
    entries (not only through `lookup`) -/
theorem C06_copy_source_subtree_identical (fuel : Nat) (t : Tree) (src dest : Path) (sl : Bool) (r : Res) (t' : Tree)
    (h : copy fuel t src dest sl = some (r, t')) (h1 : under src dest = false) (h2 : under dest src = false) :
    sub t' src = sub t src :=
  copy_sub fuel t src dest sl r t' h src ⟨h1, h2⟩

/-- overlap, source = destination: nothing happens -/
theorem C06_copy_onto_itself (fuel : Nat) (t : Tree) (p : Path) :
    copy (fuel + 1) t p p false = some (.ok, t) := by simp [copy]

/-- overlap, destination inside the source directory: refused, nothing happens -/
theorem C06_copy_into_itself_refused (fuel : Nat) (t : Tree) (src dest : Path) (sl : Bool)
    (hd : isDir t src = true) (hu : under src dest = true) (hne : src ≠ dest) :
    copy (fuel + 1) t src dest sl = some (.err .invalid, t) := by
  have hex : exists_ t src = true := by unfold isDir at hd; unfold exists_; cases h : lookup t src <;> simp_all
  simp [copy, hne, hex, hd, hu]

/-- a move below itself is refused, a move onto itself does nothing -/
theorem C06_move_below_itself_refused (fuel : Nat) (t : Tree) (src dest : Path)
    (hex : exists_ t src = true) (hu : under src dest = true) (hne : src ≠ dest) :
    move (fuel + 1) t src dest = some (.err .invalid, t) := by
  simp [move, hne, hex, hu]

theorem C06_move_onto_itself (fuel : Nat) (t : Tree) (p : Path) : move (fuel + 1) t p p = some (.ok, t) := by
  simp [move]

/-- mkdir -p: ok exactly when no regular file is in the way, and then the path is a directory;
    nothing that existed is replaced -/
theorem C06_mkdir_p (t : Tree) (p : Path) :
    ((mkdirAll t p).1 = .ok → isDir (mkdirAll t p).2 p = true) ∧
    (∀ q n, lookup t q = some n → lookup (mkdirAll t p).2 q = some n) :=
  ⟨mkdirAll_ok_isDir t p, fun q n h => mkdirAll_keeps t p q n h⟩

/-- rm -rf: nothing is left at or below the path, everything else is as before -/
theorem C06_rm_rf (t : Tree) (p q : Path) (hq : q ≠ []) :
    (under p q = true → lookup (rm t p).2 q = none) ∧ (under p q = false → lookup (rm t p).2 q = lookup t q) :=
  ⟨rm_removes t p q hq, fun h => by
    unfold rm
    split
    · rename_i hp; subst hp; rw [under_nil] at h; cases h
    · exact lookup_removeUnder_outside _ _ _ h⟩

/-- a successful write is what a later lookup finds -/
theorem C06_write_read (t : Tree) (p : Path) (c : Nat) (h : (writeFile t p c).1 = .ok) :
    readFile (writeFile t p c).2 p = (if c = 0 then .err .empty else .content c) := by
  unfold readFile; rw [write_then_lookup t p c h]

/-- cp of a file to a place that does not exist: found there with its content, the source kept -/
theorem C06_copy_file_arrives (fuel : Nat) (t : Tree) (src dest : Path) (c : Nat) (t' : Tree)
    (hsrc : lookup t src = some (.file c)) (hdest : lookup t dest = none)
    (h : copy (fuel + 1) t src dest false = some (.ok, t')) :
    lookup t' dest = some (.file c) ∧ lookup t' src = some (.file c) :=
  copy_file_to_missing fuel t src dest c .ok t' hsrc hdest h

/-- mv of a file to a place that does not exist: found there with its content, the source gone -/
theorem C06_move_file_arrives (fuel : Nat) (t : Tree) (src dest : Path) (c : Nat) (t' : Tree)
    (hsrc : lookup t src = some (.file c)) (hdest : lookup t dest = none)
    (h : move (fuel + 1) t src dest = some (.ok, t')) :
    lookup t' dest = some (.file c) ∧ lookup t' src = none :=
  move_file_to_missing fuel t src dest c t' hsrc hdest h

/-- mv of a directory to a place where nothing is: the whole subtree is found under the destination, entry for
    entry (files with their content, directories, and nothing that was not there), and nothing is left at or
    below the source -/
theorem C06_move_directory_arrives (fuel : Nat) (t : Tree) (src dest : Path) (t' : Tree)
    (hsrc : lookup t src = some .dir) (hs0 : src ≠ []) (hfree : ∀ e ∈ t, under dest e.1 = false)
    (hap : under dest src = false) (h : move (fuel + 1) t src dest = some (.ok, t')) :
    ∀ rel, lookup t' (dest ++ rel) = lookup t (src ++ rel) ∧ lookup t' (src ++ rel) = none :=
  move_dir_to_missing fuel t src dest t' hsrc hs0 hfree hap h

/-! non-vacuity: a program with an overlapping copy, a move and a removal on a concrete tree returns,
    and a bystander below a sibling directory is untouched (the hypotheses of `C06_program_frame`
    hold for it) -/
def sampleTree : Tree := [([1], .dir), ([1, 2], .file 3), ([2], .dir), ([2, 9], .file 7)]
def sampleProg : List Op := [.cp [1] [1, 5] false, .cp [1] [3] true, .mv [3] [4], .rm [1], .mkdir [4, 1, 1]]

example : (run sampleTree sampleProg).isSome = true := by decide
-- the hypotheses of the three "arrives" theorems are met on the sample tree
example : lookup sampleTree [1, 2] = some (.file 3) ∧ lookup sampleTree [5] = none ∧
    (copy 9 sampleTree [1, 2] [5] false).map (·.1) = some .ok ∧ (move 9 sampleTree [1, 2] [5]).map (·.1) = some .ok := by decide
example : lookup sampleTree [1] = some .dir ∧ (∀ e ∈ sampleTree, under [5] e.1 = false) ∧ under [5] [1] = false ∧
    (move 9 sampleTree [1] [5]).map (·.1) = some .ok := by decide
-- the overlap cases really recurse: a source below its destination, and a directory copied under its own name
example : ((copy (fuelFor sampleTree) sampleTree [1, 2] [1] false).map fun x => (x.1, lookup x.2 [1, 2])) = some (.ok, some (.file 3)) := by decide
example : ((copy (fuelFor sampleTree) sampleTree [1] [1] true).map fun x => lookup x.2 [1, 1, 2]) = some (some (.file 3)) := by decide
example : ((move (fuelFor sampleTree) sampleTree [1] [2]).map fun x => (lookup x.2 [2, 2], lookup x.2 [1])) = some (some (.file 3), none) := by decide
example : ∀ op ∈ sampleProg, ∀ x ∈ op.targets, under x [2, 9] = false ∧ under [2, 9] x = false := by decide
example : (run sampleTree sampleProg).map (fun t => lookup t [2, 9]) = some (some (.file 7)) := by decide

/-! ### CopyToDirectory / CopyToFile (`Model.Fs.copyToDirectory`, `copyToFile`: what the driver runs for `cpd` / `cpf`) -/

/-- "never alters or removes anything other than its destination": copy to directory -/
theorem C06_copyToDirectory_frame (t : Tree) (s d : Path) (sl : Bool) (r : Res) (t' : Tree)
    (h : copyToDirectory t s d sl = some (r, t')) : StepFrame t t' [d] := copyToDirectory_frame t s d sl r t' h

/-- … and copy to file -/
theorem C06_copyToFile_frame (t : Tree) (s d : Path) (sl : Bool) (r : Res) (t' : Tree)
    (h : copyToFile t s d sl = some (r, t')) : StepFrame t t' [d] := copyToFile_frame t s d sl r t' h

/-- "whatever its arguments, a call terminates": both return on the reference model -/
theorem C06_copyToDirectory_returns (t : Tree) (s d : Path) (sl : Bool) : (copyToDirectory t s d sl).isSome = true := by
  unfold copyToDirectory
  have h1 := step_returns t (.mkdir d)
  cases hm : step t (.mkdir d) with
  | none => rw [hm] at h1; cases h1
  | some rt =>
    obtain ⟨r1, t1⟩ := rt
    cases r1 <;> first | rfl | exact step_returns t1 (.cp s d sl)

theorem C06_copyToFile_returns (t : Tree) (s d : Path) (sl : Bool) : (copyToFile t s d sl).isSome = true := by
  unfold copyToFile
  split
  · rfl
  · split
    · split
      · rfl
      · exact step_returns t (.cp s d false)
    · split
      · rfl
      · exact step_returns t (.cp s d false)

/-- non-vacuity: a directory copied into a missing directory lands under its own name, as `cp -r src dir/` does -/
example : (copyToDirectory [([1], .dir), ([1, 2], .file 5)] [1] [7] false).map (fun x => (x.1, lookup x.2 [7, 1, 2])) =
    some (.ok, some (.file 5)) := by decide

end GoUtils.Props.C06
