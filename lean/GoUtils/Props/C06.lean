import GoUtils.Model.Fs
import GoUtils.Verdict
namespace GoUtils.Props.C06
open GoUtils GoUtils.Fs
/-- placeholder obligation while the refinement theorems are being written -/
theorem C06_root_is_dir (t : Tree) : isDir t [] = true := by simp [isDir, lookup]
end GoUtils.Props.C06
