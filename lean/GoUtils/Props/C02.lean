/-
C02 — unzip never writes outside the destination (zip-slip).
`Generated.Zip.sanitise`: shape of sanitiseZipExtractPath and its position in the unzip loop
(before every mutating call; destination cleaned first). Lemmas: Proofs/ZipPath.lean.
-/
import GoUtils.Proofs.ZipPath
import GoUtils.Generated.Zip
import GoUtils.Verdict

namespace GoUtils.Props.C02
open GoUtils GoUtils.Path GoUtils.ZipPath

theorem C02_facts_extracted : Generated.Zip.ok = true := by decide

theorem C02_facts_canonical : Generated.Zip.sanitise.canonical := by
  simp [SanitiseFacts.canonical, Generated.Zip.sanitise]

/-- For EVERY destination and EVERY entry name (arbitrary bytes): a path accepted by the sanitiser is
    the destination itself or a lexical descendant of it reached through components none of which is
    `..`. The proof does not depend on what `filepath.Join` / `Clean` compute. An entry that does not
    satisfy this is rejected (`none` = 'suspected malicious intent') and, by the extracted loop order,
    before any mutating operation of that iteration. -/
theorem C02_sanitise_sound (dest name p : Bytes)
    (h : sanitise Generated.Zip.sanitise dest name = some p) : Under dest p :=
  sanitise_under _ C02_facts_canonical dest name p h

theorem C02_reject_before_mutation :
    Generated.Zip.sanitise.sanitiseBeforeMutation = true ∧ Generated.Zip.sanitise.cleansDestination = true := by
  decide

/-- containment is transitive: what is under a directory that is under the destination is under the
    destination (used for nested archives, whose own entries are sanitised against the nested
    destination) -/
theorem C02_under_trans (a b c : Bytes) (h1 : Under a b) (h2 : Under b c) : Under a c := by
  rcases h1 with rfl | ⟨r1, rfl, hr1⟩
  · exact h2
  · rcases h2 with rfl | ⟨r2, rfl, hr2⟩
    · exact Or.inr ⟨r1, rfl, hr1⟩
    · right
      refine ⟨r1 ++ slash :: r2, by simp, ?_⟩
      intro c hc
      rw [splitSlash_append] at hc
      rcases List.mem_append.mp hc with h | h
      · exact hr1 c h
      · exact hr2 c h

end GoUtils.Props.C02
