/-
C10 — numeric conversions saturate: never wrap, never rely on an implementation-defined conversion.

All statements are about `Generated.Cast` (facts regenerated from cast.go / boundary.go on every
run) interpreted by `Model.Cast`. Only statements, verdicts and non-vacuity examples live here;
the lemmas are in `Proofs/Cast.lean`.
-/
import GoUtils.Proofs.Cast
import GoUtils.Verdict

namespace GoUtils.Props.C10
open GoUtils GoUtils.Cast GoUtils.Generated.Cast

/-- the 12 built-in source kinds: 10 integer types, float32, float64 (not named types over floats;
    named types over integers behave exactly like their underlying type and are the `.int` kinds) -/
def Builtin : SrcKind → Prop
  | .int _ => True
  | .f32 named => named = false
  | .f64 named => named = false

/-- "returns the source value with its fraction dropped when that lies in the target's range, and
    otherwise the target's minimum or maximum, whichever is nearer" for a class `K` of source
    kinds: for every generated `ToX`, every kind in `K`, every value of that kind (NaN excluded). -/
def Saturates (K : SrcKind → Prop) : Prop :=
  ∀ c ∈ fns, ∀ k v, K k → ValidFor k v → c.eval less greater k v = spec c.tgt v

/-- The facts were extracted (not the fail-closed placeholder). -/
theorem C10_facts_extracted : Generated.Cast.ok = true := by decide

/-- All ten target types are covered by the generated functions. -/
theorem C10_targets_covered : ∀ t ∈ IntTy.all, ∃ c ∈ fns, c.tgt = t := by decide

/-- Saturation for all built-in source kinds, all ten targets, every value (all integers of the
    source type; all rationals and ±Inf for the floats). -/
theorem C10_saturates_builtin : Saturates Builtin := by
  intro c hc k v hk hv
  match k, v, hk, hv with
  | .int s, .int v, _, hv => simpa [spec] using int_case c hc s v hv
  | .f32 false, .flt (.fin n d), _, hv => simpa [spec] using f32_case c hc n d hv
  | .f64 false, .flt (.fin n d), _, hv => simpa [spec] using f64_case c hc n d hv
  | .f32 false, .flt .pinf, _, _ => simpa [spec] using inf_case c hc (.f32 false) (Or.inr rfl) true
  | .f32 false, .flt .ninf, _, _ => simpa [spec] using inf_case c hc (.f32 false) (Or.inr rfl) false
  | .f64 false, .flt .pinf, _, _ => simpa [spec] using inf_case c hc (.f64 false) (Or.inl rfl) true
  | .f64 false, .flt .ninf, _, _ => simpa [spec] using inf_case c hc (.f64 false) (Or.inl rfl) false

/-- Totality: on built-in kinds the code never relies on an implementation-defined float→integer
    conversion (so it cannot panic or depend on the CPU). -/
theorem C10_total_builtin :
    ∀ c ∈ fns, ∀ k v, Builtin k → ValidFor k v → (c.eval less greater k v).isSome = true := by
  intro c hc k v hk hv
  rw [C10_saturates_builtin c hc k v hk hv]
  match k, v, hv with
  | .int _, .int _, _ => rfl
  | .f32 _, .flt (.fin _ _), _ => rfl
  | .f64 _, .flt (.fin _ _), _ => rfl
  | .f32 _, .flt .pinf, _ => rfl
  | .f32 _, .flt .ninf, _ => rfl
  | .f64 _, .flt .pinf, _ => rfl
  | .f64 _, .flt .ninf, _ => rfl

/-- Non-vacuity: the hypotheses are met by concrete, non-trivial inputs
    (float64 255.5 → int8, and uint64 max → int32). -/
example : Builtin (.f64 false) ∧ ValidFor (.f64 false) (.flt (.fin 511 2)) := by
  simp [Builtin, ValidFor]
example : ∃ c ∈ fns, c.eval less greater (.f64 false) (.flt (.fin 511 2)) = some 127 := by decide
example : ∃ c ∈ fns, c.eval less greater (.int .u64) (.int 18446744073709551615) = some 2147483647 := by
  decide


/-! ### monotonicity -/

/-- the order on source values: integers as usual, finite floats as rationals, −Inf below and +Inf above
    everything (NaN is not ordered) -/
def Val.le : Val → Val → Prop
  | .int v, .int w => v ≤ w
  | .flt (.fin n1 d1), .flt (.fin n2 d2) => n1 * d2 ≤ n2 * d1
  | .flt .ninf, .flt (.fin _ _) | .flt .ninf, .flt .pinf | .flt .ninf, .flt .ninf => True
  | .flt (.fin _ _), .flt .pinf | .flt .pinf, .flt .pinf => True
  | _, _ => False

theorem clamp_mono (lo hi a b : Int) (h : a ≤ b) (hlh : lo ≤ hi) : clamp lo hi a ≤ clamp lo hi b := by
  unfold clamp; split <;> split <;> (try split) <;> (try split) <;> omega

theorem clamp_bounds (lo hi a : Int) (hlh : lo ≤ hi) : lo ≤ clamp lo hi a ∧ clamp lo hi a ≤ hi := by
  unfold clamp; split <;> (try split) <;> omega

theorem intTy_min_le_max (t : IntTy) : t.min ≤ t.max := by cases t <;> decide

/-- the specification is monotone: a larger source value never yields a smaller result -/
theorem spec_mono (t : IntTy) (k : SrcKind) (v w : Val) (hv : ValidFor k v) (hw : ValidFor k w) (h : Val.le v w) :
    ∃ a b, spec t v = some a ∧ spec t w = some b ∧ a ≤ b := by
  have hmm := intTy_min_le_max t
  match v, w, h with
  | .int v, .int w, h => exact ⟨_, _, rfl, rfl, clamp_mono _ _ _ _ h hmm⟩
  | .flt (.fin n1 d1), .flt (.fin n2 d2), h =>
    have hd1 : (0 : Int) < d1 := by cases k <;> simp [ValidFor] at hv <;> omega
    have hd2 : (0 : Int) < d2 := by cases k <;> simp [ValidFor] at hw <;> omega
    refine ⟨_, _, rfl, rfl, clamp_mono _ _ _ _ ?_ hmm⟩
    -- bring both rationals to the denominator d1 * d2
    have e1 : n1.tdiv d1 = (d2 * n1).tdiv (d2 * d1) := (Int.mul_tdiv_mul_of_pos n1 d1 hd2).symm
    have e2 : n2.tdiv d2 = (d1 * n2).tdiv (d1 * d2) := (Int.mul_tdiv_mul_of_pos n2 d2 hd1).symm
    rw [e1, e2, Int.mul_comm d1 (d2 : Int)]
    apply Int.tdiv_le_tdiv (Int.mul_pos hd2 hd1)
    simp only [Val.le] at h
    rw [Int.mul_comm (d2 : Int) n1, Int.mul_comm (d1 : Int) n2]
    exact h
  | .flt .ninf, .flt (.fin n d), _ => exact ⟨_, _, rfl, rfl, (clamp_bounds _ _ _ hmm).1⟩
  | .flt .ninf, .flt .pinf, _ => exact ⟨_, _, rfl, rfl, hmm⟩
  | .flt .ninf, .flt .ninf, _ => exact ⟨_, _, rfl, rfl, Int.le_refl _⟩
  | .flt (.fin n d), .flt .pinf, _ => exact ⟨_, _, rfl, rfl, (clamp_bounds _ _ _ hmm).2⟩
  | .flt .pinf, .flt .pinf, _ => exact ⟨_, _, rfl, rfl, Int.le_refl _⟩

/-- MONOTONE: for every generated `ToX`, every built-in source kind and any two values of it, a larger
    source value never converts to a smaller result (all integers, all rationals, ±Inf) -/
theorem C10_monotone_builtin :
    ∀ c ∈ fns, ∀ k v w, Builtin k → ValidFor k v → ValidFor k w → Val.le v w →
      ∃ a b, c.eval less greater k v = some a ∧ c.eval less greater k w = some b ∧ a ≤ b := by
  intro c hc k v w hk hv hw h
  rw [C10_saturates_builtin c hc k v hk hv, C10_saturates_builtin c hc k w hk hw]
  exact spec_mono c.tgt k v w hv hw h

/-- The FULL statement of the property: every source kind, *including named types over floats*. -/
def C10_Statement : Prop := Saturates (fun _ => True)

/-- A named float type takes the integer (`default`) branch of the type switch; for values outside
    the range of the intermediate 64-bit conversion the result is implementation-defined. -/
theorem named_float_witness :
    ∃ c ∈ fns, c.eval less greater (.f64 true) (.flt .pinf) ≠ spec c.tgt (.flt .pinf) := by
  decide

/-- Verdict on the full statement for the current tree. `fails` carries the witness
    `ToUint64(F(+Inf))`, `type F float64`, which the check replays on the real code. -/
def C10_verdict_full : Verdict C10_Statement := by
  first
  | exact .fails (fun h => by
      obtain ⟨c, hc, hne⟩ := named_float_witness
      exact hne (h c hc (.f64 true) (.flt .pinf) trivial trivial))

end GoUtils.Props.C10
