/-
C10 — numeric conversions saturate: never wrap, never rely on an implementation-defined conversion.

All statements are about `Generated.Cast` (facts regenerated from cast.go / boundary.go on every
run) interpreted by `Model.Cast`. Only statements, verdicts and non-vacuity examples live here;
the lemmas are in `Proofs/Cast.lean`.
-/
import GoUtils.Proofs.Cast
import GoUtils.Verdict

namespace GoUtils.Props.C10
open GoUtils GoUtils.Cast GoUtils.Generated.Cast

/-- the 12 built-in source kinds: 10 integer types, float32, float64 (not named types over floats;
    named types over integers behave exactly like their underlying type and are the `.int` kinds) -/
def Builtin : SrcKind → Prop
  | .int _ => True
  | .f32 named => named = false
  | .f64 named => named = false

/-- "returns the source value with its fraction dropped when that lies in the target's range, and
    otherwise the target's minimum or maximum, whichever is nearer" for a class `K` of source
    kinds: for every generated `ToX`, every kind in `K`, every value of that kind (NaN excluded). -/
def Saturates (K : SrcKind → Prop) : Prop :=
  ∀ c ∈ fns, ∀ k v, K k → ValidFor k v → c.eval less greater k v = spec c.tgt v

/-- The facts were extracted (not the fail-closed placeholder). -/
theorem C10_facts_extracted : Generated.Cast.ok = true := by decide

/-- All ten target types are covered by the generated functions. -/
theorem C10_targets_covered : ∀ t ∈ IntTy.all, ∃ c ∈ fns, c.tgt = t := by decide

/-- Saturation for all built-in source kinds, all ten targets, every value (all integers of the
    source type; all rationals and ±Inf for the floats). -/
theorem C10_saturates_builtin : Saturates Builtin := by
  intro c hc k v hk hv
  match k, v, hk, hv with
  | .int s, .int v, _, hv => simpa [spec] using int_case c hc s v hv
  | .f32 false, .flt (.fin n d), _, hv => simpa [spec] using f32_case c hc n d hv
  | .f64 false, .flt (.fin n d), _, hv => simpa [spec] using f64_case c hc n d hv
  | .f32 false, .flt .pinf, _, _ => simpa [spec] using inf_case c hc (.f32 false) (Or.inr rfl) true
  | .f32 false, .flt .ninf, _, _ => simpa [spec] using inf_case c hc (.f32 false) (Or.inr rfl) false
  | .f64 false, .flt .pinf, _, _ => simpa [spec] using inf_case c hc (.f64 false) (Or.inl rfl) true
  | .f64 false, .flt .ninf, _, _ => simpa [spec] using inf_case c hc (.f64 false) (Or.inl rfl) false

/-- Totality: on built-in kinds the code never relies on an implementation-defined float→integer
    conversion (so it cannot panic or depend on the CPU). -/
theorem C10_total_builtin :
    ∀ c ∈ fns, ∀ k v, Builtin k → ValidFor k v → (c.eval less greater k v).isSome = true := by
  intro c hc k v hk hv
  rw [C10_saturates_builtin c hc k v hk hv]
  match k, v, hv with
  | .int _, .int _, _ => rfl
  | .f32 _, .flt (.fin _ _), _ => rfl
  | .f64 _, .flt (.fin _ _), _ => rfl
  | .f32 _, .flt .pinf, _ => rfl
  | .f32 _, .flt .ninf, _ => rfl
  | .f64 _, .flt .pinf, _ => rfl
  | .f64 _, .flt .ninf, _ => rfl

/-- Non-vacuity: the hypotheses are met by concrete, non-trivial inputs
    (float64 255.5 → int8, and uint64 max → int32). -/
example : Builtin (.f64 false) ∧ ValidFor (.f64 false) (.flt (.fin 511 2)) := by
  simp [Builtin, ValidFor]
example : ∃ c ∈ fns, c.eval less greater (.f64 false) (.flt (.fin 511 2)) = some 127 := by decide
example : ∃ c ∈ fns, c.eval less greater (.int .u64) (.int 18446744073709551615) = some 2147483647 := by
  decide

/-- The FULL statement of the property: every source kind, *including named types over floats*. -/
def C10_Statement : Prop := Saturates (fun _ => True)

/-- A named float type takes the integer (`default`) branch of the type switch; for values outside
    the range of the intermediate 64-bit conversion the result is implementation-defined. -/
theorem named_float_witness :
    ∃ c ∈ fns, c.eval less greater (.f64 true) (.flt .pinf) ≠ spec c.tgt (.flt .pinf) := by
  decide

/-- Verdict on the full statement for the current tree. `fails` carries the witness
    `ToUint64(F(+Inf))`, `type F float64`, which the check replays on the real code. -/
def C10_verdict_full : Verdict C10_Statement := by
  first
  | exact .fails (fun h => by
      obtain ⟨c, hc, hne⟩ := named_float_witness
      exact hne (h c hc (.f64 true) (.flt .pinf) trivial trivial))

end GoUtils.Props.C10
