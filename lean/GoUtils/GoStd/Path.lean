/-
GoStd.Path — byte-level models of path/filepath functions for the '/' separator (Unix):
Clean, Join, Dir, Base, Ext, plus strings.Contains / HasPrefix. Validated differentially against
the Go standard library by the harness (`h zippath`); the containment theorems of C02 do not depend
on what `clean` computes.
-/
namespace GoUtils.Path

abbrev Bytes := List Nat

def slash : Nat := 47
def dot : Nat := 46
def dotdot : Bytes := [46, 46]

def hasPrefix : Bytes → Bytes → Bool
  | _, [] => true
  | [], _ :: _ => false
  | a :: as, b :: bs => a == b && hasPrefix as bs

def containsSub : Bytes → Bytes → Bool
  | [], needle => needle.isEmpty
  | h :: hs, needle => hasPrefix (h :: hs) needle || containsSub hs needle

def splitSlash : Bytes → List Bytes
  | [] => [[]]
  | c :: cs =>
    if c = slash then [] :: splitSlash cs
    else match splitSlash cs with
      | [] => [[c]]
      | l :: ls => (c :: l) :: ls

def joinSlash : List Bytes → Bytes
  | [] => []
  | [x] => x
  | x :: xs => x ++ slash :: joinSlash xs

/-- one step of Clean over the stack of kept components (top first) -/
def cleanStep (rooted : Bool) (st : List Bytes) (c : Bytes) : List Bytes :=
  if c = [] ∨ c = [dot] then st
  else if c = dotdot then
    match st with
    | top :: rest => if top = dotdot then c :: st else rest
    | [] => if rooted then [] else [c]
  else c :: st

/-- `filepath.Clean` -/
def clean (p : Bytes) : Bytes :=
  if p = [] then [dot] else
  let rooted := p.head? == some slash
  let st := (splitSlash p).foldl (cleanStep rooted) []
  let body := joinSlash st.reverse
  if rooted then slash :: body else if body = [] then [dot] else body

/-- `filepath.Join` -/
def join (elems : List Bytes) : Bytes :=
  let ne := elems.filter (· ≠ [])
  if ne = [] then [] else clean (joinSlash ne)

/-- index-free helpers on the last '/' -/
def lastSlashSplit (p : Bytes) : Bytes × Bytes :=   -- (up to and including the last '/', rest)
  let r := p.reverse
  let file := (r.takeWhile (· ≠ slash)).reverse
  let dir := (r.dropWhile (· ≠ slash)).reverse
  (dir, file)

/-- `filepath.Dir` -/
def dir (p : Bytes) : Bytes := clean (lastSlashSplit p).1

def stripTrailingSlashes (p : Bytes) : Bytes := (p.reverse.dropWhile (· = slash)).reverse

/-- `filepath.Base` -/
def base (p : Bytes) : Bytes :=
  if p = [] then [dot] else
  let q := stripTrailingSlashes p
  if q = [] then [slash] else (lastSlashSplit q).2

/-- `filepath.Ext`: from the last '.' of the last element -/
def ext (p : Bytes) : Bytes :=
  let file := (lastSlashSplit p).2
  if file.contains dot then dot :: (file.reverse.takeWhile (· ≠ dot)).reverse else []

/-- `FilepathStem` = TrimSuffix(Base(p), Ext(p)) -/
def stem (p : Bytes) : Bytes :=
  let b := base p
  let e := ext p
  if e ≠ [] ∧ hasPrefix b.reverse e.reverse then (b.reverse.drop e.length).reverse else b

end GoUtils.Path
