/-
GoStd.Num — integer types of Go (two's-complement wrap-around), rounding of integers to float64.
Core-only (no Mathlib): this file is linked into the driver executable.
-/
namespace GoUtils

/-- The ten fixed-width integer types of Go on a 64-bit platform (`int`/`uint` are 64-bit). -/
inductive IntTy
  | i8 | i16 | i32 | i64 | int | u8 | u16 | u32 | u64 | uint
  deriving DecidableEq, Repr, Inhabited

namespace IntTy

def all : List IntTy := [i8, i16, i32, i64, int, u8, u16, u32, u64, uint]

@[reducible] def signed : IntTy → Bool
  | i8 | i16 | i32 | i64 | int => true
  | _ => false

@[reducible] def min : IntTy → Int
  | i8 => -128 | i16 => -32768 | i32 => -2147483648
  | i64 => -9223372036854775808 | int => -9223372036854775808
  | _ => 0

@[reducible] def max : IntTy → Int
  | i8 => 127 | i16 => 32767 | i32 => 2147483647
  | i64 => 9223372036854775807 | int => 9223372036854775807
  | u8 => 255 | u16 => 65535 | u32 => 4294967295
  | u64 => 18446744073709551615 | uint => 18446744073709551615

@[reducible] def modulus : IntTy → Int
  | i8 | u8 => 256 | i16 | u16 => 65536 | i32 | u32 => 4294967296
  | _ => 18446744073709551616

/-- Go conversion `T(x)` between integer types: keep the low bits. -/
def wrap (t : IntTy) (v : Int) : Int :=
  if t.signed then (v - t.min) % t.modulus + t.min else v % t.modulus

def name : IntTy → String
  | i8 => "int8" | i16 => "int16" | i32 => "int32" | i64 => "int64" | int => "int"
  | u8 => "uint8" | u16 => "uint16" | u32 => "uint32" | u64 => "uint64" | uint => "uint"

def ofName? (s : String) : Option IntTy := all.find? (fun t => t.name == s)

end IntTy

/-- Saturation: the value the property asks for. -/
def clamp (lo hi v : Int) : Int := if v < lo then lo else if hi < v then hi else v

/-- Number of bits of a natural number (0 for 0). -/
def natBits (n : Nat) : Nat := if n = 0 then 0 else Nat.log2 n + 1

/-- `float64(v)` for an integer `v`, as the exact integer value of the resulting float
    (round to nearest, ties to even, 53-bit significand; no overflow for |v| < 2^1024). -/
def roundF64 (v : Int) : Int :=
  let a := v.natAbs
  let b := natBits a
  if b ≤ 53 then v else
    let e := b - 53
    let q := a >>> e
    let r := a - (q <<< e)
    let half := 1 <<< (e - 1)
    let q' := if r > half ∨ (r = half ∧ q % 2 = 1) then q + 1 else q
    let m : Int := ((q' <<< e : Nat) : Int)
    if v < 0 then -m else m

end GoUtils
