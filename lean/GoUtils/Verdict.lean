/-
Three-valued outcome per property statement (DESIGN §2.3): a `Verdict P` is either a proof of `P`
(`holds`) or a proof of `¬ P` (`fails`, always exhibited through a concrete witness that the check
replays on the real code). If neither branch elaborates the declaration does not compile and the
obligation is reported broken.
-/
namespace GoUtils

inductive Verdict (P : Prop) : Type
  | holds (h : P)
  | fails (h : ¬ P)

def Verdict.tag {P : Prop} : Verdict P → String
  | .holds _ => "holds"
  | .fails _ => "fails"

end GoUtils
