-- Root of the `GoUtils` library: models, generated facts, proofs, property statements, audit.
import GoUtils.GoStd.Num
import GoUtils.Model.Cast
import GoUtils.Generated.Cast
