#!/bin/sh
# One-time build after a fresh restore (offline): gofacts, generated facts, Lean library + driver,
# harness binaries (warms the Go build cache). Every ./check rebuilds what depends on /repo anyway.
set -e
cd "$(dirname "$0")"
export GOFLAGS=-mod=mod GOPROXY=off GOSUMDB=off GOTOOLCHAIN=local
mkdir -p bin lean/GoUtils/Generated
(cd gofacts && go build -o ../bin/gofacts .)
./bin/gofacts -repo /repo/utils -out lean/GoUtils/Generated >/dev/null
(cd lean && lake build GoUtils driver)
cp /repo/utils/go.sum harness/go.sum
(cd harness && go build -tags verif -o ../bin/h ./cmd/h)
(cd harness && go build -race -tags verif -o ../bin/h_race ./cmd/h) || echo "race build unavailable: C13 will build it on demand"
echo setup done
