module verif/harness

go 1.23.0

require github.com/ARM-software/golang-utils/utils v0.0.0

require (
	github.com/go-faker/faker/v4 v4.6.0 // indirect
	github.com/petermattis/goid v0.0.0-20240813172612-4fcff4a6cae7 // indirect
	github.com/sasha-s/go-deadlock v0.3.5 // indirect
	go.uber.org/atomic v1.11.0 // indirect
	golang.org/x/text v0.24.0 // indirect
)

replace github.com/ARM-software/golang-utils/utils => /repo/utils
