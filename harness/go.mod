module verif/harness

go 1.23.0

require github.com/ARM-software/golang-utils/utils v0.0.0

replace github.com/ARM-software/golang-utils/utils => /repo/utils
