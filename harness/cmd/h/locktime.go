package main

// C17 — stale-lock detection.
//  probes: lock directories prepared with controlled mtimes (heart-beat files, several files, empty
//          directory judged by its own mtime, missing directory); the real IsStale() is compared
//          with Model.LockTime evaluated at the instants just before and just after the call
//          (answers inside the uncertainty window are counted, not judged);
//  live:   a held lock polled by observers (IsStale / ReleaseIfStale / TryLock) for many periods —
//          never stale, never released, never taken over, unless the measured scheduler latency
//          exceeded the theorem's margin (then counted as outside the hypothesis);
//  dead:   holder's heart-beat stopped at different points — stale after 2P+1 ms (+slack), and
//          ReleaseIfStale followed by TryLock succeeds.

import (
	"syscall"
	"context"
	"fmt"
	"os"
	"path/filepath"
	"strconv"
	"strings"
	"sync"
	"sync/atomic"
	"time"

	"github.com/spf13/afero"

	"github.com/ARM-software/golang-utils/utils/commonerrors"
	"github.com/ARM-software/golang-utils/utils/filesystem"

	"verif/harness/hx"
)

func init() { subs["locktime"] = lockTimeMain }

// statFailFs makes Stat/Lstat fail with ENOENT for names with the given suffix (listing still shows them)
type statFailFs struct {
	afero.Fs
	failSuffix string
}

func (s *statFailFs) Stat(name string) (os.FileInfo, error) {
	if s.failSuffix != "" && strings.HasSuffix(name, s.failSuffix) {
		return nil, &os.PathError{Op: "stat", Path: name, Err: os.ErrNotExist}
	}
	return s.Fs.Stat(name)
}

type fsEnv struct {
	name string
	fs   *filesystem.VFS
	base string
}

func newFsEnvs() ([]fsEnv, func()) {
	tmp, _ := os.MkdirTemp("", "verif-lock")
	mem := filesystem.NewFs(filesystem.InMemoryFS).(*filesystem.VFS)
	_ = mem.MkDir("/locks")
	osfs := filesystem.NewFs(filesystem.StandardFS).(*filesystem.VFS)
	// the OS backend under I/O load: every write to a heart-beat file takes a few milliseconds
	tmp2, _ := os.MkdirTemp("", "verif-lock-slow")
	slow := filesystem.NewVirtualFileSystem(&slowLockFs{Fs: afero.NewOsFs(), delay: 6 * time.Millisecond}, filesystem.StandardFS, filesystem.IdentityPathConverterFunc).(*filesystem.VFS)
	return []fsEnv{{"mem", mem, "/locks"}, {"os", osfs, tmp}, {"os-slow-heartbeat-writes", slow, tmp2}}, func() { os.RemoveAll(tmp); os.RemoveAll(tmp2) }
}

// slowLockFs delays the operations that write a heart-beat file (`*.lock`): opening it for writing and stamping it
type slowLockFs struct {
	afero.Fs
	delay    time.Duration
	failAt   int64 // the failAt-th write-open of a heart-beat file fails once (0: never)
	writes   int64
	failedAt atomic.Int64 // unix nanoseconds of the injected failure
}

// descriptor exhaustion lasts a moment: for 3 ms after the injected failure nothing can be opened on this filesystem
func (s *slowLockFs) exhausted() bool {
	at := s.failedAt.Load()
	return at != 0 && time.Now().UnixNano()-at < int64(3*time.Millisecond)
}

func (s *slowLockFs) Open(name string) (afero.File, error) {
	if s.exhausted() {
		return nil, &os.PathError{Op: "open", Path: name, Err: syscall.EMFILE}
	}
	return s.Fs.Open(name)
}

func (s *slowLockFs) OpenFile(name string, flag int, perm os.FileMode) (afero.File, error) {
	if s.exhausted() {
		return nil, &os.PathError{Op: "open", Path: name, Err: syscall.EMFILE}
	}
	if strings.HasSuffix(name, ".lock") && flag&(os.O_WRONLY|os.O_RDWR|os.O_CREATE) != 0 {
		time.Sleep(s.delay)
		if n := atomic.AddInt64(&s.writes, 1); s.failAt > 0 && n == s.failAt {
			s.failedAt.Store(time.Now().UnixNano())
			return nil, &os.PathError{Op: "open", Path: name, Err: syscall.EMFILE}
		}
	}
	return s.Fs.OpenFile(name, flag, perm)
}

func (s *slowLockFs) Create(name string) (afero.File, error) {
	if strings.HasSuffix(name, ".lock") {
		time.Sleep(s.delay)
	}
	return s.Fs.Create(name)
}

func (s *slowLockFs) Chtimes(name string, atime, mtime time.Time) error {
	if strings.HasSuffix(name, ".lock") {
		time.Sleep(s.delay / 2)
	}
	return s.Fs.Chtimes(name, atime, mtime)
}

var lockSeq int64

func lockTimeMain(args []string) {
	o := hx.ParseOpts(args)
	rep := hx.NewReport("probes: heart-beat file / several files / empty directory / missing directory with mtimes set to now-d, d swept over 0..250 ms (1 ms steps, 0.1 ms steps around the 100/101 ms threshold), both backends; " +
		"live: holds of 30 (quick) / 300 (thorough) periods with 4 (1..16) observers polling IsStale, ReleaseIfStale, TryLock; dead: heart-beat stopped in steady state, right after acquisition, and before the first heart-beat. " +
		"non-trivial = probe within 10 ms of the threshold, or any live/dead scenario; distinct = (backend, scenario, d).")
	drv, err := hx.StartDriver(o.Driver)
	if err != nil {
		fmt.Println("driver:", err)
	}
	defer drv.Close()
	envs, cleanup := newFsEnvs()
	defer cleanup()
	ctx := context.Background()

	// ---- probes --------------------------------------------------------------------------------
	type probe struct {
		env       string
		scenario  string
		got       bool
		lineLo    string // model evaluated at t_before
		lineHi    string // model evaluated at t_after
		canonical string
	}
	var probes []probe
	var deltas []time.Duration
	for d := 0; d <= 250; d++ {
		deltas = append(deltas, time.Duration(d)*time.Millisecond)
	}
	for d := 97000; d <= 104000; d += 100 {
		deltas = append(deltas, time.Duration(d)*time.Microsecond)
	}
	if o.Thorough() {
		for d := 99000; d <= 102000; d += 10 {
			deltas = append(deltas, time.Duration(d)*time.Microsecond)
		}
	}
	for _, env := range envs {
		for _, sc := range []string{"one-file", "two-files-one-fresh", "empty-dir", "missing-dir"} {
			for _, d := range deltas {
				if sc == "missing-dir" && d != 0 {
					continue
				}
				id := fmt.Sprintf("p%d", atomic.AddInt64(&lockSeq, 1))
				lk := filesystem.NewRemoteLockFile(env.fs, id, env.base)
				dir := filepath.Join(env.base, "lockfile-"+id)
				var mt []time.Time
				var dirMt time.Time
				switch sc {
				case "one-file", "two-files-one-fresh":
					_ = env.fs.MkDir(dir)
					f1 := filepath.Join(dir, id+".lock")
					_ = env.fs.WriteFile(f1, []byte("alive"), 0o644)
					t1 := time.Now().Add(-d)
					_ = env.fs.Chtimes(f1, t1, t1)
					mt = append(mt, t1)
					if sc == "two-files-one-fresh" {
						f2 := filepath.Join(dir, "other.lock")
						_ = env.fs.WriteFile(f2, []byte("alive"), 0o644)
						t2 := time.Now().Add(-d / 2)
						_ = env.fs.Chtimes(f2, t2, t2)
						mt = append(mt, t2)
					}
				case "empty-dir":
					_ = env.fs.MkDir(dir)
					dirMt = time.Now().Add(-d)
					_ = env.fs.Chtimes(dir, dirMt, dirMt)
				}
				// read back what the filesystem stored (granularity!)
				listing := "x"
				dirS := "-"
				if sc != "missing-dir" {
					names, _ := env.fs.Ls(dir)
					var ms []string
					for _, n := range names {
						st, err := env.fs.Stat(filepath.Join(dir, n))
						if err != nil {
							ms = append(ms, "-")
						} else {
							ms = append(ms, strconv.FormatInt(st.ModTime().UnixNano(), 10))
						}
					}
					listing = strings.Join(ms, ",")
					if len(ms) == 0 {
						listing = "e"
					}
					if st, err := env.fs.Stat(dir); err == nil {
						dirS = strconv.FormatInt(st.ModTime().UnixNano(), 10)
					}
				}
				t0 := time.Now()
				got := lk.IsStale()
				t1 := time.Now()
				_ = env.fs.Rm(dir)
				near := d > 90*time.Millisecond && d < 111*time.Millisecond
				canon := fmt.Sprintf("%s %s %v", env.name, sc, d)
				rep.Eval(canon, near)
				rep.Hist("probe:" + sc)
				probes = append(probes, probe{env.name, sc, got,
					fmt.Sprintf("stale %d %s %s", t0.UnixNano(), dirS, listing), fmt.Sprintf("stale %d %s %s", t1.UnixNano(), dirS, listing), canon})
				// model-free monitor: soundness (stale => more than 2 periods since the freshest stamp before the call returned)
				if got && sc != "missing-dir" {
					freshest := dirMt
					for _, m := range mt {
						if m.After(freshest) {
							freshest = m
						}
					}
					if t1.Sub(freshest) <= 100*time.Millisecond {
						rep.Fail(hx.Failure{Kind: "impl-violates-property", Key: "stale-too-early", Case: canon, Expected: "not stale before 2 periods", Observed: fmt.Sprint("stale after ", t1.Sub(freshest))})
					}
				}
				if !got && sc == "one-file" && d >= 102*time.Millisecond {
					rep.Fail(hx.Failure{Kind: "impl-violates-property", Key: "not-stale-after-threshold", Case: canon, Expected: "stale", Observed: "not stale"})
				}
				if got && sc == "missing-dir" {
					rep.Fail(hx.Failure{Kind: "impl-violates-property", Key: "missing-lock-reported-stale", Case: canon})
				}
			}
		}
	}
	if drv != nil {
		var lines []string
		for _, p := range probes {
			lines = append(lines, p.lineLo, p.lineHi)
		}
		ans, err := drv.Ask(lines)
		if err != nil {
			rep.Fail(hx.Failure{Kind: "harness-error", Key: "driver", Detail: err.Error()})
		}
		for i := 0; i+1 < len(ans); i += 2 {
			p := probes[i/2]
			lo, hi := ans[i] == "true", ans[i+1] == "true"
			switch {
			case lo != hi:
				rep.Hist("probe:inside-uncertainty-window")
			case lo != p.got:
				rep.Fail(hx.Failure{Kind: "model-impl-divergence", Key: "isstale:" + p.scenario, Case: p.lineLo + " / " + p.lineHi + " [" + p.canonical + "]", Expected: "model: " + ans[i], Observed: fmt.Sprint("impl: ", p.got)})
			default:
				rep.Hist("probe:model=impl")
			}
		}
		if len(lines) > 0 {
			rep.Sample(map[string]string{"line": lines[len(lines)/2], "model": ans[len(lines)/2]})
		}
	}

	// ---- a listed heart-beat file that cannot be stat'ed (it vanished between Ls and Stat): not stale --
	{
		base := afero.NewMemMapFs()
		wrapped := &statFailFs{Fs: base}
		vfs := filesystem.NewVirtualFileSystem(wrapped, filesystem.InMemoryFS, filesystem.IdentityPathConverterFunc).(*filesystem.VFS)
		_ = base.MkdirAll("/locks", 0o755)
		for _, d := range []time.Duration{0, 60 * time.Millisecond, 150 * time.Millisecond, time.Second} {
			id := fmt.Sprintf("u%d", atomic.AddInt64(&lockSeq, 1))
			dir := filepath.Join("/locks", "lockfile-"+id)
			f1 := filepath.Join(dir, id+".lock")
			_ = base.MkdirAll(dir, 0o755)
			_ = afero.WriteFile(base, f1, []byte("alive"), 0o644)
			t1 := time.Now().Add(-d)
			_ = base.Chtimes(f1, t1, t1)
			_ = base.Chtimes(dir, t1, t1)
			lk := filesystem.NewRemoteLockFile(vfs, id, "/locks")
			wrapped.failSuffix = ".lock"
			got := lk.IsStale()
			wrapped.failSuffix = ""
			canon := fmt.Sprintf("mem heart-beat file listed but not stat-able, stamped %v ago", d)
			rep.Eval(canon, true)
			rep.Hist("probe:unstatable-file")
			if got {
				rep.Fail(hx.Failure{Kind: "impl-violates-property", Key: "unstatable-heartbeat-reported-stale", Case: canon,
					Expected: "not stale (the holder may be replacing its heart-beat file)", Observed: "stale"})
			}
			if drv != nil {
				a, _ := drv.Ask1(fmt.Sprintf("stale %d %d -", time.Now().UnixNano(), t1.UnixNano()))
				if a != "false" {
					rep.Fail(hx.Failure{Kind: "model-impl-divergence", Key: "isstale:unstatable", Case: canon, Expected: "model: " + a, Observed: fmt.Sprint("impl: ", got)})
				}
			}
		}
	}

	// ---- live holds -----------------------------------------------------------------------------
	periods, observers := 30, 4
	if o.Thorough() {
		periods, observers = 300, 12
	}
	for _, env := range envs {
		id := fmt.Sprintf("live[%d]{a,b}", atomic.AddInt64(&lockSeq, 1)) // identifiers may contain anything: here pattern characters
		holder := filesystem.NewRemoteLockFile(env.fs, id, env.base)
		if err := holder.TryLock(ctx); err != nil {
			rep.Fail(hx.Failure{Kind: "harness-error", Key: "live-acquire", Detail: err.Error()})
			continue
		}
		stop := make(chan struct{})
		var maxLat int64
		go func() { // scheduler latency reference
			for {
				select {
				case <-stop:
					return
				default:
				}
				t := time.Now()
				time.Sleep(time.Millisecond)
				if over := int64(time.Since(t) - time.Millisecond); over > atomic.LoadInt64(&maxLat) {
					atomic.StoreInt64(&maxLat, over)
				}
			}
		}()
		var staleSeen, takenOver, polls int64
		var wg sync.WaitGroup
		for ob := 0; ob < observers; ob++ {
			wg.Add(1)
			go func(ob int) {
				defer wg.Done()
				other := filesystem.NewGenericRemoteLockFile(env.fs, id, env.base, ob%2 == 0)
				for {
					select {
					case <-stop:
						return
					default:
					}
					atomic.AddInt64(&polls, 1)
					switch ob % 3 {
					case 0:
						if other.IsStale() {
							atomic.AddInt64(&staleSeen, 1)
						}
					case 1:
						if other.IsStale() {
							atomic.AddInt64(&staleSeen, 1)
						}
						_ = other.ReleaseIfStale(ctx)
					case 2:
						err := other.TryLock(ctx)
						if err == nil {
							atomic.AddInt64(&takenOver, 1)
						} else if commonerrors.Any(err, commonerrors.ErrStaleLock) {
							atomic.AddInt64(&staleSeen, 1)
						}
					}
					time.Sleep(time.Duration(1+ob) * time.Millisecond)
				}
			}(ob)
		}
		time.Sleep(time.Duration(periods) * 50 * time.Millisecond)
		close(stop)
		wg.Wait()
		stillThere := env.fs.Exists(filepath.Join(env.base, "lockfile-"+id))
		rep.Eval(fmt.Sprintf("live %s %d periods %d observers", env.name, periods, observers), true)
		rep.HistN("live:polls:"+env.name, int(polls))
		lat := time.Duration(atomic.LoadInt64(&maxLat))
		rep.Sample(map[string]any{"live": env.name, "polls": polls, "max_sched_latency": lat.String(), "stale_seen": staleSeen, "taken_over": takenOver})
		if staleSeen > 0 || takenOver > 0 || !stillThere {
			if 2*lat >= 52*time.Millisecond {
				rep.Hist("live:outside-hypothesis(latency)")
			} else {
				rep.Fail(hx.Failure{Kind: "impl-violates-property", Key: "live-lock-reported-stale", Case: fmt.Sprintf("live hold on %s, %d periods", env.name, periods),
					Expected: "never stale / released / taken over", Observed: fmt.Sprintf("stale=%d takenOver=%d dirExists=%v maxLatency=%v", staleSeen, takenOver, stillThere, lat)})
			}
		}
		_ = holder.Unlock(ctx)
	}

	// ---- a live holder whose heart-beat write fails ONCE (descriptor pressure, a hiccup of a network share): the next
	//      beat makes up for it; observed only once the beat after the failure has had time to land ----------------------
	{
		tmp3, _ := os.MkdirTemp("", "verif-lock-hiccup")
		ffs := &slowLockFs{Fs: afero.NewOsFs(), failAt: 4}
		vfs := filesystem.NewVirtualFileSystem(ffs, filesystem.StandardFS, filesystem.IdentityPathConverterFunc).(*filesystem.VFS)
		id := fmt.Sprintf("hiccup%d", atomic.AddInt64(&lockSeq, 1))
		holder := filesystem.NewRemoteLockFile(vfs, id, tmp3)
		caseTxt := "live hold on os, the 4th heart-beat write fails once (EMFILE) and nothing can be opened for the next 3 ms"
		if err := holder.TryLock(ctx); err != nil {
			rep.Fail(hx.Failure{Kind: "harness-error", Key: "hiccup-acquire", Detail: err.Error()})
		} else {
			for t0 := time.Now(); ffs.failedAt.Load() == 0 && time.Since(t0) < 3*time.Second; {
				time.Sleep(5 * time.Millisecond)
			}
			time.Sleep(250 * time.Millisecond) // five periods after the failure: the following beats have landed
			other := filesystem.NewRemoteLockFile(vfs, id, tmp3)
			stale, taken := 0, 0
			// scheduler latency reference (as for the live holds): a starved machine is outside the hypothesis
			var hiccupLat int64
			stopLat := make(chan struct{})
			go func() {
				for {
					select {
					case <-stopLat:
						return
					default:
					}
					t := time.Now()
					time.Sleep(time.Millisecond)
					if over := int64(time.Since(t) - time.Millisecond); over > atomic.LoadInt64(&hiccupLat) {
						atomic.StoreInt64(&hiccupLat, over)
					}
				}
			}()
			for t1 := time.Now(); time.Since(t1) < 400*time.Millisecond; {
				if other.IsStale() {
					stale++
				}
				if err := other.TryLock(ctx); err == nil {
					taken++
				} else if commonerrors.Any(err, commonerrors.ErrStaleLock) {
					stale++
				}
				time.Sleep(3 * time.Millisecond)
			}
			rep.Eval(caseTxt, true)
			rep.Hist("live:one-failed-heartbeat-write")
			close(stopLat)
			if ffs.failedAt.Load() == 0 {
				rep.Hist("live:one-failed-heartbeat-write:failure-not-injected")
			} else if (stale > 0 || taken > 0) && 2*time.Duration(atomic.LoadInt64(&hiccupLat)) >= 52*time.Millisecond {
				rep.Hist("live:outside-hypothesis(latency)")
			} else if stale > 0 || taken > 0 {
				rep.Fail(hx.Failure{Kind: "impl-violates-property", Key: "live-lock-reported-stale:after-one-failed-heartbeat-write", Case: caseTxt,
					Expected: "the holder is alive and its context not cancelled: the heart-beat goes on, never stale / taken over", Observed: fmt.Sprintf("stale=%d takenOver=%d in the 400 ms starting 250 ms after the failed write", stale, taken)})
			}
			_ = holder.Unlock(ctx)
		}
		_ = os.RemoveAll(tmp3)
	}
	// ---- dead holders ----------------------------------------------------------------------------
	for _, env := range envs {
		for _, point := range []string{"steady-state", "right-after-acquire", "before-first-heartbeat"} {
			id := fmt.Sprintf("dead%d", atomic.AddInt64(&lockSeq, 1))
			dir := filepath.Join(env.base, "lockfile-"+id)
			hctx, kill := context.WithCancel(ctx)
			switch point {
			case "steady-state":
				holder := filesystem.NewRemoteLockFile(env.fs, id, env.base)
				_ = holder.TryLock(hctx)
				time.Sleep(230 * time.Millisecond)
			case "right-after-acquire":
				holder := filesystem.NewRemoteLockFile(env.fs, id, env.base)
				_ = holder.TryLock(hctx)
			case "before-first-heartbeat":
				_ = env.fs.MkDir(dir) // the holder died between Mkdir and its first heart-beat
			}
			kill() // the holder's heart-beat stops; it never unlocks
			time.Sleep(60 * time.Millisecond)
			obs := filesystem.NewRemoteLockFile(env.fs, id, env.base)
			early := obs.IsStale()
			time.Sleep(101*time.Millisecond + 40*time.Millisecond)
			late := obs.IsStale()
			relErr := obs.ReleaseIfStale(ctx)
			newHolder := filesystem.NewRemoteLockFile(env.fs, id, env.base)
			acqErr := newHolder.TryLock(ctx)
			rep.Eval("dead "+env.name+" "+point, true)
			rep.Hist("dead:" + point)
			if early {
				rep.Hist("dead:stale-already-60ms-after-death") // allowed only if the last stamp was older; informational
			}
			if !late || relErr != nil || acqErr != nil {
				rep.Fail(hx.Failure{Kind: "impl-violates-property", Key: "dead-lock-not-recovered:" + point, Case: "dead holder " + point + " on " + env.name,
					Expected: "stale after 2 periods + 1ms; ReleaseIfStale and TryLock succeed", Observed: fmt.Sprintf("stale=%v release=%v acquire=%v", late, relErr, acqErr)})
			}
			_ = newHolder.Unlock(ctx)
		}
	}
	rep.Write(o.Report, drv)
}
