package main

// C13 — loggers are goroutine-safe and lose nothing.
// Every logger constructor, 2..32 producers mixing Log / LogError / SetLogSource (and Append for the
// composite ones), built with the race detector: each logger runs in a child process whose race reports
// are collected from GORACE's log_path. After the producers joined, the sink is parsed back into
// messages: each message exactly once and intact in every sink (composite: in every member; ring
// buffered: delivered + reported-dropped = sent).

import (
	"log"
	"bytes"
	"fmt"
	"golang.org/x/exp/slog"
	"os"
	"os/exec"
	"path/filepath"
	"regexp"
	"strings"
	"sync"
	"time"

	"github.com/hashicorp/go-hclog"
	"github.com/sirupsen/logrus"
	"go.uber.org/zap"
	"go.uber.org/zap/zapcore"

	"github.com/ARM-software/golang-utils/utils/logs"

	"verif/harness/hx"
)

func init() {
	subs["logsafe"] = logSafeMain
	subs["logsafe-child"] = logSafeChild
}

// lockedBuffer: a sink that is safe by itself (so that what is observed is the logger's doing)
type lockedBuffer struct {
	mu  sync.Mutex
	buf bytes.Buffer
	wr  int
}

func (b *lockedBuffer) Write(p []byte) (int, error) {
	b.mu.Lock()
	defer b.mu.Unlock()
	b.wr++
	return b.buf.Write(p)
}
func (b *lockedBuffer) Close() error             { return nil }
func (b *lockedBuffer) SetSource(s string) error { return nil }
func (b *lockedBuffer) Sync() error              { return nil }
func (b *lockedBuffer) String() string {
	b.mu.Lock()
	defer b.mu.Unlock()
	return b.buf.String()
}

// slowBuffer: like lockedBuffer but slow (for the ring-buffered loggers)
type slowBuffer struct {
	lockedBuffer
	delay time.Duration
}

func (b *slowBuffer) Write(p []byte) (int, error) {
	time.Sleep(b.delay)
	return b.lockedBuffer.Write(p)
}

var logMsgRe = regexp.MustCompile(`p\d\d-[oe]\d\d\d-x{20}-end`)
var droppedRe = regexp.MustCompile(`Logger dropped (\d+) messages`)

func logMsg(p, m int, isErr bool) string {
	k := "o"
	if isErr {
		k = "e"
	}
	return fmt.Sprintf("p%02d-%s%03d-%s-end", p, k, m, strings.Repeat("x", 20))
}

type logSubject struct {
	loggers  logs.Loggers
	sinks    map[string]func() string // name -> content
	onlyErrs bool                     // quiet logger: Log() is dropped by design
	async    bool
	dropped  func() string
	multi    logs.IMultipleLoggers
	lateSink func() (logs.Loggers, func() string) // composite: a member appended while producers run
}

func newLogSubject(name, tmp string, ring int) (*logSubject, error) {
	s := &logSubject{sinks: map[string]func() string{}}
	str := func() (*logs.StringLoggers, error) { return logs.NewPlainStringLogger() }
	switch name {
	case "string":
		l, err := logs.NewStringLogger("src")
		s.loggers, s.sinks["string"] = l, l.GetLogContent
		return s, err
	case "plainstring":
		l, err := logs.NewPlainStringLogger()
		s.loggers, s.sinks["string"] = l, l.GetLogContent
		return s, err
	case "file":
		p := filepath.Join(tmp, "log.txt")
		l, err := logs.NewFileOnlyLogger(p, "src")
		s.loggers = l
		s.sinks["file"] = func() string { b, _ := os.ReadFile(p); return string(b) }
		return s, err
	case "json":
		b := &lockedBuffer{}
		l, err := logs.NewJSONLogger(b, "src", "source")
		s.loggers, s.sinks["buffer"] = l, b.String
		return s, err
	case "logr":
		inner, err := str()
		if err != nil {
			return nil, err
		}
		l, err := logs.NewLogrLogger(logs.NewPlainLogrLoggerFromLoggers(inner), "src")
		s.loggers, s.sinks["string"] = l, inner.GetLogContent
		return s, err
	case "logr-structured":
		// the full logr sink over Loggers (names, key/values), wrapped back into Loggers
		inner, err := str()
		if err != nil {
			return nil, err
		}
		l, err := logs.NewLogrLogger(logs.NewLogrLoggerFromLoggers(inner), "src")
		s.loggers, s.sinks["string"] = l, inner.GetLogContent
		return s, err
	case "via-writers":
		// Loggers seen as two io.Writers (info / error), written to by standard log.Logger objects
		inner, err := str()
		if err != nil {
			return nil, err
		}
		iw, err := logs.NewInfoWriterFromLoggers(inner)
		if err != nil {
			return nil, err
		}
		ew, err := logs.NewErrorWriterFromLoggers(inner)
		if err != nil {
			return nil, err
		}
		s.loggers = &logs.GenericLoggers{Output: log.New(iw, "", 0), Error: log.New(ew, "", 0)}
		s.sinks["string"] = inner.GetLogContent
		return s, nil
	case "file-and-std":
		p := filepath.Join(tmp, "log2.txt")
		l, err := logs.NewFileLogger(p, "src")
		s.loggers = l
		s.sinks["file"] = func() string { b, _ := os.ReadFile(p); return string(b) }
		return s, err
	case "pipe":
		l, err := logs.NewPipeLogger()
		s.loggers = l
		return s, err
	case "zap":
		b := &lockedBuffer{}
		core := zapcore.NewCore(zapcore.NewConsoleEncoder(zap.NewDevelopmentEncoderConfig()), b, zapcore.DebugLevel)
		l, err := logs.NewZapLogger(zap.New(core), "src")
		s.loggers, s.sinks["buffer"] = l, b.String
		return s, err
	case "logrus":
		b := &lockedBuffer{}
		lg := logrus.New()
		lg.SetOutput(b)
		l, err := logs.NewLogrusLogger(lg, "src")
		s.loggers, s.sinks["buffer"] = l, b.String
		return s, err
	case "hclog":
		b := &lockedBuffer{}
		l, err := logs.NewHclogLogger(hclog.New(&hclog.LoggerOptions{Output: b, Level: hclog.Debug}), "src")
		s.loggers, s.sinks["buffer"] = l, b.String
		return s, err
	case "slog":
		b := &lockedBuffer{}
		l, err := logs.NewSlogLogger(slog.New(slog.NewTextHandler(b, &slog.HandlerOptions{Level: slog.LevelDebug})), "src")
		s.loggers, s.sinks["buffer"] = l, b.String
		return s, err
	case "quiet":
		inner, err := str()
		if err != nil {
			return nil, err
		}
		l, err := logs.NewQuietLogger(inner)
		s.loggers, s.sinks["string"], s.onlyErrs = l, inner.GetLogContent, true
		return s, err
	case "noop":
		l, err := logs.NewNoopLogger("src")
		s.loggers = l
		return s, err
	case "std":
		l, err := logs.NewStdLogger("src")
		s.loggers = l
		return s, err
	case "multiple", "combined":
		var members []logs.Loggers
		for i := 0; i < 1+ring%4; i++ {
			m, err := str()
			if err != nil {
				return nil, err
			}
			members = append(members, m)
			s.sinks[fmt.Sprintf("member%d", i)] = m.GetLogContent
		}
		var l logs.IMultipleLoggers
		var err error
		if name == "multiple" {
			l, err = logs.NewMultipleLoggers("src", members...)
		} else {
			l, err = logs.NewCombinedLoggers(members...)
		}
		s.loggers, s.multi = l, l
		s.lateSink = func() (logs.Loggers, func() string) { m, _ := str(); return m, m.GetLogContent }
		return s, err
	case "async":
		out := &slowBuffer{delay: 200 * time.Microsecond}
		dropped, err := str()
		if err != nil {
			return nil, err
		}
		l, err := logs.NewAsynchronousLoggers(out, out, ring, time.Millisecond, "src", "source", dropped)
		s.loggers, s.sinks["slow"], s.async, s.dropped = l, out.String, true, dropped.GetLogContent
		return s, err
	case "jsonasync":
		out := &slowBuffer{delay: 200 * time.Microsecond}
		dropped, err := str()
		if err != nil {
			return nil, err
		}
		l, err := logs.NewJSONLoggerForSlowWriter(out, ring, time.Millisecond, "src", "source", dropped)
		s.loggers, s.sinks["slow"], s.async, s.dropped = l, out.String, true, dropped.GetLogContent
		return s, err
	}
	return nil, fmt.Errorf("unknown logger %s", name)
}

var logSubjects = []string{"string", "plainstring", "file", "file-and-std", "pipe", "json", "logr", "logr-structured", "via-writers", "zap", "logrus", "hclog", "slog", "quiet", "noop", "std", "multiple", "combined", "async", "jsonasync"}

// child: `logsafe-child <logger> <producers> <messages> <ring> <tmp>` prints one line per finding: `FAIL <key> | <observed>`
func logSafeChild(args []string) {
	name := args[0]
	var producers, messages, ring int
	fmt.Sscan(args[1], &producers)
	fmt.Sscan(args[2], &messages)
	fmt.Sscan(args[3], &ring)
	tmp := args[4]
	s, err := newLogSubject(name, tmp, ring)
	if err != nil {
		fmt.Printf("FAIL harness-error:constructor | %v\n", err)
		return
	}
	if name == "std" || name == "pipe" || name == "file-and-std" {
		// keep the child's own protocol readable: the std logger writes to stdout / stderr
		devnull, _ := os.OpenFile(os.DevNull, os.O_WRONLY, 0)
		defer devnull.Close()
	}
	var wg sync.WaitGroup
	var lateMu sync.Mutex
	var lateContents []func() string
	// composite loggers: every producer appends a member of its own at the same moment, then everybody logs
	// a second series: each appended member must receive the whole second series
	var appendGate, postGate sync.WaitGroup
	if s.multi != nil {
		appendGate.Add(producers)
		postGate.Add(producers)
	}
	for p := 0; p < producers; p++ {
		wg.Add(1)
		go func(p int) {
			defer wg.Done()
			for m := 0; m < messages; m++ {
				if m%2 == 0 {
					s.loggers.Log(logMsg(p, m, false))
				} else {
					s.loggers.LogError(logMsg(p, m, true))
				}
				if p == 1 && m%7 == 3 {
					_ = s.loggers.SetLogSource(fmt.Sprintf("source%d", m))
				}
			}
			if s.multi != nil {
				member, content := s.lateSink()
				appendGate.Done()
				appendGate.Wait() // all producers append together
				if err := s.multi.Append(member); err != nil {
					fmt.Printf("FAIL append-fails:%s | %v\n", name, err)
				}
				lateMu.Lock()
				lateContents = append(lateContents, content)
				lateMu.Unlock()
				postGate.Done()
				postGate.Wait() // every Append has returned
				for m := 0; m < 10; m++ {
					s.loggers.Log(logMsg(p, 900+m, false))
				}
			}
		}(p)
	}
	wg.Wait()
	if s.async {
		// wait until the slow writer has drained the ring: content stable for 400 ms (at most 20 s)
		last, stableSince := -1, time.Now()
		for deadline := time.Now().Add(20 * time.Second); time.Now().Before(deadline); {
			n := 0
			for _, content := range s.sinks {
				n += len(content())
			}
			if n != last {
				last, stableSince = n, time.Now()
			} else if time.Since(stableSince) > 400*time.Millisecond {
				break
			}
			time.Sleep(20 * time.Millisecond)
		}
	}
	sent := producers * messages
	wantErrOnly := s.onlyErrs
	for sinkName, content := range s.sinks {
		txt := content()
		found := logMsgRe.FindAllString(txt, -1)
		count := map[string]int{}
		for _, f := range found {
			count[f]++
		}
		dup, missing := 0, 0
		for p := 0; p < producers; p++ {
			for m := 0; m < messages; m++ {
				isErr := m%2 == 1
				if wantErrOnly && !isErr {
					continue
				}
				c := count[logMsg(p, m, isErr)]
				if c == 0 {
					missing++
				}
				if c > 1 {
					dup += c - 1
				}
			}
		}
		// a line must hold exactly one message
		mixed := 0
		for _, line := range strings.Split(txt, "\n") {
			if n := len(logMsgRe.FindAllString(line, -1)); n > 1 {
				mixed++
			} else if n == 0 && (strings.Contains(line, "-end") || strings.Contains(line, "xxxxx")) && !strings.Contains(line, "dropped") {
				mixed++ // a fragment of a message
			}
		}
		if s.async {
			droppedTotal := 0
			for _, m := range droppedRe.FindAllStringSubmatch(s.dropped(), -1) {
				var n int
				fmt.Sscan(m[1], &n)
				droppedTotal += n
			}
			delivered := len(found)
			fmt.Printf("INFO %s sent=%d delivered=%d reported-dropped=%d\n", sinkName, sent, delivered, droppedTotal)
			if dup > 0 || mixed > 0 {
				fmt.Printf("FAIL message-duplicated-or-mangled:%s | duplicates=%d mangled-lines=%d\n", name, dup, mixed)
			}
			if delivered+droppedTotal < sent {
				fmt.Printf("FAIL messages-dropped-without-being-reported:%s | sent=%d delivered=%d reported-dropped=%d\n", name, sent, delivered, droppedTotal)
			}
			continue
		}
		if missing > 0 {
			fmt.Printf("FAIL message-lost:%s | sink %s: %d of %d messages missing\n", name, sinkName, missing, sent)
		}
		if dup > 0 {
			fmt.Printf("FAIL message-duplicated:%s | sink %s: %d duplicates\n", name, sinkName, dup)
		}
		if mixed > 0 {
			fmt.Printf("FAIL message-mangled:%s | sink %s: %d lines hold a fragment or several messages\n", name, sinkName, mixed)
		}
	}
	lateMu.Lock()
	for i, content := range lateContents {
		// a member appended (Append returned) before the second series started must hold all of it, whole
		txt := content()
		missing := 0
		for p := 0; p < producers; p++ {
			for m := 0; m < 10; m++ {
				if strings.Count(txt, logMsg(p, 900+m, false)) != 1 {
					missing++
				}
			}
		}
		if missing > 0 {
			fmt.Printf("FAIL appended-member-misses-messages:%s | member appended by producer %d misses %d of %d messages logged after every Append had returned\n", name, i, missing, producers*10)
			break
		}
	}
	lateMu.Unlock()
	if s.multi != nil {
		// two composites built from the same member slice (with spare capacity) must not share anything:
		// a member appended to one of them is a member of that one only
		mk := func() *logs.StringLoggers { l, _ := logs.NewPlainStringLogger(); return l }
		shared := make([]logs.Loggers, 0, 4)
		shared = append(shared, mk(), mk())
		var a, b logs.IMultipleLoggers
		if name == "multiple" {
			a, _ = logs.NewMultipleLoggers("a", shared...)
			b, _ = logs.NewMultipleLoggers("b", shared...)
		} else {
			a, _ = logs.NewCombinedLoggers(shared...)
			b, _ = logs.NewCombinedLoggers(shared...)
		}
		ma, mb := mk(), mk()
		_ = a.Append(ma)
		_ = b.Append(mb)
		a.Log(logMsg(1, 777, false))
		b.Log(logMsg(2, 778, false))
		if strings.Count(ma.GetLogContent(), logMsg(1, 777, false)) != 1 || strings.Contains(mb.GetLogContent(), logMsg(1, 777, false)) ||
			strings.Count(mb.GetLogContent(), logMsg(2, 778, false)) != 1 || strings.Contains(ma.GetLogContent(), logMsg(2, 778, false)) {
			fmt.Printf("FAIL appended-member-misses-messages:%s | two composites built from one member slice: a member appended to one receives the other's messages (or none)\n", name)
		}
	}
	if s.multi != nil {
		// the same on fresh composites, many rounds: members appended at the same instant by several goroutines are all
		// members afterwards (a read-modify-write of the member list that is not atomic loses one of them, and only when
		// the two Appends really overlap — one barrier per child is not enough to see it)
		mk := func() *logs.StringLoggers { l, _ := logs.NewPlainStringLogger(); return l }
		rounds, appenders := 400, 4
		lostRound, lost := -1, 0
		for r := 0; r < rounds && lostRound < 0; r++ {
			var c logs.IMultipleLoggers
			if name == "multiple" {
				c, _ = logs.NewMultipleLoggers("r", mk())
			} else {
				c, _ = logs.NewCombinedLoggers(mk())
			}
			added := make([]*logs.StringLoggers, appenders)
			var gate, done sync.WaitGroup
			gate.Add(appenders)
			for a := 0; a < appenders; a++ {
				added[a] = mk()
				done.Add(1)
				go func(a int) {
					defer done.Done()
					gate.Done()
					gate.Wait()
					_ = c.Append(added[a])
				}(a)
			}
			done.Wait()
			c.Log(logMsg(3, 5000+r, false))
			for a := range added {
				if strings.Count(added[a].GetLogContent(), logMsg(3, 5000+r, false)) != 1 {
					lost++
				}
			}
			if lost > 0 {
				lostRound = r
			}
			_ = c.Close()
		}
		if lostRound >= 0 {
			fmt.Printf("FAIL appended-member-misses-messages:%s | round %d: %d of %d members appended at the same instant to a fresh composite never receive the message logged after every Append had returned\n", name, lostRound, lost, appenders)
		}
	}
	_ = s.loggers.Close()
	fmt.Println("DONE")
}

func logSafeMain(args []string) {
	o := hx.ParseOpts(args)
	rep := hx.NewReport("every logger constructor (string, plain string, file, JSON, logr / zap / logrus / hclog / slog adapters, quiet, noop, std, multiple and combined loggers of 1..4 members with a member appended while producers run, " +
		"asynchronous and JSON-asynchronous with ring sizes 1..1024) x {2, 8, 32} producers x 40..200 messages mixing Log / LogError / SetLogSource, each run in a child process built with the race detector. " +
		"non-trivial = the logger has a readable sink; distinct = (logger, producers, messages, ring).")
	exe, _ := os.Executable()
	tmp, _ := os.MkdirTemp("", "verif-logs")
	defer os.RemoveAll(tmp)
	rnd := hx.NewRand(o.Seed)
	type cfg struct{ producers, messages int }
	cfgs := []cfg{{2, 100}, {8, 60}}
	if o.Thorough() {
		cfgs = []cfg{{2, 200}, {4, 150}, {8, 100}, {16, 60}, {32, 40}}
	}
	raceDetector := true
	for _, name := range logSubjects {
		for ci, c := range cfgs {
			rings := []int{0}
			if name == "async" || name == "jsonasync" {
				rings = []int{1, 16, 1024}
			} else if name == "multiple" || name == "combined" {
				rings = []int{rnd.Intn(4)}
			}
			for _, ring := range rings {
				caseTxt := fmt.Sprintf("logcase %s producers=%d messages=%d ring=%d", name, c.producers, c.messages, ring)
				dir := filepath.Join(tmp, fmt.Sprintf("%s_%d_%d", name, ci, ring))
				_ = os.MkdirAll(dir, 0o755)
				cmd := exec.Command(exe, "logsafe-child", name, fmt.Sprint(c.producers), fmt.Sprint(c.messages), fmt.Sprint(ring), dir)
				cmd.Env = append(os.Environ(), "GORACE=halt_on_error=0 log_path="+filepath.Join(dir, "race"))
				var out bytes.Buffer
				cmd.Stdout = &out
				cmd.Stderr = nil
				done := make(chan error, 1)
				_ = cmd.Start()
				go func() { done <- cmd.Wait() }()
				select {
				case <-done:
				case <-time.After(120 * time.Second):
					_ = cmd.Process.Kill()
					rep.Fail(hx.Failure{Kind: "impl-violates-property", Key: "logger-blocks:" + name, Case: caseTxt, Observed: "no answer within 120 s"})
				}
				rep.Eval(caseTxt, name != "noop" && name != "std")
				rep.Hist("logger:" + name)
				text := out.String()
				if name != "std" && !strings.Contains(text, "DONE") {
					rep.Fail(hx.Failure{Kind: "impl-violates-property", Key: "logger-crashes:" + name, Case: caseTxt, Observed: text[max(0, len(text)-400):]})
				}
				for _, line := range strings.Split(text, "\n") {
					if strings.HasPrefix(line, "FAIL ") {
						parts := strings.SplitN(strings.TrimPrefix(line, "FAIL "), " | ", 2)
						kind := "impl-violates-property"
						if strings.HasPrefix(parts[0], "harness-error") {
							kind = "harness-error"
						}
						obs := ""
						if len(parts) > 1 {
							obs = parts[1]
						}
						rep.Fail(hx.Failure{Kind: kind, Key: parts[0], Case: caseTxt, Expected: "each message exactly once and intact", Observed: obs})
					}
					if strings.HasPrefix(line, "INFO ") && ci == 0 {
						rep.Sample(map[string]string{"case": caseTxt, "ring": line})
					}
				}
				// race reports
				matches, _ := filepath.Glob(filepath.Join(dir, "race.*"))
				for _, m := range matches {
					b, _ := os.ReadFile(m)
					if bytes.Contains(b, []byte("DATA RACE")) {
						// first frames of the report that belong to the library
						var where []string
						for _, l := range strings.Split(string(b), "\n") {
							l = strings.TrimSpace(l)
							if strings.Contains(l, "golang-utils/utils/") && strings.Contains(l, "(") && len(where) < 3 {
								where = append(where, l[strings.Index(l, "utils/"):])
							}
						}
						rep.Fail(hx.Failure{Kind: "impl-violates-property", Key: "data-race:" + name, Case: caseTxt, Expected: "no data race", Observed: strings.Join(where, " <- ")})
						break
					}
				}
			}
		}
	}
	if !raceDetector {
		rep.Hist("race-detector-off")
	}
	rep.Write(o.Report, nil)
	if len(rep.Failures) > 0 {
		fmt.Printf("failures: %d\n", len(rep.Failures))
	}
}
