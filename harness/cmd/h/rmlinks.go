package main

// C04 — recursive removal never touches anything outside the tree.
// Sandbox S on the OS backend: S/r is the tree handed to the removal entry point, S/out lives outside.
// The tree is decorated with symbolic links to files and directories inside and outside it, to
// ancestors (loops) and to nothing (dangling). Before / after snapshots (Lstat: kinds, link targets,
// sizes, content) of the whole sandbox:
//   (a) nothing outside S/r changes;                     [every entry point, with and without patterns]
//   (b) success without patterns ⇒ the tree (CleanDir: its content) is gone, dangling links included;
//   (c) entries whose name is excluded survive together with their ancestors;
//   and the final sandbox equals the one computed by Model.Rm (driver) for Remove / CleanDir.

import (
	"github.com/spf13/afero"
	"sync/atomic"
	"syscall"
	"bufio"
	"context"
	"encoding/json"
	"os/exec"
	"fmt"
	"os"
	"path/filepath"
	"sort"
	"strings"
	"time"

	"github.com/ARM-software/golang-utils/utils/filesystem"

	"verif/harness/hx"
)

func init() { subs["rmlinks"] = rmLinksMain; subs["rmlinks-child"] = rmLinksChild }

type rmEntry struct {
	path   string // relative to the sandbox, "/" separated
	kind   byte   // 'd', 'f', 'l'
	size   int
	target string // for links: relative to the sandbox (may not exist)
}

func (e rmEntry) String() string {
	switch e.kind {
	case 'd':
		return e.path + "=d"
	case 'f':
		return fmt.Sprintf("%s=f%d", e.path, e.size)
	}
	return e.path + "=>" + e.target
}

var rmNames = []string{"a", "b", "c", "KX", "KY"}

func genRmTree(rnd *hx.Rand) []rmEntry {
	ents := []rmEntry{{path: "r", kind: 'd'}, {path: "out", kind: 'd'}}
	dirs := map[string]bool{"r": true, "out": true}
	have := map[string]bool{"r": true, "out": true}
	var dirList = []string{"r", "out"}
	add := func(e rmEntry) {
		if have[e.path] {
			return
		}
		have[e.path] = true
		ents = append(ents, e)
		if e.kind == 'd' {
			dirs[e.path] = true
			dirList = append(dirList, e.path)
		}
	}
	n := rnd.Range(2, 14)
	for i := 0; i < n; i++ {
		parent := hx.Pick(rnd, dirList)
		if strings.Count(parent, "/") >= 3 {
			parent = "r"
		}
		name := hx.Pick(rnd, rmNames[:3])
		if rnd.Chance(18) {
			name = hx.Pick(rnd, rmNames[3:])
		}
		p := parent + "/" + name
		if rnd.Chance(45) {
			add(rmEntry{path: p, kind: 'd'})
		} else {
			add(rmEntry{path: p, kind: 'f', size: rnd.Intn(5)})
		}
	}
	// links, inside the tree only (the property is about links FOUND IN the tree)
	var inDirs []string
	for _, d := range dirList {
		if d == "r" || strings.HasPrefix(d, "r/") {
			inDirs = append(inDirs, d)
		}
	}
	nl := rnd.Intn(4)
	for i := 0; i < nl; i++ {
		parent := hx.Pick(rnd, inDirs)
		p := parent + "/l" + fmt.Sprint(i)
		var target string
		switch rnd.Intn(6) {
		case 0: // dangling
			target = "zz/q" + fmt.Sprint(i)
		case 1: // ancestor (loop)
			target = parent
			if rnd.Bool() {
				target = "r"
			}
		default: // an existing entry, inside or outside, file or directory (or another link)
			target = ents[rnd.Intn(len(ents))].path
		}
		add(rmEntry{path: p, kind: 'l', target: target})
	}
	return ents
}

func buildRmTree(s string, ents []rmEntry) error {
	for _, e := range ents {
		full := filepath.Join(s, filepath.FromSlash(e.path))
		switch e.kind {
		case 'd':
			if err := os.MkdirAll(full, 0o755); err != nil {
				return err
			}
		case 'f':
			if err := os.WriteFile(full, []byte(strings.Repeat("x", e.size)), 0o644); err != nil {
				return err
			}
		case 'l':
			if err := os.Symlink(filepath.Join(s, filepath.FromSlash(e.target)), full); err != nil {
				return err
			}
		}
	}
	return nil
}

func snapshotRm(s string) map[string]string {
	out := map[string]string{}
	_ = filepath.Walk(s, func(path string, info os.FileInfo, err error) error {
		if err != nil || path == s {
			return nil
		}
		rel := filepath.ToSlash(strings.TrimPrefix(path, s+string(filepath.Separator)))
		defer func() {
			// owner, when it is not the user running the harness (entries given to another user on purpose)
			if st, ok := info.Sys().(*syscall.Stat_t); ok && int(st.Uid) != os.Getuid() {
				if v, present := out[rel]; present {
					out[rel] = fmt.Sprintf("%s@%d:%d", v, st.Uid, st.Gid)
				}
			}
		}()
		switch {
		case info.Mode()&os.ModeSymlink != 0:
			tg, _ := os.Readlink(path)
			out[rel] = "=>" + filepath.ToSlash(strings.TrimPrefix(tg, s+string(filepath.Separator)))
		case info.IsDir():
			out[rel] = "=d"
		default:
			b, _ := os.ReadFile(path)
			out[rel] = fmt.Sprintf("=f%d", len(b))
			if strings.Trim(string(b), "x") != "" {
				out[rel] += "!content-changed"
			}
		}
		return nil
	})
	return out
}

func dumpRm(m map[string]string) string {
	var l []string
	for k, v := range m {
		l = append(l, k+v)
	}
	sort.Strings(l)
	return strings.Join(l, ",")
}

type rmJob struct {
	ents   []rmEntry
	ep     string
	pats   []string
	target string // what the entry point is applied to ("" = the tree r); may be a link inside the tree
}

func (j rmJob) root() string {
	if j.target == "" {
		return "r"
	}
	return j.target
}

func (j rmJob) caseLine() string {
	var es []string
	for _, e := range j.ents {
		es = append(es, e.String())
	}
	pat := "-"
	if len(j.pats) > 0 {
		pat = strings.Join(j.pats, ",")
	}
	ep := j.ep
	if j.target != "" {
		ep += "@" + j.target
	}
	return fmt.Sprintf("rmcase %s %s -- %s", ep, pat, strings.Join(es, " "))
}

func parseRmJob(c string) (rmJob, bool) {
	f := strings.Fields(c)
	if len(f) < 5 || f[0] != "rmcase" {
		return rmJob{}, false
	}
	j := rmJob{ep: f[1]}
	if i := strings.Index(j.ep, "@"); i >= 0 {
		j.ep, j.target = j.ep[:i], j.ep[i+1:]
	}
	if f[2] != "-" {
		j.pats = strings.Split(f[2], ",")
	}
	for _, es := range f[4:] {
		var e rmEntry
		if i := strings.Index(es, "=>"); i >= 0 {
			e = rmEntry{path: es[:i], kind: 'l', target: es[i+2:]}
		} else if strings.HasSuffix(es, "=d") {
			e = rmEntry{path: strings.TrimSuffix(es, "=d"), kind: 'd'}
		} else if i := strings.Index(es, "=f"); i >= 0 {
			e = rmEntry{path: es[:i], kind: 'f'}
			fmt.Sscan(es[i+2:], &e.size)
		} else {
			return rmJob{}, false
		}
		j.ents = append(j.ents, e)
	}
	return j, true
}

type rmChildResult struct {
	Case     string       `json:"case"`
	Failures []hx.Failure `json:"failures"`
	Hist     []string     `json:"hist"`
	Line     string       `json:"line"`
	Obs      string       `json:"obs"`
	HasLink  bool         `json:"haslink"`
}

// rmLinksChild: one job per input line, one JSON answer per job (run in a child process so that a
// removal that does not return can be killed)
func rmLinksChild(args []string) {
	base := args[0]
	fs := filesystem.NewFs(filesystem.StandardFS)
	sc := bufio.NewScanner(os.Stdin)
	sc.Buffer(make([]byte, 1<<20), 1<<24)
	w := bufio.NewWriter(os.Stdout)
	i := 0
	for sc.Scan() {
		j, ok := parseRmJob(sc.Text())
		if !ok {
			continue
		}
		i++
		res := runRmJob(fs, filepath.Join(base, fmt.Sprint("s", os.Getpid(), "_", i)), j)
		b, _ := json.Marshal(res)
		w.Write(b)
		w.WriteByte('\n')
		w.Flush()
	}
}

func runRmJob(fs filesystem.FS, s string, j rmJob) (res rmChildResult) {
	c := j.caseLine()
	res.Case = c
	fail := func(f hx.Failure) { res.Failures = append(res.Failures, f) }
	_ = os.MkdirAll(s, 0o755)
	defer os.RemoveAll(s)
	if err := buildRmTree(s, j.ents); err != nil {
		fail(hx.Failure{Kind: "harness-error", Key: "build-tree", Detail: err.Error()})
		return
	}
	var es []string
	for _, e := range j.ents {
		es = append(es, e.String())
		res.HasLink = res.HasLink || e.kind == 'l'
	}
	pat := "-"
	if len(j.pats) > 0 {
		pat = strings.Join(j.pats, ",")
	}
	res.Hist = append(res.Hist, "entry:"+j.ep)
	tgt := j.root()
	if j.ep == "RemoveWithPrivileges:first-attempt-refused" && os.Getuid() == 0 {
		// everything outside the tree belongs to somebody else (links included, without following them)
		_ = filepath.Walk(s, func(path string, info os.FileInfo, err error) error {
			if err != nil || path == s {
				return nil
			}
			rel := filepath.ToSlash(strings.TrimPrefix(path, s+string(filepath.Separator)))
			if rel != tgt && !strings.HasPrefix(rel, tgt+"/") {
				_ = os.Lchown(path, 54321, 54321)
			}
			return nil
		})
	}
	before := snapshotRm(s)
	root := filepath.Join(s, filepath.FromSlash(tgt))
	ctx := context.Background()
	var rerr error
	goPats := make([]string, len(j.pats))
	for i, p := range j.pats {
		goPats[i] = p
		if p == "_" {
			goPats[i] = "  " // a blank pattern: to be ignored
		}
	}
	func() {
		defer func() {
			if r := recover(); r != nil {
				rerr = fmt.Errorf("panic: %v", r)
			}
		}()
		switch j.ep {
		case "Rm":
			rerr = fs.Rm(root)
		case "RemoveWithContext":
			rerr = fs.RemoveWithContext(ctx, root)
		case "RemoveWithContextAndExclusionPatterns":
			rerr = fs.RemoveWithContextAndExclusionPatterns(ctx, root, goPats...)
		case "RemoveWithPrivileges":
			rerr = fs.RemoveWithPrivileges(ctx, root)
		case "RemoveWithPrivileges:first-attempt-refused":
			// the backend refuses every removal until the ownership of something has been changed: the fallback
			// (take the ownership, try again) runs
			rfs := &refuseUntilChownFs{Fs: filesystem.NewExtendedOsFs()}
			vfs := filesystem.NewVirtualFileSystem(rfs, filesystem.StandardFS, filesystem.IdentityPathConverterFunc)
			rerr = vfs.RemoveWithPrivileges(ctx, root)
			if !rfs.chowned.Load() {
				res.Hist = append(res.Hist, "privileges-fallback-not-reached")
			}
		case "CleanDir":
			rerr = fs.CleanDir(root)
		case "CleanDirWithContext":
			rerr = fs.CleanDirWithContext(ctx, root)
		case "CleanDirWithContextAndExclusionPatterns":
			rerr = fs.CleanDirWithContextAndExclusionPatterns(ctx, root, goPats...)
		case "GarbageCollect":
			time.Sleep(2 * time.Millisecond)
			rerr = fs.GarbageCollect(root, time.Nanosecond)
		}
	}()
	after := snapshotRm(s)
	isClean := strings.HasPrefix(j.ep, "CleanDir")
	// (a) nothing outside the tree changes
	for p, v := range before {
		inside := strings.HasPrefix(p, tgt+"/") || (p == tgt && !isClean && j.ep != "GarbageCollect")
		if !inside && after[p] != v {
			fail(hx.Failure{Kind: "impl-violates-property", Key: "removal-changes-something-outside-the-tree", Case: c,
				Expected: p + v + " untouched", Observed: fmt.Sprintf("%s is now %q (result: %v)", p, after[p], rerr)})
			break
		}
	}
	for p := range after {
		if _, ok := before[p]; !ok {
			fail(hx.Failure{Kind: "impl-violates-property", Key: "removal-creates-an-entry", Case: c, Observed: p + after[p]})
			break
		}
	}
	// (b) success without patterns: really gone
	if rerr == nil && len(j.pats) == 0 && j.ep != "GarbageCollect" {
		for p := range after {
			if strings.HasPrefix(p, tgt+"/") || (p == tgt && !isClean) {
				fail(hx.Failure{Kind: "impl-violates-property", Key: "removal-reports-success-but-the-tree-is-still-there", Case: c,
					Expected: "nothing left at or below " + tgt, Observed: p + after[p] + " is still there"})
				break
			}
		}
	}
	// (c) excluded entries survive with their ancestors
	if len(j.pats) > 0 {
		ex := map[string]bool{}
		for _, p := range j.pats {
			ex[p] = true
		}
		// the entry handed to the removal is itself excluded: it survives
		if tp := strings.Split(tgt, "/"); ex[tp[len(tp)-1]] && after[tgt] != before[tgt] {
			fail(hx.Failure{Kind: "impl-violates-property", Key: "excluded-entry-or-ancestor-removed:first-level", Case: c,
				Expected: tgt + before[tgt] + " survives (its own name is excluded)", Observed: fmt.Sprintf("now %q", after[tgt])})
		}
	outer:
		for p, v := range before {
			if !strings.HasPrefix(p, tgt+"/") {
				continue
			}
			parts := strings.Split(p, "/")
			if !ex[parts[len(parts)-1]] {
				continue
			}
			for k := 1; k <= len(parts); k++ {
				anc := strings.Join(parts[:k], "/")
				if after[anc] != before[anc] {
					key := "excluded-entry-or-ancestor-removed:below-first-level"
					if len(parts) == 2 {
						key = "excluded-entry-or-ancestor-removed:first-level"
					}
					fail(hx.Failure{Kind: "impl-violates-property", Key: key, Case: c,
						Expected: anc + before[anc] + " survives (" + p + v + " is excluded)", Observed: fmt.Sprintf("now %q", after[anc])})
					break outer
				}
			}
		}
	}
	r := "ok"
	if rerr != nil {
		r = "err"
	}
	res.Hist = append(res.Hist, "result:"+r)
	if j.ep != "GarbageCollect" && !strings.HasPrefix(j.ep, "RemoveWithPrivileges") {
		op := "remove"
		if isClean {
			op = "clean"
		}
		res.Line = fmt.Sprintf("rm %s %s %s -- %s", op, tgt, pat, strings.Join(es, " "))
		res.Obs = r + " || " + dumpRm(after)
	}
	return
}

func rmLinksMain(args []string) {
	o := hx.ParseOpts(args)
	rep := hx.NewReport("sandboxes on the OS backend: a tree r of 2..14 entries (depth ≤ 4, names a,b,c,KX,KY, files of 0..4 bytes, empty directories) next to an outside directory out, 0..3 symbolic links inside r pointing to " +
		"files / directories inside or outside r, to ancestors, to other links, to nothing; entry points Rm, RemoveWithContext, RemoveWithContextAndExclusionPatterns, RemoveWithPrivileges, CleanDir, CleanDirWithContext, " +
		"CleanDirWithContextAndExclusionPatterns, GarbageCollect; exclusion patterns ∅, {KX}, {KX,KY}. non-trivial = the tree holds at least one link; distinct = (tree, entry point, patterns).")
	drv, err := hx.StartDriver(o.Driver)
	if err != nil {
		fmt.Println("driver:", err)
	}
	defer drv.Close()
	rnd := hx.NewRand(o.Seed)
	n := 400
	if o.Thorough() {
		n = 8000
	}
	base, _ := os.MkdirTemp("", "verif-rm")
	defer os.RemoveAll(base)
	eps := []string{"Rm", "RemoveWithContext", "RemoveWithContextAndExclusionPatterns", "RemoveWithPrivileges", "RemoveWithPrivileges:first-attempt-refused", "CleanDir", "CleanDirWithContext", "CleanDirWithContextAndExclusionPatterns", "GarbageCollect"}
	var jobs []rmJob
	if o.Replay != "" {
		for _, c := range hx.ReplayCases(o.Replay, "rmcase ") {
			if j, ok := parseRmJob(c); ok {
				jobs = append(jobs, j)
			}
		}
		n = 0
	}
	for i := 0; i < n; i++ {
		j := rmJob{ents: genRmTree(rnd), ep: hx.Pick(rnd, eps)}
		if strings.Contains(j.ep, "Exclusion") {
			j.pats = [][]string{nil, {"KX"}, {"KX", "KY"}, {"", "KX"}, {"KX", "_", "KY"}}[rnd.Intn(5)]
		}
		// sometimes the removal is applied to a symbolic link of the tree itself, with or without its own name excluded
		if (j.ep == "RemoveWithContextAndExclusionPatterns" || j.ep == "RemoveWithContext" || j.ep == "Rm") && rnd.Chance(30) {
			var links []string
			for _, e := range j.ents {
				if e.kind == 'l' {
					links = append(links, e.path)
				}
			}
			if len(links) > 0 {
				j.target = hx.Pick(rnd, links)
				if j.ep == "RemoveWithContextAndExclusionPatterns" && rnd.Bool() {
					parts := strings.Split(j.target, "/")
					j.pats = []string{parts[len(parts)-1]}
				} else if j.ep == "RemoveWithContextAndExclusionPatterns" {
					j.pats = nil
				}
			}
		}
		jobs = append(jobs, j)
	}
	var lines, obs, cases []string
	exe, _ := os.Executable()
	next := 0
	for next < len(jobs) {
		cmd := exec.Command(exe, "rmlinks-child", base)
		stdin, _ := cmd.StdinPipe()
		stdout, _ := cmd.StdoutPipe()
		cmd.Stderr = os.Stderr
		if err := cmd.Start(); err != nil {
			rep.Fail(hx.Failure{Kind: "harness-error", Key: "child-start", Detail: err.Error()})
			break
		}
		go func(from int) {
			for _, j := range jobs[from:] {
				fmt.Fprintln(stdin, j.caseLine())
			}
			stdin.Close()
		}(next)
		sc := bufio.NewScanner(stdout)
		sc.Buffer(make([]byte, 1<<20), 1<<24)
		ch := make(chan []byte, 16)
		go func() {
			for sc.Scan() {
				ch <- append([]byte{}, sc.Bytes()...)
			}
			close(ch)
		}()
		hung := false
	loop:
		for {
			select {
			case raw, ok := <-ch:
				if !ok {
					break loop
				}
				var r rmChildResult
				if json.Unmarshal(raw, &r) != nil {
					continue
				}
				rep.Eval(r.Case, r.HasLink)
				for _, h := range r.Hist {
					rep.Hist(h)
				}
				for _, f := range r.Failures {
					rep.Fail(f)
				}
				if r.Line != "" {
					lines = append(lines, r.Line)
					obs = append(obs, r.Obs)
					cases = append(cases, r.Case)
				}
				next++
			case <-time.After(10 * time.Second):
				hung = true
				_ = cmd.Process.Kill()
				break loop
			}
		}
		werr := cmd.Wait()
		if next < len(jobs) && (hung || werr != nil) {
			key := "removal-does-not-return:" + jobs[next].ep
			if !hung {
				key = "removal-crashes-the-process:" + jobs[next].ep
			}
			rep.Eval(jobs[next].caseLine(), true)
			rep.Fail(hx.Failure{Kind: "impl-violates-property", Key: key, Case: jobs[next].caseLine(), Expected: "the call returns", Observed: "no answer within 10 s (child process killed)"})
			next++
		}
	}
	if drv != nil && len(lines) > 0 {
		ans, err := drv.Ask(lines)
		if err != nil {
			rep.Fail(hx.Failure{Kind: "harness-error", Key: "driver", Detail: err.Error()})
		}
		for i, a := range ans {
			m := a
			if strings.HasPrefix(m, "err:") {
				m = "err" + m[strings.Index(m, " || "):]
			}
			if m != obs[i] {
				rep.Fail(hx.Failure{Kind: "model-impl-divergence", Key: "rm:" + strings.Fields(lines[i])[1], Case: cases[i], Expected: "model: " + a, Observed: "impl:  " + obs[i]})
			} else {
				rep.Hist("model=impl")
				if i < 4 {
					rep.Sample(map[string]string{"line": lines[i], "model": a})
				}
			}
		}
	}
	rep.Write(o.Report, drv)
	if len(rep.Failures) > 0 {
		fmt.Printf("failures: %d\n", len(rep.Failures))
	}
}


// refuseUntilChownFs refuses every removal (EACCES) until a Chown has gone through it
type refuseUntilChownFs struct {
	afero.Fs
	chowned atomic.Bool
}

func (r *refuseUntilChownFs) Remove(name string) error {
	if !r.chowned.Load() {
		return &os.PathError{Op: "remove", Path: name, Err: syscall.EACCES}
	}
	return r.Fs.Remove(name)
}

func (r *refuseUntilChownFs) RemoveAll(name string) error {
	if !r.chowned.Load() {
		return &os.PathError{Op: "removeall", Path: name, Err: syscall.EACCES}
	}
	return r.Fs.RemoveAll(name)
}

func (r *refuseUntilChownFs) Chown(name string, uid, gid int) error {
	r.chowned.Store(true)
	return r.Fs.Chown(name, uid, gid)
}

func (r *refuseUntilChownFs) LstatIfPossible(name string) (os.FileInfo, bool, error) {
	if l, ok := r.Fs.(afero.Lstater); ok {
		return l.LstatIfPossible(name)
	}
	fi, err := r.Fs.Stat(name)
	return fi, false, err
}

func (r *refuseUntilChownFs) ReadlinkIfPossible(name string) (string, error) {
	if l, ok := r.Fs.(afero.LinkReader); ok {
		return l.ReadlinkIfPossible(name)
	}
	return "", &os.PathError{Op: "readlink", Path: name, Err: afero.ErrNoReadlink}
}

func (r *refuseUntilChownFs) SymlinkIfPossible(oldname, newname string) error {
	if l, ok := r.Fs.(afero.Linker); ok {
		return l.SymlinkIfPossible(oldname, newname)
	}
	return &os.LinkError{Op: "symlink", Old: oldname, New: newname, Err: afero.ErrNoSymlink}
}
