package main

// C19, stream clause — "a stream paginator keeps yielding items of future pages until it has been told
// the stream is drying up and the grace period has elapsed". Real stream paginators (both constructors)
// over a scripted stream in real time: the first page is served at once, later batches become available
// at scheduled instants through GetFuture / the future-fetch function (which otherwise returns an empty
// page that still has a future), DryUp() is called at a scheduled instant (or never).
// Expected, with grace period T and slack S for scheduling jitter:
//   * every batch scheduled before DryUp + T - S is yielded, in order, exactly once;
//   * the iteration does not end before DryUp + T - S (never, without DryUp, until Stop);
//   * it does end within a bounded delay after DryUp + T.

import (
	"context"
	"errors"
	"fmt"
	"sync"
	"time"

	"github.com/ARM-software/golang-utils/utils/collection/pagination"

	"verif/harness/hx"
)

type sBatch struct {
	atMs  int
	items []int
}

type sStream struct {
	poison  bool // set by the watchdog: every further fetch fails, which ends a spinning HasNext
	mu      sync.Mutex
	t0      time.Time
	batches []sBatch
	next    int
	polls   int
}

type sPage struct {
	s     *sStream
	items []int
	next  *sPage // the page the `next` link leads to (nil: none)
}

func (p *sPage) HasNext() bool { return p.next != nil }
func (p *sPage) GetItemIterator() (pagination.IIterator, error) {
	return &mIter{items: p.items}, nil
}
func (p *sPage) GetItemCount() (int64, error) { return int64(len(p.items)), nil }
func (p *sPage) GetNext(context.Context) (pagination.IPage, error) {
	if p.next != nil {
		return p.next, nil
	}
	return nil, errors.New("no next page")
}
// only the last page of a `next` chain carries the link to the future
func (p *sPage) HasFuture() bool { return p.next == nil }
func (p *sPage) future() *sPage {
	p.s.mu.Lock()
	defer p.s.mu.Unlock()
	p.s.polls++
	if p.s.poison {
		return nil
	}
	if p.s.next < len(p.s.batches) && time.Since(p.s.t0) >= time.Duration(p.s.batches[p.s.next].atMs)*time.Millisecond {
		b := p.s.batches[p.s.next]
		p.s.next++
		return &sPage{s: p.s, items: b.items}
	}
	return &sPage{s: p.s}
}
func (p *sPage) GetFuture(context.Context) (pagination.IStream, error) {
	if f := p.future(); f != nil {
		return f, nil
	}
	return nil, errors.New("stream closed by the harness watchdog")
}

type streamScenario struct {
	name    string
	chain   [][]int // pages reached from the first one through `next` links (the last of them carries the future)
	first   []int
	batches []sBatch
	dryAtMs int // -1: never (the harness stops the paginator at stopAtMs)
	stopAt  int
}

func streamFutureScenarios(rep *hx.Report, o *hx.Opts) {
	const T = 400 * time.Millisecond
	const slack = 150 * time.Millisecond
	const endBound = 1500 * time.Millisecond
	scen := []streamScenario{
		{"quiet-longer-than-the-grace-period-before-DryUp", nil, []int{1, 2}, []sBatch{{1000, []int{3, 4, 5}}}, 900, 0},
		{"steady-items-then-DryUp", nil, []int{1}, []sBatch{{60, []int{2}}, {120, []int{3, 4}}, {180, nil}, {300, []int{5}}}, 200, 0},
		{"dry-from-the-start", nil, []int{1, 2, 3}, []sBatch{{100, []int{4}}, {180, []int{5, 6}}}, 0, 0},
		{"never-dry-gaps-longer-than-the-grace-period", nil, nil, []sBatch{{100, []int{1}}, {700, []int{2, 3}}}, -1, 1000},
		{"empty-first-page-then-DryUp-after-a-quiet-period", nil, nil, []sBatch{{650, []int{7}}}, 600, 0},
		{"next-chain-ending-in-an-empty-page-then-future-pages", [][]int{{}}, []int{1, 2}, []sBatch{{60, []int{3, 4}}}, 250, 0},
		{"next-chain-with-items-then-an-empty-page-then-future-pages", [][]int{{3}, {}, {}}, []int{1, 2}, []sBatch{{80, []int{4}}, {140, []int{5, 6}}}, 300, 0},
	}
	if o.Thorough() {
		rnd := hx.NewRand(o.Seed + 77)
		for i := 0; i < 12; i++ {
			sc := streamScenario{name: fmt.Sprintf("random-%d", i), dryAtMs: 100 * rnd.Intn(12)}
			if rnd.Chance(40) {
				sc.first = []int{-1}
				for k, nk := 0, 1+rnd.Intn(3); k < nk; k++ {
					sc.chain = append(sc.chain, nil)
				}
			}
			at := 0
			n := 1
			for k, nb := 0, rnd.Intn(5); k < nb; k++ {
				at += 50 + 50*rnd.Intn(12)
				var its []int
				for j, ni := 0, rnd.Intn(4); j < ni; j++ {
					its = append(its, n)
					n++
				}
				sc.batches = append(sc.batches, sBatch{at, its})
			}
			scen = append(scen, sc)
		}
	}
	var mu sync.Mutex
	var wg sync.WaitGroup
	for _, sc := range scen {
		for _, kind := range []string{"stream-dynamic", "stream-static"} {
			wg.Add(1)
			go func(sc streamScenario, kind string) {
				defer wg.Done()
				st := &sStream{batches: sc.batches}
				first := &sPage{s: st, items: sc.first}
				tail := first
				for _, its := range sc.chain {
					tail.next = &sPage{s: st, items: its}
					tail = tail.next
				}
				ctx, cancelAll := context.WithTimeout(context.Background(), 8*time.Second)
				defer cancelAll()
				var p interface {
					pager
					DryUp() error
				}
				var err error
				if kind == "stream-dynamic" {
					p, err = pagination.NewStreamPaginator(ctx, T, 2*time.Millisecond, func(context.Context) (pagination.IStream, error) { return first, nil })
				} else {
					p, err = pagination.NewStaticPageStreamPaginator(ctx, T, 2*time.Millisecond,
						func(context.Context) (pagination.IStaticPageStream, error) { return first, nil },
						func(_ context.Context, cur pagination.IStaticPage) (pagination.IStaticPage, error) {
							if n := cur.(*sPage).next; n != nil {
								return n, nil
							}
							return nil, errors.New("no next page")
						},
						func(_ context.Context, cur pagination.IStaticPageStream) (pagination.IStaticPageStream, error) {
							if f := cur.(*sPage).future(); f != nil {
								return f, nil
							}
							return nil, errors.New("stream closed by the harness watchdog")
						})
				}
				caseTxt := fmt.Sprintf("stream %s %s first=%v next-chain=%v batches=%v dryUp@%dms grace=%v", kind, sc.name, sc.first, sc.chain, sc.batches, sc.dryAtMs, T)
				if err != nil {
					mu.Lock()
					rep.Fail(hx.Failure{Kind: "harness-error", Key: "stream-paginator-constructor", Case: caseTxt, Detail: err.Error()})
					mu.Unlock()
					return
				}
				st.mu.Lock()
				st.t0 = time.Now()
				t0 := st.t0
				st.mu.Unlock()
				var dryAt time.Time
				if sc.dryAtMs == 0 {
					_ = p.DryUp()
					dryAt = time.Now()
				} else if sc.dryAtMs > 0 {
					tm := time.AfterFunc(time.Duration(sc.dryAtMs)*time.Millisecond, func() { _ = p.DryUp() })
					defer tm.Stop()
					dryAt = t0.Add(time.Duration(sc.dryAtMs) * time.Millisecond)
				} else {
					tm := time.AfterFunc(time.Duration(sc.stopAt)*time.Millisecond, func() { p.Stop()() })
					defer tm.Stop()
				}
				var got []int
				iterDone := make(chan struct{})
				go func() {
					defer close(iterDone)
					for p.HasNext() {
						it, gerr := p.GetNext()
						if gerr != nil {
							break
						}
						got = append(got, it.(int))
					}
				}()
				// watchdog: the latest instant at which the iteration may legitimately still run
				latest := time.Duration(sc.stopAt) * time.Millisecond
				if sc.dryAtMs >= 0 {
					latest = time.Duration(sc.dryAtMs)*time.Millisecond + T
					for _, b := range sc.batches {
						if d := time.Duration(b.atMs)*time.Millisecond + T; d > latest {
							latest = d
						}
					}
				}
				hung := false
				select {
				case <-iterDone:
				case <-time.After(latest + endBound + time.Second):
					hung = true
					st.mu.Lock()
					st.poison = true
					st.mu.Unlock()
					select {
					case <-iterDone:
					case <-time.After(2 * time.Second):
					}
				}
				ended := time.Now()
				if hung {
					mu.Lock()
					rep.Eval(caseTxt, true)
					what := "after the grace period"
					key := "stream-does-not-end-after-the-grace-period"
					if sc.dryAtMs < 0 {
						what = "after Stop()"
						key = "stream-hasnext-never-returns-after-stop"
					}
					rep.Fail(hx.Failure{Kind: "impl-violates-property", Key: key, Case: caseTxt,
						Expected: "HasNext() returns false " + what, Observed: fmt.Sprintf("still inside HasNext() %v after the start (%d future fetches so far); ended only once the harness made the fetches fail", time.Since(t0).Round(time.Millisecond), st.polls)})
					mu.Unlock()
					return
				}
				_ = p.Close()
				// what had to be yielded
				var must, may []int
				must = append(must, sc.first...)
				may = append(may, sc.first...)
				for _, its := range sc.chain {
					must = append(must, its...)
					may = append(may, its...)
				}
				for _, b := range sc.batches {
					at := t0.Add(time.Duration(b.atMs) * time.Millisecond)
					switch {
					case sc.dryAtMs < 0:
						if b.atMs < sc.stopAt-int(slack/time.Millisecond) {
							must = append(must, b.items...)
						}
						if b.atMs < sc.stopAt {
							may = append(may, b.items...)
						}
					default:
						if at.Before(dryAt.Add(T - slack)) {
							must = append(must, b.items...)
						}
						may = append(may, b.items...)
					}
				}
				mu.Lock()
				defer mu.Unlock()
				rep.Eval(caseTxt, len(sc.batches) > 0)
				rep.Hist("stream-future:" + sc.name)
				isPrefix := func(a, b []int) bool { // a is a prefix of b
					if len(a) > len(b) {
						return false
					}
					for i := range a {
						if a[i] != b[i] {
							return false
						}
					}
					return true
				}
				if !isPrefix(must, got) || !isPrefix(got, may) {
					rep.Fail(hx.Failure{Kind: "impl-violates-property", Key: "stream-items-of-future-pages-lost:" + sc.name, Case: caseTxt,
						Expected: fmt.Sprintf("at least %v and at most %v, in this order", must, may), Observed: fmt.Sprintf("%v (iteration ended %v after the start)", got, ended.Sub(t0).Round(time.Millisecond))})
				}
				if sc.dryAtMs >= 0 {
					if ended.Before(dryAt.Add(T - slack)) {
						rep.Fail(hx.Failure{Kind: "impl-violates-property", Key: "stream-ended-before-the-grace-period-elapsed:" + sc.name, Case: caseTxt,
							Expected: fmt.Sprintf("the iteration goes on for the grace period %v after DryUp (slack %v)", T, slack),
							Observed: fmt.Sprintf("ended %v after DryUp", ended.Sub(dryAt).Round(time.Millisecond))})
					}
					// the last sign of life is the later of DryUp and the last batch that was yielded
					if ended.After(dryAt.Add(T+endBound)) && len(got) <= len(must) {
						rep.Fail(hx.Failure{Kind: "impl-violates-property", Key: "stream-does-not-end-after-the-grace-period", Case: caseTxt,
							Observed: fmt.Sprintf("ended %v after DryUp", ended.Sub(dryAt).Round(time.Millisecond))})
					}
				} else if ended.Before(t0.Add(time.Duration(sc.stopAt)*time.Millisecond - slack)) {
					rep.Fail(hx.Failure{Kind: "impl-violates-property", Key: "stream-ended-without-DryUp", Case: caseTxt,
						Observed: fmt.Sprintf("ended %v after the start, Stop() came at %dms", ended.Sub(t0).Round(time.Millisecond), sc.stopAt)})
				}
			}(sc, kind)
		}
	}
	wg.Wait()
}
