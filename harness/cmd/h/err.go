package main

// C11 — error kinds: constructor chains of the real commonerrors package vs Model.Err (texts, kinds,
// serialised form, deserialised kinds and reasons), the deserialiseCommonError table on arbitrary
// strings, plus model-free monitors of the property (kind given = kind recognised, context causes
// never reclassified, kinds and reason survive serialise→deserialise, joins keep all kinds,
// converters are stable).

import (
	"context"
	"encoding/hex"
	"errors"
	"fmt"
	"io"
	"os"
	"os/exec"
	"sort"
	"strconv"
	"strings"
	"syscall"

	"github.com/spf13/afero"

	"github.com/ARM-software/golang-utils/utils/commonerrors"
	"github.com/ARM-software/golang-utils/utils/filesystem"
	"github.com/ARM-software/golang-utils/utils/proc"
	"github.com/ARM-software/golang-utils/utils/safeio"

	"verif/harness/hx"
)

func init() { subs["err"] = errMain }

// declaration order of errors.go (checked against the driver's table through the correspondence)
var sentinels = []error{commonerrors.ErrNotImplemented, commonerrors.ErrNoExtension, commonerrors.ErrNoLogger, commonerrors.ErrNoLoggerSource,
	commonerrors.ErrNoLogSource, commonerrors.ErrUndefined, commonerrors.ErrInvalidDestination, commonerrors.ErrTimeout, commonerrors.ErrLocked,
	commonerrors.ErrStaleLock, commonerrors.ErrExists, commonerrors.ErrNotFound, commonerrors.ErrUnsupported, commonerrors.ErrUnavailable,
	commonerrors.ErrWrongUser, commonerrors.ErrUnauthorised, commonerrors.ErrUnknown, commonerrors.ErrInvalid, commonerrors.ErrConflict,
	commonerrors.ErrMarshalling, commonerrors.ErrCancelled, commonerrors.ErrEmpty, commonerrors.ErrUnexpected, commonerrors.ErrTooLarge,
	commonerrors.ErrForbidden, commonerrors.ErrCondition, commonerrors.ErrEOF, commonerrors.ErrMalicious, commonerrors.ErrOutOfRange, commonerrors.ErrWarning}

const (
	kTimeout   = 7
	kCancelled = 20
	kUnknown   = 16
)

// genTarget: the target kind of a constructor — every eighth time no kind at all (nil: "of type ErrUnknown")
func genTarget(rnd *hx.Rand, depth int) ([]string, eNode) {
	if rnd.Chance(12) {
		return []string{"N"}, eNode{tok: "N", err: nil, kinds: map[int]bool{kUnknown: true}}
	}
	return genExpr(rnd, depth)
}

func hexOrDash(s string) string {
	if s == "" {
		return "-"
	}
	return hex.EncodeToString([]byte(s))
}

func kindsOf(e error) string {
	var ks []string
	for i, s := range sentinels {
		if e != nil && commonerrors.Any(e, s) {
			ks = append(ks, strconv.Itoa(i))
		}
	}
	if len(ks) == 0 {
		return "-"
	}
	return strings.Join(ks, ",")
}

func ctxOf(e error) string {
	s := ""
	if errors.Is(e, context.Canceled) {
		s += "c"
	}
	if errors.Is(e, context.DeadlineExceeded) {
		s += "d"
	}
	if s == "" {
		return "-"
	}
	return s
}

// expression node built by the generator
type eNode struct {
	tok      string
	err      error
	kinds    map[int]bool // kinds the property says the result must be recognised as
	ctxCause bool         // a cancellation / deadline is among the causes
	depth    int          // wrapping depth
	innerIsWrap bool      // the %w target of the outermost wrap is itself a wrapped error
}

var errMsgs = []string{"", "a", "some reason", "with: colon", "a: b: c", " padded ", "not found", "it was invalid", "timeout", "x→日本", "UPPER case", "tab\tinside", "trailing:", ":leading", "100%v"}

func genLeaf(rnd *hx.Rand) eNode {
	switch x := rnd.Intn(100); {
	case x < 70:
		k := rnd.Intn(len(sentinels))
		return eNode{tok: "S" + strconv.Itoa(k), err: sentinels[k], kinds: map[int]bool{k: true}, ctxCause: k == kTimeout || k == kCancelled}
	case x < 78:
		return eNode{tok: "C", err: context.Canceled, kinds: map[int]bool{}, ctxCause: true}
	case x < 86:
		return eNode{tok: "D", err: context.DeadlineExceeded, kinds: map[int]bool{}, ctxCause: true}
	default:
		t := hx.Pick(rnd, []string{"boom", "disk on fire", "E42", "found nothing", "weird: thing"})
		return eNode{tok: "F:" + hex.EncodeToString([]byte(t)), err: errors.New(t), kinds: map[int]bool{}}
	}
}

// kinds a node is recognised as once it has gone through ConvertContextError
func convKinds(n eNode) map[int]bool {
	switch n.tok {
	case "C":
		return map[int]bool{kCancelled: true}
	case "D":
		return map[int]bool{kTimeout: true}
	}
	return n.kinds
}

func ctxKinds(n eNode) map[int]bool {
	n.kinds = convKinds(n)
	out := map[int]bool{}
	for k := range n.kinds {
		if k == kTimeout || k == kCancelled {
			out[k] = true
		}
	}
	return out
}

func genExpr(rnd *hx.Rand, depth int) (toks []string, n eNode) {
	if depth == 0 {
		n = genLeaf(rnd)
		return []string{n.tok}, n
	}
	msg := hx.Pick(rnd, errMsgs)
	mh := hexOrDash(msg)
	switch rnd.Intn(3) {
	case 0: // New / Errorf / Newf
		tt, t := genTarget(rnd, depth-1)
		var e error
		switch rnd.Intn(3) {
		case 0:
			e = commonerrors.New(t.err, msg)
		case 1:
			e = commonerrors.Errorf(t.err, "%v", msg)
		default:
			e = commonerrors.Newf(t.err, "%v", msg)
		}
		_, isWrap := t.err.(interface{ Unwrap() error })
		return append(tt, "new:"+mh), eNode{err: e, kinds: convKinds(t), ctxCause: t.ctxCause, depth: t.depth + 1, innerIsWrap: isWrap}
	case 1: // WrapError(target, orig, msg)
		tt, t := genTarget(rnd, rnd.Intn(depth))
		var ot []string
		var o eNode
		origNil := rnd.Chance(15)
		if origNil {
			ot = []string{"N"}
		} else {
			ot, o = genExpr(rnd, rnd.Intn(depth))
		}
		e := commonerrors.WrapError(t.err, o.err, msg)
		kinds := convKinds(t)
		if !origNil && o.ctxCause {
			kinds = ctxKinds(o)
		}
		_, isWrap := t.err.(interface{ Unwrap() error })
		if !origNil && o.ctxCause {
			_, isWrap = o.err.(interface{ Unwrap() error })
			if o.tok == "C" || o.tok == "D" || errors.Is(o.err, context.Canceled) || errors.Is(o.err, context.DeadlineExceeded) {
				isWrap = false // replaced by the bare sentinel
			}
		}
		return append(append(tt, ot...), "we:"+mh), eNode{err: e, kinds: kinds, ctxCause: t.ctxCause || (!origNil && o.ctxCause), depth: t.depth + 1, innerIsWrap: isWrap}
	default: // WrapIfNotCommonError
		tt, t := genTarget(rnd, rnd.Intn(depth))
		var ot []string
		var o eNode
		origNil := rnd.Chance(10)
		if origNil {
			ot = []string{"N"}
		} else {
			ot, o = genExpr(rnd, rnd.Intn(depth))
		}
		e := commonerrors.WrapIfNotCommonError(t.err, o.err, msg)
		kinds := convKinds(t)
		isWrapTarget := t.err
		switch {
		case !origNil && o.ctxCause:
			kinds = ctxKinds(o)
			isWrapTarget = o.err
		case t.ctxCause:
		case !origNil && len(o.kinds) > 0:
			kinds = o.kinds
			isWrapTarget = o.err
		}
		_, isWrap := isWrapTarget.(interface{ Unwrap() error })
		if errors.Is(isWrapTarget, context.Canceled) || errors.Is(isWrapTarget, context.DeadlineExceeded) {
			isWrap = false
		}
		return append(append(tt, ot...), "wi:"+mh), eNode{err: e, kinds: kinds, ctxCause: t.ctxCause || (!origNil && o.ctxCause), depth: t.depth + 1, innerIsWrap: isWrap}
	}
}

func normReason(s string) string {
	parts := strings.Split(s, ":")
	for i := range parts {
		parts[i] = strings.TrimSpace(parts[i])
	}
	return strings.Join(parts, ":")
}

func errMain(args []string) {
	o := hx.ParseOpts(args)
	rep := hx.NewReport("constructor chains of depth 0..4 mixing New/Newf/Errorf/WrapError/WrapIfNotCommonError over the 30 sentinels, context.Canceled/DeadlineExceeded, foreign errors and nil, " +
		"15 message classes (empty, colons, other kinds' names, unicode, padding); joins of 1..4 chains; deserialiseCommonError on sentinel texts, their substrings, case variants and junk; " +
		"filesystem / IO / process converters on every backend error they know. non-trivial = depth >= 2 or a context cause or a non-common cause; distinct = program text.")
	drv, err := hx.StartDriver(o.Driver)
	if err != nil {
		fmt.Println("driver:", err)
	}
	defer drv.Close()
	rnd := hx.NewRand(o.Seed)
	n := 4000
	if o.Thorough() {
		n = 150000
	}
	var lines, want []string
	for i := 0; i < n; i++ {
		depth := rnd.Intn(5)
		toks, nd := genExpr(rnd, depth)
		e := nd.err
		if e == nil {
			continue
		}
		prog := strings.Join(toks, " ")
		rep.Eval(prog, nd.depth >= 2 || nd.ctxCause || len(nd.kinds) == 0)
		rep.Hist(fmt.Sprintf("depth=%d", nd.depth))
		if nd.ctxCause {
			rep.Hist("context-cause")
		}
		// ---- monitors ----------------------------------------------------------------------
		for k := range nd.kinds {
			if nd.depth == 0 {
				break // a bare leaf was not built by the library's constructors
			}
			if !commonerrors.Any(e, sentinels[k]) || !errors.Is(e, sentinels[k]) {
				rep.Fail(hx.Failure{Kind: "impl-violates-property", Key: "kind-not-recognised", Case: "err " + prog, Expected: "Any(result, " + sentinels[k].Error() + ")", Observed: e.Error()})
			}
		}
		// the other recognisers agree with Any: None is its negation, sentinel by sentinel and over the whole list;
		// the kind the serialised text announces (GetUnderlyingErrorType) is one the error is recognised as
		for _, sn := range sentinels {
			if commonerrors.None(e, sn) == commonerrors.Any(e, sn) {
				rep.Fail(hx.Failure{Kind: "impl-violates-property", Key: "none-disagrees-with-any", Case: "err " + prog, Expected: "None = not Any for " + sn.Error(), Observed: e.Error()})
			}
		}
		if commonerrors.None(e, sentinels...) == commonerrors.Any(e, sentinels...) {
			rep.Fail(hx.Failure{Kind: "impl-violates-property", Key: "none-disagrees-with-any", Case: "err " + prog, Expected: "None(all kinds) = not Any(all kinds)", Observed: e.Error()})
		}
		if nd.depth > 0 && len(nd.kinds) == 1 && !strings.Contains(e.Error(), "\n") {
			if ut, uerr := commonerrors.GetUnderlyingErrorType(e); uerr == nil && ut != nil && commonerrors.IsCommonError(ut) && !commonerrors.Any(e, ut) {
				rep.Fail(hx.Failure{Kind: "impl-violates-property", Key: "announced-kind-not-recognised", Case: "err " + prog, Expected: "Any(result, GetUnderlyingErrorType(result))", Observed: e.Error() + " announces " + ut.Error()})
			}
		}
		if nd.depth > 0 && nd.ctxCause && !commonerrors.Any(e, commonerrors.ErrCancelled, commonerrors.ErrTimeout) {
			rep.Fail(hx.Failure{Kind: "impl-violates-property", Key: "context-cause-reclassified", Case: "err " + prog, Expected: "cancelled or timeout", Observed: e.Error() + " kinds=" + kindsOf(e)})
		}
		text := e.Error()
		var deText, deKinds, deReason = "nil", "-", "-"
		var ser []byte
		if !strings.Contains(text, "\n") && strings.TrimSpace(text) != "" {
			ser, _ = commonerrors.SerialiseError(e)
			de, derr := commonerrors.DeserialiseError(ser)
			reason, _ := commonerrors.GetErrorReason(e)
			if de != nil && derr == nil {
				deText, deKinds = hexOrDash(de.Error()), kindsOf(de)
				r2, _ := commonerrors.GetErrorReason(de)
				deReason = hexOrDash(r2)
				if kindsOf(e) != "-" && deKinds != kindsOf(e) {
					rep.Fail(hx.Failure{Kind: "impl-violates-property", Key: "kind-lost-in-serialisation", Case: "err " + prog, Expected: "kinds " + kindsOf(e), Observed: "kinds " + deKinds + " text " + de.Error()})
				}
				if kindsOf(e) != "-" && normReason(r2) != normReason(reason) {
					key := "reason-mismatch"
					if nd.innerIsWrap {
						key = "reason-duplicated-when-wrapping-a-wrapped-error"
					}
					rep.Fail(hx.Failure{Kind: "impl-violates-property", Key: key, Case: "err " + prog, Expected: "reason " + strconv.Quote(reason), Observed: "reason " + strconv.Quote(r2) + " serialised " + strconv.Quote(string(ser))})
				}
			} else if kindsOf(e) != "-" {
				rep.Fail(hx.Failure{Kind: "impl-violates-property", Key: "not-deserialisable", Case: "err " + prog, Observed: fmt.Sprint(de, derr)})
			}
			lines = append(lines, "err "+prog)
			want = append(want, fmt.Sprintf("text=%s kinds=%s ctx=%s ser=%s de=%s dekinds=%s dereason=%s reason=%s", hexOrDash(text), kindsOf(e), ctxOf(e), hexOrDash(string(ser)), deText, deKinds, deReason, hexOrDash(reason)))
		}
	}
	// ---- joins: kinds survive --------------------------------------------------------------------
	for i := 0; i < n/10; i++ {
		var es []error
		kinds := map[int]bool{}
		for j := rnd.Range(1, 4); j > 0; j-- {
			_, nd := genExpr(rnd, rnd.Intn(3))
			if nd.err == nil || strings.Contains(nd.err.Error(), "\n") || strings.TrimSpace(nd.err.Error()) == "" {
				continue
			}
			es = append(es, nd.err)
			for k := range nd.kinds {
				kinds[k] = true
			}
		}
		if len(es) == 0 {
			continue
		}
		j := errors.Join(es...)
		rep.Eval("join "+j.Error(), len(es) > 1)
		rep.Hist(fmt.Sprintf("join-of-%d", len(es)))
		ser, _ := commonerrors.SerialiseError(j)
		de, derr := commonerrors.DeserialiseError(ser)
		for k := range kinds {
			if !commonerrors.Any(j, sentinels[k]) {
				rep.Fail(hx.Failure{Kind: "impl-violates-property", Key: "join-kind-not-recognised", Case: strconv.Quote(j.Error())})
			}
			if de == nil || derr != nil || !commonerrors.Any(de, sentinels[k]) {
				rep.Fail(hx.Failure{Kind: "impl-violates-property", Key: "join-kind-lost-in-serialisation", Case: strconv.Quote(j.Error()), Expected: sentinels[k].Error(), Observed: fmt.Sprint(de, derr)})
			}
		}
	}
	// ---- deserialiseCommonError table through DeserialiseError --------------------------------
	var tabLines []string
	var tabWant []string
	addTab := func(s string) {
		if strings.ContainsAny(s, ":\n") || strings.TrimSpace(s) == "" {
			return
		}
		de, _ := commonerrors.DeserialiseError([]byte(s))
		w := "unknown"
		if de != nil {
			for i, sn := range sentinels {
				if de == sn {
					w = strconv.Itoa(i)
				}
			}
		}
		tabLines = append(tabLines, "errtab "+hex.EncodeToString([]byte(s)))
		tabWant = append(tabWant, w)
		rep.Eval("tab "+s, true)
	}
	for i, sn := range sentinels {
		t := sn.Error()
		de, derr := commonerrors.DeserialiseError([]byte(t))
		if de != sn || derr != nil {
			rep.Fail(hx.Failure{Kind: "impl-violates-property", Key: "sentinel-text-not-deserialised-to-itself", Case: t, Expected: t, Observed: fmt.Sprint(de, derr)})
		}
		addTab(t)
		addTab(strings.ToUpper(t))
		addTab("  " + t + " ")
		for a := 0; a < len(t); a++ {
			for b := a + 1; b <= len(t); b++ {
				if rnd.Chance(30) || o.Thorough() {
					addTab(t[a:b])
				}
			}
		}
		addTab(t + "x")
		addTab("x" + t)
		_ = i
	}
	for _, s := range []string{"boom", "e", "o", " ", "lock", "found", "source", "invalid destination", "log"} {
		addTab(s)
	}
	// ---- converters -------------------------------------------------------------------------------
	convCases := []struct {
		name string
		in   error
		want error
	}{
		{"io:EOF", io.EOF, commonerrors.ErrEOF}, {"io:UnexpectedEOF", io.ErrUnexpectedEOF, commonerrors.ErrEOF},
		{"io:canceled", context.Canceled, commonerrors.ErrCancelled}, {"io:deadline", context.DeadlineExceeded, commonerrors.ErrTimeout},
		{"io:wrapped-EOF", fmt.Errorf("x: %w", io.EOF), commonerrors.ErrEOF},
	}
	for _, c := range convCases {
		got := safeio.ConvertIOError(c.in)
		rep.Eval("conv "+c.name, true)
		rep.Hist("converter-cases")
		if !commonerrors.Any(got, c.want) || !commonerrors.Any(safeio.ConvertIOError(got), c.want) {
			rep.Fail(hx.Failure{Kind: "impl-violates-property", Key: "converter:" + c.name, Expected: c.want.Error(), Observed: fmt.Sprint(got)})
		}
	}
	type fsCase struct {
		name string
		in   error
		want error
	}
	fsCases := []fsCase{
		{"fs:os.ErrExist", os.ErrExist, commonerrors.ErrExists}, {"fs:afero.ErrFileExists", afero.ErrFileExists, commonerrors.ErrExists},
		{"fs:afero.ErrDestinationExists", afero.ErrDestinationExists, commonerrors.ErrExists}, {"fs:EEXIST", &os.PathError{Op: "mkdir", Path: "/x", Err: syscall.EEXIST}, commonerrors.ErrExists},
		{"fs:os.ErrPermission", os.ErrPermission, commonerrors.ErrConflict}, {"fs:EACCES", &os.PathError{Op: "open", Path: "/x", Err: syscall.EACCES}, commonerrors.ErrConflict},
		{"fs:os.ErrClosed", os.ErrClosed, commonerrors.ErrConflict}, {"fs:afero.ErrFileClosed", afero.ErrFileClosed, commonerrors.ErrConflict},
		{"fs:io.ErrClosedPipe", io.ErrClosedPipe, commonerrors.ErrConflict}, {"fs:EBADF", &os.PathError{Op: "read", Path: "/x", Err: syscall.EBADF}, commonerrors.ErrConflict},
		{"fs:os.ErrNotExist", os.ErrNotExist, commonerrors.ErrNotFound}, {"fs:afero.ErrFileNotFound", afero.ErrFileNotFound, commonerrors.ErrNotFound},
		{"fs:ENOENT", &os.PathError{Op: "open", Path: "/x", Err: syscall.ENOENT}, commonerrors.ErrNotFound},
		{"fs:os.ErrNoDeadline", os.ErrNoDeadline, commonerrors.ErrUnsupported}, {"fs:os.ErrInvalid", os.ErrInvalid, commonerrors.ErrInvalid},
		{"fs:afero.ErrOutOfRange", afero.ErrOutOfRange, commonerrors.ErrOutOfRange}, {"fs:afero.ErrTooLarge", afero.ErrTooLarge, commonerrors.ErrTooLarge},
		{"fs:io.ErrUnexpectedEOF", io.ErrUnexpectedEOF, commonerrors.ErrEOF}, {"fs:os.ErrDeadlineExceeded", os.ErrDeadlineExceeded, commonerrors.ErrTimeout},
		{"fs:context.Canceled", context.Canceled, commonerrors.ErrCancelled}, {"fs:context.DeadlineExceeded", context.DeadlineExceeded, commonerrors.ErrTimeout},
		{"fs:wrapped-ENOENT", fmt.Errorf("walk: %w", &os.PathError{Op: "lstat", Path: "/x", Err: syscall.ENOENT}), commonerrors.ErrNotFound},
	}
	for _, c := range fsCases {
		got := filesystem.ConvertFileSystemError(c.in)
		again := filesystem.ConvertFileSystemError(got)
		rep.Eval("conv "+c.name, true)
		rep.Hist("converter-cases")
		if !commonerrors.Any(got, c.want) || kindsOf(got) != kindsOf(again) || strings.Contains(kindsOf(got), ",") {
			rep.Fail(hx.Failure{Kind: "impl-violates-property", Key: "converter:" + c.name, Expected: c.want.Error(), Observed: fmt.Sprintf("%v kinds=%s again=%s", got, kindsOf(got), kindsOf(again))})
		}
	}
	for _, c := range []fsCase{{"proc:exec.ErrNotFound", exec.ErrNotFound, commonerrors.ErrNotFound}, {"proc:exec.ErrWaitDelay", exec.ErrWaitDelay, commonerrors.ErrTimeout},
		{"proc:context.Canceled", context.Canceled, commonerrors.ErrCancelled}, {"proc:context.DeadlineExceeded", context.DeadlineExceeded, commonerrors.ErrTimeout}} {
		got := proc.ConvertProcessError(c.in)
		rep.Eval("conv "+c.name, true)
		rep.Hist("converter-cases")
		if !commonerrors.Any(got, c.want) || kindsOf(got) != kindsOf(proc.ConvertProcessError(got)) {
			rep.Fail(hx.Failure{Kind: "impl-violates-property", Key: "converter:" + c.name, Expected: c.want.Error(), Observed: fmt.Sprint(got)})
		}
	}
	// ---- correspondence ----------------------------------------------------------------------
	if drv != nil {
		ans, err := drv.Ask(lines)
		if err != nil {
			rep.Fail(hx.Failure{Kind: "harness-error", Key: "driver", Detail: err.Error()})
		}
		for i, a := range ans {
			if a != want[i] {
				rep.Fail(hx.Failure{Kind: "model-impl-divergence", Key: "err-fields:" + firstDiffField(a, want[i]), Case: lines[i], Expected: "model: " + a, Observed: "impl:  " + want[i]})
			} else {
				rep.Hist("model=impl")
			}
		}
		ans2, err := drv.Ask(tabLines)
		if err != nil {
			rep.Fail(hx.Failure{Kind: "harness-error", Key: "driver", Detail: err.Error()})
		}
		for i, a := range ans2 {
			if a != tabWant[i] {
				rep.Fail(hx.Failure{Kind: "model-impl-divergence", Key: "deserialise-table", Case: tabLines[i], Expected: "model: " + a, Observed: "impl: " + tabWant[i]})
			} else {
				rep.Hist("table:model=impl")
			}
		}
		if len(ans) > 2 {
			rep.Sample(map[string]string{"line": lines[2], "model": ans[2]})
			rep.Sample(map[string]string{"line": lines[len(lines)/2], "model": ans[len(lines)/2]})
		}
	}
	rep.Write(o.Report, drv)
}

func firstDiffField(a, b string) string {
	fa, fb := strings.Fields(a), strings.Fields(b)
	var d []string
	for i := range fa {
		if i >= len(fb) || fa[i] != fb[i] {
			d = append(d, strings.SplitN(fa[i], "=", 2)[0])
		}
	}
	sort.Strings(d)
	if len(d) == 0 {
		return "shape"
	}
	return d[0]
}
