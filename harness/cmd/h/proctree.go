package main

// C05 — cancelling a subprocess terminates its whole process tree, promptly.
// Real process trees built from sh / sleep scripts (chains, fans, background children holding the
// inherited output pipes, descendants ignoring SIGTERM, parents that exit before their children), each
// started with Execute or Start and stopped by context cancellation, deadline, Cancel() or Stop() at
// several instants. Every process of the tree reports its pid on stdout; after the stop request:
// Execute() / Stop() must return within the bound, no reported pid may still be running, IsOn() = false.

import (
	"bytes"
	"context"
	"encoding/json"
	"os/exec"
	"sync"
	"fmt"
	"os"
	"regexp"
	"strconv"
	"strings"
	"syscall"
	"time"

	"github.com/ARM-software/golang-utils/utils/logs"
	"github.com/ARM-software/golang-utils/utils/subprocess"
	"github.com/ARM-software/golang-utils/utils/subprocess/supervisor"

	"verif/harness/hx"
)

func init() { subs["proctree"] = procTreeMain; subs["proctree-child"] = procTreeChild }

type treeShape struct {
	name   string
	script string
	// the root is expected to exit by itself shortly after start (parents that exit before their children)
	rootExits bool
}

var treeShapes = []treeShape{
	{"single", `echo PID:$$; exec sleep 311`, false},
	{"chain", `echo PID:$$; sh -c 'echo PID:$$; sh -c "echo PID:\$\$; exec sleep 311"; :' ; :`, false},
	{"fan", `echo PID:$$; sleep 311 & echo PID:$!; sleep 311 & echo PID:$!; sleep 311 & echo PID:$!; wait`, false},
	{"background-child-holding-the-pipes", `echo PID:$$; sleep 311 & echo PID:$!; wait`, false},
	{"descendant-ignores-sigterm", `echo PID:$$; sh -c 'trap "" TERM; echo PID:$$; sleep 311; :' & echo PID:$!; wait`, false},
	{"root-ignores-sigterm", `trap "" TERM; echo PID:$$; sleep 311 & echo PID:$!; wait; :`, false},
	{"parent-exits-before-its-child", `echo PID:$$; sleep 311 & echo PID:$!; exit 0`, true},
	{"parent-exits-child-detached-from-the-pipes", `echo PID:$$; sleep 311 >/dev/null 2>&1 & echo PID:$!; exit 0`, true},
	{"leader-suspends-itself", `echo PID:$$; sleep 311 & echo PID:$!; kill -STOP $$; wait`, false},
	{"detached-child-ignores-sigterm", `echo PID:$$; (trap "" TERM; exec sleep 311) >/dev/null 2>&1 & echo PID:$!; wait`, false},
	{"parent-exits-detached-child-ignores-sigterm", `echo PID:$$; (trap "" TERM; exec sleep 311) >/dev/null 2>&1 & echo PID:$!; exit 0`, true},
}

var pidRe = regexp.MustCompile(`PID:(\d+)`)

func alive(pid int) bool {
	b, err := os.ReadFile(fmt.Sprintf("/proc/%d/stat", pid))
	if err != nil {
		return false
	}
	// state is the field after the closing parenthesis of the command name
	s := string(b)
	i := strings.LastIndex(s, ")")
	if i < 0 || i+2 >= len(s) {
		return false
	}
	return s[i+2] != 'Z' && s[i+2] != 'X'
}

type procResult struct {
	Timely    bool   `json:"timely"`
	TookMs    int64  `json:"took_ms"`
	Pids      []int  `json:"pids"`
	Survivors []int  `json:"survivors"`
	Want      int    `json:"want"`
	IsOn      bool   `json:"ison"`
	Err       string `json:"err"`
}

const procBound = 3 * time.Second

// child: `proctree-child <shape index> <start> <stop> <at ms>` — one case, one JSON line
func procTreeChild(args []string) {
	var si, atMs int
	fmt.Sscan(args[0], &si)
	start, stop := args[1], args[2]
	fmt.Sscan(args[3], &atMs)
	reuse := len(args) > 4 && args[4] == "1"
	at := time.Duration(atMs) * time.Millisecond
	shape := treeShapes[si]
	res := procResult{}
	emit := func() {
		b, _ := json.Marshal(res)
		fmt.Println(string(b))
	}
	loggers, _ := logs.NewPlainStringLogger()
	ctx, cancel := context.WithCancel(context.Background())
	if stop == "ctx-deadline" {
		cancel()
		ctx, cancel = context.WithTimeout(context.Background(), at+200*time.Millisecond)
	}
	defer cancel()
	p, err := subprocess.New(ctx, loggers, "start", "ok", "failed", "sh", "-c", shape.script)
	if err != nil {
		res.Err = "new: " + err.Error()
		emit()
		return
	}
	if reuse {
		// the same Subprocess object has already been through one start / stop cycle
		if err := p.Start(); err == nil {
			for t1 := time.Now(); time.Since(t1) < 2*time.Second && len(pidRe.FindAllString(loggers.GetLogContent(), -1)) < strings.Count(shape.script, "PID:"); {
				time.Sleep(5 * time.Millisecond)
			}
			first := pidRe.FindAllStringSubmatch(loggers.GetLogContent(), -1)
			_ = p.Stop()
			time.Sleep(100 * time.Millisecond)
			for _, m := range first {
				n, _ := strconv.Atoi(m[1])
				_ = syscall.Kill(n, syscall.SIGKILL)
			}
		}
		_ = loggers.Close() // forget the pids of the first cycle
	}
	execDone := make(chan struct{})
	t0 := time.Now()
	if start == "supervisor" {
		// the supervisor builds and Executes the command itself (and would start it again if it exited)
		sup := supervisor.NewSupervisor(func(c context.Context) (*subprocess.Subprocess, error) {
			return subprocess.New(c, loggers, "start", "ok", "failed", "sh", "-c", shape.script)
		})
		go func() { _ = sup.Run(ctx); close(execDone) }()
	} else if start == "Execute" {
		go func() { _ = p.Execute(); close(execDone) }()
	} else {
		if err := p.Start(); err != nil {
			res.Err = "start: " + err.Error()
			emit()
			return
		}
		close(execDone)
	}
	res.Want = strings.Count(shape.script, "PID:")
	for time.Since(t0) < 2*time.Second {
		res.Pids = res.Pids[:0]
		for _, m := range pidRe.FindAllStringSubmatch(loggers.GetLogContent(), -1) {
			n, _ := strconv.Atoi(m[1])
			res.Pids = append(res.Pids, n)
		}
		if len(res.Pids) >= res.Want {
			break
		}
		time.Sleep(5 * time.Millisecond)
	}
	time.Sleep(at)
	if start == "Start+refused-Execute" {
		// misuse of the object that must not disarm it: Execute() on a subprocess that is already running is refused
		refused := make(chan struct{})
		go func() { _ = p.Execute(); close(refused) }()
		select {
		case <-refused:
		case <-time.After(2 * time.Second):
		}
	}
	tStop := time.Now()
	returned := make(chan struct{})
	go func() {
		switch stop {
		case "ctx-cancel":
			cancel()
		case "ctx-deadline":
			<-ctx.Done()
		case "Cancel":
			p.Cancel()
		case "Stop":
			_ = p.Stop()
		case "Restart":
			_ = p.Restart()
		}
		if start == "Execute" || start == "supervisor" {
			<-execDone
		}
		close(returned)
	}()
	if stop == "ctx-deadline" {
		<-ctx.Done()
		tStop = time.Now()
	}
	res.Timely = true
	select {
	case <-returned:
	case <-time.After(procBound):
		res.Timely = false
	}
	res.TookMs = time.Since(tStop).Milliseconds()
	time.Sleep(150 * time.Millisecond)
	for _, pid := range res.Pids {
		if alive(pid) {
			res.Survivors = append(res.Survivors, pid)
		}
	}
	if res.Timely && start != "supervisor" && stop != "Restart" {
		res.IsOn = p.IsOn()
		if res.IsOn {
			time.Sleep(150 * time.Millisecond)
			res.IsOn = p.IsOn()
		}
	}
	if stop == "Restart" {
		// the tree started by the Restart: stopped here, and whatever is left of it is killed below
		old := map[int]bool{}
		for _, pid := range res.Pids {
			old[pid] = true
		}
		time.Sleep(100 * time.Millisecond)
		stopped := make(chan struct{})
		go func() { _ = p.Stop(); close(stopped) }()
		select {
		case <-stopped:
		case <-time.After(procBound):
		}
		for _, m := range pidRe.FindAllStringSubmatch(loggers.GetLogContent(), -1) {
			if n, _ := strconv.Atoi(m[1]); !old[n] {
				_ = syscall.Kill(n, syscall.SIGKILL)
			}
		}
	}
	emit()
	for _, pid := range res.Pids {
		_ = syscall.Kill(pid, syscall.SIGKILL)
	}
	os.Exit(0)
}

func procTreeMain(args []string) {
	o := hx.ParseOpts(args)
	rep := hx.NewReport("process trees (single, chain of three, fan of three, background child holding the output pipes, descendant / root ignoring SIGTERM, parent exiting before its child, children detached from the pipes with and without SIGTERM ignored) x start {Execute, Start, supervisor} x stop {context cancel, context deadline, Cancel(), Stop(), Restart()} x stop instant {right after the spawn, 30 ms, 150 ms}, plus the same object reused after a first start / stop cycle; " +
		"each case in its own process; bound for Execute() / Stop() to return after the stop request: 3 s. non-trivial = the tree has at least one descendant; distinct = (shape, start, stop, instant).")
	instants := []int{0, 30, 150}
	if !o.Thorough() {
		instants = []int{30}
	}
	exe, _ := os.Executable()
	type job struct {
		si          int
		start, stop string
		at          int
		reuse       bool
	}
	var jobs []job
	for si := range treeShapes {
		// the supervisor (it Executes the command itself) stopped through its context; a started process restarted
		for _, stop := range []string{"ctx-cancel", "ctx-deadline"} {
			jobs = append(jobs, job{si, "supervisor", stop, 30, false})
		}
		jobs = append(jobs, job{si, "Start", "Restart", 30, false})
		jobs = append(jobs, job{si, "Start+refused-Execute", "Stop", 30, false})
		for _, start := range []string{"Execute", "Start"} {
			for _, stop := range []string{"ctx-cancel", "ctx-deadline", "Cancel", "Stop"} {
				for _, at := range instants {
					jobs = append(jobs, job{si, start, stop, at, false})
				}
				// a Subprocess object that has already been started and stopped once (Restart, repeated Execute)
				if treeShapes[si].name == "fan" || treeShapes[si].name == "chain" || o.Thorough() {
					jobs = append(jobs, job{si, start, stop, 30, true})
				}
			}
		}
	}
	var mu sync.Mutex
	var wg sync.WaitGroup
	sem := make(chan struct{}, 8)
	for _, j := range jobs {
		wg.Add(1)
		sem <- struct{}{}
		go func(j job) {
			defer func() { <-sem; wg.Done() }()
			shape := treeShapes[j.si]
			caseTxt := fmt.Sprintf("proccase %s start=%s stop=%s at=%dms reused=%v", shape.name, j.start, j.stop, j.at, j.reuse)
			ru := "0"
			if j.reuse {
				ru = "1"
			}
			cmd := exec.Command(exe, "proctree-child", fmt.Sprint(j.si), j.start, j.stop, fmt.Sprint(j.at), ru)
			var out bytes.Buffer
			cmd.Stdout = &out
			_ = cmd.Start()
			done := make(chan struct{})
			go func() { _ = cmd.Wait(); close(done) }()
			select {
			case <-done:
			case <-time.After(12 * time.Second):
				_ = cmd.Process.Kill()
				<-done
			}
			var res procResult
			line := strings.TrimSpace(out.String())
			if i := strings.LastIndex(line, "\n"); i >= 0 {
				line = line[i+1:]
			}
			mu.Lock()
			defer mu.Unlock()
			rep.Eval(caseTxt, strings.Count(shape.script, "PID:") > 1)
			rep.Hist("shape:" + shape.name)
			if json.Unmarshal([]byte(line), &res) != nil {
				rep.Fail(hx.Failure{Kind: "harness-error", Key: "child-gave-no-result", Case: caseTxt, Detail: out.String()})
				return
			}
			for _, pid := range res.Pids {
				_ = syscall.Kill(pid, syscall.SIGKILL)
			}
			if res.Err != "" {
				rep.Fail(hx.Failure{Kind: "harness-error", Key: "case-setup", Case: caseTxt, Detail: res.Err})
				return
			}
			if len(res.Pids) < res.Want {
				rep.Hist("tree-did-not-report-all-pids")
			}
			cls := j.start + "+" + j.stop + ":" + shape.name
			switch {
			case j.start == "Execute" && j.stop == "Stop":
				// Stop() needs the object's mutex, which Execute holds for the whole run (whatever the tree)
				cls = "Execute+Stop"
			case (j.start == "Execute" || j.start == "supervisor") && shape.rootExits:
				// the root has exited by itself before the stop request: the runtime no longer reacts to the context
				cls = "Execute+context-end-after-the-root-exited"
			}
			if !res.Timely {
				rep.Fail(hx.Failure{Kind: "impl-violates-property", Key: "stop-does-not-return-in-time:" + cls, Case: caseTxt, Expected: fmt.Sprintf("Execute() / Stop() return within %v of the stop request", procBound), Observed: fmt.Sprintf("still waiting after %d ms", res.TookMs)})
			} else {
				rep.HistN("ms-to-return", int(res.TookMs))
				rep.Hist("returned-in-time")
			}
			if len(res.Survivors) > 0 {
				rep.Fail(hx.Failure{Kind: "impl-violates-property", Key: "descendant-survives:" + cls, Case: caseTxt, Expected: "no process of the tree left running", Observed: fmt.Sprintf("%d of %d still running (pids %v)", len(res.Survivors), len(res.Pids), res.Survivors)})
			}
			if res.Timely && res.IsOn {
				rep.Fail(hx.Failure{Kind: "impl-violates-property", Key: "ison-true-after-stop:" + cls, Case: caseTxt})
			}
		}(j)
	}
	wg.Wait()
	// reap whatever a case left behind (the recorded findings leave trees running): every `sleep 311` is ours
	if ents, err := os.ReadDir("/proc"); err == nil {
		for _, e := range ents {
			pid, perr := strconv.Atoi(e.Name())
			if perr != nil {
				continue
			}
			if b, rerr := os.ReadFile("/proc/" + e.Name() + "/cmdline"); rerr == nil && string(b) == "sleep\x00311\x00" {
				_ = syscall.Kill(pid, syscall.SIGKILL)
			}
		}
	}
	rep.Write(o.Report, nil)
	if len(rep.Failures) > 0 {
		fmt.Printf("failures: %d\n", len(rep.Failures))
	}
}
