package main

// C20 — hashing: histories of calculations on ONE hasher object (success / reader error after k
// bytes / cancellation after k bytes, arbitrary chunking) for the six algorithms.
//   monitor (model-free): every successful calculation == reference digest of its own content,
//                         computed with a fresh instance of the standard implementation;
//   correspondence: the Lean model (skeleton facts regenerated from hash.go) predicts WHICH byte
//                   string each successful calculation hashes; the harness hashes that string with
//                   the reference implementation and compares it with what the real code returned.
// File hashing on both backends is compared with the reference digest of the bytes.

import (
	"archive/tar"
	"archive/zip"
	"bytes"
	"context"
	"crypto/md5"
	"crypto/sha1"
	"crypto/sha256"
	"encoding/hex"
	"errors"
	"fmt"
	"hash"
	"io"
	"os"
	"path/filepath"
	"strconv"
	"strings"

	"github.com/OneOfOne/xxhash"
	"github.com/spaolacci/murmur3"
	"golang.org/x/crypto/blake2b"

	"github.com/ARM-software/golang-utils/utils/filesystem"
	"github.com/ARM-software/golang-utils/utils/hashing"

	"verif/harness/hx"
)

func init() { subs["hash"] = hashMain }

var hashAlgos = []string{hashing.HashMd5, hashing.HashSha1, hashing.HashSha256, hashing.HashBlake2256, hashing.HashXXHash, hashing.HashMurmur}

func freshHash(algo string) hash.Hash {
	switch algo {
	case hashing.HashMd5:
		return md5.New()
	case hashing.HashSha1:
		return sha1.New()
	case hashing.HashSha256:
		return sha256.New()
	case hashing.HashBlake2256:
		h, _ := blake2b.New256(nil)
		return h
	case hashing.HashXXHash:
		return xxhash.New64()
	case hashing.HashMurmur:
		return murmur3.New64()
	}
	panic(algo)
}

func refDigest(algo string, b []byte) string {
	h := freshHash(algo)
	h.Write(b)
	return hex.EncodeToString(h.Sum(nil))
}

// countingHash wraps a real hash and counts the bytes absorbed since the last Reset (observation only).
type countingHash struct {
	hash.Hash
	absorbed int // since the last Reset
	total    int // ever written (monotonic)
}

func (c *countingHash) Write(p []byte) (int, error) {
	n, err := c.Hash.Write(p)
	c.absorbed += n
	c.total += n
	return n, err
}
func (c *countingHash) Reset() { c.Hash.Reset(); c.absorbed = 0 }

type hCalc struct {
	content []byte
	chunks  []int  // chunk sizes delivered by the reader (sum == len(content))
	mode    string // ok | readerr | cancel
	at      int    // the reader fails / the context is cancelled once `at` bytes were delivered
	// the reader hands over its final bytes TOGETHER with io.EOF (allowed by the io.Reader contract:
	// iotest.DataErrReader, compress/flate, archive readers do it)
	eofWithData bool
	plainAPI    bool // Calculate(r) instead of CalculateWithContext(ctx, r)
}

type scriptReader struct {
	c      *hCalc
	pos    int
	ci     int
	cancel context.CancelFunc
}

var errInjected = errors.New("injected read failure")

func (r *scriptReader) Read(p []byte) (int, error) {
	if r.c.mode != "ok" && r.pos >= r.c.at {
		if r.c.mode == "readerr" {
			return 0, errInjected
		}
		r.cancel()
		// keep delivering: the context-aware wrappers must stop by themselves
	}
	if r.pos >= len(r.c.content) {
		return 0, io.EOF
	}
	n := len(r.c.content) - r.pos
	if r.ci < len(r.c.chunks) {
		n = r.c.chunks[r.ci]
		r.ci++
	}
	if r.c.mode != "ok" && r.pos < r.c.at && r.pos+n > r.c.at {
		n = r.c.at - r.pos
	}
	if n > len(p) {
		n = len(p)
	}
	if n > len(r.c.content)-r.pos {
		n = len(r.c.content) - r.pos
	}
	copy(p, r.c.content[r.pos:r.pos+n])
	r.pos += n
	if r.c.eofWithData && n > 0 && r.pos >= len(r.c.content) && (r.c.mode == "ok" || r.c.at >= len(r.c.content)) {
		return n, io.EOF
	}
	return n, nil
}

func genCalc(rnd *hx.Rand, maxLen int) hCalc {
	n := rnd.Intn(maxLen + 1)
	if rnd.Chance(15) {
		n = 0
	}
	c := hCalc{content: make([]byte, n), mode: "ok"}
	for i := range c.content {
		c.content[i] = byte(rnd.U64())
	}
	left := n
	for left > 0 {
		k := 1 + rnd.Intn(left)
		if rnd.Chance(10) {
			c.chunks = append(c.chunks, 0) // zero-length read
		}
		c.chunks = append(c.chunks, k)
		left -= k
	}
	c.eofWithData = rnd.Chance(30)
	c.plainAPI = rnd.Chance(35)
	switch x := rnd.Intn(100); {
	case x < 25:
		c.mode, c.at = "readerr", rnd.Intn(n+1)
	case x < 45:
		c.mode, c.at = "cancel", rnd.Intn(n+1)
	}
	return c
}

func hashMain(args []string) {
	o := hx.ParseOpts(args)
	rep := hx.NewReport("histories of 1..6 calculations on one hasher per algorithm (6 algorithms x {NewHashingAlgorithm, bespoke counting wrapper}); contents 0..48 bytes " +
		"(thorough: also up to 2^20), random chunking with zero-length reads and readers that hand over their final bytes together with io.EOF, outcome ok / reader error after k bytes / context cancelled after k bytes; " +
		"two hashers of one algorithm with overlapping calculations; file hashing on MemMapFs, OsFs and through the read-only zip (stored, deflated) and tar views. non-trivial = history with >=2 calculations of which at least one succeeds after a failed/cancelled one, or a multi-chunk content; " +
		"distinct = (algorithm, history).")
	drv, err := hx.StartDriver(o.Driver)
	if err != nil {
		fmt.Println("driver:", err)
	}
	defer drv.Close()
	rnd := hx.NewRand(o.Seed)
	n := 400
	if o.Thorough() {
		n = 20000
	}
	var lines []string
	type pend struct {
		algo    string
		results []string // impl result per calc ("" = error)
		desc    string
	}
	var pends []pend
	for i := 0; i < n; i++ {
		maxLen := 48
		big := o.Thorough() && i%50 == 0
		if big {
			maxLen = 1 << 20
		}
		hl := rnd.Range(1, 6)
		hist := make([]hCalc, hl)
		for j := range hist {
			hist[j] = genCalc(rnd, maxLen)
		}
		for _, algo := range hashAlgos {
			for _, wrapped := range []bool{false, true} {
				var hh hashing.IHash
				var ch *countingHash
				if wrapped {
					ch = &countingHash{Hash: freshHash(algo)}
					hh, _ = hashing.NewBespokeHashingAlgorithm(ch)
				} else {
					hh, _ = hashing.NewHashingAlgorithm(algo)
				}
				var calcs []string
				var results []string
				staleBefore := false // a failed/cancelled calculation left bytes in the hasher
				nontriv := false
				var descs []string
				for _, c := range hist {
					c := c
					ctx, cancel := context.WithCancel(context.Background())
					before := 0
					if ch != nil {
						before = ch.total
					}
					var res string
					var err error
					if c.plainAPI && c.mode != "cancel" {
						// the entry point without a context
						res, err = hh.Calculate(&scriptReader{c: &c, cancel: cancel})
						rep.Hist("api:Calculate")
					} else {
						res, err = hh.CalculateWithContext(ctx, &scriptReader{c: &c, cancel: cancel})
						rep.Hist("api:CalculateWithContext")
					}
					cancel()
					descs = append(descs, fmt.Sprintf("%s(len=%d,chunks=%d,at=%d,eofWithData=%v)", c.mode, len(c.content), len(c.chunks), c.at, c.eofWithData))
					if c.eofWithData && len(c.content) > 0 {
						rep.Hist("reader:final-bytes-with-EOF")
					}
					if err == nil {
						if c.mode != "ok" && c.at < len(c.content) {
							rep.Hist("interrupted-yet-succeeded")
						}
						results = append(results, res)
						ref := refDigest(algo, c.content)
						if staleBefore {
							nontriv = true
						}
						if res != ref {
							key := "digest-mismatch"
							if staleBefore {
								key = "stale-bytes-after-failed-calculation"
							}
							rep.Fail(hx.Failure{Kind: "impl-violates-property", Key: key, Case: fmt.Sprintf("algo=%s wrapped=%v history=%s", algo, wrapped, strings.Join(descs, ";")),
								Expected: ref, Observed: res, Detail: "successful calculation differs from the reference digest of its own content"})
						}
						staleBefore = false // the success path resets (if it does not, the next mismatch is reported as digest-mismatch)
						calcs = append(calcs, "o:"+encChunks(c))
					} else {
						results = append(results, "")
						w := -1
						if ch != nil {
							w = ch.total - before
							if w > 0 {
								staleBefore = true
							}
						} else if c.mode == "readerr" {
							w = c.at
							if w > 0 {
								staleBefore = true
							}
						} else {
							staleBefore = staleBefore || c.at > 0
						}
						calcs = append(calcs, "f"+strconv.Itoa(w)+":"+encChunks(c))
						rep.Hist("calc:" + c.mode)
					}
					if len(c.chunks) > 1 {
						nontriv = true
					}
				}
				rep.Eval(algo+fmt.Sprint(wrapped)+strings.Join(calcs, ";"), nontriv)
				rep.Hist("algo:" + algo)
				if !big && (wrapped || !strings.Contains(strings.Join(calcs, ";"), "f-1")) {
					lines = append(lines, "hash "+strings.Join(calcs, ";"))
					pends = append(pends, pend{algo, results, strings.Join(descs, ";")})
				}
			}
		}
	}
	// ---- the string helpers: CalculateHash / CalculateStringHash / CalculateMD5Hash ------------
	for i := 0; i < n/4+8; i++ {
		b := make([]byte, rnd.Intn(120))
		for j := range b {
			b[j] = byte(rnd.U64())
		}
		if i%2 == 0 { // printable text
			for j := range b {
				b[j] = byte(' ' + rnd.Intn(95))
			}
		}
		text := string(b)
		for _, algo := range hashAlgos {
			hh, _ := hashing.NewHashingAlgorithm(algo)
			got1 := hashing.CalculateHash(text, algo)
			got2 := hashing.CalculateStringHash(hh, text)
			got3 := hashing.CalculateStringHash(hh, text) // the same hasher again
			want := refDigest(algo, b)
			rep.Eval(fmt.Sprintf("string-helpers %s %x", algo, b), len(b) > 0)
			rep.Hist("string-helpers")
			if got1 != want || got2 != want || got3 != want || hh.GetType() != algo {
				rep.Fail(hx.Failure{Kind: "impl-violates-property", Key: "string-helper-digest-mismatch", Case: fmt.Sprintf("CalculateHash / CalculateStringHash algo=%s text=%x", algo, b),
					Expected: want, Observed: fmt.Sprintf("CalculateHash=%s CalculateStringHash=%s, again=%s, type=%s", got1, got2, got3, hh.GetType())})
			}
		}
		if got := hashing.CalculateMD5Hash(text); got != refDigest(hashing.HashMd5, b) {
			rep.Fail(hx.Failure{Kind: "impl-violates-property", Key: "string-helper-digest-mismatch", Case: fmt.Sprintf("CalculateMD5Hash text=%x", b), Expected: refDigest(hashing.HashMd5, b), Observed: got})
		}
	}
	// ---- two hashers of the same algorithm whose calculations overlap -------------------------
	// (a stream whose Read runs a complete calculation on ANOTHER hasher object: hashers are independent objects)
	for i := 0; i < n/8+6; i++ {
		outer := make([]byte, 1+rnd.Intn(200))
		inner := make([]byte, rnd.Intn(60))
		for j := range outer {
			outer[j] = byte(rnd.U64())
		}
		for j := range inner {
			inner[j] = byte(rnd.U64())
		}
		cut := rnd.Intn(len(outer) + 1)
		for _, algo := range hashAlgos {
			ha, _ := hashing.NewHashingAlgorithm(algo)
			hb, _ := hashing.NewHashingAlgorithm(algo)
			var innerGot string
			var innerErr error
			nr := &nestedReader{data: outer, cut: cut, between: func() {
				innerGot, innerErr = hb.Calculate(bytes.NewReader(inner))
			}}
			got, err := ha.Calculate(nr)
			caseTxt := fmt.Sprintf("overlap algo=%s outer=%x cut=%d inner=%x", algo, outer, cut, inner)
			rep.Eval(caseTxt, true)
			rep.Hist("two-hashers-overlapping")
			if err != nil || got != refDigest(algo, outer) {
				rep.Fail(hx.Failure{Kind: "impl-violates-property", Key: "digest-disturbed-by-another-hasher-object", Case: caseTxt,
					Expected: refDigest(algo, outer), Observed: fmt.Sprint(got, " ", err), Detail: "a calculation on a second hasher of the same algorithm ran between two reads of this one"})
			}
			if innerErr != nil || innerGot != refDigest(algo, inner) {
				rep.Fail(hx.Failure{Kind: "impl-violates-property", Key: "digest-disturbed-by-another-hasher-object", Case: caseTxt + " [inner]",
					Expected: refDigest(algo, inner), Observed: fmt.Sprint(innerGot, " ", innerErr)})
			}
		}
	}
	// ---- file hashing on both backends -------------------------------------------------------
	tmp, _ := os.MkdirTemp("", "verif-hash")
	defer os.RemoveAll(tmp)
	for i := 0; i < n/4+8; i++ {
		content := make([]byte, rnd.Intn(5000))
		if i%7 == 0 {
			content = nil
		}
		for j := range content {
			content[j] = byte(rnd.U64())
		}
		for _, ft := range []filesystem.FilesystemType{filesystem.InMemoryFS, filesystem.StandardFS} {
			fs := filesystem.NewFs(ft)
			p := filepath.Join(tmp, fmt.Sprintf("f%d", i))
			if ft == filesystem.InMemoryFS {
				p = fmt.Sprintf("/d/f%d", i)
				_ = fs.MkDir("/d")
			}
			var err error
			if len(content) == 0 {
				err = fs.Touch(p) // WriteFile refuses empty contents
			} else {
				err = fs.WriteFile(p, content, 0o644)
			}
			if err != nil {
				rep.Fail(hx.Failure{Kind: "harness-error", Key: "writefile", Detail: err.Error()})
				continue
			}
			algo := hx.Pick(rnd, hashAlgos)
			got, err := fs.FileHash(algo, p)
			rep.Eval(fmt.Sprintf("file %v %s %x", ft, algo, content), len(content) > 0)
			rep.Hist("file:" + ft.String())
			if err != nil || got != refDigest(algo, content) {
				rep.Fail(hx.Failure{Kind: "impl-violates-property", Key: "file-digest-mismatch", Case: fmt.Sprintf("FileHash %s backend=%v len=%d", algo, ft, len(content)),
					Expected: refDigest(algo, content), Observed: fmt.Sprint(got, err)})
			}
			// same hasher object reused across files
			fh, _ := filesystem.NewFileHash(algo)
			for k := 0; k < 2; k++ {
				got, err = fh.CalculateFile(fs, p)
				if err != nil || got != refDigest(algo, content) {
					rep.Fail(hx.Failure{Kind: "impl-violates-property", Key: "file-digest-mismatch", Case: fmt.Sprintf("CalculateFile#%d %s backend=%v len=%d", k, algo, ft, len(content)),
						Expected: refDigest(algo, content), Observed: fmt.Sprint(got, err)})
				}
			}
		}
	}
	// ---- file hashing through the read-only archive backends (zip stored / deflated, tar) ------
	for i := 0; i < n/8+6; i++ {
		content := make([]byte, 1+rnd.Intn(3000))
		for j := range content {
			content[j] = byte(rnd.U64())
		}
		if i%3 == 0 { // compressible
			for j := range content {
				content[j] = byte('a' + j%3)
			}
		}
		mem := filesystem.NewFs(filesystem.InMemoryFS)
		_ = mem.MkDir("/arch")
		var zb bytes.Buffer
		zw := zip.NewWriter(&zb)
		fw, _ := zw.CreateHeader(&zip.FileHeader{Name: "stored.bin", Method: zip.Store})
		_, _ = fw.Write(content)
		fw, _ = zw.CreateHeader(&zip.FileHeader{Name: "deflated.bin", Method: zip.Deflate})
		_, _ = fw.Write(content)
		_ = zw.Close()
		_ = mem.WriteFile("/arch/a.zip", zb.Bytes(), 0o644)
		var tb bytes.Buffer
		tw := tar.NewWriter(&tb)
		_ = tw.WriteHeader(&tar.Header{Name: "plain.bin", Typeflag: tar.TypeReg, Mode: 0o644, Size: int64(len(content))})
		_, _ = tw.Write(content)
		_ = tw.Close()
		_ = mem.WriteFile("/arch/a.tar", tb.Bytes(), 0o644)
		algo := hx.Pick(rnd, hashAlgos)
		type view struct {
			kind string
			name string
		}
		for _, v := range []view{{"zip", "stored.bin"}, {"zip", "deflated.bin"}, {"tar", "plain.bin"}} {
			var vfs filesystem.ICloseableFS
			var af filesystem.File
			var err error
			if v.kind == "zip" {
				vfs, af, err = filesystem.NewZipFileSystem(mem, "/arch/a.zip", filesystem.NoLimits())
			} else {
				vfs, af, err = filesystem.NewTarFileSystem(mem, "/arch/a.tar", filesystem.NoLimits())
			}
			if err != nil {
				rep.Fail(hx.Failure{Kind: "harness-error", Key: "archive-view", Detail: err.Error()})
				continue
			}
			got, herr := vfs.FileHash(algo, v.name)
			if herr != nil {
				got, herr = vfs.FileHash(algo, "/"+v.name)
			}
			rep.Eval(fmt.Sprintf("file %s-view %s %s %x", v.kind, v.name, algo, content), true)
			rep.Hist("file:" + v.kind + "-view:" + v.name)
			if herr != nil || got != refDigest(algo, content) {
				rep.Fail(hx.Failure{Kind: "impl-violates-property", Key: "file-digest-mismatch", Case: fmt.Sprintf("FileHash %s backend=%s-view entry=%s len=%d", algo, v.kind, v.name, len(content)),
					Expected: refDigest(algo, content), Observed: fmt.Sprint(got, herr)})
			}
			_ = vfs.Close()
			if af != nil {
				_ = af.Close()
			}
		}
	}
	// ---- correspondence ----------------------------------------------------------------------
	if drv != nil {
		ans, err := drv.Ask(lines)
		if err != nil {
			rep.Fail(hx.Failure{Kind: "harness-error", Key: "driver", Detail: err.Error()})
		}
		for i, a := range ans {
			parts := strings.Split(a, ";")
			pd := pends[i]
			if len(parts) != len(pd.results) {
				rep.Fail(hx.Failure{Kind: "model-impl-divergence", Key: "hash-shape", Case: lines[i], Observed: a})
				continue
			}
			okAll := true
			for j, pt := range parts {
				var want string
				if pt != "-" {
					want = refDigest(pd.algo, decBytes(pt))
				}
				if want != pd.results[j] {
					okAll = false
					rep.Fail(hx.Failure{Kind: "model-impl-divergence", Key: "hash-history", Case: lines[i] + " algo=" + pd.algo + " calc#" + strconv.Itoa(j),
						Expected: "model hashes bytes " + pt + " => " + want, Observed: "impl: " + pd.results[j]})
				}
			}
			if okAll {
				rep.Hist("model=impl")
			}
		}
		for _, i := range []int{0, len(lines) / 2} {
			if i < len(ans) {
				rep.Sample(map[string]string{"line": lines[i], "algo": pends[i].algo, "model": ans[i], "history": pends[i].desc})
			}
		}
	}
	rep.Write(o.Report, drv)
}

func encChunks(c hCalc) string {
	var out []string
	pos := 0
	for _, k := range c.chunks {
		var bs []string
		for _, b := range c.content[pos : pos+k] {
			bs = append(bs, strconv.Itoa(int(b)))
		}
		out = append(out, strings.Join(bs, "."))
		pos += k
	}
	if len(out) == 0 {
		return ""
	}
	return strings.Join(out, "|")
}

func decBytes(s string) []byte {
	if s == "e" || s == "" {
		return nil
	}
	var b bytes.Buffer
	for _, x := range strings.Split(s, ".") {
		v, _ := strconv.Atoi(x)
		b.WriteByte(byte(v))
	}
	return b.Bytes()
}


// nestedReader delivers data[:cut], then runs `between` once, then delivers the rest
type nestedReader struct {
	data    []byte
	cut     int
	pos     int
	done    bool
	between func()
}

func (r *nestedReader) Read(p []byte) (int, error) {
	if r.pos >= r.cut && !r.done {
		r.done = true
		r.between()
	}
	if r.pos >= len(r.data) {
		return 0, io.EOF
	}
	end := len(r.data)
	if r.pos < r.cut {
		end = r.cut
	}
	n := copy(p, r.data[r.pos:end])
	r.pos += n
	return n, nil
}
