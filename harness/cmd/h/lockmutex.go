package main

// C01 — file lock: at most one holder at any instant.
// Real contenders (one lock object and one *VFS each) over a shared backend; the Mkdir / Remove
// operations on the lock directory are executed under one mutex and logged, so the event sequence is
// their linearisation. Monitors: number of simultaneous holders (from return values); the sequence must
// be accepted by Model.Lock (Lean driver). Scenarios: the two schedules of the Lean witnesses, forced
// with pauses at backend operations; random concurrent acquire / hold / release cycles of 2..4
// contenders with random delays around the operations on the lock directory.

import (
	"context"
	"fmt"
	"os"
	"path/filepath"
	"strings"
	"sync"
	"sync/atomic"
	"time"

	"github.com/spf13/afero"

	"github.com/ARM-software/golang-utils/utils/commonerrors"
	"github.com/ARM-software/golang-utils/utils/filesystem"

	"verif/harness/hx"
)

func init() { subs["lockmutex"] = lockMutexMain }

type lockShared struct {
	mu        sync.Mutex
	events    []string
	lockPath  string
	releasing map[int]bool
	auto      map[int]bool
	rmCount   map[int]int // successful removals since the last ub of that contender
	notes     []string
	delay     func() time.Duration
}

func (s *lockShared) begin(i int) {
	s.mu.Lock()
	if !s.releasing[i] {
		s.events = append(s.events, fmt.Sprintf("ub%d", i))
		s.releasing[i] = true
		s.rmCount[i] = 0
	}
	s.auto[i] = false
	s.mu.Unlock()
}
func (s *lockShared) end(i int) {
	s.mu.Lock()
	if s.releasing[i] {
		s.events = append(s.events, fmt.Sprintf("ue%d", i))
		s.releasing[i] = false
	}
	s.mu.Unlock()
}
func (s *lockShared) die(i int) {
	s.mu.Lock()
	s.events = append(s.events, fmt.Sprintf("die%d", i))
	s.mu.Unlock()
}

type lockGate struct {
	afero.Fs
	id     int
	sh     *lockShared
	before func(op, name string) // scenario hook, called outside the mutex
	after  func(op, name string, err error)
}

func (g *lockGate) hook(op, name string) {
	if g.before != nil {
		g.before(op, name)
	}
	if g.sh.delay != nil && filepath.Clean(name) == g.sh.lockPath {
		if d := g.sh.delay(); d > 0 {
			time.Sleep(d)
		}
	}
}

func (g *lockGate) Mkdir(name string, perm os.FileMode) (err error) {
	g.hook("Mkdir", name)
	if filepath.Clean(name) != g.sh.lockPath {
		return g.Fs.Mkdir(name, perm)
	}
	defer func() {
		if g.after != nil {
			g.after("Mkdir", name, err)
		}
	}()
	return g.mkdirLocked(name, perm)
}

// MkdirAll on the lock directory: creating it is an acquisition like Mkdir; finding it there is not
func (g *lockGate) MkdirAll(name string, perm os.FileMode) error {
	g.hook("MkdirAll", name)
	if filepath.Clean(name) != g.sh.lockPath {
		return g.Fs.MkdirAll(name, perm)
	}
	g.sh.mu.Lock()
	defer g.sh.mu.Unlock()
	if g.sh.auto[g.id] && g.sh.releasing[g.id] {
		g.sh.events = append(g.sh.events, fmt.Sprintf("ue%d", g.id))
		g.sh.releasing[g.id] = false
		g.sh.auto[g.id] = false
	}
	_, before := g.Fs.Stat(name)
	err := g.Fs.MkdirAll(name, perm)
	if err == nil && before != nil {
		g.sh.events = append(g.sh.events, fmt.Sprintf("mk+%d", g.id))
	} else if err == nil {
		g.sh.notes = append(g.sh.notes, fmt.Sprintf("mkdirall-on-existing-lock-directory:%d", g.id))
	}
	return err
}

func (g *lockGate) mkdirLocked(name string, perm os.FileMode) error {
	g.sh.mu.Lock()
	defer g.sh.mu.Unlock()
	if g.sh.auto[g.id] && g.sh.releasing[g.id] {
		g.sh.events = append(g.sh.events, fmt.Sprintf("ue%d", g.id))
		g.sh.releasing[g.id] = false
		g.sh.auto[g.id] = false
	}
	err := g.Fs.Mkdir(name, perm)
	switch {
	case err == nil:
		g.sh.events = append(g.sh.events, fmt.Sprintf("mk+%d", g.id))
	case commonerrors.Any(filesystem.ConvertFileSystemError(err), commonerrors.ErrExists):
		g.sh.events = append(g.sh.events, fmt.Sprintf("mk-%d", g.id))
	default:
		g.sh.notes = append(g.sh.notes, fmt.Sprintf("mkdir-error:%d:%v", g.id, err))
	}
	return err
}

func (g *lockGate) remove(name string, f func() error) error {
	g.hook("Remove", name)
	if filepath.Clean(name) != g.sh.lockPath {
		return f()
	}
	g.sh.mu.Lock()
	defer g.sh.mu.Unlock()
	_, statErr := g.Fs.Stat(name)
	err := f()
	if err == nil && statErr == nil {
		if !g.sh.releasing[g.id] {
			g.sh.events = append(g.sh.events, fmt.Sprintf("ub%d", g.id))
			g.sh.releasing[g.id] = true
			g.sh.auto[g.id] = true
			g.sh.rmCount[g.id] = 0
		}
		g.sh.rmCount[g.id]++
		if g.sh.rmCount[g.id] > 1 {
			g.sh.notes = append(g.sh.notes, fmt.Sprintf("second-removal-in-one-unlock:%d@%d", g.id, len(g.sh.events)))
		}
		g.sh.events = append(g.sh.events, fmt.Sprintf("rm%d", g.id))
	}
	return err
}
func (g *lockGate) Remove(name string) error { return g.remove(name, func() error { return g.Fs.Remove(name) }) }
func (g *lockGate) RemoveAll(name string) error {
	return g.remove(name, func() error { return g.Fs.RemoveAll(name) })
}
// a file created inside the lock directory (heartbeat): on the in-memory backend it re-creates a removed
// lock directory — logged as `hb<i>`
func (g *lockGate) OpenFile(name string, flag int, perm os.FileMode) (afero.File, error) {
	g.hook("OpenFile", name)
	if filepath.Dir(filepath.Clean(name)) != g.sh.lockPath || flag&os.O_CREATE == 0 {
		return g.Fs.OpenFile(name, flag, perm)
	}
	g.sh.mu.Lock()
	defer g.sh.mu.Unlock()
	_, before := g.Fs.Stat(g.sh.lockPath)
	f, err := g.Fs.OpenFile(name, flag, perm)
	if _, after := g.Fs.Stat(g.sh.lockPath); before != nil && after == nil {
		g.sh.events = append(g.sh.events, fmt.Sprintf("hb%d", g.id))
	}
	return f, err
}
func (g *lockGate) Create(name string) (afero.File, error) {
	return g.OpenFile(name, os.O_RDWR|os.O_CREATE|os.O_TRUNC, 0o666)
}
func (g *lockGate) Stat(name string) (os.FileInfo, error) {
	g.hook("Stat", name)
	return g.Fs.Stat(name)
}
func (g *lockGate) Open(name string) (afero.File, error) {
	g.hook("Open", name)
	return g.Fs.Open(name)
}
func (g *lockGate) LstatIfPossible(name string) (os.FileInfo, bool, error) {
	g.hook("Lstat", name)
	if l, ok := g.Fs.(afero.Lstater); ok {
		return l.LstatIfPossible(name)
	}
	fi, err := g.Fs.Stat(name)
	return fi, false, err
}

type lockWorld struct {
	forceKey string // a scenario in which two holders cannot be explained by a recorded window names its own key
	sh      *lockShared
	inner   afero.Fs
	dir     string
	cleanup func()
	backend string
	locks   map[int]filesystem.ILock
	gates   map[int]*lockGate
}

func newLockWorld(backend string, ids []int, override bool) *lockWorld {
	w := &lockWorld{backend: backend, locks: map[int]filesystem.ILock{}, gates: map[int]*lockGate{}}
	ty := filesystem.InMemoryFS
	if backend == "mem" {
		w.inner = afero.NewMemMapFs()
		w.dir = "/locks"
		w.cleanup = func() {}
	} else {
		w.inner = filesystem.NewExtendedOsFs()
		tmp, _ := os.MkdirTemp("", "verif-lockmutex")
		w.dir = tmp
		w.cleanup = func() { os.RemoveAll(tmp) }
		ty = filesystem.StandardFS
	}
	_ = w.inner.MkdirAll(w.dir, 0o755)
	w.sh = &lockShared{lockPath: filepath.Join(w.dir, "lockfile-L"), releasing: map[int]bool{}, auto: map[int]bool{}, rmCount: map[int]int{}}
	for _, id := range ids {
		g := &lockGate{Fs: w.inner, id: id, sh: w.sh}
		vfs := filesystem.NewVirtualFileSystem(g, ty, filesystem.IdentityPathConverterFunc).(*filesystem.VFS)
		w.gates[id] = g
		w.locks[id] = filesystem.NewGenericRemoteLockFile(vfs, "L", w.dir, override)
	}
	return w
}

func (w *lockWorld) eventsLine() string {
	w.sh.mu.Lock()
	defer w.sh.mu.Unlock()
	return "lockev " + strings.Join(w.sh.events, " ")
}

// classify a run in which two holders were seen
func classifyOverlap(w *lockWorld, override bool) string {
	if w.forceKey != "" {
		return w.forceKey
	}
	w.sh.mu.Lock()
	defer w.sh.mu.Unlock()
	for _, n := range w.sh.notes {
		if strings.HasPrefix(n, "second-removal-in-one-unlock") {
			return "two-holders:unlock-retry-removes-successor-lock"
		}
	}
	if override {
		return "two-holders:concurrent-release-of-a-lock-judged-stale"
	}
	return "two-holders:other"
}

func lockMutexMain(args []string) {
	o := hx.ParseOpts(args)
	rep := hx.NewReport("file-lock contenders (one lock object and *VFS each, shared backend MemMapFs / OsFs): (1) the two witness schedules of the Lean model forced with pauses at backend operations; " +
		"(2) random concurrent acquire (TryLock / Lock) — hold 0..3 ms — release cycles of 2..4 contenders, with and without stale-lock override, with and without a dead previous holder, random 0..1.5 ms delays around every operation on the lock directory. " +
		"The Mkdir / Remove operations on the lock directory are linearised and replayed on Model.Lock. non-trivial = at least two successful acquisitions; distinct = (scenario, backend, contenders, seed of the schedule).")
	drv, err := hx.StartDriver(o.Driver)
	if err != nil {
		fmt.Println("driver:", err)
	}
	defer drv.Close()
	rnd := hx.NewRand(o.Seed)
	ctx := context.Background()
	judge := func(w *lockWorld, caseTxt string, maxHolders int32, override bool, acquisitions int) {
		line := w.eventsLine()
		rep.Eval(caseTxt+" | "+line, acquisitions >= 2)
		modelForeign := -1
		if drv != nil {
			a, err := drv.Ask1(line)
			if err != nil {
				rep.Fail(hx.Failure{Kind: "harness-error", Key: "driver", Detail: err.Error()})
				return
			}
			if !strings.HasPrefix(a, "ok ") {
				rep.Fail(hx.Failure{Kind: "model-impl-divergence", Key: "lock-events-not-accepted-by-the-model", Case: caseTxt, Expected: "every observed event is enabled in Model.Lock", Observed: a + " in " + line})
			} else {
				rep.Hist("model-accepts-the-history")
				var mh int
				fmt.Sscanf(a, "ok holds=%d foreign=%d", &mh, &modelForeign)
				if modelForeign > 0 {
					rep.Hist("histories-with-a-foreign-removal")
				}
				if len(rep.Samples) < 6 {
					rep.Sample(map[string]string{"case": caseTxt, "events": line, "model": a})
				}
			}
		}
		if maxHolders > 1 {
			key := classifyOverlap(w, override)
			if modelForeign == 0 {
				// two holders although nobody removed anybody else's lock directory: not one of the two recorded
				// windows (theorem C01_mutex_partial says this cannot happen with an exclusive Mkdir)
				key = "two-holders:without-any-foreign-removal"
			}
			rep.Fail(hx.Failure{Kind: "impl-violates-property", Key: key, Case: caseTxt, Expected: "at most one holder at any instant", Observed: fmt.Sprintf("%d simultaneous holders; events: %s", maxHolders, line)})
		}
	}
	for _, backend := range []string{"mem", "os"} {
		// ---------------- W1: Unlock's re-check removes the successor's lock ------------------------
		func() {
			w := newLockWorld(backend, []int{0, 1, 2}, false)
			defer w.cleanup()
			var holders, maxH int32
			acq := func(i int) bool {
				if w.locks[i].TryLock(ctx) == nil {
					h := atomic.AddInt32(&holders, 1)
					if h > atomic.LoadInt32(&maxH) {
						atomic.StoreInt32(&maxH, h)
					}
					return true
				}
				return false
			}
			if !acq(0) {
				rep.Fail(hx.Failure{Kind: "harness-error", Key: "w1-first-acquire"})
				return
			}
			blocked := make(chan struct{})
			resume := make(chan struct{})
			var once sync.Once
			removed := int32(0)
			w.gates[0].before = func(op, name string) {
				if filepath.Clean(name) != w.sh.lockPath {
					return
				}
				w.sh.mu.Lock()
				rc := w.sh.rmCount[0]
				w.sh.mu.Unlock()
				if rc >= 1 && atomic.LoadInt32(&removed) == 0 && (op == "Stat" || op == "Lstat" || op == "Open") {
					atomic.StoreInt32(&removed, 1)
					once.Do(func() { close(blocked) })
					<-resume
				}
			}
			atomic.AddInt32(&holders, -1)
			w.sh.begin(0)
			done := make(chan struct{})
			go func() { _ = w.locks[0].Unlock(ctx); w.sh.end(0); close(done) }()
			select {
			case <-blocked:
			case <-done:
			case <-time.After(3 * time.Second):
			}
			acq1 := acq(1)
			close(resume)
			select {
			case <-done:
			case <-time.After(5 * time.Second):
			}
			acq2 := acq(2)
			n := 1
			if acq1 {
				n++
			}
			if acq2 {
				n++
			}
			judge(w, "lockcase w1 "+backend, atomic.LoadInt32(&maxH), false, n)
			for _, i := range []int{1, 2} {
				w.sh.begin(i)
				_ = w.locks[i].Unlock(ctx)
				w.sh.end(i)
			}
		}()
		// ---------------- W2: two contenders release the same stale lock ------------------------------
		func() {
			w := newLockWorld(backend, []int{9, 1, 2}, true)
			defer w.cleanup()
			var holders, maxH int32
			if w.locks[9].TryLock(ctx) != nil {
				rep.Fail(hx.Failure{Kind: "harness-error", Key: "w2-first-acquire"})
				return
			}
			_ = w.locks[9].MakeStale(ctx)
			time.Sleep(120 * time.Millisecond)
			w.sh.die(9)
			blocked := make(chan struct{})
			resume := make(chan struct{})
			var once sync.Once
			w.gates[2].before = func(op, name string) {
				if op == "Remove" && filepath.Clean(name) == w.sh.lockPath {
					first := false
					once.Do(func() { first = true; close(blocked) })
					if first {
						<-resume
					}
				}
			}
			acq := func(i int) bool {
				if w.locks[i].TryLock(ctx) == nil {
					h := atomic.AddInt32(&holders, 1)
					if h > atomic.LoadInt32(&maxH) {
						atomic.StoreInt32(&maxH, h)
					}
					return true
				}
				return false
			}
			done := make(chan bool, 1)
			go func() { done <- acq(2) }()
			select {
			case <-blocked:
			case <-time.After(3 * time.Second):
			}
			a1 := acq(1)
			close(resume)
			a2 := false
			select {
			case a2 = <-done:
			case <-time.After(5 * time.Second):
			}
			n := 1
			if a1 {
				n++
			}
			if a2 {
				n++
			}
			judge(w, "lockcase w2 "+backend, atomic.LoadInt32(&maxH), true, n)
			for _, i := range []int{1, 2} {
				w.sh.begin(i)
				_ = w.locks[i].Unlock(ctx)
				w.sh.end(i)
			}
		}()
	}
	// ---------------- W4: a contender that judged the lock stale is overtaken before it acts ----------------
	for _, backend := range []string{"mem", "os"} {
		func() {
			w := newLockWorld(backend, []int{9, 1, 2}, true)
			defer w.cleanup()
			// the overtaken contender looks at the lock again before it removes anything (ReleaseIfStale): two holders here are
			// not the recorded window of two contenders releasing the same stale lock
			// (a key of its own for this schedule was tried and withdrawn: see DESIGN §13.4)
			if w.locks[9].TryLock(ctx) != nil {
				return
			}
			time.Sleep(70 * time.Millisecond) // let the holder write its heartbeat file once
			_ = w.locks[9].MakeStale(ctx)
			time.Sleep(120 * time.Millisecond)
			w.sh.die(9)
			heartbeat := filepath.Join(w.sh.lockPath, "L.lock")
			blocked := make(chan struct{})
			resume := make(chan struct{})
			var once sync.Once
			var sawHeartbeat int32
			w.gates[2].before = func(op, name string) {
				if (op == "Stat" || op == "Lstat") && filepath.Clean(name) == heartbeat && atomic.LoadInt32(&sawHeartbeat) == 0 {
					atomic.StoreInt32(&sawHeartbeat, 1) // the first look at the heartbeat: the lock will be judged stale
					return
				}
				if atomic.LoadInt32(&sawHeartbeat) == 1 {
					first := false
					once.Do(func() { first = true; close(blocked) })
					if first {
						<-resume
					}
				}
			}
			var holders, maxH int32
			acq := func(i int) bool {
				if w.locks[i].TryLock(ctx) == nil {
					h := atomic.AddInt32(&holders, 1)
					if h > atomic.LoadInt32(&maxH) {
						atomic.StoreInt32(&maxH, h)
					}
					return true
				}
				return false
			}
			done := make(chan bool, 1)
			go func() { done <- acq(2) }()
			select {
			case <-blocked:
			case <-time.After(3 * time.Second):
			}
			a1 := acq(1)
			close(resume)
			a2 := false
			select {
			case a2 = <-done:
			case <-time.After(5 * time.Second):
			}
			n := 1
			if a1 {
				n++
			}
			if a2 {
				n++
			}
			judge(w, "lockcase w4-overtaken-after-judging-stale "+backend, atomic.LoadInt32(&maxH), true, n)
			for _, i := range []int{1, 2} {
				w.sh.begin(i)
				_ = w.locks[i].Unlock(ctx)
				w.sh.end(i)
			}
		}()
	}
	// ---------------- W3: the directory to lock appears while a contender is inside TryLock ----------------
	for _, backend := range []string{"mem", "os"} {
		func() {
			w := newLockWorld(backend, []int{0, 1}, false)
			defer w.cleanup()
			// move the lock below a directory that does not exist yet
			missing := filepath.Join(w.dir, "later")
			w.sh.lockPath = filepath.Join(missing, "lockfile-L")
			ty := filesystem.InMemoryFS
			if backend == "os" {
				ty = filesystem.StandardFS
			}
			for _, id := range []int{0, 1} {
				vfs := filesystem.NewVirtualFileSystem(w.gates[id], ty, filesystem.IdentityPathConverterFunc).(*filesystem.VFS)
				w.locks[id] = filesystem.NewGenericRemoteLockFile(vfs, "L", missing, false)
			}
			blocked := make(chan struct{})
			resume := make(chan struct{})
			var once sync.Once
			w.gates[0].after = func(op, name string, err error) {
				if err != nil {
					first := false
					once.Do(func() { first = true; close(blocked) })
					if first {
						<-resume
					}
				}
			}
			var holders, maxH int32
			acq := func(i int) bool {
				if w.locks[i].TryLock(ctx) == nil {
					h := atomic.AddInt32(&holders, 1)
					if h > atomic.LoadInt32(&maxH) {
						atomic.StoreInt32(&maxH, h)
					}
					return true
				}
				return false
			}
			done := make(chan bool, 1)
			go func() { done <- acq(0) }()
			select {
			case <-blocked:
			case <-time.After(3 * time.Second):
			}
			_ = w.inner.MkdirAll(missing, 0o755)
			a1 := acq(1)
			close(resume)
			a0 := false
			select {
			case a0 = <-done:
			case <-time.After(5 * time.Second):
			}
			n := 0
			if a0 {
				n++
			}
			if a1 {
				n++
			}
			judge(w, "lockcase w3-directory-appears-during-trylock "+backend, atomic.LoadInt32(&maxH), false, n)
			for _, i := range []int{0, 1} {
				w.sh.begin(i)
				_ = w.locks[i].Unlock(ctx)
				w.sh.end(i)
			}
		}()
	}
	// ---------------- W5: a contender gives up (its context ends) while its attempt is in flight ----------------
	for _, backend := range []string{"mem", "os"} {
		for _, how := range []string{"Lock+cancel", "LockWithTimeout"} {
			func() {
				w := newLockWorld(backend, []int{0, 1, 2}, false)
				defer w.cleanup()
				caseTxt := fmt.Sprintf("lockcase w5-contender-gives-up-during-its-attempt %s %s", how, backend)
				if err := w.locks[0].TryLock(ctx); err != nil {
					rep.Fail(hx.Failure{Kind: "harness-error", Key: "w5-holder", Case: caseTxt, Detail: err.Error()})
					return
				}
				cctx, ccancel := context.WithCancel(ctx)
				defer ccancel()
				inAttempt := make(chan struct{})
				release := make(chan struct{})
				var once sync.Once
				w.gates[1].before = func(op, name string) {
					if op == "Mkdir" && filepath.Clean(name) == w.sh.lockPath {
						first := false
						once.Do(func() { first = true; close(inAttempt) })
						if first {
							<-release // the attempt stays in flight until the context has ended
						}
					}
				}
				res := make(chan error, 1)
				go func() {
					if how == "Lock+cancel" {
						res <- w.locks[1].Lock(cctx)
					} else {
						res <- w.locks[1].LockWithTimeout(ctx, 30*time.Millisecond)
					}
				}()
				select {
				case <-inAttempt:
				case <-time.After(3 * time.Second):
				}
				if how == "Lock+cancel" {
					ccancel()
				} else {
					time.Sleep(60 * time.Millisecond) // the timeout passes while the Mkdir is pending
				}
				close(release)
				var lerr error
				select {
				case lerr = <-res:
				case <-time.After(5 * time.Second):
					lerr = fmt.Errorf("Lock did not return")
				}
				time.Sleep(20 * time.Millisecond)
				_, statErr := w.inner.Stat(w.sh.lockPath)
				third := w.locks[2].TryLock(ctx)
				rep.Eval(caseTxt, true)
				rep.Hist("w5:" + how)
				if lerr == nil || statErr != nil || third == nil {
					rep.Fail(hx.Failure{Kind: "impl-violates-property", Key: "contender-giving-up-releases-the-holders-lock", Case: caseTxt,
						Expected: "the contender gets an error, the holder's lock directory stays, a third contender is refused",
						Observed: fmt.Sprintf("contender: %v; lock directory: %v; third contender's TryLock: %v; events: %s", lerr, statErr, third, w.eventsLine())})
				}
				for _, i := range []int{0, 2} {
					w.sh.begin(i)
					_ = w.locks[i].Unlock(ctx)
					w.sh.end(i)
				}
			}()
		}
	}
	// ---------------- W6: lock identifiers and directories that happen to contain pattern characters ----------------
	for _, backend := range []string{"mem", "os"} {
		for _, lockID := range []string{"job[7]", "entry-{a,b}", "build*final?", "plain"} {
			func() {
				w := newLockWorld(backend, nil, false)
				defer w.cleanup()
				ty := filesystem.InMemoryFS
				if backend == "os" {
					ty = filesystem.StandardFS
				}
				dir := filepath.Join(w.dir, "locks [x]")
				_ = w.inner.MkdirAll(dir, 0o755)
				mk := func(override bool) filesystem.ILock {
					vfs := filesystem.NewVirtualFileSystem(w.inner, ty, filesystem.IdentityPathConverterFunc).(*filesystem.VFS)
					return filesystem.NewGenericRemoteLockFile(vfs, lockID, dir, override)
				}
				holder, contender, observer := mk(false), mk(true), mk(false)
				caseTxt := fmt.Sprintf("lockcase w6-identifier-with-pattern-characters id=%q %s", lockID, backend)
				rep.Eval(caseTxt, true)
				rep.Hist("w6")
				if err := holder.TryLock(ctx); err != nil {
					rep.Fail(hx.Failure{Kind: "impl-violates-property", Key: "lock-cannot-be-acquired:identifier-with-pattern-characters", Case: caseTxt, Observed: err.Error()})
					return
				}
				time.Sleep(260 * time.Millisecond) // more than two heart-beat periods: the holder is alive
				stale := observer.IsStale()
				cerr := contender.TryLock(ctx) // it would take a stale lock over
				if stale || cerr == nil {
					rep.Fail(hx.Failure{Kind: "impl-violates-property", Key: "two-holders:live-lock-taken-over:identifier-with-pattern-characters", Case: caseTxt,
						Expected: "the holder is alive: not stale, a contender (which overrides stale locks) is refused", Observed: fmt.Sprintf("IsStale=%v, contender's TryLock: %v", stale, cerr)})
				}
				_ = holder.Unlock(ctx)
				_ = contender.Unlock(ctx)
			}()
		}
	}
	// ---------------- W7: the holder's own lock object makes a second, failing attempt ----------------
	for _, backend := range []string{"mem", "os"} {
		func() {
			w := newLockWorld(backend, nil, false)
			defer w.cleanup()
			ty := filesystem.InMemoryFS
			if backend == "os" {
				ty = filesystem.StandardFS
			}
			mk := func(override bool) filesystem.ILock {
				vfs := filesystem.NewVirtualFileSystem(w.inner, ty, filesystem.IdentityPathConverterFunc).(*filesystem.VFS)
				return filesystem.NewGenericRemoteLockFile(vfs, "L7", w.dir, override)
			}
			holder, contender, observer := mk(false), mk(true), mk(false)
			caseTxt := "lockcase w7-holder-object-times-out-on-a-second-attempt " + backend
			rep.Eval(caseTxt, true)
			rep.Hist("w7")
			if err := holder.TryLock(ctx); err != nil {
				rep.Fail(hx.Failure{Kind: "harness-error", Key: "w7-holder", Case: caseTxt, Detail: err.Error()})
				return
			}
			// a re-entrant attempt (or another goroutine sharing the object): it cannot succeed and times out
			again := holder.LockWithTimeout(ctx, 40*time.Millisecond)
			time.Sleep(260 * time.Millisecond) // more than two heart-beat periods later the holder still holds
			stale := observer.IsStale()
			cerr := contender.TryLock(ctx)
			if again == nil || stale || cerr == nil {
				rep.Fail(hx.Failure{Kind: "impl-violates-property", Key: "two-holders:holder-loses-its-lock-after-its-own-failed-second-attempt", Case: caseTxt,
					Expected: "the second attempt fails, the lock stays live: not stale, a contender (which overrides stale locks) is refused",
					Observed: fmt.Sprintf("second attempt: %v; IsStale=%v; contender's TryLock: %v", again, stale, cerr)})
			}
			_ = holder.Unlock(ctx)
			_ = contender.Unlock(ctx)
		}()
	}
	// ---------------- W8: the holder changes between a contender's listing of the lock directory and its look at the heart-beat file ----------------
	for _, backend := range []string{"mem", "os"} {
		func() {
			w := newLockWorld(backend, []int{9, 1, 2, 3}, false)
			defer w.cleanup()
			caseTxt := "lockcase w8-holder-changes-between-listing-and-stat " + backend
			rep.Eval(caseTxt, true)
			rep.Hist("w8")
			if err := w.locks[9].TryLock(ctx); err != nil {
				rep.Fail(hx.Failure{Kind: "harness-error", Key: "w8-holder", Case: caseTxt, Detail: err.Error()})
				return
			}
			time.Sleep(70 * time.Millisecond) // the first holder's heart-beat file exists
			heartbeat := filepath.Join(w.sh.lockPath, "L.lock")
			release := make(chan struct{})
			// the second holder's first heart-beat write is slow: held back for the few milliseconds of the scenario
			w.gates[1].before = func(op, name string) {
				if filepath.Clean(name) == heartbeat {
					<-release
				}
			}
			var once sync.Once
			var berr error = fmt.Errorf("not attempted")
			w.gates[2].before = func(op, name string) {
				if (op == "Stat" || op == "Lstat") && filepath.Clean(name) == heartbeat {
					once.Do(func() {
						// the contender has listed the first holder's heart-beat file; before it looks at it the first holder
						// releases and a second one acquires
						w.sh.begin(9)
						_ = w.locks[9].Unlock(ctx)
						w.sh.end(9)
						berr = w.locks[1].TryLock(ctx)
					})
				}
			}
			rerr := w.locks[2].ReleaseIfStale(ctx)
			derr := w.locks[3].TryLock(ctx)
			close(release)
			if berr == nil && derr == nil {
				rep.Fail(hx.Failure{Kind: "impl-violates-property", Key: "two-holders:live-lock-released-as-stale-while-its-holder-changed", Case: caseTxt,
					Expected: "the second holder's lock (a few milliseconds old) is not judged stale: ReleaseIfStale leaves it, a third contender is refused",
					Observed: fmt.Sprintf("second holder's TryLock: %v; ReleaseIfStale: %v; third contender's TryLock: %v (two holders)", berr, rerr, derr)})
			}
			if berr != nil {
				rep.Hist("w8:second-holder-did-not-acquire")
			}
			for _, i := range []int{1, 3} {
				_ = w.locks[i].Unlock(ctx)
			}
		}()
	}
	// ---------------- random concurrent cycles -------------------------------------------------------
	runs := 30
	if o.Thorough() {
		runs = 600
	}
	for r := 0; r < runs; r++ {
		backend := []string{"mem", "os"}[r%2]
		k := rnd.Range(2, 4)
		override := rnd.Chance(40)
		deadHolder := rnd.Chance(30)
		ids := []int{}
		for i := 0; i < k; i++ {
			ids = append(ids, i)
		}
		if deadHolder {
			ids = append(ids, 9)
		}
		w := newLockWorld(backend, ids, override)
		var dmu sync.Mutex
		drnd := rnd.Fork()
		w.sh.delay = func() time.Duration {
			dmu.Lock()
			defer dmu.Unlock()
			if drnd.Chance(50) {
				return 0
			}
			return time.Duration(drnd.Intn(1500)) * time.Microsecond
		}
		if deadHolder {
			_ = w.locks[9].TryLock(ctx)
			_ = w.locks[9].MakeStale(ctx)
			time.Sleep(110 * time.Millisecond)
			w.sh.die(9)
		}
		var holders, maxH, acqs int32
		var wg sync.WaitGroup
		for i := 0; i < k; i++ {
			wg.Add(1)
			seed := rnd.Fork()
			go func(i int, rr *hx.Rand) {
				defer wg.Done()
				cycles := 3
				for c := 0; c < cycles; c++ {
					var err error
					if rr.Bool() {
						err = w.locks[i].TryLock(ctx)
					} else {
						err = w.locks[i].LockWithTimeout(ctx, 150*time.Millisecond)
					}
					if err != nil {
						time.Sleep(time.Duration(rr.Intn(3000)) * time.Microsecond)
						continue
					}
					atomic.AddInt32(&acqs, 1)
					h := atomic.AddInt32(&holders, 1)
					for {
						m := atomic.LoadInt32(&maxH)
						if h <= m || atomic.CompareAndSwapInt32(&maxH, m, h) {
							break
						}
					}
					time.Sleep(time.Duration(rr.Intn(3000)) * time.Microsecond)
					atomic.AddInt32(&holders, -1)
					w.sh.begin(i)
					_ = w.locks[i].Unlock(ctx)
					w.sh.end(i)
				}
			}(i, seed)
		}
		wg.Wait()
		judge(w, fmt.Sprintf("lockcase random %s contenders=%d override=%v deadHolder=%v run=%d", backend, k, override, deadHolder, r), atomic.LoadInt32(&maxH), override, int(acqs))
		rep.HistN("acquisitions", int(acqs))
		w.cleanup()
	}
	rep.Write(o.Report, drv)
	if len(rep.Failures) > 0 {
		fmt.Printf("failures: %d\n", len(rep.Failures))
	}
}
