package main

// recFs: an afero.Fs wrapper that records every call crossing the backend boundary (operation, path,
// mutating or not), per-file bytes written (high-water mark of the size each file ever had), the
// number of files currently open, and can inject a cancellation / fault after the k-th operation.

import (
	"os"
	"sync"
	"sync/atomic"
	"time"

	"github.com/spf13/afero"
)

type recOp struct {
	Op       string
	Path     string
	Path2    string
	Mutating bool
}

type recFs struct {
	inner afero.Fs
	mu    sync.Mutex
	ops   []recOp
	// per path: bytes written since the last open-with-truncate / create (approximates the file size)
	written map[string]int64
	maxSize map[string]int64
	open    int64
	opened  int64
	closed  int64
	count   int64
	onOp    func(n int64, op recOp) // hook called before the operation is forwarded
}

func newRecFs(inner afero.Fs) *recFs {
	return &recFs{inner: inner, written: map[string]int64{}, maxSize: map[string]int64{}}
}

func (r *recFs) rec(op, path, path2 string, mutating bool) {
	o := recOp{op, path, path2, mutating}
	n := atomic.AddInt64(&r.count, 1)
	r.mu.Lock()
	r.ops = append(r.ops, o)
	h := r.onOp
	r.mu.Unlock()
	if h != nil {
		h(n, o)
	}
}

func (r *recFs) snapshotOps() []recOp {
	r.mu.Lock()
	defer r.mu.Unlock()
	return append([]recOp{}, r.ops...)
}

func (r *recFs) reset() {
	r.mu.Lock()
	r.ops = nil
	r.written = map[string]int64{}
	r.maxSize = map[string]int64{}
	r.mu.Unlock()
	atomic.StoreInt64(&r.count, 0)
	atomic.StoreInt64(&r.opened, 0)
	atomic.StoreInt64(&r.closed, 0)
}

func (r *recFs) Name() string { return "recFs(" + r.inner.Name() + ")" }
func (r *recFs) Create(name string) (afero.File, error) {
	r.rec("Create", name, "", true)
	f, err := r.inner.Create(name)
	return r.wrap(f, name, true), err
}
func (r *recFs) Mkdir(name string, perm os.FileMode) error {
	r.rec("Mkdir", name, "", true)
	return r.inner.Mkdir(name, perm)
}
func (r *recFs) MkdirAll(path string, perm os.FileMode) error {
	r.rec("MkdirAll", path, "", true)
	return r.inner.MkdirAll(path, perm)
}
func (r *recFs) Open(name string) (afero.File, error) {
	r.rec("Open", name, "", false)
	f, err := r.inner.Open(name)
	return r.wrap(f, name, false), err
}
func (r *recFs) OpenFile(name string, flag int, perm os.FileMode) (afero.File, error) {
	mut := flag&(os.O_WRONLY|os.O_RDWR|os.O_CREATE|os.O_TRUNC|os.O_APPEND) != 0
	r.rec("OpenFile", name, "", mut)
	f, err := r.inner.OpenFile(name, flag, perm)
	return r.wrap(f, name, flag&os.O_TRUNC != 0 || flag&os.O_CREATE != 0), err
}
func (r *recFs) Remove(name string) error {
	r.rec("Remove", name, "", true)
	return r.inner.Remove(name)
}
func (r *recFs) RemoveAll(path string) error {
	r.rec("RemoveAll", path, "", true)
	return r.inner.RemoveAll(path)
}
func (r *recFs) Rename(oldname, newname string) error {
	r.rec("Rename", oldname, newname, true)
	return r.inner.Rename(oldname, newname)
}
func (r *recFs) Stat(name string) (os.FileInfo, error) {
	r.rec("Stat", name, "", false)
	return r.inner.Stat(name)
}
func (r *recFs) Chmod(name string, mode os.FileMode) error {
	r.rec("Chmod", name, "", true)
	return r.inner.Chmod(name, mode)
}
func (r *recFs) Chown(name string, uid, gid int) error {
	r.rec("Chown", name, "", true)
	return r.inner.Chown(name, uid, gid)
}
func (r *recFs) Chtimes(name string, atime time.Time, mtime time.Time) error {
	r.rec("Chtimes", name, "", true)
	return r.inner.Chtimes(name, atime, mtime)
}

// optional interfaces of the OS backend
func (r *recFs) LstatIfPossible(name string) (os.FileInfo, bool, error) {
	r.rec("Lstat", name, "", false)
	if l, ok := r.inner.(afero.Lstater); ok {
		return l.LstatIfPossible(name)
	}
	fi, err := r.inner.Stat(name)
	return fi, false, err
}
func (r *recFs) SymlinkIfPossible(oldname, newname string) error {
	r.rec("Symlink", newname, oldname, true)
	if l, ok := r.inner.(afero.Linker); ok {
		return l.SymlinkIfPossible(oldname, newname)
	}
	return &os.LinkError{Op: "symlink", Old: oldname, New: newname, Err: afero.ErrNoSymlink}
}
func (r *recFs) ReadlinkIfPossible(name string) (string, error) {
	r.rec("Readlink", name, "", false)
	if l, ok := r.inner.(afero.LinkReader); ok {
		return l.ReadlinkIfPossible(name)
	}
	return "", &os.PathError{Op: "readlink", Path: name, Err: afero.ErrNoReadlink}
}

type recFile struct {
	afero.File
	fs     *recFs
	name   string
	closed int32
}

func (r *recFs) wrap(f afero.File, name string, truncated bool) afero.File {
	if f == nil {
		return nil
	}
	atomic.AddInt64(&r.opened, 1)
	if truncated {
		r.mu.Lock()
		r.written[name] = 0
		r.mu.Unlock()
	}
	return &recFile{File: f, fs: r, name: name}
}

func (f *recFile) Close() error {
	if atomic.CompareAndSwapInt32(&f.closed, 0, 1) {
		atomic.AddInt64(&f.fs.closed, 1)
	}
	return f.File.Close()
}

func (f *recFile) noteWrite(n int) {
	f.fs.mu.Lock()
	f.fs.written[f.name] += int64(n)
	if f.fs.written[f.name] > f.fs.maxSize[f.name] {
		f.fs.maxSize[f.name] = f.fs.written[f.name]
	}
	f.fs.mu.Unlock()
}

func (f *recFile) Write(p []byte) (int, error) {
	f.fs.rec("Write", f.name, "", true)
	n, err := f.File.Write(p)
	f.noteWrite(n)
	return n, err
}
func (f *recFile) WriteString(s string) (int, error) {
	f.fs.rec("Write", f.name, "", true)
	n, err := f.File.WriteString(s)
	f.noteWrite(n)
	return n, err
}
func (f *recFile) WriteAt(p []byte, off int64) (int, error) {
	f.fs.rec("WriteAt", f.name, "", true)
	n, err := f.File.WriteAt(p, off)
	f.noteWrite(n)
	return n, err
}
func (f *recFile) Read(p []byte) (int, error) {
	f.fs.rec("Read", f.name, "", false)
	return f.File.Read(p)
}
func (f *recFile) Readdir(count int) ([]os.FileInfo, error) {
	f.fs.rec("Readdir", f.name, "", false)
	return f.File.Readdir(count)
}
func (f *recFile) Readdirnames(n int) ([]string, error) {
	f.fs.rec("Readdirnames", f.name, "", false)
	return f.File.Readdirnames(n)
}
func (f *recFile) Truncate(size int64) error {
	f.fs.rec("Truncate", f.name, "", true)
	return f.File.Truncate(size)
}
