package main

// C08 — exclusion patterns protect exactly what they name, in every operation.
// Random trees over the names {a,b,ab,ba,xa,by,aa}, 0..3 random anchor-free regular expressions built
// from an AST (rendered to Go syntax here, sent as AST to the Lean model — no regex parser is trusted),
// every exclusion-aware operation on MemMapFs and OsFs. For each operation the set of entries it
// processed (reported / copied / archived / deleted) is compared
//   * with the property: an entry with a component matched IN FULL by a pattern is never processed
//     (nor anything beneath it); an entry none of whose components CONTAINS a match always is;
//   * with the model: name-based operations process exactly the entries all of whose components are
//     name-visible; path-based ones (copy) those whose every prefix path is path-visible.

import (
	"archive/zip"
	"bytes"
	"context"
	"fmt"
	"os"
	"path/filepath"
	"regexp"
	"sort"
	"strings"

	"github.com/spf13/afero"

	"github.com/ARM-software/golang-utils/utils/commonerrors"
	"github.com/ARM-software/golang-utils/utils/filesystem"

	"verif/harness/hx"
)

func init() { subs["exclusion"] = exclusionMain }

type reNode struct {
	op   byte // 'c' '.' 'k' '&' '|' '*' '+' '?'
	c    byte
	cls  []byte
	a, b *reNode
}

var reAlphabet = []byte("abxy")

func genRe(rnd *hx.Rand, depth int) *reNode {
	if depth <= 0 || rnd.Chance(35) {
		switch rnd.Intn(6) {
		case 0:
			return &reNode{op: '.'}
		case 1:
			n := 1 + rnd.Intn(2)
			var cs []byte
			for i := 0; i < n; i++ {
				cs = append(cs, hx.Pick(rnd, reAlphabet))
			}
			return &reNode{op: 'k', cls: cs}
		default:
			return &reNode{op: 'c', c: hx.Pick(rnd, reAlphabet)}
		}
	}
	switch rnd.Intn(8) {
	case 0:
		return &reNode{op: '|', a: genRe(rnd, depth-1), b: genRe(rnd, depth-1)}
	case 1:
		return &reNode{op: '*', a: genRe(rnd, depth-1)}
	case 2:
		return &reNode{op: '+', a: genRe(rnd, depth-1)}
	case 3:
		return &reNode{op: '?', a: genRe(rnd, depth-1)}
	default:
		return &reNode{op: '&', a: genRe(rnd, depth-1), b: genRe(rnd, depth-1)}
	}
}

func (r *reNode) goSyntax() string {
	switch r.op {
	case 'c':
		return regexp.QuoteMeta(string(r.c))
	case '.':
		return "."
	case 's': // a literal written without grouping (directed cases)
		return regexp.QuoteMeta(string(r.cls))
	case 'k':
		return "[" + string(r.cls) + "]"
	case '&':
		return "(?:" + r.a.goSyntax() + ")(?:" + r.b.goSyntax() + ")"
	case '|':
		return "(?:" + r.a.goSyntax() + "|" + r.b.goSyntax() + ")"
	}
	return "(?:" + r.a.goSyntax() + ")" + string(r.op)
}

func (r *reNode) tokens() string {
	switch r.op {
	case 'c':
		return fmt.Sprintf("c%d", r.c)
	case '.':
		return "."
	case 's':
		t := fmt.Sprintf("c%d", r.cls[len(r.cls)-1])
		for i := len(r.cls) - 2; i >= 0; i-- {
			t = fmt.Sprintf("& c%d %s", r.cls[i], t)
		}
		return t
	case 'k':
		var p []string
		for _, c := range r.cls {
			p = append(p, fmt.Sprint(c))
		}
		return "k" + strings.Join(p, "-")
	case '&', '|':
		return string(r.op) + " " + r.a.tokens() + " " + r.b.tokens()
	}
	return string(r.op) + " " + r.a.tokens()
}

type exEntry struct {
	rel string
	dir bool
}

var exNames = []string{"a", "b", "ab", "ba", "xa", "by", "aa", "y"}

func genExTree(rnd *hx.Rand) []exEntry {
	var ents []exEntry
	have := map[string]bool{}
	dirs := []string{""}
	n := rnd.Range(3, 12)
	for i := 0; i < n; i++ {
		parent := hx.Pick(rnd, dirs)
		if strings.Count(parent, "/") >= 2 {
			parent = ""
		}
		p := hx.Pick(rnd, exNames)
		if parent != "" {
			p = parent + "/" + p
		}
		if have[p] {
			continue
		}
		have[p] = true
		d := rnd.Chance(45)
		ents = append(ents, exEntry{p, d})
		if d {
			dirs = append(dirs, p)
		}
	}
	return ents
}

type exEnv struct {
	backend string
	fs      filesystem.FS
	rec     *recFs
	base    string
	cleanup func()
}

func newExEnv(backend string, ents []exEntry) *exEnv {
	e := &exEnv{backend: backend}
	var inner afero.Fs
	ty := filesystem.InMemoryFS
	if backend == "mem" {
		inner = afero.NewMemMapFs()
		e.base = "/000"
		e.cleanup = func() {}
	} else {
		inner = filesystem.NewExtendedOsFs()
		tmp, _ := os.MkdirTemp("", "000")
		e.base = tmp
		e.cleanup = func() { os.RemoveAll(tmp) }
		ty = filesystem.StandardFS
	}
	e.rec = newRecFs(inner)
	e.fs = filesystem.NewVirtualFileSystem(e.rec, ty, filesystem.IdentityPathConverterFunc)
	_ = inner.MkdirAll(filepath.Join(e.base, "r"), 0o755)
	for _, en := range ents {
		full := filepath.Join(e.base, "r", filepath.FromSlash(en.rel))
		if en.dir {
			_ = inner.MkdirAll(full, 0o755)
		} else {
			_ = inner.MkdirAll(filepath.Dir(full), 0o755)
			_ = afero.WriteFile(inner, full, []byte("data:"+en.rel), 0o644)
		}
	}
	e.rec.reset()
	return e
}

func (e *exEnv) listAll(sub string) []string {
	var out []string
	root := filepath.Join(e.base, sub)
	_ = afero.Walk(e.rec.inner, root, func(path string, info os.FileInfo, err error) error {
		if err != nil || path == root {
			return nil
		}
		out = append(out, filepath.ToSlash(strings.TrimPrefix(path, root+string(filepath.Separator))))
		return nil
	})
	sort.Strings(out)
	return out
}

var exOps = []string{"walk", "ls", "lsrecursive", "listdirtree", "subdirectories", "copy", "zip", "remove", "clean"}

// runExOp returns the set of entries (relative to r) the operation processed
// the caller's pattern buffer: one backing array reused from call to call and overwritten in place, as a caller
// that builds its pattern list in a scratch slice does
var exPatBuf = make([]string, 0, 16)

func runExOp(e *exEnv, op string, patsIn []string) (processed []string, err error) {
	pats := append(exPatBuf[:0], patsIn...)
	ctx := context.Background()
	root := filepath.Join(e.base, "r")
	rel := func(p string) string {
		p = filepath.ToSlash(p)
		r := filepath.ToSlash(root)
		p = strings.TrimPrefix(p, r)
		return strings.Trim(p, "/")
	}
	set := map[string]bool{}
	switch op {
	case "walk":
		err = e.fs.WalkWithContextAndExclusionPatterns(ctx, root, func(path string, info os.FileInfo, err error) error {
			if r := rel(path); r != "" {
				set[r] = true
			}
			return nil
		}, pats...)
	case "ls":
		var names []string
		names, err = e.fs.LsWithExclusionPatterns(root, pats...)
		for _, n := range names {
			set[n] = true
		}
	case "lsrecursive":
		var names []string
		names, err = e.fs.LsRecursiveWithExclusionPatterns(ctx, root, true, pats...)
		for _, n := range names {
			if r := rel(n); r != "" {
				set[r] = true
			}
		}
	case "listdirtree":
		var l []string
		err = e.fs.ListDirTreeWithContextAndExclusionPatterns(ctx, root, &l, pats...)
		for _, n := range l {
			if r := rel(n); r != "" {
				set[r] = true
			}
		}
	case "subdirectories":
		var names []string
		names, err = e.fs.SubDirectoriesWithContextAndExclusionPatterns(ctx, root, pats...)
		for _, n := range names {
			set[n] = true
		}
	case "copy":
		err = e.fs.CopyWithContextAndExclusionPatterns(ctx, root, filepath.Join(e.base, "000dst"), pats...)
		for _, p := range e.listAll("000dst") {
			set[p] = true
		}
	case "zip":
		zp := filepath.Join(e.base, "000.zip")
		err = e.fs.ZipWithContextAndLimitsAndExclusionPatterns(ctx, root, zp, filesystem.NoLimits(), pats...)
		if err == nil {
			b, rerr := afero.ReadFile(e.rec.inner, zp)
			if rerr == nil {
				zr, zerr := zip.NewReader(bytes.NewReader(b), int64(len(b)))
				if zerr == nil {
					for _, f := range zr.File {
						set[strings.Trim(filepath.ToSlash(f.Name), "/")] = true
					}
				}
			}
		}
	case "remove", "clean":
		before := e.listAll("r")
		if op == "remove" {
			err = e.fs.RemoveWithContextAndExclusionPatterns(ctx, root, pats...)
		} else {
			err = e.fs.CleanDirWithContextAndExclusionPatterns(ctx, root, pats...)
		}
		after := map[string]bool{}
		for _, p := range e.listAll("r") {
			after[p] = true
		}
		for _, p := range before {
			if !after[p] {
				set[p] = true
			}
		}
	}
	for p := range set {
		processed = append(processed, p)
	}
	sort.Strings(processed)
	return
}

func exclusionMain(args []string) {
	o := hx.ParseOpts(args)
	rep := hx.NewReport("trees of 3..12 entries (depth ≤ 3) over the names {a,b,ab,ba,xa,by,aa,y} rooted at a location without pattern characters, 0..3 random anchor-free regular expressions (AST depth ≤ 3 over a,b,x,y, '.', classes, * + ?, alternation, concatenation), " +
		"operations walk, ls, lsrecursive, listdirtree, subdirectories, copy, zip, remove, clean on MemMapFs and OsFs; plus uncompilable patterns. non-trivial = at least one entry is excluded and one is not; distinct = (tree, patterns, operation, backend).")
	drv, err := hx.StartDriver(o.Driver)
	if err != nil {
		fmt.Println("driver:", err)
	}
	defer drv.Close()
	rnd := hx.NewRand(o.Seed)
	n := 150
	if o.Thorough() {
		n = 3000
	}
	type exCase struct {
		ents []exEntry
		pats []*reNode
	}
	var cases []exCase
	// the witness of the design: pattern a.b, entries xa/by
	cases = append(cases, exCase{ents: []exEntry{{"xa", true}, {"xa/by", false}, {"ab", false}}, pats: []*reNode{{op: '&', a: &reNode{op: 'c', c: 'a'}, b: &reNode{op: '&', a: &reNode{op: '.'}, b: &reNode{op: 'c', c: 'b'}}}}})
	// different pattern lists whose texts are equal once put end to end, one after the other in the same process: each list
	// has its own exclusions (anything remembered from one call must not leak into the next)
	lit := func(x string) *reNode { return &reNode{op: 's', cls: []byte(x)} }
	chr := func(x byte) *reNode { return &reNode{op: 'c', c: x} }
	pairTree := []exEntry{{"a", false}, {"b", true}, {"b/a", false}, {"ab", true}, {"ab/y", false}, {"ba", false}, {"aa", true}, {"aa/b", false}, {"y", false}}
	for _, ps := range [][]*reNode{{lit("ab")}, {chr('a'), chr('b')}, {lit("ba")}, {chr('b'), chr('a')}, {chr('a'), chr('a')}, {lit("aa")}, {lit("aab")}, {lit("aa"), chr('b')}, {chr('a'), lit("ab")}} {
		cases = append(cases, exCase{ents: pairTree, pats: ps})
	}
	for i := 0; i < n; i++ {
		c := exCase{ents: genExTree(rnd)}
		for k := rnd.Intn(4); k > 0; k-- {
			c.pats = append(c.pats, genRe(rnd, rnd.Range(1, 3)))
		}
		cases = append(cases, c)
	}
	for _, c := range cases {
		var goPats, tokPats []string
		for _, p := range c.pats {
			goPats = append(goPats, p.goSyntax())
			tokPats = append(tokPats, p.tokens())
		}
		// blank patterns are to be ignored wherever they stand in the list (the model never sees them)
		if len(goPats) > 0 && rnd.Chance(30) {
			pos := rnd.Intn(len(goPats) + 1)
			blank := hx.Pick(rnd, []string{"", "  "})
			goPats = append(goPats[:pos], append([]string{blank}, goPats[pos:]...)...)
		}
		var rels []string
		for _, en := range c.ents {
			rels = append(rels, en.rel)
		}
		for _, backend := range []string{"mem", "os"} {
			// flags from the model
			probe := newExEnv(backend, c.ents)
			all := probe.listAll("r")
			rootPath := filepath.ToSlash(filepath.Join(probe.base, "r"))
			probe.cleanup()
			// the property is about trees rooted at a location whose own path contains no match
			rootMatches := false
			for _, gp := range goPats {
				if re, cerr := regexp.Compile(gp); cerr == nil && (re.MatchString(rootPath+"/") || re.MatchString(rootPath)) {
					rootMatches = true
				}
			}
			if rootMatches {
				rep.Hist("skipped:root-path-contains-a-match")
				continue
			}
			flags := map[string]string{}
			if drv != nil && len(all) > 0 {
				line := "excl " + strings.Join(tokPats, " ; ") + " -- " + rootPath + " -- " + strings.Join(all, " ")
				a, err := drv.Ask1(line)
				if err != nil || a == "bad-op" {
					rep.Fail(hx.Failure{Kind: "harness-error", Key: "driver", Case: line, Detail: fmt.Sprint(a, err)})
					continue
				}
				for i, f := range strings.Fields(a) {
					flags[all[i]] = f
				}
			}
			for _, op := range exOps {
				caseTxt := fmt.Sprintf("excl %s %s pats=%q tree=%s", op, backend, goPats, strings.Join(rels, ","))
				base := newExEnv(backend, c.ents)
				universe, berr := runExOp(base, op, nil)
				base.cleanup()
				if berr != nil {
					rep.Fail(hx.Failure{Kind: "harness-error", Key: "baseline:" + op, Case: caseTxt, Detail: berr.Error()})
					continue
				}
				env := newExEnv(backend, c.ents)
				processed, perr := runExOp(env, op, goPats)
				env.cleanup()
				if perr != nil {
					rep.Fail(hx.Failure{Kind: "model-impl-divergence", Key: "operation-fails:" + op, Case: caseTxt, Observed: perr.Error()})
					continue
				}
				pset := map[string]bool{}
				for _, p := range processed {
					pset[p] = true
				}
				someIn, someOut := false, false
				var wantName, wantPath []string
				for _, e := range universe {
					f := flags[e]
					if strings.Contains(f, "n") {
						wantName = append(wantName, e)
					}
					if strings.Contains(f, "p") {
						wantPath = append(wantPath, e)
					}
					if pset[e] {
						someIn = true
					} else {
						someOut = true
					}
					if drv == nil {
						continue
					}
					if strings.Contains(f, "F") && pset[e] {
						// classification only: is the component matched in full the first one below the root?
						level := ":below-first-level"
						first := strings.SplitN(e, "/", 2)[0]
						for _, gp := range goPats {
							if strings.TrimSpace(gp) == "" {
								continue
							}
							if re, cerr := regexp.Compile("^(?:" + gp + ")$"); cerr == nil && re.MatchString(first) {
								level = ":first-level"
							}
						}
						if op != "remove" && op != "clean" {
							level = ""
						}
						rep.Fail(hx.Failure{Kind: "impl-violates-property", Key: "excluded-entry-processed:" + op + level, Case: caseTxt,
							Expected: e + " (a component is matched in full by a pattern) is not processed", Observed: "processed: " + strings.Join(processed, ",")})
					}
					if !strings.Contains(f, "C") && !pset[e] {
						rep.Fail(hx.Failure{Kind: "impl-violates-property", Key: "unmatched-entry-skipped:" + op, Case: caseTxt,
							Expected: e + " (no component contains a match) is processed", Observed: "processed: " + strings.Join(processed, ",")})
					}
				}
				for _, p := range processed {
					found := false
					for _, u := range universe {
						if u == p {
							found = true
						}
					}
					if !found {
						rep.Fail(hx.Failure{Kind: "impl-violates-property", Key: "processes-more-with-patterns-than-without:" + op, Case: caseTxt, Observed: p})
					}
				}
				rep.Eval(caseTxt, someIn && someOut)
				rep.Hist("op:" + op)
				if drv != nil && op != "remove" && op != "clean" {
					want := wantName
					kind := "name-visible"
					if op == "copy" {
						want, kind = wantPath, "path-visible"
					}
					if strings.Join(want, ",") != strings.Join(processed, ",") {
						rep.Fail(hx.Failure{Kind: "model-impl-divergence", Key: "processed-set:" + op, Case: caseTxt, Expected: kind + ": " + strings.Join(want, ","), Observed: "processed: " + strings.Join(processed, ",")})
					} else {
						rep.Hist("model=impl:" + op)
					}
				}
			}
		}
	}
	// invalid patterns: 'invalid' before anything is touched
	// single uncompilable patterns, and SETS of uncompilable patterns whose defects would cancel out if the
	// patterns were joined into one expression: every pattern is judged on its own
	for _, badSet := range [][]string{{"a", "("}, {"a", "a["}, {"a", "*a"}, {"a", "a(?P<"}, {"a", "[z-a]"}, {"(a", "b)"}, {"a", "(b", "c)"}, {"[a", "b]"}, {"a\\"}} {
		bad := strings.Join(badSet, " , ")
		for _, backend := range []string{"mem", "os"} {
			for _, op := range exOps {
				env := newExEnv(backend, []exEntry{{"a", true}, {"a/b", false}, {"y", false}})
				before := strings.Join(env.listAll(""), ",")
				_, err := runExOp(env, op, badSet)
				muts := 0
				for _, ro := range env.rec.snapshotOps() {
					if ro.Mutating {
						muts++
					}
				}
				after := strings.Join(env.listAll(""), ",")
				env.cleanup()
				c := fmt.Sprintf("excl-invalid %s %s pattern=%q", op, backend, bad)
				rep.Eval(c, true)
				if !commonerrors.Any(err, commonerrors.ErrInvalid) {
					rep.Fail(hx.Failure{Kind: "impl-violates-property", Key: "invalid-pattern-not-rejected:" + op, Case: c, Expected: "invalid", Observed: fmt.Sprint(err)})
				}
				if muts > 0 || before != after {
					rep.Fail(hx.Failure{Kind: "impl-violates-property", Key: "invalid-pattern-rejected-after-touching:" + op, Case: c, Observed: fmt.Sprintf("%d mutating operations; tree changed: %v", muts, before != after)})
				}
			}
		}
	}
	rep.Write(o.Report, drv)
	if len(rep.Failures) > 0 {
		fmt.Printf("failures: %d\n", len(rep.Failures))
	}
}
