// h: correspondence + monitor harness. One sub-command per area; built with -tags verif from the
// current /repo working tree (module replace), run by /verif/check.
package main

import (
	"fmt"
	"os"
)

var subs = map[string]func(args []string){}

func main() {
	if len(os.Args) < 2 || subs[os.Args[1]] == nil {
		fmt.Fprintln(os.Stderr, "usage: h <sub> [flags]; subs:")
		for k := range subs {
			fmt.Fprintln(os.Stderr, "  ", k)
		}
		os.Exit(2)
	}
	subs[os.Args[1]](os.Args[2:])
}
