package main

// C15 — configuration loading: precedence of sources, then validation.
// A family of nested configuration structures (depth 1..3, string / int / bool / float / duration fields,
// tag spellings with dashes and underscores); for every field a random subset of the four sources
// (changed flag, environment variable, configuration file, defaults) with distinct values. The expected
// winner and the environment variable names come from the Lean model (driver); the loaded structure is
// compared field by field, the names with DetermineConfigurationEnvironmentVariables.

import (
	"fmt"
	"os"
	"path/filepath"
	"sort"
	"strings"
	"time"

	validation "github.com/go-ozzo/ozzo-validation/v4"
	"github.com/spf13/pflag"
	"github.com/spf13/viper"

	"github.com/ARM-software/golang-utils/utils/commonerrors"
	"github.com/ARM-software/golang-utils/utils/config"

	"verif/harness/hx"
)

func init() { subs["cfgload"] = cfgLoadMain }

type cfgLeaf struct {
	S string        `mapstructure:"name"`
	I int           `mapstructure:"count"`
	B bool          `mapstructure:"enabled"`
	F float64       `mapstructure:"ratio"`
	D time.Duration `mapstructure:"time_out"`
}

func (c *cfgLeaf) Validate() error {
	return validation.ValidateStruct(c, validation.Field(&c.S, validation.Required))
}

type cfgMid struct {
	Leaf  cfgLeaf `mapstructure:"leaf"`
	Label string  `mapstructure:"the-label"`
	Port  int     `mapstructure:"port"`
}

func (c *cfgMid) Validate() error {
	if err := config.ValidateEmbedded(c); err != nil {
		return err
	}
	return validation.ValidateStruct(c, validation.Field(&c.Port, validation.Required))
}

type cfgTop struct {
	Mid    cfgMid  `mapstructure:"mid"`
	Other  cfgLeaf `mapstructure:"other_leaf"`
	Title  string  `mapstructure:"title"`
	Weight float64 `mapstructure:"weight"`
}

func (c *cfgTop) Validate() error {
	if err := config.ValidateEmbedded(c); err != nil {
		return err
	}
	return validation.ValidateStruct(c, validation.Field(&c.Title, validation.Required))
}

// every leaf field: mapstructure path, kind
type cfgField struct {
	path []string
	kind string
}

var cfgFields = []cfgField{
	{[]string{"mid", "leaf", "name"}, "s"}, {[]string{"mid", "leaf", "count"}, "i"}, {[]string{"mid", "leaf", "enabled"}, "b"},
	{[]string{"mid", "leaf", "ratio"}, "f"}, {[]string{"mid", "leaf", "time_out"}, "d"},
	{[]string{"mid", "the-label"}, "s"}, {[]string{"mid", "port"}, "i"},
	{[]string{"other_leaf", "name"}, "s"}, {[]string{"other_leaf", "count"}, "i"}, {[]string{"other_leaf", "enabled"}, "b"},
	{[]string{"other_leaf", "ratio"}, "f"}, {[]string{"other_leaf", "time_out"}, "d"},
	{[]string{"title"}, "s"}, {[]string{"weight"}, "f"},
}

// value number n (1..) of a kind, as text for env / flags / yaml, distinct per source
func cfgValue(kind string, n int) string {
	switch kind {
	case "s":
		return fmt.Sprintf("val%d", n)
	case "i":
		return fmt.Sprint(100 + n)
	case "b":
		return "true"
	case "f":
		return fmt.Sprintf("%d.5", n)
	case "d":
		return fmt.Sprintf("%ds", 10+n)
	}
	return ""
}

func getField(c *cfgTop, path []string) string {
	leaf := func(l *cfgLeaf, name string) string {
		switch name {
		case "name":
			return l.S
		case "count":
			return fmt.Sprint(l.I)
		case "enabled":
			return fmt.Sprint(l.B)
		case "ratio":
			return strings.TrimSuffix(fmt.Sprintf("%.1f", l.F), "")
		case "time_out":
			return l.D.String()
		}
		return "?"
	}
	switch path[0] {
	case "mid":
		switch path[1] {
		case "leaf":
			return leaf(&c.Mid.Leaf, path[2])
		case "the-label":
			return c.Mid.Label
		case "port":
			return fmt.Sprint(c.Mid.Port)
		}
	case "other_leaf":
		return leaf(&c.Other, path[1])
	case "title":
		return c.Title
	case "weight":
		return fmt.Sprintf("%.1f", c.Weight)
	}
	return "?"
}

func setField(c *cfgTop, path []string, kind, v string) {
	var d time.Duration
	var i int
	var f float64
	switch kind {
	case "i":
		fmt.Sscan(v, &i)
	case "f":
		fmt.Sscan(v, &f)
	case "d":
		d, _ = time.ParseDuration(v)
	}
	leaf := func(l *cfgLeaf, name string) {
		switch name {
		case "name":
			l.S = v
		case "count":
			l.I = i
		case "enabled":
			l.B = v == "true"
		case "ratio":
			l.F = f
		case "time_out":
			l.D = d
		}
	}
	switch path[0] {
	case "mid":
		switch path[1] {
		case "leaf":
			leaf(&c.Mid.Leaf, path[2])
		case "the-label":
			c.Mid.Label = v
		case "port":
			c.Mid.Port = i
		}
	case "other_leaf":
		leaf(&c.Other, path[1])
	case "title":
		c.Title = v
	case "weight":
		c.Weight = f
	}
}

func canon(kind, v string) string {
	switch kind {
	case "f":
		var f float64
		fmt.Sscan(v, &f)
		return fmt.Sprintf("%.1f", f)
	case "d":
		d, _ := time.ParseDuration(v)
		return d.String()
	}
	return v
}

func cfgLoadMain(args []string) {
	o := hx.ParseOpts(args)
	rep := hx.NewReport("a three-level configuration structure (14 leaf fields: string / int / bool / float / duration; tags with dashes and underscores), prefixes in several spellings, and for every field a random subset of {changed flag, environment variable, configuration file, defaults} with distinct values; " +
		"plus unchanged flags with and without a default, and missing required fields at each level. non-trivial = at least two sources compete for some field; distinct = (prefix, source assignment).")
	drv, err := hx.StartDriver(o.Driver)
	if err != nil {
		fmt.Println("driver:", err)
	}
	defer drv.Close()
	rnd := hx.NewRand(o.Seed)
	n := 150
	if o.Thorough() {
		n = 3000
	}
	tmp, _ := os.MkdirTemp("", "verif-cfg")
	defer os.RemoveAll(tmp)
	prefixes := []string{"app", "MyApp", "my_app", "APP2"}
	for it := 0; it < n; it++ {
		prefix := hx.Pick(rnd, prefixes)
		// per field: which sources are present (bit 0 flag changed, 1 env, 2 file, 3 default, 4 flag bound but unchanged (with default))
		type plan struct{ flag, env, file, def, idleFlag bool }
		plans := make([]plan, len(cfgFields))
		compete := false
		for i := range plans {
			p := plan{flag: rnd.Chance(25), env: rnd.Chance(40), file: rnd.Chance(45), def: rnd.Chance(60)}
			if !p.flag && rnd.Chance(15) {
				p.idleFlag = true
			}
			// required fields always get at least one source (validation is exercised separately)
			if !(p.flag || p.env || p.file || p.def) {
				p.def = true
			}
			cnt := 0
			for _, b := range []bool{p.flag, p.env, p.file, p.def} {
				if b {
					cnt++
				}
			}
			compete = compete || cnt >= 2
			plans[i] = p
		}
		// every sixth case without a configuration file (Load / LoadFromViper take none), every twelfth also without flags
		if it%6 == 5 {
			for i := range plans {
				plans[i].file = false
				if it%12 == 11 {
					plans[i].flag, plans[i].idleFlag = false, false
				}
				if !(plans[i].flag || plans[i].env || plans[i].def) {
					plans[i].def = true
				}
			}
		}
		// model: environment names and winners
		var lines []string
		for i, f := range cfgFields {
			p := plans[i]
			bits := func(b bool) string {
				if b {
					return "1"
				}
				return "0"
			}
			lines = append(lines, fmt.Sprintf("cfg %s %s %s%s%s%s", prefix, strings.Join(f.path, "."), bits(p.flag), bits(p.env), bits(p.file), bits(p.def)))
		}
		var answers []string
		if drv != nil {
			answers, err = drv.Ask(lines)
			if err != nil {
				rep.Fail(hx.Failure{Kind: "harness-error", Key: "driver", Detail: err.Error()})
				break
			}
		}
		// build the sources
		defaults := &cfgTop{}
		var yaml strings.Builder
		tree := map[string]interface{}{}
		session := viper.New()
		boundFlags := 0
		flags := pflag.NewFlagSet("t", pflag.ContinueOnError)
		var envSet []string
		var cli []string
		expected := map[string]string{}
		caseParts := []string{"prefix=" + prefix}
		for i, f := range cfgFields {
			p := plans[i]
			key := strings.Join(f.path, ".")
			envName, winner := "", ""
			if answers != nil {
				parts := strings.Fields(answers[i])
				if len(parts) == 2 {
					envName, winner = parts[0], parts[1]
				}
			}
			vFlag, vEnv, vFile, vDef := cfgValue(f.kind, 1), cfgValue(f.kind, 2), cfgValue(f.kind, 3), cfgValue(f.kind, 4)
			if f.kind == "b" {
				// booleans: make the sources distinguishable where possible (true vs false)
				vFlag, vEnv, vFile, vDef = "true", "false", "true", "false"
			}
			if p.def {
				setField(defaults, f.path, f.kind, vDef)
			}
			if p.file {
				m := tree
				for _, seg := range f.path[:len(f.path)-1] {
					if _, ok := m[seg]; !ok {
						m[seg] = map[string]interface{}{}
					}
					m = m[seg].(map[string]interface{})
				}
				m[f.path[len(f.path)-1]] = vFile
			}
			if p.env && envName != "" {
				os.Setenv(envName, vEnv)
				envSet = append(envSet, envName)
			}
			if p.flag || p.idleFlag {
				fname := strings.ReplaceAll(strings.Join(f.path, "-"), "_", "-")
				idleDefault := ""
				if p.idleFlag && rnd.Bool() {
					idleDefault = cfgValue(f.kind, 5)
					if f.kind == "b" {
						idleDefault = "true"
					}
				}
				switch f.kind {
				case "s":
					flags.String(fname, idleDefault, "")
				case "i":
					dv := 0
					fmt.Sscan(idleDefault, &dv)
					flags.Int(fname, dv, "")
				case "b":
					flags.Bool(fname, idleDefault == "true", "")
				case "f":
					dv := 0.0
					fmt.Sscan(idleDefault, &dv)
					flags.Float64(fname, dv, "")
				case "d":
					dv, _ := time.ParseDuration(idleDefault)
					flags.Duration(fname, dv, "")
				}
				if p.flag {
					cli = append(cli, "--"+fname+"="+vFlag)
				}
				if it%2 == 1 {
					// the multi-flag binding, with one flag: same meaning
					_ = config.BindFlagsToEnv(session, prefix, strings.ToUpper(prefix+"_"+strings.Join(f.path, "_")), flags.Lookup(fname))
					boundFlags++
				} else {
					_ = config.BindFlagToEnv(session, prefix, strings.ToUpper(prefix+"_"+strings.Join(f.path, "_")), flags.Lookup(fname))
					boundFlags++
				}
				if p.idleFlag {
					caseParts = append(caseParts, fmt.Sprintf("%s:idle-flag(default=%q)", key, idleDefault))
				}
			}
			switch winner {
			case "flag":
				expected[key] = canon(f.kind, vFlag)
			case "env":
				expected[key] = canon(f.kind, vEnv)
			case "file":
				expected[key] = canon(f.kind, vFile)
			case "default":
				expected[key] = canon(f.kind, vDef)
			}
			src := ""
			for _, x := range []struct {
				b bool
				n string
			}{{p.flag, "F"}, {p.env, "E"}, {p.file, "C"}, {p.def, "D"}} {
				if x.b {
					src += x.n
				}
			}
			caseParts = append(caseParts, key+":"+src)
		}
		_ = flags.Parse(cli)
		var writeYaml func(m map[string]interface{}, indent string)
		writeYaml = func(m map[string]interface{}, indent string) {
			keys := make([]string, 0, len(m))
			for k := range m {
				keys = append(keys, k)
			}
			sort.Strings(keys)
			for _, k := range keys {
				if sub, ok := m[k].(map[string]interface{}); ok {
					fmt.Fprintf(&yaml, "%s%s:\n", indent, k)
					writeYaml(sub, indent+"  ")
				} else {
					fmt.Fprintf(&yaml, "%s%s: %v\n", indent, k, m[k])
				}
			}
		}
		writeYaml(tree, "")
		cfgFile := ""
		if yaml.Len() > 0 {
			cfgFile = filepath.Join(tmp, fmt.Sprintf("c%d.yaml", it))
			_ = os.WriteFile(cfgFile, []byte(yaml.String()), 0o644)
		}
		loaded := &cfgTop{}
		var lerr error
		switch {
		case cfgFile == "" && boundFlags == 0:
			lerr = config.Load(prefix, loaded, defaults) // its own viper session: only without bound flags
			rep.Hist("entry:Load")
		case cfgFile == "":
			lerr = config.LoadFromViper(session, prefix, loaded, defaults)
			rep.Hist("entry:LoadFromViper")
		default:
			lerr = config.LoadFromEnvironment(session, prefix, loaded, defaults, cfgFile)
			rep.Hist("entry:LoadFromEnvironment")
		}
		for _, e := range envSet {
			os.Unsetenv(e)
		}
		caseTxt := "cfgcase " + strings.Join(caseParts, " ")
		rep.Eval(caseTxt, compete)
		if lerr != nil {
			rep.Fail(hx.Failure{Kind: "model-impl-divergence", Key: "load-fails-although-every-field-has-a-source", Case: caseTxt, Observed: lerr.Error()})
			continue
		}
		for i, f := range cfgFields {
			key := strings.Join(f.path, ".")
			want, ok := expected[key]
			if !ok {
				continue
			}
			got := canon(f.kind, getField(loaded, f.path))
			if got != want {
				p := plans[i]
				k := "wrong-source-wins"
				if p.idleFlag {
					k = "wrong-source-wins:unchanged-flag-bound"
					if !p.flag && !p.env && !p.file && p.def && f.kind == "b" && want == "false" {
						// a supplied default equal to the zero value cannot be told from "no default"
						k = "wrong-source-wins:flag-default-over-zero-valued-default"
					}
				}
				rep.Fail(hx.Failure{Kind: "impl-violates-property", Key: k, Case: caseTxt, Expected: fmt.Sprintf("%s = %s", key, want), Observed: fmt.Sprintf("%s = %s", key, got)})
			} else {
				rep.Hist("field-as-expected")
			}
		}
		// names reported = names honoured
		names, derr := config.DetermineConfigurationEnvironmentVariables(prefix, defaults)
		if derr == nil && answers != nil {
			for i, f := range cfgFields {
				envName := strings.Fields(answers[i])[0]
				if _, ok := names[envName]; !ok {
					var have []string
					for k := range names {
						have = append(have, k)
					}
					sort.Strings(have)
					rep.Fail(hx.Failure{Kind: "impl-violates-property", Key: "reported-environment-name-differs-from-the-honoured-one", Case: caseTxt, Expected: envName + " for " + strings.Join(f.path, "."), Observed: strings.Join(have, ",")})
					break
				}
			}
		}
	}
	// ---- validation: a missing required field at each level -------------------------------------------
	for _, tc := range []struct {
		missing string
		set     func(c *cfgTop)
		want    string
	}{
		{"title", func(c *cfgTop) { c.Title = "" }, "Title"},
		{"mid.port", func(c *cfgTop) { c.Mid.Port = 0 }, "Mid->Port"},
		{"mid.leaf.name", func(c *cfgTop) { c.Mid.Leaf.S = "" }, "Mid->Leaf->S"},
		{"other_leaf.name", func(c *cfgTop) { c.Other.S = "" }, "Other->S"},
	} {
		defaults := &cfgTop{Title: "t", Mid: cfgMid{Port: 1, Leaf: cfgLeaf{S: "x"}}, Other: cfgLeaf{S: "y"}}
		tc.set(defaults)
		loaded := &cfgTop{}
		err := config.LoadFromEnvironment(viper.New(), "app", loaded, defaults, "")
		c := "cfgcase validation missing=" + tc.missing
		rep.Eval(c, true)
		if err == nil {
			rep.Fail(hx.Failure{Kind: "impl-violates-property", Key: "invalid-configuration-accepted", Case: c})
			continue
		}
		if !commonerrors.Any(err, commonerrors.ErrInvalid) {
			rep.Fail(hx.Failure{Kind: "impl-violates-property", Key: "validation-error-is-not-of-kind-invalid", Case: c, Observed: err.Error()})
		}
		if !strings.Contains(strings.ToLower(err.Error()), strings.ToLower(tc.want)) {
			rep.Fail(hx.Failure{Kind: "impl-violates-property", Key: "validation-error-does-not-name-the-field", Case: c, Expected: tc.missing, Observed: err.Error()})
		}
	}
	rep.Write(o.Report, drv)
	if len(rep.Failures) > 0 {
		fmt.Printf("failures: %d\n", len(rep.Failures))
	}
}
