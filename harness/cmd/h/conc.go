package main

// C12 — timeout runners, Parallelise, cancel store.
//  runner: scripted actions (finish well before / well after the deadline; read the stop signal or
//          not; nil or error) on RunActionWithTimeout; the observed end (own result / timeout /
//          never returns within the watchdog) must be in the outcome set of Model.Runner for the
//          capacities extracted from the source. Context-based runners get the same scripts.
//          A sweep of completion instants around the deadline looks for the select race.
//  Parallelise: invocation counts, result multisets, first-error semantics vs `collect`.
//  store: concurrent Register / Cancel histories — every function registered before a Cancel begins
//         is invoked by it.

import (
	"context"
	"errors"
	"fmt"
	"reflect"
	"runtime"
	"sort"
	"strconv"
	"strings"
	"sync"
	"sync/atomic"
	"time"

	"github.com/ARM-software/golang-utils/utils/commonerrors"
	"github.com/ARM-software/golang-utils/utils/parallelisation"

	"verif/harness/hx"
)

func init() { subs["conc"] = concMain }

var errAction = errors.New("action failed")

// runScripted: returns "own:nil" | "own:err" | "timeout" | "stuck" and whether the signal was seen by the action
func runScripted(early, readsStop, fail bool, timeout time.Duration, watchdog time.Duration) (string, bool) {
	var signalled int32
	action := func(stop chan bool) error {
		d := timeout / 4
		if !early {
			d = timeout * 3
		}
		if readsStop {
			select {
			case <-stop:
				atomic.StoreInt32(&signalled, 1)
			case <-time.After(d):
			}
		} else {
			time.Sleep(d)
		}
		if fail {
			return errAction
		}
		return nil
	}
	done := make(chan error, 1)
	go func() { done <- parallelisation.RunActionWithTimeout(action, timeout) }()
	select {
	case err := <-done:
		switch {
		case err == nil:
			return "own:nil", atomic.LoadInt32(&signalled) == 1
		case errors.Is(err, errAction):
			return "own:err", atomic.LoadInt32(&signalled) == 1
		case commonerrors.Any(err, commonerrors.ErrTimeout):
			return "timeout", atomic.LoadInt32(&signalled) == 1
		default:
			return "other:" + err.Error(), false
		}
	case <-time.After(watchdog):
		return "stuck", atomic.LoadInt32(&signalled) == 1
	}
}

func concMain(args []string) {
	o := hx.ParseOpts(args)
	rep := hx.NewReport("runner: actions finishing at timeout/4 or 3*timeout, reading the stop signal or not, nil or error, on RunActionWithTimeout and the two context based runners (parent context alive / cancelled before the call / cancelled while the action runs, well before the deadline), RunActionWithParallelCheck (action first, check says no, caller cancels); " +
		"race sweep: completion instants within +-2 ms of the deadline in 20 us (quick: 100 us) steps under 1..16 busy goroutines; Parallelise: 0..200 arguments with 0..3 failing; " +
		"store: 2..16 goroutines mixing Register and Cancel. non-trivial = timeout path, an error, or a concurrent history; distinct = scenario text.")
	drv, err := hx.StartDriver(o.Driver)
	if err != nil {
		fmt.Println("driver:", err)
	}
	defer drv.Close()
	rnd := hx.NewRand(o.Seed)
	timeout := 40 * time.Millisecond

	// ---- deterministic scripts vs model ---------------------------------------------------------
	var lines, got []string
	type scen struct{ early, reads, fail bool }
	var scens []scen
	for _, e := range []bool{true, false} {
		for _, r := range []bool{true, false} {
			for _, f := range []bool{false, true} {
				scens = append(scens, scen{e, r, f})
			}
		}
	}
	var wg sync.WaitGroup
	res := make([]string, len(scens))
	sig := make([]bool, len(scens))
	for i, s := range scens {
		wg.Add(1)
		go func(i int, s scen) {
			defer wg.Done()
			res[i], sig[i] = runScripted(s.early, s.reads, s.fail, timeout, 600*time.Millisecond)
		}(i, s)
	}
	wg.Wait()
	for i, s := range scens {
		line := fmt.Sprintf("runner %d %d", b2i(s.early), b2i(s.reads))
		canon := fmt.Sprintf("RunActionWithTimeout early=%v readsStop=%v fail=%v", s.early, s.reads, s.fail)
		rep.Eval(canon, !s.early || s.fail)
		rep.Hist("runner:" + res[i])
		lines = append(lines, line)
		got = append(got, strings.SplitN(res[i], ":", 2)[0])
		// ---- monitors: property itself
		switch {
		case res[i] == "stuck":
			key := "runner-blocks-for-ever"
			if !s.early && !s.reads {
				key = "runner-blocks-when-action-returns-late-without-reading-stop"
			}
			rep.Fail(hx.Failure{Kind: "impl-violates-property", Key: key, Case: canon, Expected: "returns (timeout) once the action has returned", Observed: "no return within 600ms (action returns after 120ms)"})
		case s.early && ((s.fail && res[i] != "own:err") || (!s.fail && res[i] != "own:nil")):
			rep.Fail(hx.Failure{Kind: "impl-violates-property", Key: "own-result-not-returned", Case: canon, Observed: res[i]})
		case !s.early && res[i] != "timeout":
			rep.Fail(hx.Failure{Kind: "impl-violates-property", Key: "timeout-not-reported", Case: canon, Observed: res[i]})
		case !s.early && s.reads && !sig[i]:
			rep.Fail(hx.Failure{Kind: "impl-violates-property", Key: "stop-signal-not-delivered", Case: canon, Observed: res[i]})
		}
	}
	// context-based runners
	for _, variant := range []string{"ctx", "store"} {
		for _, s := range scens {
			for _, parent := range []string{"alive", "cancelled", "cancelled-mid-flight"} {
				parentCancelled := parent != "alive"
				ctx, cancel := context.WithCancel(context.Background())
				if parent == "cancelled" {
					cancel()
				}
				var cancelledAfter int64 // ns after the start at which the mid-flight cancellation really happened
				started := time.Now()
				if parent == "cancelled-mid-flight" {
					if s.early {
						cancel()
						continue // the action may be over before the cancellation: not a mid-flight case
					}
					// while the action is still running and well before the deadline
					tm := time.AfterFunc(timeout/8, func() {
						atomic.StoreInt64(&cancelledAfter, int64(time.Since(started)))
						cancel()
					})
					defer tm.Stop()
				}
				var sawDone int32
				action := func(actx context.Context) error {
					d := timeout / 4
					if !s.early {
						d = timeout * 3
					}
					if s.reads {
						select {
						case <-actx.Done():
							atomic.StoreInt32(&sawDone, 1)
						case <-time.After(d):
						}
					} else {
						time.Sleep(d)
					}
					if s.fail {
						return errAction
					}
					return nil
				}
				done := make(chan error, 1)
				store := parallelisation.NewCancelFunctionsStore()
				go func() {
					if variant == "ctx" {
						done <- parallelisation.RunActionWithTimeoutAndContext(ctx, timeout, action)
					} else {
						done <- parallelisation.RunActionWithTimeoutAndCancelStore(ctx, timeout, store, action)
					}
				}()
				var out string
				select {
				case err := <-done:
					switch {
					case err == nil:
						out = "own:nil"
					case errors.Is(err, errAction):
						out = "own:err"
					case commonerrors.Any(err, commonerrors.ErrTimeout):
						out = "timeout"
					case commonerrors.Any(err, commonerrors.ErrCancelled):
						out = "cancelled"
					default:
						out = "other:" + err.Error()
					}
				case <-time.After(600 * time.Millisecond):
					out = "stuck"
				}
				cancel()
				store.Cancel()
				canon := fmt.Sprintf("%s early=%v readsCtx=%v fail=%v parent=%s", variant, s.early, s.reads, s.fail, parent)
				rep.Eval(canon, true)
				rep.Hist("ctxrunner:" + out)
				want := "timeout"
				switch {
				case parentCancelled:
					want = "cancelled"
				case s.early && s.fail:
					want = "own:err"
				case s.early:
					want = "own:nil"
				}
				if parent == "cancelled-mid-flight" && time.Duration(atomic.LoadInt64(&cancelledAfter)) > timeout/2 {
					rep.Hist("ctxrunner:mid-flight-cancellation-came-too-late(not judged)")
					continue
				}
				if out != want {
					rep.Fail(hx.Failure{Kind: "impl-violates-property", Key: "context-runner:" + variant, Case: canon, Expected: want, Observed: out})
				}
			}
		}
	}
	// ---- an action that finishes EARLY with an error of its own which happens to be of the timeout / cancelled kind
	//      (a nested runner, a backend reporting a timeout): every runner hands that error back, and returns
	for _, own := range []error{commonerrors.ErrTimeout, commonerrors.New(commonerrors.ErrTimeout, "backend timed out"), commonerrors.ErrCancelled, commonerrors.New(commonerrors.ErrCancelled, "inner cancellation")} {
		for _, runner := range []string{"RunActionWithTimeout", "RunActionWithTimeoutAndContext", "RunActionWithTimeoutAndCancelStore"} {
			done := make(chan error, 1)
			go func() {
				switch runner {
				case "RunActionWithTimeout":
					done <- parallelisation.RunActionWithTimeout(func(chan bool) error { return own }, 300*time.Millisecond)
				case "RunActionWithTimeoutAndContext":
					done <- parallelisation.RunActionWithTimeoutAndContext(context.Background(), 300*time.Millisecond, func(context.Context) error { return own })
				default:
					done <- parallelisation.RunActionWithTimeoutAndCancelStore(context.Background(), 300*time.Millisecond, parallelisation.NewCancelFunctionsStore(), func(context.Context) error { return own })
				}
			}()
			canon := fmt.Sprintf("%s: the action returns at once with its own error %q", runner, own.Error())
			rep.Eval(canon, true)
			rep.Hist("own-error-of-a-context-kind")
			select {
			case err := <-done:
				if !errors.Is(err, own) && err != own {
					rep.Fail(hx.Failure{Kind: "impl-violates-property", Key: "runner-result-is-not-the-actions-own-error", Case: canon, Expected: own.Error(), Observed: fmt.Sprint(err)})
				}
			case <-time.After(2 * time.Second):
				rep.Fail(hx.Failure{Kind: "impl-violates-property", Key: "runner-blocks-when-the-action-returns-a-context-kind-error", Case: canon, Expected: "the runner returns the action's error", Observed: "still blocked after 2 s (timeout 300 ms)"})
			}
		}
	}
	// ---- RunActionWithParallelCheck: the action's context ends when the check says no, when the caller cancels,
	//      and after the action has returned; the action's own result comes back only if its context is still alive
	for _, sc := range []struct {
		name             string
		checkFailsAfter  int // number of successful checks before it answers false (-1: never)
		cancelParentAt   time.Duration
		actionLasts      time.Duration
		actionFails      bool
		want             string
	}{
		{"action-finishes-first:nil", -1, 0, 10 * time.Millisecond, false, "own:nil"},
		{"action-finishes-first:error", -1, 0, 10 * time.Millisecond, true, "own:err"},
		{"check-says-no", 2, 0, 400 * time.Millisecond, false, "cancelled"},
		{"check-says-no-at-once", 0, 0, 400 * time.Millisecond, true, "cancelled"},
		{"caller-cancels", -1, 15 * time.Millisecond, 400 * time.Millisecond, false, "cancelled"},
	} {
		ctx, cancel := context.WithCancel(context.Background())
		if sc.cancelParentAt > 0 {
			tm := time.AfterFunc(sc.cancelParentAt, cancel)
			defer tm.Stop()
		}
		var checks int32
		var actionCtx context.Context
		var sawDone int32
		done := make(chan error, 1)
		go func() {
			done <- parallelisation.RunActionWithParallelCheck(ctx, func(actx context.Context) error {
				actionCtx = actx
				select {
				case <-actx.Done():
					atomic.StoreInt32(&sawDone, 1)
				case <-time.After(sc.actionLasts):
				}
				if sc.actionFails {
					return errAction
				}
				return nil
			}, func(context.Context) bool {
				n := atomic.AddInt32(&checks, 1)
				return sc.checkFailsAfter < 0 || int(n) <= sc.checkFailsAfter
			}, 5*time.Millisecond)
		}()
		out := "stuck"
		select {
		case err := <-done:
			switch {
			case err == nil:
				out = "own:nil"
			case errors.Is(err, errAction):
				out = "own:err"
			case commonerrors.Any(err, commonerrors.ErrCancelled):
				out = "cancelled"
			case commonerrors.Any(err, commonerrors.ErrTimeout):
				out = "timeout"
			default:
				out = "other:" + err.Error()
			}
		case <-time.After(2 * time.Second):
		}
		cancel()
		canon := "parallel-check " + sc.name
		rep.Eval(canon, true)
		rep.Hist("parallel-check:" + out)
		if out != sc.want {
			rep.Fail(hx.Failure{Kind: "impl-violates-property", Key: "parallel-check-runner", Case: canon, Expected: sc.want, Observed: out})
		}
		if out != "stuck" {
			time.Sleep(5 * time.Millisecond)
			if actionCtx == nil || actionCtx.Err() == nil {
				rep.Fail(hx.Failure{Kind: "impl-violates-property", Key: "parallel-check-runner:action-context-left-alive", Case: canon, Expected: "the context handed to the action is done once the runner has returned", Observed: "still alive"})
			}
			if sc.want == "cancelled" && atomic.LoadInt32(&sawDone) == 0 {
				rep.Fail(hx.Failure{Kind: "impl-violates-property", Key: "parallel-check-runner:stop-signal-not-delivered", Case: canon, Expected: "the action sees its context end", Observed: "the action ran to its own end"})
			}
		}
	}
	// ---- race sweep around the deadline --------------------------------------------------------
	step := 100 * time.Microsecond
	busyMax := 4
	if o.Thorough() {
		step = 20 * time.Microsecond
		busyMax = 16
	}
	stopBusy := make(chan struct{})
	for b := 0; b < busyMax; b++ {
		go func() {
			x := 0
			for {
				select {
				case <-stopBusy:
					return
				default:
					x++
				}
			}
		}()
	}
	raceTimeout := 5 * time.Millisecond
	var raceStuck, raceRuns int32
	var rwg sync.WaitGroup
	sem := make(chan struct{}, 64)
	for d := -2 * time.Millisecond; d <= 2*time.Millisecond; d += step {
		for _, reads := range []bool{true, false} {
			rwg.Add(1)
			sem <- struct{}{}
			go func(d time.Duration, reads bool) {
				defer rwg.Done()
				defer func() { <-sem }()
				action := func(stop chan bool) error {
					if reads {
						select {
						case <-stop:
						case <-time.After(raceTimeout + d):
						}
					} else {
						time.Sleep(raceTimeout + d)
					}
					return nil
				}
				done := make(chan error, 1)
				go func() { done <- parallelisation.RunActionWithTimeout(action, raceTimeout) }()
				atomic.AddInt32(&raceRuns, 1)
				select {
				case <-done:
				case <-time.After(400 * time.Millisecond):
					atomic.AddInt32(&raceStuck, 1)
				}
			}(d, reads)
		}
	}
	// the same sweep on the context-based runner: the action returns by itself within microseconds of the deadline,
	// so the select may take the action's result while the context has already expired (or the other way round)
	var ctxStuck, ctxRuns, ctxOdd int32
	ctxTimeout := time.Millisecond
	fine := 3 * time.Microsecond
	if o.Thorough() {
		fine = time.Microsecond
	}
	for d := -100 * time.Microsecond; d <= 300*time.Microsecond; d += fine {
		for _, fail := range []bool{false, true} {
			rwg.Add(1)
			sem <- struct{}{}
			go func(d time.Duration, fail bool) {
				defer rwg.Done()
				defer func() { <-sem }()
				action := func(actx context.Context) error {
					t := time.NewTimer(ctxTimeout + d)
					defer t.Stop()
					<-t.C // ignores its context: it ends on its own, around the deadline
					if fail {
						return errAction
					}
					return nil
				}
				done := make(chan error, 1)
				go func() {
					done <- parallelisation.RunActionWithTimeoutAndContext(context.Background(), ctxTimeout, action)
				}()
				atomic.AddInt32(&ctxRuns, 1)
				select {
				case err := <-done:
					if err != nil && !errors.Is(err, errAction) && !commonerrors.Any(err, commonerrors.ErrTimeout) {
						atomic.AddInt32(&ctxOdd, 1)
					}
				case <-time.After(time.Second):
					atomic.AddInt32(&ctxStuck, 1)
				}
			}(d, fail)
		}
	}
	rwg.Wait()
	close(stopBusy)
	rep.Evaluations += int(ctxRuns)
	rep.HistN("race-sweep:context-runner:runs", int(ctxRuns))
	rep.HistN("race-sweep:context-runner:stuck", int(ctxStuck))
	if ctxStuck > 0 {
		rep.Fail(hx.Failure{Kind: "impl-violates-property", Key: "context-runner-never-returns-when-the-action-ends-at-the-deadline", Case: fmt.Sprintf("race sweep: %d of %d runs of RunActionWithTimeoutAndContext never returned (action ending within -100..+300 µs of a 1 ms deadline)", ctxStuck, ctxRuns),
			Expected: "every run returns", Observed: fmt.Sprintf("%d stuck for more than a second", ctxStuck)})
	}
	if ctxOdd > 0 {
		rep.Fail(hx.Failure{Kind: "impl-violates-property", Key: "context-runner:kind-at-the-deadline", Case: "race sweep on RunActionWithTimeoutAndContext", Expected: "the action's own result or 'timeout'", Observed: fmt.Sprintf("%d runs answered with another kind", ctxOdd)})
	}
	rep.Evaluations += int(raceRuns)
	rep.HistN("race-sweep:runs", int(raceRuns))
	rep.HistN("race-sweep:stuck", int(raceStuck))
	if raceStuck > 0 {
		rep.Fail(hx.Failure{Kind: "impl-violates-property", Key: "runner-blocks-when-action-returns-late-without-reading-stop", Case: fmt.Sprintf("race sweep: %d of %d runs never returned (completion within ±2ms of a 5ms deadline)", raceStuck, raceRuns),
			Expected: "every run returns", Observed: fmt.Sprintf("%d stuck", raceStuck)})
	}

	// ---- Parallelise ----------------------------------------------------------------------------
	nP := 60
	if o.Thorough() {
		nP = 1500
	}
	var clines, cgot []string
	for i := 0; i < nP; i++ {
		n := rnd.Intn(40)
		if rnd.Chance(10) {
			n = rnd.Intn(200)
		}
		argsL := make([]int, n)
		failing := map[int]bool{}
		for j := range argsL {
			argsL[j] = j
		}
		for k := rnd.Intn(4); k > 0 && n > 0; k-- {
			if rnd.Chance(50) {
				failing[rnd.Intn(n)] = true
			}
		}
		var calls int32
		var mu sync.Mutex
		var arrival []string
		before := runtime.NumGoroutine()
		out, err := parallelisation.Parallelise(argsL, func(a interface{}) (interface{}, error) {
			atomic.AddInt32(&calls, 1)
			v := a.(int)
			time.Sleep(time.Duration(rnd.Intn(3)) * 100 * time.Microsecond)
			mu.Lock()
			defer mu.Unlock()
			if failing[v] {
				arrival = append(arrival, "e"+strconv.Itoa(v))
				return nil, fmt.Errorf("fail %d", v)
			}
			arrival = append(arrival, "v"+strconv.Itoa(v*10))
			return v * 10, nil
		}, reflect.TypeOf([]int{}))
		time.Sleep(5 * time.Millisecond)
		for k := 0; k < 50 && runtime.NumGoroutine() > before+2; k++ {
			time.Sleep(2 * time.Millisecond)
		}
		// after an error Parallelise returns at once while the remaining invocations may not have been scheduled yet:
		// give them time (a loaded machine) before counting
		for k := 0; k < 1000 && int(atomic.LoadInt32(&calls)) < n; k++ {
			time.Sleep(2 * time.Millisecond)
		}
		canon := fmt.Sprintf("parallelise n=%d failing=%d", n, len(failing))
		rep.Eval(canon+fmt.Sprint(i), n > 1)
		rep.Hist("parallelise")
		if int(calls) != n {
			rep.Fail(hx.Failure{Kind: "impl-violates-property", Key: "parallelise-invocation-count", Case: canon, Expected: strconv.Itoa(n), Observed: strconv.Itoa(int(calls))})
		}
		if runtime.NumGoroutine() > before+2 {
			rep.Fail(hx.Failure{Kind: "impl-violates-property", Key: "parallelise-goroutine-leak", Case: canon, Observed: fmt.Sprint(runtime.NumGoroutine(), " goroutines, before ", before)})
		}
		var o2 string
		if err != nil {
			ok := false
			for f := range failing {
				if err.Error() == fmt.Sprintf("fail %d", f) {
					ok = true
				}
			}
			if !ok {
				rep.Fail(hx.Failure{Kind: "impl-violates-property", Key: "parallelise-foreign-error", Case: canon, Observed: err.Error()})
			}
			o2 = "err"
		} else {
			got := append([]int{}, out.([]int)...)
			sort.Ints(got)
			want := []int{}
			for _, a := range argsL {
				want = append(want, a*10)
			}
			if len(failing) > 0 || fmt.Sprint(got) != fmt.Sprint(want) {
				rep.Fail(hx.Failure{Kind: "impl-violates-property", Key: "parallelise-results", Case: canon, Expected: fmt.Sprint(want), Observed: fmt.Sprint(got)})
			}
			o2 = "ok"
		}
		// model: collector over the arrival order (only the kind of outcome is compared: the
		// channel's arrival order may differ from the order in which actions finished)
		if n > 0 {
			mu.Lock()
			clines = append(clines, "collect "+strings.Join(arrival, ","))
			mu.Unlock()
			cgot = append(cgot, o2)
		}
	}
	// ---- cancel store ----------------------------------------------------------------------------
	nS := 40
	if o.Thorough() {
		nS = 1000
	}
	for i := 0; i < nS; i++ {
		store := parallelisation.NewCancelFunctionsStore()
		g := rnd.Range(2, 16)
		var swg sync.WaitGroup
		var bad int32
		for w := 0; w < g; w++ {
			swg.Add(1)
			go func(w int) {
				defer swg.Done()
				for k := 0; k < 20; k++ {
					var called int32
					store.RegisterCancelFunction(func() { atomic.StoreInt32(&called, 1) })
					if (w+k)%3 == 0 {
						store.Cancel()
						if atomic.LoadInt32(&called) != 1 {
							atomic.AddInt32(&bad, 1)
						}
					}
					_ = store.Len()
				}
			}(w)
		}
		swg.Wait()
		rep.Eval(fmt.Sprintf("store %d goroutines #%d", g, i), true)
		rep.Hist("store-histories")
		if bad > 0 || store.Len() != g*20 {
			rep.Fail(hx.Failure{Kind: "impl-violates-property", Key: "cancel-store-missed-function", Case: fmt.Sprintf("store with %d goroutines", g), Observed: fmt.Sprintf("%d registered functions not invoked by a later Cancel, Len=%d", bad, store.Len())})
		}
	}
	// ---- correspondence ----------------------------------------------------------------------
	if drv != nil {
		ans, err := drv.Ask(lines)
		if err != nil {
			rep.Fail(hx.Failure{Kind: "harness-error", Key: "driver", Detail: err.Error()})
		}
		for i, a := range ans {
			if !strings.Contains(","+a+",", ","+got[i]+",") {
				rep.Fail(hx.Failure{Kind: "model-impl-divergence", Key: "runner-outcome", Case: lines[i], Expected: "model allows: " + a, Observed: "impl: " + got[i]})
			} else {
				rep.Hist("runner:model⊇impl")
			}
		}
		ans, err = drv.Ask(clines)
		if err != nil {
			rep.Fail(hx.Failure{Kind: "harness-error", Key: "driver", Detail: err.Error()})
		}
		for i, a := range ans {
			if strings.SplitN(a, ":", 2)[0] != cgot[i] {
				rep.Fail(hx.Failure{Kind: "model-impl-divergence", Key: "parallelise-collect", Case: clines[i], Expected: "model: " + a, Observed: "impl: " + cgot[i]})
			} else {
				rep.Hist("collect:model=impl")
			}
		}
		if len(lines) > 0 {
			rep.Sample(map[string]string{"line": lines[len(lines)-1], "model": ans[0]})
		}
	}
	rep.Write(o.Report, drv)
}

func b2i(b bool) int {
	if b {
		return 1
	}
	return 0
}
