package main

// C16 — shared cache: a successful Fetch installs one complete stored version.
//  crash points: a Store whose backend stops obeying from its k-th operation on (every later operation
//     fails; a write at the crash point is cut short) for every k (thorough) / sampled k (quick), and a
//     Store in which only the k-th operation fails; then a fresh client cleans the entry (stale lock for
//     the lock-based cache) and fetches: success ⇒ the destination equals exactly one stored version,
//     and when the Store reported success, that version;
//  invariant of Model.Cache on the real remote directory: every file without .part / .hash suffix is a
//     complete archive;
//  concurrency: 2..4 clients store different versions, fetch and clean concurrently;
//  remote paths that contain ".part".

import (
	"archive/zip"
	"bytes"
	"context"
	"errors"
	"fmt"
	"os"
	"path/filepath"
	"sort"
	"strings"
	"sync"
	"sync/atomic"
	"time"

	"github.com/spf13/afero"

	"github.com/ARM-software/golang-utils/utils/filesystem"
	"github.com/ARM-software/golang-utils/utils/sharedcache"

	"verif/harness/hx"
)

func init() { subs["cachecrash"] = cacheCrashMain }

var errCacheFault = errors.New("injected fault")

// faultFs: counts backend operations; mode "stop": every operation with index >= at fails (and a write
// at the crash point is cut short); mode "one": only operation number at fails.
type faultFs struct {
	afero.Fs
	n    int64
	at   int64 // 0 = never
	mode string
	hook func() // mode "run": called once, right before operation number `at` (another client's complete call)
}

func (f *faultFs) tick() error {
	n := atomic.AddInt64(&f.n, 1)
	if f.mode == "run" && n == f.at && f.hook != nil {
		h := f.hook
		f.hook = nil
		h()
		return nil
	}
	if f.at > 0 && ((f.mode == "stop" && n >= f.at) || (f.mode == "one" && n == f.at)) {
		return errCacheFault
	}
	return nil
}
func (f *faultFs) Create(name string) (afero.File, error) {
	if err := f.tick(); err != nil {
		return nil, err
	}
	x, err := f.Fs.Create(name)
	return f.wrap(x), err
}
func (f *faultFs) Mkdir(name string, perm os.FileMode) error {
	if err := f.tick(); err != nil {
		return err
	}
	return f.Fs.Mkdir(name, perm)
}
func (f *faultFs) MkdirAll(name string, perm os.FileMode) error {
	if err := f.tick(); err != nil {
		return err
	}
	return f.Fs.MkdirAll(name, perm)
}
func (f *faultFs) Open(name string) (afero.File, error) {
	if err := f.tick(); err != nil {
		return nil, err
	}
	x, err := f.Fs.Open(name)
	return f.wrap(x), err
}
func (f *faultFs) OpenFile(name string, flag int, perm os.FileMode) (afero.File, error) {
	if err := f.tick(); err != nil {
		return nil, err
	}
	x, err := f.Fs.OpenFile(name, flag, perm)
	return f.wrap(x), err
}
func (f *faultFs) Remove(name string) error {
	if err := f.tick(); err != nil {
		return err
	}
	return f.Fs.Remove(name)
}
func (f *faultFs) RemoveAll(name string) error {
	if err := f.tick(); err != nil {
		return err
	}
	return f.Fs.RemoveAll(name)
}
func (f *faultFs) Rename(a, b string) error {
	if err := f.tick(); err != nil {
		return err
	}
	return f.Fs.Rename(a, b)
}
func (f *faultFs) Stat(name string) (os.FileInfo, error) {
	if err := f.tick(); err != nil {
		return nil, err
	}
	return f.Fs.Stat(name)
}
func (f *faultFs) Chtimes(name string, a, m time.Time) error {
	if err := f.tick(); err != nil {
		return err
	}
	return f.Fs.Chtimes(name, a, m)
}
func (f *faultFs) Chmod(name string, mode os.FileMode) error {
	if err := f.tick(); err != nil {
		return err
	}
	return f.Fs.Chmod(name, mode)
}
func (f *faultFs) LstatIfPossible(name string) (os.FileInfo, bool, error) {
	if err := f.tick(); err != nil {
		return nil, false, err
	}
	if l, ok := f.Fs.(afero.Lstater); ok {
		return l.LstatIfPossible(name)
	}
	fi, err := f.Fs.Stat(name)
	return fi, false, err
}

type faultFile struct {
	afero.File
	fs *faultFs
}

func (f *faultFs) wrap(x afero.File) afero.File {
	if x == nil {
		return nil
	}
	return &faultFile{File: x, fs: f}
}
func (x *faultFile) Write(p []byte) (int, error) {
	if err := x.fs.tick(); err != nil {
		// a write at the crash point is cut short
		if len(p) > 1 {
			n, _ := x.File.Write(p[:len(p)/2])
			return n, err
		}
		return 0, err
	}
	return x.File.Write(p)
}
func (x *faultFile) Read(p []byte) (int, error) {
	if err := x.fs.tick(); err != nil {
		return 0, err
	}
	return x.File.Read(p)
}
func (x *faultFile) Readdirnames(n int) ([]string, error) {
	if err := x.fs.tick(); err != nil {
		return nil, err
	}
	return x.File.Readdirnames(n)
}
func (x *faultFile) Readdir(n int) ([]os.FileInfo, error) {
	if err := x.fs.tick(); err != nil {
		return nil, err
	}
	return x.File.Readdir(n)
}

var cacheVersions = map[string]map[string]string{
	"v1": {"a.txt": "one", "d/b.txt": "one-b " + strings.Repeat("1", 3000)},
	"v2": {"a.txt": "two", "d/b.txt": "two-b " + strings.Repeat("2", 5000), "c.txt": "two-c"},
	"v3": {"a.txt": "three", "e/f/g.txt": "three-g " + strings.Repeat("3", 2000)},
}

type cacheWorld struct {
	backend string
	inner   afero.Fs
	base    string
	remote  string
	cleanup func()
}

func newCacheWorld(backend, remoteName string) *cacheWorld {
	w := &cacheWorld{backend: backend}
	if backend == "mem" {
		w.inner = afero.NewMemMapFs()
		w.base = "/cw"
		w.cleanup = func() {}
	} else {
		w.inner = filesystem.NewExtendedOsFs()
		tmp, _ := os.MkdirTemp("", "verif-cache")
		w.base = tmp
		w.cleanup = func() { os.RemoveAll(tmp) }
	}
	w.remote = filepath.Join(w.base, remoteName)
	_ = w.inner.MkdirAll(w.remote, 0o755)
	for v, files := range cacheVersions {
		for p, c := range files {
			full := filepath.Join(w.base, "src", v, filepath.FromSlash(p))
			_ = w.inner.MkdirAll(filepath.Dir(full), 0o755)
			_ = afero.WriteFile(w.inner, full, []byte(c), 0o644)
		}
	}
	return w
}

func (w *cacheWorld) client(kind sharedcache.CacheType, ff *faultFs) (sharedcache.ISharedCacheRepository, error) {
	var backendFs afero.Fs = w.inner
	if ff != nil {
		ff.Fs = w.inner
		backendFs = ff
	}
	ty := filesystem.InMemoryFS
	if w.backend == "os" {
		ty = filesystem.StandardFS
	}
	vfs := filesystem.NewVirtualFileSystem(backendFs, ty, filesystem.IdentityPathConverterFunc)
	return sharedcache.NewCache(kind, vfs, &sharedcache.Configuration{RemoteStoragePath: w.remote, Timeout: 400 * time.Millisecond})
}

func (w *cacheWorld) readTree(dir string) map[string]string {
	out := map[string]string{}
	_ = afero.Walk(w.inner, dir, func(path string, info os.FileInfo, err error) error {
		if err != nil || info == nil || info.IsDir() {
			return nil
		}
		b, _ := afero.ReadFile(w.inner, path)
		out[filepath.ToSlash(strings.TrimPrefix(path, dir+string(filepath.Separator)))] = string(b)
		return nil
	})
	return out
}

func whichVersion(tree map[string]string) string {
	for v, files := range cacheVersions {
		if len(files) != len(tree) {
			continue
		}
		same := true
		for p, c := range files {
			if tree[p] != c {
				same = false
			}
		}
		if same {
			return v
		}
	}
	var keys []string
	for k, v := range tree {
		keys = append(keys, fmt.Sprintf("%s(%dB)", k, len(v)))
	}
	sort.Strings(keys)
	return "NONE:" + strings.Join(keys, ",")
}

// remoteInvariant: every file of the entry directory without .part / .hash suffix (and that is not part
// of the lock) must be a complete zip archive (immutable cache)
func (w *cacheWorld) remoteInvariant(key string) string {
	dir := filepath.Join(w.remote, key)
	infos, err := afero.ReadDir(w.inner, dir)
	if err != nil {
		return ""
	}
	for _, fi := range infos {
		n := fi.Name()
		if fi.IsDir() || strings.HasSuffix(n, ".part") || strings.HasSuffix(n, ".hash") {
			continue
		}
		b, _ := afero.ReadFile(w.inner, filepath.Join(dir, n))
		if _, zerr := zip.NewReader(bytes.NewReader(b), int64(len(b))); zerr != nil {
			return fmt.Sprintf("%s (%d bytes) is not a complete archive: %v", n, len(b), zerr)
		}
	}
	return ""
}

// safely runs f, turning a panic into an error (a panic inside the in-memory backend must not take the harness down)
func safely(f func() error) (err error, panicked string) {
	defer func() {
		if r := recover(); r != nil {
			panicked = fmt.Sprint(r)
			err = fmt.Errorf("panic: %v", r)
		}
	}()
	return f(), ""
}

func cacheCrashMain(args []string) {
	o := hx.ParseOpts(args)
	// the mutable cache packs into temporary directories of its own; a Store cut short by a fault leaves them behind:
	// remove the ones this run created
	started := time.Now().Add(-time.Second)
	defer func() {
		ms, _ := filepath.Glob(filepath.Join(os.TempDir(), "sharedmutablecache-packing*"))
		for _, m := range ms {
			if fi, err := os.Stat(m); err == nil && fi.ModTime().After(started) {
				_ = os.RemoveAll(m)
			}
		}
	}()
	rep := hx.NewReport("both cache kinds x MemMapFs / OsFs: (1) Store(v1) then a Store(v2) whose backend stops from operation k on (write at the crash point cut short) or fails at operation k only, for every k (in memory, and on the OS backend in the thorough tier) / 12 sampled k (OS backend, quick), " +
		"followed by CleanEntry (after the lock went stale) and Fetch by a fresh client; (2) the same without a previous version; (3) 2..4 clients storing v1..v3, fetching and cleaning concurrently; (4) remote paths containing \".part\"; (5) immutable cache: another client's complete Store(v3) right before every backend operation of a CleanEntry / Fetch. " +
		"non-trivial = the fault hits the Store (k ≤ number of operations of the un-faulted Store); distinct = (kind, backend, scenario, fault mode, k).")
	ctx := context.Background()
	key := "k1"
	kinds := []sharedcache.CacheType{sharedcache.CacheImmutable, sharedcache.CacheMutable}
	for _, kind := range kinds {
		for _, backend := range []string{"mem", "os"} {
			for _, withPrev := range []bool{true, false} {
				// how many operations does an un-faulted Store(v2) take?
				base := newCacheWorld(backend, "remote")
				ff0 := &faultFs{}
				c0, err := base.client(kind, ff0)
				if err != nil {
					rep.Fail(hx.Failure{Kind: "harness-error", Key: "client", Detail: err.Error()})
					continue
				}
				if withPrev {
					c1, _ := base.client(kind, nil)
					_ = c1.Store(ctx, key, filepath.Join(base.base, "src", "v1"))
				}
				atomic.StoreInt64(&ff0.n, 0)
				_ = c0.Store(ctx, key, filepath.Join(base.base, "src", "v2"))
				total := atomic.LoadInt64(&ff0.n)
				base.cleanup()
				var ks []int64
				if o.Thorough() || backend == "mem" {
					// every operation of the Store (the in-memory backend is fast enough for the quick tier too)
					for k := int64(1); k <= total+1; k++ {
						ks = append(ks, k)
					}
				} else {
					for i := int64(0); i < 12; i++ {
						ks = append(ks, 1+i*total/11)
					}
				}
				var wgc sync.WaitGroup
				sem := make(chan struct{}, 12)
				for _, mode := range []string{"stop", "one"} {
					for _, k := range ks {
						wgc.Add(1)
						sem <- struct{}{}
						go func(mode string, k int64) {
						defer func() { <-sem; wgc.Done() }()
						finished := make(chan struct{})
						go func() {
						defer close(finished)
						w := newCacheWorld(backend, "remote")
						caseTxt := fmt.Sprintf("cachecase %v %s prev=%v mode=%s k=%d/%d", kind, backend, withPrev, mode, k, total)
						if withPrev {
							c1, _ := w.client(kind, nil)
							if err := c1.Store(ctx, key, filepath.Join(w.base, "src", "v1")); err != nil {
								rep.Fail(hx.Failure{Kind: "harness-error", Key: "store-v1", Case: caseTxt, Detail: err.Error()})
							}
						}
						ff := &faultFs{at: k, mode: mode}
						cB, _ := w.client(kind, ff)
						serr, pan := safely(func() error { return cB.Store(ctx, key, filepath.Join(w.base, "src", "v2")) })
						if pan != "" {
							pk := "store-panics"
							if backend == "mem" {
								pk = "store-panics:in-memory-backend-remove-below-missing-parent"
							}
							rep.Fail(hx.Failure{Kind: "impl-violates-property", Key: pk, Case: caseTxt, Expected: "Store returns (an error)", Observed: pan})
						}
						rep.Eval(caseTxt, k <= total)
						// a backend that stops obeying is a process that died: whatever the dying Store "returned" is seen by nobody
						crashed := mode == "stop" && k <= total
						if crashed {
							serr = errCacheFault
						}
						if serr == nil {
							rep.Hist("store:reported-success")
						} else {
							rep.Hist("store:reported-failure")
						}
						if kind == sharedcache.CacheImmutable {
							if msg := w.remoteInvariant(key); msg != "" {
								rep.Fail(hx.Failure{Kind: "impl-violates-property", Key: "immutable-entry-holds-incomplete-package", Case: caseTxt, Expected: "every file without .part/.hash suffix is a complete archive (invariant ImmGood)", Observed: msg})
							}
						}
						// recovery by a fresh client
						cC, _ := w.client(kind, nil)
						if kind == sharedcache.CacheMutable && serr != nil {
							time.Sleep(130 * time.Millisecond) // let the lock go stale
						}
						_, _ = safely(func() error { return cC.CleanEntry(ctx, key) })
						dest := filepath.Join(w.base, "dest")
						ferr, fpan := safely(func() error { return cC.Fetch(ctx, key, dest) })
						if fpan != "" {
							rep.Fail(hx.Failure{Kind: "impl-violates-property", Key: "fetch-panics:" + backend, Case: caseTxt, Observed: fpan})
						}
						if ferr == nil {
							v := whichVersion(w.readTree(dest))
							rep.Hist("fetch:" + strings.SplitN(v, ":", 2)[0])
							switch {
							case strings.HasPrefix(v, "NONE"):
								rep.Fail(hx.Failure{Kind: "impl-violates-property", Key: "fetch-installs-something-that-is-no-stored-version", Case: caseTxt, Expected: "exactly one stored version", Observed: v})
							case v == "v1" && !withPrev, v == "v3":
								rep.Fail(hx.Failure{Kind: "impl-violates-property", Key: "fetch-installs-a-version-never-stored", Case: caseTxt, Observed: v})
							case serr == nil && v != "v2":
								rep.Fail(hx.Failure{Kind: "impl-violates-property", Key: "store-reported-success-but-fetch-returns-an-older-version", Case: caseTxt, Expected: "v2", Observed: v})
							}
						} else {
							rep.Hist("fetch:error")
							if serr == nil {
								fkey := "store-reported-success-but-fetch-fails"
								if backend == "mem" && kind == sharedcache.CacheMutable && (strings.Contains(ferr.Error(), "stale lock") || strings.Contains(ferr.Error(), "locked")) {
									// the entry lock's heartbeat writer, cancelled by Unlock, can still be inside its WriteFile: on the
									// in-memory backend that write re-creates the removed lock directory
									fkey += ":heartbeat-resurrects-the-lock-directory-on-the-memory-backend"
								}
								rep.Fail(hx.Failure{Kind: "impl-violates-property", Key: fkey, Case: caseTxt, Expected: "v2", Observed: ferr.Error()})
							}
						}
						w.cleanup()
						}()
						patience := 25 * time.Second
						if backend == "mem" {
							patience = 8 * time.Second // nothing sleeps in memory: a case takes milliseconds
						}
						select {
						case <-finished:
						case <-time.After(patience):
							hk := "cache-call-does-not-return"
							if backend == "mem" {
								hk += ":after-a-panic-inside-the-in-memory-backend"
							}
							rep.Fail(hx.Failure{Kind: "impl-violates-property", Key: hk, Case: fmt.Sprintf("cachecase %v %s prev=%v mode=%s k=%d/%d", kind, backend, withPrev, mode, k, total), Expected: "every call returns", Observed: fmt.Sprintf("no answer within %v", patience)})
						}
						}(mode, k)
					}
				}
				wgc.Wait()
			}
		}
	}
	// ---- another client's COMPLETE Store in the middle of this client's CleanEntry / Fetch (immutable cache: no lock) ----
	for _, victim := range []string{"CleanEntry", "Fetch"} {
		// number of backend operations of the undisturbed call
		w0 := newCacheWorld("mem", "remote")
		c0, _ := w0.client(sharedcache.CacheImmutable, nil)
		_ = c0.Store(ctx, key, filepath.Join(w0.base, "src", "v1"))
		_ = c0.Store(ctx, key, filepath.Join(w0.base, "src", "v2"))
		ffc := &faultFs{}
		ca, _ := w0.client(sharedcache.CacheImmutable, ffc)
		if victim == "CleanEntry" {
			_ = ca.CleanEntry(ctx, key)
		} else {
			_ = ca.Fetch(ctx, key, filepath.Join(w0.base, "dest0"))
		}
		totalOps := atomic.LoadInt64(&ffc.n)
		w0.cleanup()
		for k := int64(1); k <= totalOps; k++ {
			w := newCacheWorld("mem", "remote")
			cs, _ := w.client(sharedcache.CacheImmutable, nil)
			_ = cs.Store(ctx, key, filepath.Join(w.base, "src", "v1"))
			_ = cs.Store(ctx, key, filepath.Join(w.base, "src", "v2"))
			cb, _ := w.client(sharedcache.CacheImmutable, nil)
			var errB error = errors.New("not run")
			ff := &faultFs{mode: "run", at: k, hook: func() {
				errB, _ = safely(func() error { return cb.Store(ctx, key, filepath.Join(w.base, "src", "v3")) })
			}}
			cav, _ := w.client(sharedcache.CacheImmutable, ff)
			var errA error
			if victim == "CleanEntry" {
				errA, _ = safely(func() error { return cav.CleanEntry(ctx, key) })
			} else {
				errA, _ = safely(func() error { return cav.Fetch(ctx, key, filepath.Join(w.base, "destA")) })
			}
			caseTxt := fmt.Sprintf("cachecase CacheImmutable mem Store(v3) by another client completes right before operation %d/%d of %s", k, totalOps, victim)
			rep.Eval(caseTxt, true)
			rep.Hist("interleaved-store:" + victim)
			if errB == nil {
				cd, _ := w.client(sharedcache.CacheImmutable, nil)
				ferr, _ := safely(func() error { return cd.Fetch(ctx, key, filepath.Join(w.base, "destD")) })
				got := whichVersion(w.readTree(filepath.Join(w.base, "destD")))
				if ferr != nil || got != "v3" {
					rep.Fail(hx.Failure{Kind: "impl-violates-property", Key: "completed-store-lost-to-a-concurrent-" + victim, Case: caseTxt,
						Expected: "the next Fetch installs v3 (its Store reported success)", Observed: fmt.Sprintf("%s (fetch error %v; %s answered %v)", got, ferr, victim, errA)})
				}
			}
			if bad := w.remoteInvariant(key); bad != "" {
				rep.Fail(hx.Failure{Kind: "impl-violates-property", Key: "incomplete-package-visible", Case: caseTxt, Observed: bad})
			}
			w.cleanup()
		}
	}
	// ---- entries: listing, counting, removing one entry leaves the others fetchable ---------------------
	for _, kind := range kinds {
		for _, backend := range []string{"mem", "os"} {
			w := newCacheWorld(backend, "remote")
			c, _ := w.client(kind, nil)
			k1, k2 := c.GenerateKey("project", "a"), c.GenerateKey("project", "b")
			caseTxt := fmt.Sprintf("cachecase %v %s entries", kind, backend)
			rep.Eval(caseTxt, true)
			rep.Hist("entries")
			e1 := c.Store(ctx, k1, filepath.Join(w.base, "src", "v1"))
			e2 := c.Store(ctx, k2, filepath.Join(w.base, "src", "v2"))
			ents, lerr := c.GetEntries(ctx)
			cnt, cerr := c.EntriesCount(ctx)
			sort.Strings(ents)
			wantE := []string{k1, k2}
			sort.Strings(wantE)
			if e1 != nil || e2 != nil || lerr != nil || cerr != nil || k1 == k2 || fmt.Sprint(ents) != fmt.Sprint(wantE) || cnt != 2 {
				rep.Fail(hx.Failure{Kind: "impl-violates-property", Key: "entries-listing", Case: caseTxt, Expected: fmt.Sprint(wantE, " count 2"), Observed: fmt.Sprint(ents, " count ", cnt, " errors ", e1, e2, lerr, cerr)})
			}
			rerr := c.RemoveEntry(ctx, k1)
			f1 := c.Fetch(ctx, k1, filepath.Join(w.base, "d1"))
			f2 := c.Fetch(ctx, k2, filepath.Join(w.base, "d2"))
			got2 := whichVersion(w.readTree(filepath.Join(w.base, "d2")))
			if rerr != nil || f1 == nil || f2 != nil || got2 != "v2" {
				rep.Fail(hx.Failure{Kind: "impl-violates-property", Key: "remove-entry", Case: caseTxt, Expected: "the removed entry cannot be fetched, the other one still installs v2",
					Observed: fmt.Sprintf("RemoveEntry: %v; Fetch(removed): %v; Fetch(other): %v -> %s", rerr, f1, f2, got2)})
			}
			w.cleanup()
		}
	}
	// ---- remote paths containing ".part" ------------------------------------------------------------
	for _, kind := range kinds {
		for _, backend := range []string{"mem", "os"} {
			for _, remoteName := range []string{"cache.partition", "x.part/remote"} {
				w := newCacheWorld(backend, remoteName)
				caseTxt := fmt.Sprintf("cachecase %v %s remote=%s", kind, backend, remoteName)
				c, _ := w.client(kind, nil)
				serr := c.Store(ctx, key, filepath.Join(w.base, "src", "v1"))
				ferr := c.Fetch(ctx, key, filepath.Join(w.base, "dest"))
				rep.Eval(caseTxt, true)
				if serr == nil && (ferr != nil || whichVersion(w.readTree(filepath.Join(w.base, "dest"))) != "v1") {
					pkey := "store-succeeds-but-version-not-fetchable:remote-path-contains-.part"
					if ferr != nil && backend == "mem" && kind == sharedcache.CacheMutable && (strings.Contains(ferr.Error(), "stale lock") || strings.Contains(ferr.Error(), "locked")) {
						// not about the path at all: the entry lock's cancelled heartbeat re-created the lock directory (recorded finding)
						pkey = "store-reported-success-but-fetch-fails:heartbeat-resurrects-the-lock-directory-on-the-memory-backend"
					}
					rep.Fail(hx.Failure{Kind: "impl-violates-property", Key: pkey, Case: caseTxt, Expected: "Fetch returns v1", Observed: fmt.Sprint(ferr, " ", whichVersion(w.readTree(filepath.Join(w.base, "dest"))))})
				}
				w.cleanup()
			}
		}
	}
	// ---- concurrent clients ---------------------------------------------------------------------------
	rnd := hx.NewRand(o.Seed)
	runs := 6
	if o.Thorough() {
		runs = 80
	}
	for r := 0; r < runs; r++ {
		kind := kinds[r%2]
		backend := []string{"mem", "os"}[(r/2)%2]
		w := newCacheWorld(backend, "remote")
		nc := rnd.Range(2, 4)
		caseTxt := fmt.Sprintf("cachecase %v %s concurrent clients=%d run=%d", kind, backend, nc, r)
		var wg sync.WaitGroup
		var mu sync.Mutex
		var bad []string
		fetched := 0
		for i := 0; i < nc; i++ {
			wg.Add(1)
			rr := rnd.Fork()
			go func(i int, rr *hx.Rand) {
				defer wg.Done()
				c, err := w.client(kind, nil)
				if err != nil {
					return
				}
				for step := 0; step < 4; step++ {
					switch rr.Intn(3) {
					case 0:
						_ = c.Store(ctx, key, filepath.Join(w.base, "src", hx.Pick(rr, []string{"v1", "v2", "v3"})))
					case 1:
						dest := filepath.Join(w.base, fmt.Sprintf("dest%d_%d", i, step))
						if c.Fetch(ctx, key, dest) == nil {
							v := whichVersion(w.readTree(dest))
							mu.Lock()
							fetched++
							if strings.HasPrefix(v, "NONE") {
								bad = append(bad, v)
							}
							mu.Unlock()
						}
					case 2:
						_ = c.CleanEntry(ctx, key)
					}
				}
			}(i, rr)
		}
		wg.Wait()
		rep.Eval(caseTxt, fetched > 0)
		rep.HistN("concurrent:successful-fetches", fetched)
		if len(bad) > 0 {
			rep.Fail(hx.Failure{Kind: "impl-violates-property", Key: "fetch-installs-something-that-is-no-stored-version:concurrent", Case: caseTxt, Expected: "exactly one stored version", Observed: strings.Join(bad, " | ")})
		}
		if kind == sharedcache.CacheImmutable {
			if msg := w.remoteInvariant(key); msg != "" {
				rep.Fail(hx.Failure{Kind: "impl-violates-property", Key: "immutable-entry-holds-incomplete-package", Case: caseTxt, Observed: msg})
			}
		}
		w.cleanup()
	}
	rep.Write(o.Report, nil)
	if len(rep.Failures) > 0 {
		fmt.Printf("failures: %d\n", len(rep.Failures))
	}
}
