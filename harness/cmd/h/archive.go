package main

// C07 — archives are faithful.
//  round trip : random trees (names with spaces, dots — leading / doubled —, unicode, shell
//               metacharacters; empty dirs, empty files, larger files) → Zip → Unzip on both backends;
//               paths, kinds, contents, mtimes (to the second) and the returned list are compared.
//  views      : NewZipFileSystem / NewTarFileSystem over an archive of the tree expose exactly the
//               tree; every mutating call is refused and changes nothing.
//  closed     : after Close() every call that needs the archive fails (direct accessors with the
//               'failed condition' kind).

import (
	"archive/tar"
	"bytes"
	"context"
	"fmt"
	"os"
	"path/filepath"
	"sort"
	"strconv"
	"strings"
	"time"

	"github.com/ARM-software/golang-utils/utils/commonerrors"
	"github.com/ARM-software/golang-utils/utils/filesystem"

	"verif/harness/hx"
	"archive/zip"
	"io"
)

func init() { subs["archive"] = archiveMain }

type tNode struct {
	rel     string
	dir     bool
	content []byte
	mtime   time.Time
}

var nameAlphabet = []string{"a", "b", "file", "dir", "with space", ".hidden", "x.y", "a..b", "..c", "d..", "日本", "é", "q'uote", "do$llar", "semi;colon", "amp&", "(paren)", "star*", "long-name-0123456789", "UPPER", "tab\tname",
	// names that look like archives (directories and plain files): under recursive limits they are candidates for nested extraction
	"backup.zip", "logs.gz", "pack.7z", "v1.Z",
	// names made of white space only
	" ", "  ", "\u00a0", "\u3000",
	// valid UTF-8 that is not in composed normal form (combining marks, a singleton)
	"cafe\u0301", "A\u030angstro\u0308m", "\u212b"}

func genTree(rnd *hx.Rand, maxEntries, maxDepth int, bigFiles, allowDotDot bool) []tNode {
	var nodes []tNode
	dirs := []string{""}
	seen := map[string]bool{}
	n := rnd.Intn(maxEntries + 1)
	base := time.Date(2020, 1, 1, 0, 0, 0, 0, time.UTC)
	for i := 0; i < n; i++ {
		parent := hx.Pick(rnd, dirs)
		if strings.Count(parent, "/") >= maxDepth {
			parent = ""
		}
		name := hx.Pick(rnd, nameAlphabet)
		if !allowDotDot && strings.Contains(name, "..") {
			name = "plain"
		}
		if rnd.Chance(40) {
			name += strconv.Itoa(i)
		}
		rel := name
		if parent != "" {
			rel = parent + "/" + name
		}
		if seen[rel] {
			continue
		}
		seen[rel] = true
		mt := base.Add(time.Duration(rnd.Intn(100000)) * time.Second)
		if rnd.Chance(30) {
			nodes = append(nodes, tNode{rel: rel, dir: true, mtime: mt})
			dirs = append(dirs, rel)
			continue
		}
		size := rnd.Intn(200)
		switch {
		case rnd.Chance(15):
			size = 0
		case bigFiles && rnd.Chance(5):
			size = 1<<20 + rnd.Intn(1<<20)
		}
		c := make([]byte, size)
		if rnd.Bool() { // compressible
			for j := range c {
				c[j] = byte('a' + j%3)
			}
		} else {
			for j := range c {
				c[j] = byte(rnd.U64())
			}
		}
		nodes = append(nodes, tNode{rel: rel, content: c, mtime: mt})
	}
	return nodes
}

func writeTree(fs filesystem.FS, root string, nodes []tNode) error {
	if err := fs.MkDir(root); err != nil {
		return err
	}
	for _, n := range nodes {
		p := filepath.Join(root, n.rel)
		if n.dir {
			if err := fs.MkDir(p); err != nil {
				return err
			}
			continue
		}
		if err := fs.MkDir(filepath.Dir(p)); err != nil {
			return err
		}
		var err error
		if len(n.content) == 0 {
			err = fs.Touch(p)
		} else {
			err = fs.WriteFile(p, n.content, 0o644)
		}
		if err != nil {
			return err
		}
	}
	// stamp after creation (deepest first so that directory mtimes are not disturbed afterwards)
	sorted := append([]tNode{}, nodes...)
	sort.Slice(sorted, func(i, j int) bool { return strings.Count(sorted[i].rel, "/") > strings.Count(sorted[j].rel, "/") })
	for _, n := range sorted {
		_ = fs.Chtimes(filepath.Join(root, n.rel), n.mtime, n.mtime)
	}
	return nil
}

// dumpTree: canonical listing "rel|kind|size|hash-ish|mtime"
func dumpTree(fs filesystem.FS, root string, withTimes bool) ([]string, error) {
	var out []string
	err := fs.Walk(root, func(p string, info os.FileInfo, err error) error {
		if err != nil {
			return err
		}
		rel, _ := filepath.Rel(root, p)
		if rel == "." {
			return nil
		}
		line := rel
		if info.IsDir() {
			line += "|d"
		} else {
			b, rerr := fs.ReadFile(p)
			if rerr != nil && info.Size() > 0 {
				return rerr
			}
			line += fmt.Sprintf("|f|%d|%x", len(b), crcOf(b))
			if withTimes {
				line += "|" + strconv.FormatInt(info.ModTime().Unix(), 10)
			}
		}
		out = append(out, line)
		return nil
	})
	sort.Strings(out)
	return out, err
}

// dumpNames: canonical listing of paths and kinds only (no content is read)
func dumpNames(fs filesystem.FS, root string) ([]string, error) {
	var out []string
	err := fs.Walk(root, func(p string, info os.FileInfo, err error) error {
		if err != nil {
			return err
		}
		rel, _ := filepath.Rel(root, p)
		if rel == "." {
			return nil
		}
		if info.IsDir() {
			out = append(out, rel+"|d")
		} else {
			out = append(out, fmt.Sprintf("%s|f|%d", rel, info.Size()))
		}
		return nil
	})
	sort.Strings(out)
	return out, err
}

func crcOf(b []byte) uint32 {
	var h uint32 = 2166136261
	for _, x := range b {
		h = (h ^ uint32(x)) * 16777619
	}
	return h
}

func expectedDump(nodes []tNode, withTimes bool) []string {
	seen := map[string]bool{}
	var out []string
	add := func(s string) {
		if !seen[s] {
			seen[s] = true
			out = append(out, s)
		}
	}
	for _, n := range nodes {
		// ancestors are directories
		parts := strings.Split(n.rel, "/")
		for i := 1; i < len(parts); i++ {
			add(strings.Join(parts[:i], "/") + "|d")
		}
		if n.dir {
			add(n.rel + "|d")
		} else {
			l := fmt.Sprintf("%s|f|%d|%x", n.rel, len(n.content), crcOf(n.content))
			if withTimes {
				l += "|" + strconv.FormatInt(n.mtime.Unix(), 10)
			}
			add(l)
		}
	}
	sort.Strings(out)
	return out
}

func buildTar(nodes []tNode) []byte {
	var buf bytes.Buffer
	w := tar.NewWriter(&buf)
	sorted := append([]tNode{}, nodes...)
	sort.Slice(sorted, func(i, j int) bool { return sorted[i].rel < sorted[j].rel })
	dirs := map[string]bool{}
	for _, n := range sorted {
		parts := strings.Split(n.rel, "/")
		for i := 1; i < len(parts); i++ {
			d := strings.Join(parts[:i], "/")
			if !dirs[d] {
				dirs[d] = true
				_ = w.WriteHeader(&tar.Header{Name: d + "/", Typeflag: tar.TypeDir, Mode: 0o755, ModTime: n.mtime})
			}
		}
		if n.dir {
			if !dirs[n.rel] {
				dirs[n.rel] = true
				_ = w.WriteHeader(&tar.Header{Name: n.rel + "/", Typeflag: tar.TypeDir, Mode: 0o755, ModTime: n.mtime})
			}
			continue
		}
		_ = w.WriteHeader(&tar.Header{Name: n.rel, Typeflag: tar.TypeReg, Mode: 0o644, Size: int64(len(n.content)), ModTime: n.mtime})
		_, _ = w.Write(n.content)
	}
	_ = w.Close()
	return buf.Bytes()
}

func hasEmptyDir(nodes []tNode) bool {
	for _, d := range nodes {
		if !d.dir {
			continue
		}
		empty := true
		for _, o := range nodes {
			if strings.HasPrefix(o.rel, d.rel+"/") {
				empty = false
			}
		}
		if empty {
			return true
		}
	}
	return false
}

func diffLists(a, b []string) string {
	am, bm := map[string]bool{}, map[string]bool{}
	for _, x := range a {
		am[x] = true
	}
	for _, x := range b {
		bm[x] = true
	}
	var d []string
	for _, x := range a {
		if !bm[x] {
			d = append(d, "-"+x)
		}
	}
	for _, x := range b {
		if !am[x] {
			d = append(d, "+"+x)
		}
	}
	if len(d) > 6 {
		d = d[:6]
	}
	return strings.Join(d, " ; ")
}

func archiveMain(args []string) {
	o := hx.ParseOpts(args)
	rep := hx.NewReport("trees of 0..25 entries (thorough ..200), depth 0..4 (..6), names over letters, digits, spaces, dots (leading, doubled), unicode, shell metacharacters and archive-like extensions (on directories and on plain files), empty directories, empty / small / multi-megabyte (thorough) files, " +
		"compressible or random, on MemMapFs and OsFs; each tree: zip→unzip round trip (without limits, with non-recursive and with recursive limits), zip and tar read-only views, refusal of mutating calls, behaviour after Close. " +
		"non-trivial = tree with at least 3 entries and one nested directory; distinct = tree listing.")
	drv, derr0 := hx.StartDriver(o.Driver)
	if derr0 != nil {
		fmt.Println("driver:", derr0)
	}
	defer drv.Close()
	rnd := hx.NewRand(o.Seed)
	n := 60
	maxE, maxD := 25, 4
	if o.Thorough() {
		n, maxE, maxD = 1200, 200, 6
	}
	tmp, _ := os.MkdirTemp("", "verif-arch")
	defer os.RemoveAll(tmp)
	ctx := context.Background()
	// a directed tree that runs first under each of the three unzip modes: archive-like names on a directory, on an empty
	// file and on a non-empty file, names made of white space only, an empty directory, nesting
	base0 := time.Date(2021, 3, 4, 5, 6, 7, 0, time.UTC)
	directed := []tNode{
		{rel: "dir.gz", dir: true, mtime: base0}, {rel: "dir.gz/inside.txt", content: []byte("inside"), mtime: base0.Add(time.Hour)},
		{rel: "empty.zip", content: []byte{}, mtime: base0.Add(2 * time.Hour)}, {rel: "notes.7z", content: []byte("not an archive at all"), mtime: base0.Add(3 * time.Hour)},
		{rel: " ", content: []byte("blank name"), mtime: base0.Add(4 * time.Hour)}, {rel: "\u3000", dir: true, mtime: base0.Add(5 * time.Hour)},
		{rel: "sub", dir: true, mtime: base0.Add(6 * time.Hour)}, {rel: "sub/pack.Z", dir: true, mtime: base0.Add(7 * time.Hour)},
		{rel: "sub/pack.Z/empty.jar", content: []byte{}, mtime: base0.Add(8 * time.Hour)}, {rel: "sub/void", dir: true, mtime: base0.Add(9 * time.Hour)},
		{rel: "de\u0301compose\u0301", dir: true, mtime: base0.Add(10 * time.Hour)}, {rel: "de\u0301compose\u0301/cafe\u0301.txt", content: []byte("decomposed"), mtime: base0.Add(11 * time.Hour)},
		// entries named like the tree's own root, the archive and the destination
		{rel: "src", dir: true, mtime: base0.Add(12 * time.Hour)}, {rel: "src/src", dir: true, mtime: base0.Add(13 * time.Hour)},
		{rel: "src/a.zip", content: []byte("named like the archive"), mtime: base0.Add(14 * time.Hour)}, {rel: "sub/src", dir: true, mtime: base0.Add(15 * time.Hour)},
		{rel: "out", dir: true, mtime: base0.Add(16 * time.Hour)}, {rel: "out/src", content: []byte("a file named like the root"), mtime: base0.Add(17 * time.Hour)},
	}
	for i := -3; i < n; i++ {
		var nodes []tNode
		if i < 0 {
			nodes = directed
		} else {
			nodes = genTree(rnd, maxE, maxD, o.Thorough(), i%3 != 0)
		}
		hasDotDot := false
		for _, nd := range nodes {
			if strings.Contains(nd.rel, "..") {
				hasDotDot = true
			}
		}
		for _, ft := range []filesystem.FilesystemType{filesystem.InMemoryFS, filesystem.StandardFS} {
			fs := filesystem.NewFs(ft)
			root := fmt.Sprintf("/w%d", i)
			if ft == filesystem.StandardFS {
				root = filepath.Join(tmp, fmt.Sprintf("w%d", i))
			}
			src, zipf, dst := filepath.Join(root, "src"), filepath.Join(root, "a.zip"), filepath.Join(root, "out")
			if err := writeTree(fs, src, nodes); err != nil {
				rep.Fail(hx.Failure{Kind: "harness-error", Key: "write-tree", Detail: err.Error()})
				continue
			}
			canon := fmt.Sprintf("%v %q", ft, expectedDump(nodes, false))
			nontriv := len(nodes) >= 3 && strings.Contains(canon, "/")
			rep.Eval(canon, nontriv)
			rep.Hist("tree:" + ft.String())
			want := expectedDump(nodes, true)
			// ---- round trip ------------------------------------------------------------------------
			if i%2 == 0 {
				// every other tree: the archive path already holds a previous, LONGER archive (a recurring
				// backup): zipping must replace it, not overwrite its beginning
				prev := filepath.Join(root, "prev")
				junk := make([]byte, 60000)
				x := uint32(i*2654435761 + 12345)
				for k := range junk {
					x = x*1664525 + 1013904223
					junk[k] = byte(x >> 24)
				}
				_ = fs.MkDir(prev)
				_ = fs.WriteFile(filepath.Join(prev, "previous-content.bin"), junk, 0o644)
				if err := fs.Zip(prev, zipf); err != nil {
					rep.Fail(hx.Failure{Kind: "harness-error", Key: "zip-previous", Detail: err.Error()})
				}
				rep.Hist("zip-over-a-previous-longer-archive")
			}
			if err := fs.Zip(src, zipf); err != nil {
				rep.Fail(hx.Failure{Kind: "impl-violates-property", Key: "zip-failed", Case: canon, Observed: err.Error()})
				continue
			}
			var list []string
			var uerr error
			switch ((i % 3) + 3) % 3 {
			case 0:
				list, uerr = fs.Unzip(zipf, dst)
				rep.Hist("unzip:no-limits")
			case 1:
				list, uerr = fs.UnzipWithContextAndLimits(ctx, zipf, dst, filesystem.DefaultNonRecursiveZipLimits())
				rep.Hist("unzip:non-recursive-limits")
			default:
				// recursive limits: entries that merely LOOK like archives (none of the generated ones is a zip) stay what they are
				list, uerr = fs.UnzipWithContextAndLimits(ctx, zipf, dst, filesystem.DefaultZipLimits())
				rep.Hist("unzip:recursive-limits")
			}
			if uerr != nil {
				key := "unzip-failed:" + errKind(uerr)
				if hasDotDot && commonerrors.Any(uerr, commonerrors.ErrMalicious) {
					key = "name-with-double-dot-rejected-as-malicious"
				}
				rep.Fail(hx.Failure{Kind: "impl-violates-property", Key: key, Case: canon, Expected: "tree reproduced", Observed: uerr.Error()})
			} else {
				got, derr := dumpTree(fs, dst, true)
				if derr != nil || strings.Join(got, "\n") != strings.Join(want, "\n") {
					rep.Fail(hx.Failure{Kind: "impl-violates-property", Key: "roundtrip-mismatch", Case: canon, Expected: "identical tree", Observed: fmt.Sprint(derr, " ", diffLists(want, got))})
				}
				// returned list = entries created
				var rels []string
				for _, p := range list {
					r, _ := filepath.Rel(dst, p)
					rels = append(rels, r)
				}
				sort.Strings(rels)
				var wantRels []string
				for _, l := range expectedDump(nodes, false) {
					wantRels = append(wantRels, strings.SplitN(l, "|", 2)[0])
				}
				sort.Strings(wantRels)
				// the archive only has headers for the entries the walk visited: all of them
				if strings.Join(rels, "\n") != strings.Join(wantRels, "\n") {
					rep.Fail(hx.Failure{Kind: "impl-violates-property", Key: "returned-list-mismatch", Case: canon, Expected: fmt.Sprint(wantRels), Observed: fmt.Sprint(rels)})
				}
				rep.Hist("roundtrip-ok")
				archiveModelCheck(rep, drv, fs, zipf, dst, list, canon)
			}
			// ---- zip view --------------------------------------------------------------------------
			zfs, zfile, err := filesystem.NewZipFileSystem(fs, zipf, filesystem.NoLimits())
			if err != nil {
				rep.Fail(hx.Failure{Kind: "impl-violates-property", Key: "zipfs-open", Case: canon, Observed: err.Error()})
			} else {
				checkView(rep, "zip", zfs, nodes, canon)
				_ = zfs.Close()
				checkClosed(rep, "zip", zfs, nodes, canon)
				if zfile != nil {
					_ = zfile.Close()
				}
			}
			// ---- tar view --------------------------------------------------------------------------
			tarf := filepath.Join(root, "a.tar")
			_ = fs.WriteFile(tarf, buildTar(nodes), 0o644)
			tfs, tfile, err := filesystem.NewTarFileSystem(fs, tarf, filesystem.NoLimits())
			if err != nil {
				rep.Fail(hx.Failure{Kind: "impl-violates-property", Key: "tarfs-open", Case: canon, Observed: err.Error()})
			} else {
				checkView(rep, "tar", tfs, nodes, canon)
				_ = tfs.Close()
				checkClosed(rep, "tar", tfs, nodes, canon)
				if tfile != nil {
					_ = tfile.Close()
				}
			}
			_ = fs.Rm(root)
		}
	}
	rep.Write(o.Report, drv)
}

func checkView(rep *hx.Report, kind string, v filesystem.ICloseableFS, nodes []tNode, canon string) {
	want := expectedDump(nodes, false)
	got, err := dumpTree(v, "/", false)
	if err != nil {
		got, err = dumpTree(v, "", false)
	}
	if err != nil || strings.Join(got, "\n") != strings.Join(want, "\n") {
		key := kind + "fs-view-mismatch"
		if kind == "tar" && hasEmptyDir(nodes) {
			key = "tarfs-empty-directory-not-served"
		}
		if len(nodes) == 0 {
			key = kind + "fs-empty-archive-root-not-served"
		}
		rep.Fail(hx.Failure{Kind: "impl-violates-property", Key: key, Case: canon, Expected: "the tree", Observed: fmt.Sprint(err, " ", diffLists(want, got))})
		return
	}
	rep.Hist(kind + "fs-view-ok")
	// every mutating call is refused and changes nothing
	target := "newfile"
	existing := ""
	for _, n := range nodes {
		if !n.dir {
			existing = n.rel
		}
	}
	muts := map[string]func() error{
		"WriteFile": func() error { return v.WriteFile(target, []byte("x"), 0o644) },
		"MkDir":     func() error { return v.MkDir("newdir") },
		"Touch":     func() error { return v.Touch(target) },
		"Rm":        func() error { return v.Rm(existing) },
		"Move":      func() error { return v.Move(existing, "moved") },
		"Chmod":     func() error { return v.Chmod(existing, 0o600) },
		"CleanDir":  func() error { return v.CleanDir("/") },
	}
	for name, f := range muts {
		if (name == "Rm" || name == "Move" || name == "Chmod") && existing == "" {
			continue
		}
		err := f()
		// CleanDir has nothing to refuse when the view shows nothing it could delete (no file at all: empty directories
		// are not served, see the recorded finding)
		if err == nil && !(name == "CleanDir" && existing == "") && !(name == "MkDir") {
			rep.Fail(hx.Failure{Kind: "impl-violates-property", Key: kind + "fs-mutation-accepted:" + name, Case: canon, Expected: "an error", Observed: "nil"})
		}
	}
	wantNames := []string{}
	for _, l := range want {
		f := strings.Split(l, "|")
		if f[1] == "d" {
			wantNames = append(wantNames, f[0]+"|d")
		} else {
			wantNames = append(wantNames, f[0]+"|f|"+f[2])
		}
	}
	after, aerr := dumpNames(v, "/")
	if aerr != nil || strings.Join(after, "\n") != strings.Join(wantNames, "\n") {
		rep.Fail(hx.Failure{Kind: "impl-violates-property", Key: kind + "fs-changed-by-mutating-call", Case: canon, Expected: "same paths, kinds and sizes", Observed: fmt.Sprint(aerr, " ", diffLists(wantNames, after))})
	}
	// contents must be the same on every read
	if existing != "" {
		var c []byte
		for _, n := range nodes {
			if n.rel == existing {
				c = n.content
			}
		}
		for k := 0; k < 2; k++ {
			b, rerr := v.ReadFile("/" + existing)
			if len(c) > 0 && (rerr != nil || !bytes.Equal(b, c)) {
				rep.Fail(hx.Failure{Kind: "impl-violates-property", Key: kind + "fs-file-content-readable-only-once", Case: canon,
					Expected: "same content on every read", Observed: fmt.Sprintf("read #%d after the listing: %d bytes, err=%v", k+2, len(b), rerr)})
				break
			}
		}
	}
}

func checkClosed(rep *hx.Report, kind string, v filesystem.ICloseableFS, nodes []tNode, canon string) {
	existing := "x"
	for _, n := range nodes {
		if !n.dir {
			existing = n.rel
		}
	}
	type call struct {
		name   string
		f      func() error
		direct bool
	}
	calls := []call{
		{"Stat", func() error { _, e := v.Stat(existing); return e }, true},
		{"Lstat", func() error { _, e := v.Lstat(existing); return e }, true},
		{"ReadFile", func() error { _, e := v.ReadFile(existing); return e }, true},
		{"GenericOpen", func() error { _, e := v.GenericOpen(existing); return e }, true},
		{"Ls", func() error { _, e := v.Ls("/"); return e }, true},
		{"LsRecursive", func() error { _, e := v.LsRecursive(context.Background(), "/", true); return e }, true},
		{"Walk", func() error { return v.Walk("/", func(string, os.FileInfo, error) error { return nil }) }, true},
		{"IsDir", func() error { _, e := v.IsDir("/"); return e }, true},
		{"IsFile", func() error { _, e := v.IsFile(existing); return e }, true},
		{"IsEmpty", func() error { _, e := v.IsEmpty("/"); return e }, true},
		{"GetFileSize", func() error { _, e := v.GetFileSize(existing); return e }, true},
		{"FileHash", func() error { _, e := v.FileHash("MD5", existing); return e }, false},
		{"FindAll", func() error { _, e := v.FindAll("/", "txt"); return e }, false},
		{"ListDirTree", func() error { var l []string; return v.ListDirTree("/", &l) }, false},
		{"StatTimes", func() error { _, e := v.StatTimes(existing); return e }, true},
		{"DiskUsage", func() error { _, e := v.DiskUsage("/"); return e }, false},
	}
	for _, c := range calls {
		err := c.f()
		switch {
		case err == nil:
			rep.Fail(hx.Failure{Kind: "impl-violates-property", Key: kind + "fs-serves-after-close:" + c.name, Case: canon, Expected: "an error", Observed: "nil"})
		case c.direct && !commonerrors.Any(err, commonerrors.ErrCondition):
			rep.Fail(hx.Failure{Kind: "impl-violates-property", Key: kind + "fs-wrong-kind-after-close:" + c.name, Case: canon, Expected: "failed condition", Observed: err.Error()})
		default:
			rep.Hist("closed-call-refused")
		}
	}
	if v.Exists(existing) {
		rep.Fail(hx.Failure{Kind: "impl-violates-property", Key: kind + "fs-serves-after-close:Exists", Case: canon, Observed: "true"})
	}
}

// archiveModelCheck: the entries of the archive just written, in the archive's own order, are given to the Lean model of the
// extraction loop (Model.Archive over the reference filesystem model); the list it answers and the tree it leaves must be
// the list the real Unzip returned (in the same order) and the tree found below the destination.
func archiveModelCheck(rep *hx.Report, drv *hx.Driver, fs filesystem.FS, zipf, dst string, list []string, canon string) {
	if drv == nil {
		return
	}
	raw, err := fs.ReadFile(zipf)
	if err != nil {
		rep.Fail(hx.Failure{Kind: "harness-error", Key: "read-archive", Detail: err.Error()})
		return
	}
	zr, err := zip.NewReader(bytes.NewReader(raw), int64(len(raw)))
	if err != nil {
		rep.Fail(hx.Failure{Kind: "harness-error", Key: "read-archive", Detail: err.Error()})
		return
	}
	ids := map[string]int{}
	pathOf := func(rel string) string {
		out := "0"
		if rel == "." || rel == "" {
			return out
		}
		for _, part := range strings.Split(rel, "/") {
			if _, ok := ids[part]; !ok {
				ids[part] = len(ids) + 1
			}
			out += "." + strconv.Itoa(ids[part])
		}
		return out
	}
	relOf := func(rel string) string { return strings.TrimPrefix(pathOf(rel), "0.") }
	line := "arch 0"
	for _, f := range zr.File {
		name := strings.TrimSuffix(f.Name, "/")
		if f.FileInfo().IsDir() {
			line += " d:" + relOf(name)
			continue
		}
		rc, err := f.Open()
		if err != nil {
			rep.Fail(hx.Failure{Kind: "harness-error", Key: "read-archive", Detail: err.Error()})
			return
		}
		b, _ := io.ReadAll(rc)
		_ = rc.Close()
		line += fmt.Sprintf(" f:%s:%d", relOf(name), uint64(crcOf(b))+1)
	}
	var lst []string
	for _, p := range list {
		r, _ := filepath.Rel(dst, p)
		lst = append(lst, pathOf(filepath.ToSlash(r)))
	}
	var tree []string
	werr := fs.Walk(dst, func(p string, info os.FileInfo, err error) error {
		if err != nil {
			return err
		}
		rel, _ := filepath.Rel(dst, p)
		if info.IsDir() {
			tree = append(tree, pathOf(filepath.ToSlash(rel))+"=d")
			return nil
		}
		b, rerr := fs.ReadFile(p)
		if rerr != nil && info.Size() > 0 {
			return rerr
		}
		tree = append(tree, fmt.Sprintf("%s=f%d", pathOf(filepath.ToSlash(rel)), uint64(crcOf(b))+1))
		return nil
	})
	if werr != nil {
		rep.Fail(hx.Failure{Kind: "harness-error", Key: "walk-destination", Detail: werr.Error()})
		return
	}
	sort.Strings(tree)
	real := fmt.Sprintf("ok list=%s tree=%s", strings.Join(lst, ";"), strings.Join(tree, ";"))
	ans, err := drv.Ask1(line)
	if err != nil {
		rep.Fail(hx.Failure{Kind: "harness-error", Key: "driver", Detail: err.Error()})
		return
	}
	rep.Hist("model-extraction-compared")
	if ans != real {
		rep.Fail(hx.Failure{Kind: "model-impl-divergence", Key: "extraction-differs-from-the-model", Case: canon + " | " + line, Expected: ans, Observed: real})
	}
}
