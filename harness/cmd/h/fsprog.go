package main

// C06 — filesystem API vs the reference model (Model.Fs), on MemMapFs and OsFs.
// Programs of 1..40 calls over a 4-letter path alphabet from a random initial tree. Per call:
//   * result (value / error kind) and, at the end, the canonical tree dump are compared with the Lean
//     reference model as long as the model reports no kind conflict (first sentence of the property);
//   * always (second sentence): the call returns within a watchdog, every opened handle is closed,
//     entries outside the destination are not removed or modified, a copy does not change its source.

import (
	"bufio"
	"context"
	"encoding/json"
	"fmt"
	"os"
	"os/exec"
	"path/filepath"
	"sort"
	"strconv"
	"strings"
	"time"

	"github.com/spf13/afero"

	"github.com/ARM-software/golang-utils/utils/commonerrors"
	"github.com/ARM-software/golang-utils/utils/filesystem"

	"verif/harness/hx"
)

func init() {
	subs["fsprog"] = fsProgMain
	subs["fsprog-child"] = fsProgChild
	subs["fscrash"] = func([]string) {
		fs := filesystem.NewFs(filesystem.InMemoryFS)
		_ = fs.MkDir("/r/a/c")
		err := fs.Move("/r/a", "/r/a/b")
		fmt.Println("returned:", err)
	}
}

type fsOp struct {
	name string
	a, b string // model paths ("." = root), b may end with "/"
	n    int
}

func (o fsOp) String() string {
	switch o.name {
	case "write":
		return fmt.Sprintf("write %s %d", o.a, o.n)
	case "cp", "mv", "cpd", "cpf":
		return fmt.Sprintf("%s %s %s", o.name, o.a, o.b)
	}
	return o.name + " " + o.a
}

var fsNames = []string{"a", "b", "c", "d"}

func genPath(rnd *hx.Rand, allowRoot bool) string {
	d := rnd.Range(1, 3)
	if allowRoot && rnd.Chance(4) {
		return "."
	}
	var parts []string
	for i := 0; i < d; i++ {
		parts = append(parts, hx.Pick(rnd, fsNames))
	}
	return strings.Join(parts, "/")
}

type fsBackend struct {
	name string
	vfs  filesystem.FS
	rec  *recFs
	base afero.Fs
	root string
}

func (b *fsBackend) real(p string) string {
	if p == "." {
		return b.root
	}
	slash := strings.HasSuffix(p, "/")
	r := filepath.Join(b.root, p)
	if slash {
		r += "/"
	}
	return r
}

func mapErr(err error) string {
	switch {
	case err == nil:
		return "ok"
	case commonerrors.Any(err, commonerrors.ErrNotFound) || os.IsNotExist(err):
		return "err:notfound"
	case commonerrors.Any(err, commonerrors.ErrInvalid):
		return "err:invalid"
	case commonerrors.Any(err, commonerrors.ErrEmpty):
		return "err:empty"
	}
	return "err:conflict"
}

func relList(root string, ps []string) string {
	var out []string
	for _, p := range ps {
		r, err := filepath.Rel(root, p)
		if err != nil {
			r = p
		}
		out = append(out, r)
	}
	sort.Strings(out)
	return "[" + strings.Join(out, ",") + "]"
}

func (b *fsBackend) dump() (string, map[string]string) {
	m := map[string]string{}
	_ = afero.Walk(b.base, b.root, func(p string, info os.FileInfo, err error) error {
		if err != nil || p == b.root {
			return nil
		}
		rel, _ := filepath.Rel(b.root, p)
		if info.IsDir() {
			m[rel] = "d"
		} else {
			m[rel] = "f" + strconv.FormatInt(info.Size(), 10)
		}
		return nil
	})
	var keys []string
	for k, v := range m {
		keys = append(keys, k+"="+v)
	}
	sort.Strings(keys)
	return strings.Join(keys, ","), m
}

func (b *fsBackend) exec(o fsOp) string {
	fs := b.vfs
	a, bb := b.real(o.a), b.real(o.b)
	switch o.name {
	case "mkdir":
		return mapErr(fs.MkDir(a))
	case "touch":
		return mapErr(fs.Touch(a))
	case "write":
		if o.n == 0 {
			return mapErr(fs.WriteFile(a, []byte{}, 0o644))
		}
		return mapErr(fs.WriteFile(a, []byte(strings.Repeat("x", o.n)), 0o644))
	case "read":
		c, err := fs.ReadFile(a)
		if err != nil {
			return mapErr(err)
		}
		return "c" + strconv.Itoa(len(c))
	case "exists":
		return strconv.FormatBool(fs.Exists(a))
	case "isfile":
		ok, err := fs.IsFile(a)
		if err != nil {
			return mapErr(err)
		}
		return strconv.FormatBool(ok)
	case "isdir":
		ok, err := fs.IsDir(a)
		if err != nil {
			return mapErr(err)
		}
		return strconv.FormatBool(ok)
	case "isempty":
		ok, err := fs.IsEmpty(a)
		if err != nil {
			return mapErr(err)
		}
		return strconv.FormatBool(ok)
	case "ls":
		l, err := fs.Ls(a)
		if err != nil {
			return mapErr(err)
		}
		sort.Strings(l)
		return "[" + strings.Join(l, ",") + "]"
	case "lsr":
		l, err := fs.LsRecursive(context.Background(), a, true)
		if err != nil {
			return mapErr(err)
		}
		var rel []string
		for _, p := range l {
			if filepath.Clean(p) != filepath.Clean(a) {
				rel = append(rel, p)
			}
		}
		return relList(a, rel)
	case "rm":
		return mapErr(fs.Rm(a))
	case "clean":
		return mapErr(fs.CleanDir(a))
	case "cp", "mv", "cpd", "cpf":
		// bounded by a deadline: a copy that keeps feeding on what it creates would otherwise never stop
		ctx, cancel := context.WithTimeout(context.Background(), 700*time.Millisecond)
		defer cancel()
		var err error
		switch o.name {
		case "cp":
			err = fs.CopyWithContext(ctx, a, bb)
		case "cpd":
			err = fs.CopyToDirectoryWithContext(ctx, a, bb)
		case "cpf":
			err = fs.CopyToFileWithContext(ctx, a, bb)
		default:
			err = fs.MoveWithContext(ctx, a, bb)
		}
		if commonerrors.Any(err, commonerrors.ErrTimeout, commonerrors.ErrCancelled) || ctx.Err() != nil {
			return "noreturn"
		}
		return mapErr(err)
	case "size":
		s, err := fs.GetFileSize(a)
		if err != nil {
			return mapErr(err)
		}
		return "s" + strconv.FormatInt(s, 10)
	}
	return "?"
}


type childResult struct {
	Prog       string         `json:"prog"`
	Nontrivial bool           `json:"nontrivial"`
	Results    []progRes      `json:"results"`
	Failures   []hx.Failure   `json:"failures"`
	Hist       map[string]int `json:"hist"`
}

type progRes struct {
	Backend string   `json:"backend"`
	Outs    []string `json:"outs"`
	Dump    string   `json:"dump"`
	Prog    string   `json:"prog"`
}

type miniRep struct {
	fails []hx.Failure
	hist  map[string]int
}

func (m *miniRep) Fail(f hx.Failure) { m.fails = append(m.fails, f) }
func (m *miniRep) Hist(k string)     { m.hist[k]++ }

func parseProg(prog string) (init []struct {
	p    string
	file bool
	n    int
}, ops []fsOp) {
	parts := strings.SplitN(prog, " -- ", 2)
	for _, e := range strings.Fields(parts[0]) {
		kv := strings.SplitN(e, "=", 2)
		if len(kv) != 2 {
			continue
		}
		if kv[1] == "d" {
			init = append(init, struct {
				p    string
				file bool
				n    int
			}{p: kv[0]})
		} else {
			n, _ := strconv.Atoi(strings.TrimPrefix(kv[1], "f"))
			init = append(init, struct {
				p    string
				file bool
				n    int
			}{kv[0], true, n})
		}
	}
	if len(parts) == 2 {
		for _, o := range strings.Split(parts[1], " ; ") {
			f := strings.Fields(o)
			if len(f) < 2 {
				continue
			}
			op := fsOp{name: f[0], a: f[1]}
			if len(f) > 2 {
				if f[0] == "write" {
					op.n, _ = strconv.Atoi(f[2])
				} else {
					op.b = f[2]
				}
			}
			ops = append(ops, op)
		}
	}
	return
}

func fsProgChild(args []string) {
	tmp := args[0]
	in := bufio.NewScanner(os.Stdin)
	in.Buffer(make([]byte, 1<<20), 1<<26)
	seq := 0
	for in.Scan() {
		prog := in.Text()
		seq++
		cr := runProgram(prog, filepath.Join(tmp, fmt.Sprintf("c%d_%d", os.Getpid(), seq)))
		b, _ := json.Marshal(cr)
		fmt.Println(string(b))
	}
}

func runProgram(prog string, osRoot string) childResult {
	rep := &miniRep{hist: map[string]int{}}
	init, ops := parseProg(prog)
	nontriv := false
	var rs []progRes
	i := 0
	_ = i
		for _, bn := range []string{"mem", "os"} {
			b := &fsBackend{name: bn}
			if bn == "mem" {
				b.base = afero.NewMemMapFs()
				b.root = "/r"
				b.rec = newRecFs(b.base)
				b.vfs = filesystem.NewVirtualFileSystem(b.rec, filesystem.InMemoryFS, filesystem.IdentityPathConverterFunc)
			} else {
				b.base = afero.NewOsFs()
				b.root = osRoot
				b.rec = newRecFs(b.base)
				b.vfs = filesystem.NewVirtualFileSystem(b.rec, filesystem.StandardFS, filesystem.IdentityPathConverterFunc)
			}
			_ = b.base.MkdirAll(b.root, 0o755)
			for _, e := range init {
				if e.file {
					_ = afero.WriteFile(b.base, filepath.Join(b.root, e.p), []byte(strings.Repeat("x", e.n)), 0o644)
				} else {
					_ = b.base.MkdirAll(filepath.Join(b.root, e.p), 0o755)
				}
			}
			var outs []string
			corrupted := false
			for _, op := range ops {
				if corrupted {
					outs = append(outs, "err:conflict")
					break
				}
				_, before := b.dump()
				b.rec.reset()
				done := make(chan string, 1)
				go func() {
					defer func() {
						if r := recover(); r != nil {
							done <- fmt.Sprint("panic:", r)
						}
					}()
					done <- b.exec(op)
				}()
				var out string
				select {
				case out = <-done:
				case <-time.After(2 * time.Second):
					out = "noreturn"
				}
				outs = append(outs, out)
				if strings.HasPrefix(out, "panic:") {
					key := "call-panics:" + op.name
					if op.name == "mv" && isUnder(strings.TrimSuffix(op.b, "/"), op.a) && bn == "mem" {
						key = "move-directory-into-own-descendant-panics-on-memory-backend"
					}
					rep.Fail(hx.Failure{Kind: "impl-violates-property", Key: key, Case: "fsprog " + prog + " [" + bn + "]", Expected: "the call returns", Observed: op.String() + ": " + out})
					break
				}
				if out == "noreturn" {
					_ = b.base.RemoveAll(b.root) // do not keep the runaway tree
					key := "call-does-not-return"
					if op.name == "cp" || op.name == "mv" {
						if isUnder(strings.TrimSuffix(op.b, "/"), op.a) && op.b != op.a {
							key = "copy-directory-into-own-descendant-never-returns"
						}
					}
					rep.Fail(hx.Failure{Kind: "impl-violates-property", Key: key, Case: "fsprog " + prog + " [" + bn + "]", Expected: "the call returns", Observed: op.String() + " did not return by itself (stopped by the 700 ms deadline / 2 s watchdog)"})
					break
				}
				// ---- second sentence monitors --------------------------------------------------
				if opened, closed := b.rec.opened, b.rec.closed; opened != closed {
					rep.Fail(hx.Failure{Kind: "impl-violates-property", Key: "handle-leak:" + op.name, Case: "fsprog " + prog + " [" + bn + "]", Expected: "every opened handle closed", Observed: fmt.Sprintf("%s: opened %d, closed %d", op, opened, closed)})
				}
				_, after := b.dump()
				dest := op.a
				isCopy := op.name == "cp" || op.name == "cpd" || op.name == "cpf"
				if isCopy || op.name == "mv" {
					dest = strings.TrimSuffix(op.b, "/")
				}
				readOnly := map[string]bool{"read": true, "exists": true, "isfile": true, "isdir": true, "isempty": true, "ls": true, "lsr": true, "size": true}[op.name]
				for p, v := range before {
					av, still := after[p]
					changed := !still || av != v
					if !changed {
						continue
					}
					allowed := !readOnly && isUnder(p, dest)
					if op.name == "mv" && isUnder(p, op.a) {
						allowed = true // the source of a move goes away
					}
					if isCopy && isUnder(p, op.a) && !isUnder(p, dest) {
						allowed = false
					}
					if !allowed {
						key := "frame-violated:" + op.name
						if isCopy && isUnder(p, op.a) {
							key = "copy-changes-its-source"
						}
						if bn == "mem" && strings.HasPrefix(v, "f") && av == "d" && isUnder(dest, p) && p != dest {
							key = "memory-backend-turns-file-ancestor-into-directory"
							corrupted = true // MemMapFs is now internally inconsistent: a later Rename may kill the process
						}
						rep.Fail(hx.Failure{Kind: "impl-violates-property", Key: key, Case: "fsprog " + prog + " [" + bn + "]", Expected: "entries outside the destination untouched", Observed: fmt.Sprintf("%s: %s was %s, now %q", op, p, v, av)})
					}
				}
				if (isCopy || op.name == "mv" || op.name == "rm" || op.name == "clean") && before[op.a] != "" {
					nontriv = true
				}
			}
			d, _ := b.dump()
			rs = append(rs, progRes{bn, outs, d, prog})
			if bn == "os" {
				_ = os.RemoveAll(osRoot)
			}
			rep.Hist("program:" + bn)
		}
	return childResult{Prog: prog, Nontrivial: nontriv, Results: rs, Failures: rep.fails, Hist: rep.hist}
}

func isUnder(p, root string) bool {
	root = strings.TrimSuffix(root, "/")
	return root == "." || p == root || strings.HasPrefix(p, root+"/")
}

func fsProgMain(args []string) {
	o := hx.ParseOpts(args)
	rep := hx.NewReport("programs of 1..40 calls (mkdir, touch, write, read, exists, isfile, isdir, isempty, ls, lsr, rm, clean, cp, mv, size) over paths of depth 1..3 on the names {a,b,c,d} (and the root), " +
		"destinations with and without trailing separator, source equal to / parent of / inside the destination, from a random initial tree of 0..8 entries; executed on MemMapFs and on OsFs. " +
		"non-trivial = program with at least one cp/mv/rm/clean on an existing entry; distinct = (initial tree, program).")
	drv, err := hx.StartDriver(o.Driver)
	if err != nil {
		fmt.Println("driver:", err)
	}
	defer drv.Close()
	rnd := hx.NewRand(o.Seed)
	n := 500
	if o.Thorough() {
		n = 30000
	}
	tmp, _ := os.MkdirTemp("", "verif-fsprog")
	defer os.RemoveAll(tmp)
	var lines []string
	var results [][]progRes
	var progs []string
	opNames := []string{"mkdir", "touch", "write", "read", "exists", "isfile", "isdir", "isempty", "ls", "lsr", "rm", "clean", "cp", "cp", "cp", "mv", "mv", "size", "cpd", "cpf"}
	if o.Replay != "" {
		n = 0
		for _, c := range hx.ReplayCases(o.Replay, "fsprog ") {
			progs = append(progs, strings.TrimPrefix(c, "fsprog "))
		}
	}
	if o.Replay == "" {
		progs = append(progs, shapeMatrix()...)
	}
	for i := 0; i < n; i++ {
		// initial tree
		type ent struct {
			p    string
			file bool
			n    int
		}
		var init []ent
		seen := map[string]bool{}
		for k := rnd.Intn(9); k > 0; k-- {
			p := genPath(rnd, false)
			parts := strings.Split(p, "/")
			okp := true
			for j := 1; j < len(parts) && okp; j++ {
				anc := strings.Join(parts[:j], "/")
				if !seen[anc] {
					seen[anc] = true
					init = append(init, ent{p: anc})
				} else {
					for _, e := range init {
						if e.p == anc && e.file {
							okp = false
						}
					}
				}
			}
			for _, e := range init {
				if strings.HasPrefix(e.p, p+"/") {
					okp = false // p already has entries below it: it must stay a directory
				}
			}
			if !okp || seen[p] {
				continue
			}
			seen[p] = true
			fileChance := 65
			if len(parts) == 1 {
				fileChance = 25 // a file at the top level turns every path through it into a kind conflict
			}
			if rnd.Chance(fileChance) {
				init = append(init, ent{p: p, file: true, n: rnd.Intn(6)})
			} else {
				init = append(init, ent{p: p})
			}
		}
		var ops []fsOp
		for k := rnd.Range(1, 14); k > 0; k-- {
			op := fsOp{name: hx.Pick(rnd, opNames), a: genPath(rnd, true), n: 1 + rnd.Intn(6)}
			if op.name == "cp" || op.name == "mv" || op.name == "cpd" || op.name == "cpf" {
				op.b = genPath(rnd, true)
				if rnd.Chance(25) && op.b != "." && op.name != "cpf" {
					op.b += "/"
				}
				if op.name == "mv" {
					op.b = strings.TrimSuffix(op.b, "/")
					if op.b == "." {
						op.b = hx.Pick(rnd, fsNames)
					}
				}
				switch rnd.Intn(8) {
				case 0:
					op.b = op.a // same
				case 1:
					op.b = op.a + "/" + hx.Pick(rnd, fsNames) // destination inside the source
				case 2:
					if strings.Contains(op.a, "/") {
						op.b = op.a[:strings.LastIndex(op.a, "/")] // destination = parent of the source
					}
				}
				if op.a == "." {
					op.a = hx.Pick(rnd, fsNames)
				}
			}
			if (op.name == "write" || op.name == "touch" || op.name == "rm" || op.name == "mkdir" || op.name == "clean" || op.name == "mv") && op.a == "." {
				op.a = hx.Pick(rnd, fsNames)
			}
			if op.b != "" {
				slash := strings.HasSuffix(op.b, "/")
				op.b = filepath.Clean(op.b)
				if slash && op.b != "." {
					op.b += "/"
				}
			}
			ops = append(ops, op)
		}
		if o.Thorough() && i%10 == 0 {
			for k := rnd.Range(10, 26); k > 0; k-- {
				ops = append(ops, fsOp{name: hx.Pick(rnd, opNames[:12]), a: genPath(rnd, false), n: 1 + rnd.Intn(6)})
			}
		}
		var entS, opS []string
		for _, e := range init {
			if e.file {
				entS = append(entS, fmt.Sprintf("%s=f%d", e.p, e.n))
			} else {
				entS = append(entS, e.p+"=d")
			}
		}
		for _, op := range ops {
			opS = append(opS, op.String())
		}
		progs = append(progs, strings.Join(entS, " ")+" -- "+strings.Join(opS, " ; "))
	}
	// ---- execution in child processes (a crash of the in-memory backend must not take the harness down) ----
	exe, _ := os.Executable()
	next := 0
	for next < len(progs) {
		cmd := exec.Command(exe, "fsprog-child", tmp)
		stdin, _ := cmd.StdinPipe()
		stdout, _ := cmd.StdoutPipe()
		var stderr strings.Builder
		cmd.Stderr = &stderr
		if err := cmd.Start(); err != nil {
			rep.Fail(hx.Failure{Kind: "harness-error", Key: "child-start", Detail: err.Error()})
			break
		}
		go func(from int) {
			for _, p := range progs[from:] {
				fmt.Fprintln(stdin, p)
			}
			stdin.Close()
		}(next)
		sc := bufio.NewScanner(stdout)
		sc.Buffer(make([]byte, 1<<20), 1<<26)
		linesCh := make(chan []byte, 64)
		go func() {
			for sc.Scan() {
				linesCh <- append([]byte{}, sc.Bytes()...)
			}
			close(linesCh)
		}()
		hung := false
	readLoop:
		for {
			select {
			case raw, ok := <-linesCh:
				if !ok {
					break readLoop
				}
				var cr childResult
				if err := json.Unmarshal(raw, &cr); err != nil {
					continue
				}
				for _, f := range cr.Failures {
					rep.Fail(f)
				}
				for k, v := range cr.Hist {
					rep.HistN(k, v)
				}
				rep.Eval(cr.Prog, cr.Nontrivial)
				lines = append(lines, "fsprog "+cr.Prog)
				results = append(results, cr.Results)
				next++
			case <-time.After(15 * time.Second):
				hung = true
				_ = cmd.Process.Kill()
				break readLoop
			}
		}
		werr := cmd.Wait()
		if next < len(progs) && (werr != nil || hung) {
			// the child died (or had to be killed after 15 s without an answer) while running progs[next]
			msg := stderr.String()
			key := "call-crashes-the-process"
			if hung {
				key = "call-hangs-the-process"
				msg = "no answer within 15 s (a recovered panic inside the in-memory backend leaves its lock held) " + msg
			}
			if strings.Contains(msg, "MemMapFs") {
				key = "memory-backend-crashes-the-process"
			}
			if len(msg) > 600 {
				msg = msg[:600]
			}
			rep.Fail(hx.Failure{Kind: "impl-violates-property", Key: key, Case: "fsprog " + progs[next], Expected: "every call returns", Observed: msg})
			rep.Eval(progs[next], true)
			next++
		}
	}
	// ---- the crash of Move(dir, dir/sub) on the in-memory backend, in a child process ----------
	{
		exe, _ := os.Executable()
		cmd := exec.Command(exe, "fscrash")
		out, cerr := cmd.CombinedOutput()
		rep.Eval("child: Move(/r/a, /r/a/b) on MemMapFs", true)
		if cerr != nil || !strings.Contains(string(out), "returned:") {
			msg := string(out)
			if len(msg) > 300 {
				msg = msg[:300]
			}
			rep.Fail(hx.Failure{Kind: "impl-violates-property", Key: "move-directory-into-own-descendant-crashes-on-memory-backend", Case: "Move(\"/r/a\", \"/r/a/b\") with /r/a a directory, on the in-memory backend (child process)",
				Expected: "the call returns (an error)", Observed: fmt.Sprint(cerr, ": ", msg)})
		}
	}
	// ---- first sentence: both backends = reference model, while no kind conflict ----------------
	if drv != nil {
		ans, err := drv.Ask(lines)
		if err != nil {
			rep.Fail(hx.Failure{Kind: "harness-error", Key: "driver", Detail: err.Error()})
		}
		for i, a := range ans {
			parts := strings.SplitN(a, " || ", 2)
			if len(parts) != 2 {
				rep.Fail(hx.Failure{Kind: "model-impl-divergence", Key: "fsprog-shape", Case: lines[i], Observed: a})
				continue
			}
			mouts := strings.Split(parts[0], " ; ")
			conflictAt := -1
			for k, m := range mouts {
				if m == "err:conflict" || m == "err:other" || m == "err:invalid" {
					conflictAt = k
					break
				}
			}
			if conflictAt >= 0 {
				rep.Hist("programs-with-kind-conflict")
			} else {
				rep.Hist("conflict-free-programs")
			}
			for _, r := range results[i] {
				limit := len(mouts)
				if conflictAt >= 0 {
					limit = conflictAt
				}
				okAll := true
				rep.HistN("calls-compared-with-the-model:"+r.Backend, limit)
				for k := 0; k < limit && k < len(r.Outs); k++ {
					if r.Outs[k] != mouts[k] {
						okAll = false
						opTxt := strings.Split(strings.SplitN(r.Prog, " -- ", 2)[1], " ; ")[k]
						other := results[i][0]
						if other.Backend == r.Backend {
							other = results[i][1]
						}
						if k < len(other.Outs) && other.Outs[k] == mouts[k] {
							// the other backend behaves as the reference model: the two backends disagree on a conflict-free call
							k2 := "backends-disagree:" + strings.Fields(opTxt)[0] + ":" + r.Backend + "=" + r.Outs[k] + "/model=" + mouts[k]
							if r.Backend == "mem" && (strings.Fields(opTxt)[0] == "write" || strings.Fields(opTxt)[0] == "touch") && mouts[k] == "err:notfound" && r.Outs[k] == "ok" {
								k2 = "memory-backend-creates-missing-parents"
							}
							if r.Backend == "mem" && strings.Contains(strings.Join(strings.Split(strings.SplitN(r.Prog, " -- ", 2)[1], " ; ")[:k], " ; ")+" ;", "mv ") {
								k2 = "memory-backend-move-onto-existing-directory-drops-its-content"
							}
							rep.Fail(hx.Failure{Kind: "impl-violates-property", Key: k2, Case: lines[i] + " [call #" + strconv.Itoa(k) + ": " + opTxt + "]", Expected: "both backends: " + mouts[k], Observed: r.Backend + ": " + r.Outs[k]})
							break
						}
						// Model.Fs is the reference model the property speaks of (the specification): an answer that differs from it
						// on a conflict-free call is a violation with this program as its input, whatever the other backend says
						rep.Fail(hx.Failure{Kind: "impl-violates-property", Key: "differs-from-the-reference-model:" + strings.Fields(opTxt)[0] + ":" + r.Backend, Case: lines[i] + " [" + r.Backend + " call #" + strconv.Itoa(k) + ": " + opTxt + "]", Expected: "reference model: " + mouts[k], Observed: r.Backend + ": " + r.Outs[k]})
						break
					}
				}
				if okAll && conflictAt < 0 && len(r.Outs) == len(mouts) && r.Outs[len(r.Outs)-1] != "noreturn" {
					md := parts[1]
					other := results[i][0]
					if other.Backend == r.Backend {
						other = results[i][1]
					}
					if md != r.Dump && other.Dump == md {
						key := "backends-disagree:final-tree:" + r.Backend
						if r.Backend == "mem" && strings.Contains(r.Prog, "mv ") {
							key = "memory-backend-move-onto-existing-directory-drops-its-content"
						}
						rep.Fail(hx.Failure{Kind: "impl-violates-property", Key: key, Case: lines[i], Expected: "both backends: " + md, Observed: r.Backend + ": " + r.Dump})
					} else if md != r.Dump {
						rep.Fail(hx.Failure{Kind: "impl-violates-property", Key: "differs-from-the-reference-model:final-tree:" + r.Backend, Case: lines[i] + " [" + r.Backend + "]", Expected: "reference model: " + md, Observed: r.Backend + ": " + r.Dump})
					} else {
						rep.Hist("model=impl:" + r.Backend)
					}
				}
			}
		}
		if len(lines) > 2 {
			rep.Sample(map[string]string{"line": lines[2], "model": ans[2]})
		}
	}
	rep.Write(o.Report, drv)
}


// shapeMatrix: directed one-call programs — every kind of source (missing, empty / non-empty file, empty
// directory, directory with a file, deeper directory with an empty sub-directory) against every kind of
// destination (missing with and without its parent, file, empty directory, non-empty directory, directory
// that already holds an entry with the source's name — directory or file —, the source itself, its parent,
// a place inside it), for cp (with and without trailing separator) and mv. They run before the random programs
// in every tier; the final trees and every answer are compared like those of any other program.
func shapeMatrix() []string {
	type shape struct {
		name string
		ents func(at string) []string
	}
	srcs := []shape{
		{"missing", func(string) []string { return nil }},
		{"empty-file", func(at string) []string { return []string{at + "=f0"} }},
		{"file", func(at string) []string { return []string{at + "=f3"} }},
		{"empty-dir", func(at string) []string { return []string{at + "=d"} }},
		{"dir-with-file", func(at string) []string { return []string{at + "=d", at + "/b=f2"} }},
		{"deep-dir", func(at string) []string {
			return []string{at + "=d", at + "/b=d", at + "/b/c=f1", at + "/d=d"}
		}},
	}
	var out []string
	add := func(ents []string, call string) {
		out = append(out, strings.Join(ents, " ")+" -- "+call+" ; lsr . ; isdir a ; isdir c")
	}
	for _, sh := range srcs {
		for _, op := range []string{"cp", "cp/", "mv"} {
			call := func(src, dst string) string {
				if op == "cp/" && dst != "." {
					return "cp " + src + " " + dst + "/"
				}
				return op + " " + src + " " + dst
			}
			src := sh.ents("a")
			join := func(more ...string) []string { return append(append([]string{}, src...), more...) }
			add(join(), call("a", "c"))                                    // missing, parent (the root) exists
			add(join(), call("a", "c/d"))                                  // missing, parent missing
			add(join("c=f4"), call("a", "c"))                              // existing file
			add(join("c=d"), call("a", "c"))                               // empty directory
			add(join("c=d", "c/d=f5"), call("a", "c"))                     // non-empty directory
			add(join("c=d", "c/a=d", "c/a/b=f5"), call("a", "c"))          // holds a directory with the source's name
			add(join("c=d", "c/a=f1"), call("a", "c"))                     // holds a file with the source's name
			add(join("c=d", "c/b=d", "c/b/c=f5", "c/d=f2"), call("a", "c")) // merge: same names one level down
			add(join(), call("a", "a"))                                    // itself
			add(join(), call("a", "a/d"))                                  // inside itself
			add(join(), call("a", "a/b"))
			// the destination is the parent of the source
			add(append([]string{"c=d"}, sh.ents("c/a")...), call("c/a", "c"))
			add(append([]string{"c=d", "c/d=f1"}, sh.ents("c/a")...), call("c/a", "."))
		}
	}
	return out
}
