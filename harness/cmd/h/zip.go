package main

// C02 / C03 — unzip containment and resource limits.
//  zippath (C02): path functions and the zip-slip sanitiser (verif hook) vs the Lean models; complete
//                 Unzip runs on archives with hostile entry names through a recording filesystem:
//                 every mutating backend operation must stay inside the destination, rejected entries
//                 must give the 'malicious' kind.
//  ziplimits (C03): generated archive trees (nesting, lying headers, zip-named non-zips) x limit
//                 configurations: result kind, files left on disk, write high-water marks vs Model.Unzip
//                 and vs the property itself.

import (
	"compress/flate"
	"archive/zip"
	"bytes"
	"context"
	"encoding/hex"
	"fmt"
	"hash/crc32"
	"os"
	"path/filepath"
	"sort"
	"strconv"
	"strings"
	"unicode/utf8"

	"github.com/spf13/afero"

	"github.com/ARM-software/golang-utils/utils/commonerrors"
	"github.com/ARM-software/golang-utils/utils/filesystem"

	"verif/harness/hx"
)

func init() {
	subs["zippath"] = zipPathMain
	subs["ziplimits"] = zipLimitsMain
}

func hx2(s string) string { return hexOrDash(s) }

type zEntry struct {
	name     string
	isDir    bool
	content  []byte
	declared int // -1: honest
}

// buildZip writes entries with raw names; declared >= 0 forges the uncompressed size (stored method)
func buildZip(entries []zEntry) []byte {
	var buf bytes.Buffer
	w := zip.NewWriter(&buf)
	for _, e := range entries {
		name := e.name
		if e.isDir && !strings.HasSuffix(name, "/") {
			name += "/"
		}
		fh := &zip.FileHeader{Name: name, Method: zip.Store}
		fh.NonUTF8 = !utf8.ValidString(name)
		if e.isDir {
			_, _ = w.CreateHeader(fh)
			continue
		}
		if e.declared >= 0 {
			fh.CRC32 = crc32.ChecksumIEEE(e.content)
			fh.CompressedSize64 = uint64(len(e.content))
			fh.UncompressedSize64 = uint64(e.declared)
			ww, err := w.CreateRaw(fh)
			if err == nil {
				_, _ = ww.Write(e.content)
			}
			continue
		}
		ww, err := w.CreateHeader(fh)
		if err == nil {
			_, _ = ww.Write(e.content)
		}
	}
	_ = w.Close()
	return buf.Bytes()
}

func underDest(dest, p string) bool {
	d := filepath.Clean(dest)
	q := filepath.Clean(p)
	if q == d {
		return true
	}
	if d == "/" {
		return strings.HasPrefix(q, "/")
	}
	return strings.HasPrefix(q, d+"/")
}

var hostileComponents = []string{"a", "b", "dir", "..", ".", "", "...", "a..b", "..a", "a..", "x.zip", ".hidden", "sp ace", "\x01ctl", "\\", "..\\..\\w", "é", "\xe9", "\x83\x5c", "\xc4\xe3", "\xff\xfe", "日本", "\x81\x2f..", "c:"}

func genHostileName(rnd *hx.Rand) string {
	n := rnd.Range(1, 5)
	var parts []string
	for i := 0; i < n; i++ {
		parts = append(parts, hx.Pick(rnd, hostileComponents))
	}
	s := strings.Join(parts, "/")
	switch rnd.Intn(12) {
	case 0:
		s = "/" + s
	case 1:
		s = "//" + s
	case 2:
		s = s + "/"
	case 3:
		s = "../" + s
	case 4:
		s = strings.ReplaceAll(s, "/", "\\")
	}
	return s
}

func zipPathMain(args []string) {
	o := hx.ParseOpts(args)
	rep := hx.NewReport("entry names built from 1..5 components over {a, .., ., empty, ..., a..b, ..a, x.zip, control and non-UTF-8 bytes (latin-1, Shift_JIS, GBK, invalid), back-slashes} with absolute / doubled / trailing separators; " +
		"destinations absolute, relative, with trailing separator, with parent references, non-ASCII, '.', '/'. Each name goes through filepath functions, the sanitiser hook and a complete Unzip on both backends under a recording filesystem. " +
		"non-trivial = name containing a parent reference, an absolute prefix or non-UTF-8 bytes; distinct = (destination, name).")
	drv, err := hx.StartDriver(o.Driver)
	if err != nil {
		fmt.Println("driver:", err)
	}
	defer drv.Close()
	rnd := hx.NewRand(o.Seed)
	n := 1500
	if o.Thorough() {
		n = 60000
	}
	dests := []string{"/dest", "/dest/", "/dest/sub/../d2", "rel/dest", "/d/./e", "/été", "/dest with space", ".", "/", "a"}
	var lines, want []string
	mem := filesystem.NewFs(filesystem.InMemoryFS)
	for i := 0; i < n; i++ {
		name := genHostileName(rnd)
		dest := hx.Pick(rnd, dests)
		cdest := filepath.Clean(dest)
		nontriv := strings.Contains(name, "..") || strings.HasPrefix(name, "/") || !utf8.ValidString(name)
		rep.Eval(dest+"\x00"+name, nontriv)
		// path functions vs Go
		for _, fn := range []struct {
			n string
			f func(string) string
		}{{"clean", filepath.Clean}, {"dir", filepath.Dir}, {"base", filepath.Base}, {"ext", filepath.Ext}, {"stem", filesystem.FilepathStem}} {
			lines = append(lines, "path "+fn.n+" "+hx2(name))
			want = append(want, hx2(fn.f(name)))
		}
		lines = append(lines, "path join "+hx2(cdest)+" "+hx2(name))
		want = append(want, hx2(filepath.Join(cdest, name)))
		// sanitiser (as unzip calls it: destination already cleaned)
		p, serr := filesystem.SanitiseZipExtractPathForVerification(mem, name, cdest)
		w := hx2(p)
		if serr != nil {
			w = "malicious"
			if !commonerrors.Any(serr, commonerrors.ErrMalicious) {
				rep.Fail(hx.Failure{Kind: "impl-violates-property", Key: "rejected-with-wrong-kind", Case: fmt.Sprintf("dest=%q name=%q", dest, name), Observed: serr.Error()})
			}
			rep.Hist("sanitise:malicious")
		} else {
			rep.Hist("sanitise:accepted")
			hasParentRef := false
			for _, comp := range strings.Split(p, "/") {
				if comp == ".." {
					hasParentRef = true
				}
			}
			if !underDest(cdest, p) || hasParentRef {
				rep.Fail(hx.Failure{Kind: "impl-violates-property", Key: "sanitiser-accepts-escaping-path", Case: fmt.Sprintf("dest=%q name=%q", dest, name), Observed: p})
			}
		}
		lines = append(lines, "sanitise "+hx2(cdest)+" "+hx2(name))
		want = append(want, w)
	}
	// ---- complete Unzip runs under a recording filesystem ----------------------------------------
	nz := 150
	if o.Thorough() {
		nz = 5000
	}
	tmpRoot, _ := os.MkdirTemp("", "verif-zip")
	defer os.RemoveAll(tmpRoot)
	nestedNames := []string{"n.zip", "d/n.zip", ".zip", "a..b.zip", "d/..zip", "...zip", "d/...jar", "d/e/...zip", "....zip", "../n.zip", "d/../../n.zip", "..", "d/.."}
	for i := 0; i < nz+len(nestedNames)*2; i++ {
		dest := hx.Pick(rnd, dests)
		var entries []zEntry
		ne := rnd.Range(1, 5)
		corpus := i >= nz // targeted: one nested archive with a hostile name and a benign content, nothing else
		if corpus {
			ne = 0
			dest = []string{"/dest/sub", "rel/dest/sub"}[(i-nz)%2]
		}
		for j := 0; j < ne; j++ {
			name := genHostileName(rnd)
			if rnd.Chance(60) { // mostly benign entries so that extraction proceeds
				name = hx.Pick(rnd, []string{"f", "d/f", "d/e/f2", "x/y/z", "é/f", "\xe9/f", "d\x83\x5c/f"}) + strconv.Itoa(j)
			}
			entries = append(entries, zEntry{name: name, isDir: rnd.Chance(20), content: []byte("data" + strconv.Itoa(j)), declared: -1})
		}
		recursive := rnd.Chance(30) || corpus
		innerNonUTF8 := false
		if recursive {
			innerEntries := []zEntry{{name: genHostileName(rnd), content: []byte("in"), declared: -1}, {name: "ok.txt", content: []byte("ok"), declared: -1}}
			nm := hx.Pick(rnd, nestedNames)
			if corpus {
				innerEntries = innerEntries[1:]
				nm = nestedNames[(i-nz)/2]
			}
			entries = append(entries, zEntry{name: nm, content: buildZip(innerEntries), declared: -1})
			for _, ie := range innerEntries {
				if !utf8.ValidString(ie.name) {
					innerNonUTF8 = true // the names inside a nested archive are transcoded too
				}
			}
		}
		data := buildZip(entries)
		for _, backend := range []string{"mem", "os"} {
			var base afero.Fs
			root := ""
			if backend == "mem" {
				base = afero.NewMemMapFs()
			} else {
				base = afero.NewOsFs()
				root = filepath.Join(tmpRoot, fmt.Sprintf("c%d", i))
				_ = os.MkdirAll(filepath.Join(root, "cwd"), 0o755)
			}
			rec := newRecFs(base)
			vfs := filesystem.NewVirtualFileSystem(rec, filesystem.StandardFS, filesystem.IdentityPathConverterFunc)
			adest := dest
			if backend == "os" {
				if filepath.IsAbs(dest) {
					adest = filepath.Join(root, dest)
					if strings.HasSuffix(dest, "/") {
						adest += "/"
					}
				} else {
					adest = filepath.Join(root, "cwd", dest)
				}
			}
			src := "/archive.zip"
			if backend == "os" {
				src = filepath.Join(root, "archive.zip")
			}
			_ = afero.WriteFile(base, src, data, 0o644)
			rec.reset()
			lim := filesystem.NoLimits()
			if recursive {
				lim = filesystem.RecursiveZipLimits(-1)
			}
			_, uerr := vfs.UnzipWithContextAndLimits(context.Background(), src, adest, lim)
			rep.Eval(fmt.Sprintf("unzip %s %q %x", backend, dest, data[:min(len(data), 64)]), true)
			rep.Hist("unzip:" + backend)
			if uerr != nil {
				rep.Hist("unzip-error:" + errKind(uerr))
			}
			nonUTF8 := innerNonUTF8
			for _, e := range entries {
				if !utf8.ValidString(e.name) {
					nonUTF8 = true
				}
			}
			for _, op := range rec.snapshotOps() {
				if !op.Mutating || op.Path == src {
					continue
				}
				for _, pth := range []string{op.Path, op.Path2} {
					if pth == "" || underDest(adest, pth) {
						continue
					}
					if _, serr := base.Stat(pth); serr != nil && op.Op != "Remove" && op.Op != "RemoveAll" {
						rep.Hist("attempted-outside-destination(no effect):" + backend)
						continue
					}
					key := "write-outside-destination"
					if nonUTF8 && !isASCII(adest) {
						key = "transcoded-path-leaves-non-ascii-destination"
					}
					rep.Fail(hx.Failure{Kind: "impl-violates-property", Key: key, Case: fmt.Sprintf("backend=%s dest=%q entries=%s", backend, dest, entryNames(entries)),
						Expected: "all mutating operations under " + filepath.Clean(adest), Observed: op.Op + " " + strconv.Quote(pth)})
				}
			}
		}
	}
	if drv != nil {
		ans, err := drv.Ask(lines)
		if err != nil {
			rep.Fail(hx.Failure{Kind: "harness-error", Key: "driver", Detail: err.Error()})
		}
		for i, a := range ans {
			if a != want[i] {
				rep.Fail(hx.Failure{Kind: "model-impl-divergence", Key: strings.Fields(lines[i])[0] + ":" + strings.Fields(lines[i])[1], Case: lines[i], Expected: "model: " + a, Observed: "impl: " + want[i]})
			} else {
				rep.Hist("model=impl")
			}
		}
		if len(lines) > 6 {
			rep.Sample(map[string]string{"line": lines[6], "model": ans[6]})
		}
	}
	rep.Write(o.Report, drv)
}

func isASCII(s string) bool {
	for i := 0; i < len(s); i++ {
		if s[i] >= 0x80 {
			return false
		}
	}
	return true
}

func entryNames(es []zEntry) string {
	var out []string
	for _, e := range es {
		out = append(out, strconv.Quote(e.name))
	}
	return strings.Join(out, ",")
}

func errKind(err error) string {
	switch {
	case err == nil:
		return "nil"
	case commonerrors.Any(err, commonerrors.ErrMalicious):
		return "malicious"
	case commonerrors.Any(err, commonerrors.ErrTooLarge):
		return "tooLarge"
	case commonerrors.Any(err, commonerrors.ErrEOF):
		return "eof"
	case commonerrors.Any(err, commonerrors.ErrInvalid):
		return "invalid"
	case commonerrors.Any(err, commonerrors.ErrNotFound):
		return "notfound"
	case commonerrors.Any(err, commonerrors.ErrCancelled, commonerrors.ErrTimeout):
		return "cancelled"
	}
	return "other"
}

// ---------------------------------------------------------------- C03

type archNode struct {
	dir      bool
	depth    int
	zipName  bool
	declared int
	actual   int
	isZip    bool
	inner    []*archNode
	name     string
}

type customLimits struct {
	apply, recursive              bool
	maxFile, maxCount, maxDepth   int64
	maxTotal                      uint64
}

func (c *customLimits) Apply() bool             { return c.apply }
func (c *customLimits) ApplyRecursively() bool  { return c.recursive }
func (c *customLimits) GetMaxFileSize() int64   { return c.maxFile }
func (c *customLimits) GetMaxTotalSize() uint64 { return c.maxTotal }
func (c *customLimits) GetMaxFileCount() int64  { return c.maxCount }
func (c *customLimits) GetMaxDepth() int64      { return c.maxDepth }
func (c *customLimits) Validate() error         { return nil }

var archSeq int

func genArch(rnd *hx.Rand, nestLeft int, maxEntries int) []*archNode {
	var out []*archNode
	n := rnd.Intn(maxEntries + 1)
	for i := 0; i < n; i++ {
		archSeq++
		d := rnd.Intn(4)
		var comps []string
		for k := 0; k < d; k++ {
			comps = append(comps, fmt.Sprintf("d%d", rnd.Intn(3)))
		}
		if rnd.Chance(20) {
			out = append(out, &archNode{dir: true, depth: d, name: strings.Join(append(comps, fmt.Sprintf("dir%d", archSeq)), "/")})
			continue
		}
		nd := &archNode{depth: d}
		size := rnd.Intn(30)
		if rnd.Chance(15) {
			size = 0
		}
		nd.actual, nd.declared = size, size
		ext := ".txt"
		switch x := rnd.Intn(100); {
		case x < 25 && nestLeft > 0: // nested archive
			nd.zipName, nd.isZip = true, true
			nd.inner = genArch(rnd, nestLeft-1, maxEntries)
			ext = hx.Pick(rnd, []string{".zip", ".ZIP", ".jar"})
		case x < 35: // zip-named, not a zip
			nd.zipName = true
			ext = hx.Pick(rnd, []string{".zip", ".gz", ".pack"})
		case x < 42 && nestLeft > 0: // a zip without a zip name
			nd.isZip = true
			nd.inner = genArch(rnd, 0, 2)
		}
		if !nd.isZip && rnd.Chance(12) { // lying header
			if rnd.Bool() {
				nd.declared = size + 1 + rnd.Intn(10)
			} else if size > 0 {
				nd.declared = rnd.Intn(size)
			}
		}
		nd.name = strings.Join(append(comps, fmt.Sprintf("f%d%s", archSeq, ext)), "/")
		out = append(out, nd)
	}
	return out
}

// materialise builds the zip bytes of a node list; fills declared/actual of nested archives
func materialise(nodes []*archNode) []byte {
	var es []zEntry
	for _, nd := range nodes {
		if nd.dir {
			es = append(es, zEntry{name: nd.name, isDir: true})
			continue
		}
		var content []byte
		if nd.isZip {
			content = materialise(nd.inner)
			nd.actual, nd.declared = len(content), len(content)
			if len(nd.inner) == 0 {
				nd.isZip = false // an empty archive (end-of-central-directory only) is not recognised as a zip by content sniffing
			}
			es = append(es, zEntry{name: nd.name, content: content, declared: -1})
			continue
		}
		content = bytes.Repeat([]byte{'x'}, nd.actual)
		if nd.zipName && nd.actual >= 4 {
			copy(content, "nozp")
		}
		decl := -1
		if nd.declared != nd.actual {
			decl = nd.declared
		}
		es = append(es, zEntry{name: nd.name, content: content, declared: decl})
	}
	return buildZip(es)
}

func encodeArch(nodes []*archNode) string {
	var b strings.Builder
	for _, nd := range nodes {
		if nd.dir {
			fmt.Fprintf(&b, "D %d ", nd.depth)
			continue
		}
		fmt.Fprintf(&b, "F %d %d %d %d %d [ %s] ", nd.depth, b2i(nd.zipName), nd.declared, nd.actual, b2i(nd.isZip), encodeArch(nd.inner))
	}
	b.WriteString("N ")
	return b.String()
}

func zipLimitsMain(args []string) {
	o := hx.ParseOpts(args)
	rep := hx.NewReport("archive trees of 0..6 entries per level (directories, files of 0..29 bytes at depth 0..3, nested archives to depth 3 (thorough 6), zip-named non-zips, zips without a zip name, lying headers +-) x limits " +
		"{apply on/off, recursive on/off, each limit drawn from tiny / exact / off-by-one / huge, depth limit negative (off), 0..5}; backend MemMapFs under a recording filesystem. " +
		"non-trivial = nesting, a lying header or a limit that bites; distinct = (archive encoding, limits).")
	drv, err := hx.StartDriver(o.Driver)
	if err != nil {
		fmt.Println("driver:", err)
	}
	defer drv.Close()
	rnd := hx.NewRand(o.Seed)
	n := 1200
	nest := 3
	if o.Thorough() {
		n, nest = 40000, 6
	}
	var lines, want, descr []string
	for i := 0; i < n; i++ {
		nodes := genArch(rnd, rnd.Intn(nest+1), 6)
		if i%4 == 1 { // chains: at every level a few plain files followed by a nested archive as LAST entry
			depth := rnd.Range(1, nest)
			var build func(l int) []*archNode
			build = func(l int) []*archNode {
				var ns []*archNode
				for k := rnd.Intn(3); k > 0; k-- {
					archSeq++
					sz := rnd.Intn(20)
					ns = append(ns, &archNode{depth: 0, declared: sz, actual: sz, name: fmt.Sprintf("c%d.txt", archSeq)})
				}
				if l > 0 {
					archSeq++
					ns = append(ns, &archNode{depth: 0, zipName: true, isZip: true, inner: build(l - 1), name: fmt.Sprintf("n%d.zip", archSeq)})
				}
				return ns
			}
			nodes = build(depth)
		}
		data := materialise(nodes)
		enc := encodeArch(nodes)
		// measure what an unlimited extraction would leave, to pick interesting limits
		pick := func(exact int) int {
			switch rnd.Intn(6) {
			case 0:
				return 0
			case 1:
				return exact
			case 2:
				return exact + 1
			case 3:
				if exact > 0 {
					return exact - 1
				}
				return 0
			case 4:
				return 1 << 30
			}
			return rnd.Intn(40)
		}
		totalBytes, fileCount, maxFile := 0, 0, 0
		var walk func(ns []*archNode)
		walk = func(ns []*archNode) {
			for _, nd := range ns {
				if nd.dir {
					fileCount++
					continue
				}
				fileCount++
				totalBytes += nd.declared
				if nd.declared > maxFile {
					maxFile = nd.declared
				}
				walk(nd.inner)
			}
		}
		walk(nodes)
		lim := &customLimits{apply: !rnd.Chance(15), recursive: rnd.Chance(60), maxFile: int64(pick(maxFile)), maxTotal: uint64(pick(totalBytes)), maxCount: int64(pick(fileCount)), maxDepth: int64(rnd.Range(-1, 6))}
		if rnd.Chance(30) {
			lim.maxFile, lim.maxTotal, lim.maxCount = 1<<30, 1<<40, 1<<30
		}
		if i%4 == 1 { // chains: limits that only the CUMULATED totals across nesting levels exceed
			plainBytes, plainFiles := 0, 0
			var w2 func(ns []*archNode)
			w2 = func(ns []*archNode) {
				for _, nd := range ns {
					if nd.isZip && nd.zipName {
						w2(nd.inner)
					} else if !nd.dir {
						plainBytes += nd.declared
						plainFiles++
					}
				}
			}
			w2(nodes)
			lim = &customLimits{apply: true, recursive: true, maxFile: 1 << 30, maxTotal: 1 << 40, maxCount: 1 << 30, maxDepth: -1}
			switch rnd.Intn(4) {
			case 0:
				if plainBytes > 0 {
					lim.maxTotal = uint64(plainBytes - 1)
				}
			case 1:
				if plainFiles > 0 {
					lim.maxCount = int64(plainFiles - 1)
				}
			case 2:
				lim.maxTotal = uint64(plainBytes)
			default:
				lim.maxCount = int64(plainFiles)
			}
		}
		base := afero.NewMemMapFs()
		rec := newRecFs(base)
		vfs := filesystem.NewVirtualFileSystem(rec, filesystem.InMemoryFS, filesystem.IdentityPathConverterFunc)
		_ = afero.WriteFile(base, "/a.zip", data, 0o644)
		rec.reset()
		_, uerr := vfs.UnzipWithContextAndLimits(context.Background(), "/a.zip", "/out", lim)
		// independent walk of what is on disk
		var files []string
		sum, cnt, biggest, deepest := 0, 0, 0, 0
		_ = afero.Walk(base, "/out", func(p string, info os.FileInfo, err error) error {
			if err != nil || info.IsDir() {
				return nil
			}
			rel, _ := filepath.Rel("/out", p)
			d := strings.Count(rel, "/")
			files = append(files, fmt.Sprintf("%d@%d", info.Size(), d))
			sum += int(info.Size())
			cnt++
			if int(info.Size()) > biggest {
				biggest = int(info.Size())
			}
			if d > deepest {
				deepest = d
			}
			return nil
		})
		sort.Strings(files)
		hw := int64(0)
		rec.mu.Lock()
		for p, m := range rec.maxSize {
			if p != "/a.zip" && m > hw {
				hw = m
			}
		}
		rec.mu.Unlock()
		limS := fmt.Sprintf("%d %d %d %d %d %d", b2i(lim.apply), b2i(lim.recursive), lim.maxFile, lim.maxTotal, lim.maxCount, lim.maxDepth)
		line := fmt.Sprintf("unzip %s %d %s", limS, len(data), strings.TrimSpace(enc))
		nontriv := strings.Contains(enc, "1 [ F") || strings.Contains(enc, "1 [ D") || uerr != nil
		rep.Eval(line, nontriv)
		rep.Hist("result:" + errKind(uerr))
		// ---- monitors (model-free) ------------------------------------------------------------------
		if uerr == nil && lim.apply {
			viol := ""
			switch {
			case uint64(sum) > lim.maxTotal:
				viol = fmt.Sprintf("total %d > %d", sum, lim.maxTotal)
			case int64(cnt) > lim.maxCount:
				viol = fmt.Sprintf("files %d > %d", cnt, lim.maxCount)
			case int64(biggest) > lim.maxFile:
				viol = fmt.Sprintf("file of %d > %d", biggest, lim.maxFile)
			case lim.maxDepth >= 0 && int64(deepest) > lim.maxDepth:
				viol = fmt.Sprintf("depth %d > %d", deepest, lim.maxDepth)
			}
			if viol != "" {
				rep.Fail(hx.Failure{Kind: "impl-violates-property", Key: "limit-exceeded-on-success", Case: line, Expected: "within limits", Observed: viol})
			}
		}
		if lim.apply && hw > lim.maxFile && hw > 0 {
			// nested archives are files too: no file may ever exceed the per-file limit
			rep.Fail(hx.Failure{Kind: "impl-violates-property", Key: "write-above-file-limit", Case: line, Expected: fmt.Sprint("<= ", lim.maxFile), Observed: fmt.Sprint(hw)})
		}
		lines = append(lines, line)
		descr = append(descr, fmt.Sprintf("err=%v", uerr))
		if uerr != nil {
			k := errKind(uerr)
			if k != "tooLarge" && k != "eof" {
				k = "other:" + uerr.Error()
			}
			want = append(want, "err:"+k)
		} else {
			fs := "-"
			if len(files) > 0 {
				fs = strings.Join(files, ",")
			}
			want = append(want, "ok "+fs)
		}
	}
	// ---- headers declaring 2^63 bytes or more (zip64): the declared size does not fit the signed size the code works with ----
	for i, method := range []uint16{zip.Store, zip.Deflate} {
		for _, extra := range []uint64{0, 1, 1 << 62} {
			payload := bytes.Repeat([]byte{byte('a' + i)}, 300000)
			var zb bytes.Buffer
			zw := zip.NewWriter(&zb)
			fh := &zip.FileHeader{Name: "bomb.bin", Method: method}
			fh.CRC32 = crc32.ChecksumIEEE(payload)
			fh.UncompressedSize64 = (1 << 63) + extra
			var comp bytes.Buffer
			if method == zip.Deflate {
				fw, _ := flate.NewWriter(&comp, flate.BestSpeed)
				_, _ = fw.Write(payload)
				_ = fw.Close()
			} else {
				comp.Write(payload)
			}
			fh.CompressedSize64 = uint64(comp.Len())
			if ww, err := zw.CreateRaw(fh); err == nil {
				_, _ = ww.Write(comp.Bytes())
			}
			_ = zw.Close()
			base := afero.NewMemMapFs()
			rec := newRecFs(base)
			vfs := filesystem.NewVirtualFileSystem(rec, filesystem.InMemoryFS, filesystem.IdentityPathConverterFunc)
			_ = afero.WriteFile(base, "/a.zip", zb.Bytes(), 0o644)
			rec.reset()
			lim := filesystem.NewLimits(1000, 5000, 10, 5, true)
			_, uerr := vfs.UnzipWithContextAndLimits(context.Background(), "/a.zip", "/out", lim)
			onDisk := int64(0)
			_ = afero.Walk(base, "/out", func(p string, info os.FileInfo, err error) error {
				if err == nil && !info.IsDir() {
					onDisk += info.Size()
				}
				return nil
			})
			hw := int64(0)
			rec.mu.Lock()
			for p, m := range rec.maxSize {
				if p != "/a.zip" && m > hw {
					hw = m
				}
			}
			rec.mu.Unlock()
			caseTxt := fmt.Sprintf("unzip of an entry declaring 2^63+%d bytes (method %d, 300000 real bytes), limits file=1000 total=5000", extra, method)
			rep.Eval(caseTxt, true)
			rep.Hist("declared-size-at-or-above-2^63")
			if hw > 1000 || onDisk > 5000 {
				rep.Fail(hx.Failure{Kind: "impl-violates-property", Key: "write-above-file-limit", Case: caseTxt, Expected: "no file above 1000 bytes at any time, at most 5000 bytes in all",
					Observed: fmt.Sprintf("largest file %d bytes, %d bytes on disk at the end (result: %v)", hw, onDisk, uerr)})
			}
		}
	}
	if drv != nil {
		ans, err := drv.Ask(lines)
		if err != nil {
			rep.Fail(hx.Failure{Kind: "harness-error", Key: "driver", Detail: err.Error()})
		}
		for i, a := range ans {
			got := want[i]
			m := a
			if strings.HasPrefix(a, "ok ") { // compare the multiset of files left on disk
				f := strings.Fields(a)
				fl := strings.Split(f[4], ",")
				sort.Strings(fl)
				m = "ok " + strings.Join(fl, ",")
			}
			if m != got && strings.HasPrefix(a, "err:tooLarge") && strings.HasPrefix(got, "ok") {
				// the model is the statement of the limits: an archive it refuses as too large and the implementation extracts
				// with success is a failing input of the property itself
				rep.Fail(hx.Failure{Kind: "impl-violates-property", Key: "limit-not-enforced", Case: lines[i], Expected: "refused as too large (model: " + a + ")", Observed: "impl: " + got + " (" + descr[i] + ")"})
			} else if m != got {
				rep.Fail(hx.Failure{Kind: "model-impl-divergence", Key: "unzip-accounting", Case: lines[i], Expected: "model: " + a, Observed: "impl: " + got + " (" + descr[i] + ")"})
			} else {
				rep.Hist("model=impl")
			}
		}
		if len(lines) > 3 {
			rep.Sample(map[string]string{"line": lines[3], "model": ans[3]})
		}
	}
	_ = hex.EncodeToString
	rep.Write(o.Report, drv)
}
